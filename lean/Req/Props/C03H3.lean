import Req.Lemmas.C03H3Bridge
/-!
C03 — HTTP/3: a truncated, over-long or spliced body is never reported as success; a dead
connection is not reused.

Model: the response stream is its bytes in an arbitrary segmentation followed by FIN or by a reset
(a stream reset with any code and a connection close both make every further stream read fail);
the response head is read by the model of C02 (`H3Stream.readFinalResponse`), the body by
`Req.C03.bodyReadR` = `body.Read` over `stream.Read` over `frameParser.ParseNext` with the
truncated-frame rule of fixes/C03-3.  Every theorem holds for EVERY byte string on the stream
(no well-formedness assumed unless stated), every segmentation and every sequence of read sizes.
-/
namespace Req.Props.C03H3
open Req.Proto Req.C02 Req.C03

/-- **h3_cut_never_success.** The stream never saw FIN — it was reset with any code, or the
connection was closed or lost: whatever bytes arrived before, in whatever pieces, with whatever
read sizes, no body read reports a clean `io.EOF`. -/
theorem h3_cut_never_success (b : H3Body) (ks : List Nat) (hf : b.str.net.fin = .reset) :
    ∀ r ∈ (bodyRunR b ks).1, r.2 ≠ some .eof :=
  run_reset b ks hf

/-- …so the call never ends in success: it fails, or the body fails. -/
theorem h3_reset_outcome (isHead : Bool) (segs : List Bytes) (fls : List Fields) (maxH k : Nat)
    (status : Nat) (body : Bytes) : h3Outcome isHead segs .reset fls maxH k ≠ .ok status body := by
  unfold h3Outcome
  simp only []
  have hs := readFinalResponse_same 7 0
    ({ net := { segs := segs, fin := .reset }, remInFrame := 0, parsedTrailer := false, trailer := none,
       fieldLists := fls, maxHeaderBytes := maxH } : H3Stream)
  rcases hr : H3Stream.readFinalResponse 7 0
    ({ net := { segs := segs, fin := .reset }, remInFrame := 0, parsedTrailer := false, trailer := none,
       fieldLists := fls, maxHeaderBytes := maxH } : H3Stream) with ⟨r, s1⟩
  rw [hr] at hs
  cases r with
  | error e => simp
  | ok h =>
    simp only []
    have hfin : (H3Body.new isHead h s1).str.net.fin = .reset := by rw [new_str]; exact hs.fin
    have hno := run_reset (H3Body.new isHead h s1) (List.replicate (s1.net.size + 3) k) hfin
    rcases hrun : bodyRunR (H3Body.new isHead h s1) (List.replicate (s1.net.size + 3) k) with ⟨rs, b'⟩
    rw [hrun] at hno
    simp only []
    cases hl : lastErr rs with
    | none => simp
    | some e =>
      cases e <;> simp
      -- `eof`: impossible on a reset stream
      exfalso
      unfold lastErr at hl
      cases hg : rs.getLast? with
      | none => rw [hg] at hl; simp at hl
      | some p =>
        rw [hg] at hl
        obtain ⟨d, e⟩ := p
        simp only [] at hl
        exact hno (d, e) (List.mem_of_getLast? hg) hl

example : h3Outcome false [[1, 1, 0xd9, 0, 3, 97, 98]] .reset [[([58, 115, 116, 97, 116, 117, 115], [50, 48, 48])]]
    1000 16 = .bodyFailed 200 [97, 98] .reset := by decide

/-- **h3_length_exact** (`h3_short_is_error` and `h3_overlong_not_delivered`). With a declared
Content-Length the caller never receives more than that many bytes, and a run that ends with a
clean `io.EOF` has delivered exactly that many: FIN with fewer DATA bytes than declared is an error
(`io.ErrUnexpectedEOF`, by `bodyReadR`), DATA beyond the declared length is never delivered. -/
theorem h3_length_exact (b : H3Body) (ks : List Nat) (hcl : b.hasCL = true) :
    (outBytes (bodyRunR b ks).1).length ≤ b.remaining ∧
    (lastErr (bodyRunR b ks).1 = some .eof → (outBytes (bodyRunR b ks).1).length = b.remaining) :=
  run_acct b ks hcl

/-- **h3_overlong_is_error.** Once a DATA frame is open although nothing is owed any more, every
read fails with "too much data" — for ever. -/
theorem h3_overlong_is_error (b : H3Body) (k : Nat) (hv : b.violation = true) :
    bodyReadR b k = (([], some .tooMuchData), b) := by
  unfold bodyReadR; simp [hv]

-- content-length: 2, one DATA frame "abc": two bytes, then the error
example : h3Outcome false [[1, 1, 0xd9, 0, 3, 97, 98, 99]] .eof
    [[([58, 115, 116, 97, 116, 117, 115], [50, 48, 48]),
      ([99, 111, 110, 116, 101, 110, 116, 45, 108, 101, 110, 103, 116, 104], [50])]] 1000 16
    = .bodyFailed 200 [97, 98] .tooMuchData := by decide

-- content-length: 5, FIN after "abc"
example : h3Outcome false [[1, 1, 0xd9, 0, 3, 97, 98, 99]] .eof
    [[([58, 115, 116, 97, 116, 117, 115], [50, 48, 48]),
      ([99, 111, 110, 116, 101, 110, 116, 45, 108, 101, 110, 103, 116, 104], [53])]] 1000 16
    = .bodyFailed 200 [97, 98, 99] .unexpectedEOF := by decide

/-- **h3_delivers_prefix.** Whatever a run hands out — before an error or not — is a prefix of the
DATA bytes the stream holds from the reader's position on (`dataFrom`: the payloads of the DATA
frames in order, the received part of a cut one): nothing padded, nothing spliced in. -/
theorem h3_delivers_prefix (b : H3Body) (ks : List Nat) (hi : InvS b.str) :
    outBytes (bodyRunR b ks).1 <+: expS b.str :=
  run_prefix b ks hi

/-- …for a body that starts at a frame boundary (right after the response head) that is
`dataFrom` of the bytes behind the head; in front of complete well-formed frames it is the
concatenation of their DATA payloads. -/
theorem h3_delivers_prefix_frames (b : H3Body) (ks : List Nat) (frs : List WFrame)
    (hfrs : ∀ f ∈ frs, BodyFrameOK f) (tail : Bytes)
    (hrem : b.str.remInFrame = 0) (hpt : b.str.parsedTrailer = false)
    (hfl : b.str.net.segs.flatten = framesWire frs ++ tail) :
    outBytes (bodyRunR b ks).1 <+: h3DataOf frs ++ dataFrom tail := by
  have := run_prefix b ks (by intro h; rw [hpt] at h; simp at h)
  simpa [expS, hpt, hrem, dataIn_zero, hfl, dataFrom_frames frs hfrs tail] using this

/-- **h3_clean_eof_whole_frames.** A run that ends with a clean `io.EOF` started at a position
from which the stream is a whole number of frames, and it has delivered every DATA byte of them:
a stream that ends (FIN) inside a frame header, inside the payload of a DATA frame, of a frame
the parser skips or of a trailers frame never ends cleanly. -/
theorem h3_clean_eof_whole_frames (b : H3Body) (ks : List Nat) (hi : InvS b.str)
    (h : lastErr (bodyRunR b ks).1 = some .eof) :
    WholeS b.str ∧ outBytes (bodyRunR b ks).1 = expS b.str :=
  run_eof_whole b ks hi h

/-- **h3_fin_cut_never_success.** Complete well-formed frames followed by a frame that is cut
anywhere strictly inside (its header or its payload) and then FIN: no run ends with a clean
`io.EOF` — with or without a declared length, for every segmentation and all read sizes. -/
theorem h3_fin_cut_never_success (b : H3Body) (ks : List Nat) (frs : List WFrame)
    (hfrs : ∀ f ∈ frs, f.OK) (g : WFrame) (hg : g.OK) (j : Nat) (hj0 : 0 < j) (hj : j < g.wire.length)
    (hrem : b.str.remInFrame = 0)
    (hfl : b.str.net.segs.flatten = framesWire frs ++ g.wire.take j) :
    lastErr (bodyRunR b ks).1 ≠ some .eof := by
  intro h
  have hi : InvS b.str := fun _ => hrem
  obtain ⟨⟨_, hw⟩, _⟩ := run_eof_whole b ks hi h
  rw [hrem, List.drop_zero, hfl] at hw
  exact not_whole_cut frs hfrs g hg j hj0 hj _ hw

-- FIN after the type byte of a second DATA frame; inside a skipped frame; after a trailer frame header
example : h3Outcome false [[1, 1, 0xd9, 0, 3, 97, 98, 99, 0]] .eof
    [[([58, 115, 116, 97, 116, 117, 115], [50, 48, 48])]] 1000 16 = .bodyFailed 200 [97, 98, 99] .unexpectedEOF := by
  decide
example : h3Outcome false [[1, 1, 0xd9, 0, 3, 97, 98, 99, 0x21, 4, 1]] .eof
    [[([58, 115, 116, 97, 116, 117, 115], [50, 48, 48])]] 1000 16 = .bodyFailed 200 [97, 98, 99] .unexpectedEOF := by
  decide
example : h3Outcome false [[1, 1, 0xd9, 0, 3, 97, 98, 99, 1, 5]] .eof
    [[([58, 115, 116, 97, 116, 117, 115], [50, 48, 48])], []] 1000 16 = .bodyFailed 200 [97, 98, 99] .unexpectedEOF := by
  decide
-- the whole frames: success
example : h3Outcome false [[1, 1, 0xd9, 0, 3, 97, 98, 99, 0x21, 1, 7]] .eof
    [[([58, 115, 116, 97, 116, 117, 115], [50, 48, 48])]] 1000 16 = .ok 200 [97, 98, 99] := by decide

/-- **h3_ok_complete.** What the model-judged lane compares against: if the call and a draining
caller end in success then the stream ended by FIN, the body is exactly the DATA bytes behind the
response head (all of them, nothing else), the stream behind the head is a whole number of
frames, and with a declared length on a response that can have a body the body has that length
— whatever informational responses came first. -/
theorem h3_ok_complete (isHead : Bool) (segs : List Bytes) (fin : NetEnd) (fls : List Fields) (maxH k : Nat)
    (status : Nat) (body : Bytes) (h : h3Outcome isHead segs fin fls maxH k = .ok status body) :
    fin = .eof ∧
    ∃ (hd : H3Head) (s1 : H3Stream),
      H3Stream.readFinalResponse 7 0
        ({ net := { segs := segs, fin := fin }, remInFrame := 0, parsedTrailer := false, trailer := none,
           fieldLists := fls, maxHeaderBytes := maxH } : H3Stream) = (.ok hd, s1) ∧
      hd.status = status ∧ body = dataFrom s1.net.segs.flatten ∧ Whole false s1.net.segs.flatten ∧
      ((H3Body.new isHead hd s1).hasCL = true → body.length = (H3Body.new isHead hd s1).remaining) := by
  have hfin : fin = .eof := by
    cases fin with
    | eof => rfl
    | reset => exact absurd h (h3_reset_outcome isHead segs fls maxH k status body)
  refine ⟨hfin, ?_⟩
  unfold h3Outcome at h
  simp only [] at h
  have hs := readFinalResponse_same 7 0
    ({ net := { segs := segs, fin := fin }, remInFrame := 0, parsedTrailer := false, trailer := none,
       fieldLists := fls, maxHeaderBytes := maxH } : H3Stream)
  rcases hr : H3Stream.readFinalResponse 7 0
    ({ net := { segs := segs, fin := fin }, remInFrame := 0, parsedTrailer := false, trailer := none,
       fieldLists := fls, maxHeaderBytes := maxH } : H3Stream) with ⟨r, s1⟩
  rw [hr] at h hs
  cases r with
  | error e => simp at h
  | ok hd =>
    simp only [] at h
    refine ⟨hd, s1, rfl, ?_⟩
    have hrem : (H3Body.new isHead hd s1).str.remInFrame = 0 := by rw [new_str]; exact hs.remInFrame
    have hpt : (H3Body.new isHead hd s1).str.parsedTrailer = false := by rw [new_str]; exact hs.parsedTrailer
    have hi : InvS (H3Body.new isHead hd s1).str := by intro hx; rw [hpt] at hx; simp at hx
    have hw := run_eof_whole (H3Body.new isHead hd s1) (List.replicate (s1.net.size + 3) k) hi
    have ha := run_acct (H3Body.new isHead hd s1) (List.replicate (s1.net.size + 3) k)
    generalize (bodyRunR (H3Body.new isHead hd s1) (List.replicate (s1.net.size + 3) k)).1 = rs at h hw ha
    cases hl : lastErr rs with
    | none => rw [hl] at h; simp at h
    | some e =>
      rw [hl] at h
      cases e <;> simp at h
      obtain ⟨rfl, rfl⟩ := h
      obtain ⟨⟨_, hwh⟩, hout⟩ := hw hl
      rw [hrem, hpt, List.drop_zero, new_str] at hwh
      have hexp : expS (H3Body.new isHead hd s1).str = dataFrom s1.net.segs.flatten := by
        rw [new_str] at hrem hpt ⊢
        simp [expS, hpt, hrem, dataIn_zero]
      exact ⟨rfl, by rw [hout, hexp], hwh, fun hcl => (ha hcl).2 hl⟩

/-- **h3_bodiless_no_short.** A response to HEAD and a 1xx / 204 / 304 response has no body that
could come up short: no length accounting is armed, whatever Content-Length it declares. -/
theorem h3_bodiless_no_short (isHead : Bool) (h : H3Head) (s : H3Stream)
    (hb : isHead = true ∨ (100 ≤ h.status ∧ h.status ≤ 199) ∨ h.status = 204 ∨ h.status = 304) :
    (H3Body.new isHead h s).hasCL = false :=
  new_bodiless isHead h s hb

/-- **h3_interim_transparent.** However many informational responses the call skips, the body
reader starts at a frame boundary, before any trailer, on the same stream end: all the theorems
above apply to the body of the final response. -/
theorem h3_interim_transparent (fuel n1xx : Nat) (s : H3Stream) :
    (H3Stream.readFinalResponse fuel n1xx s).2.remInFrame = s.remInFrame ∧
    (H3Stream.readFinalResponse fuel n1xx s).2.parsedTrailer = s.parsedTrailer ∧
    (H3Stream.readFinalResponse fuel n1xx s).2.net.fin = s.net.fin :=
  let h := readFinalResponse_same fuel n1xx s
  ⟨h.remInFrame, h.parsedTrailer, h.fin⟩

/-- **h3_repaired_refines_original.** The body reader these theorems are about (with the
truncated-frame rule of fixes/C03-3) against the original reader of C02, which C02's lane
`c02h3recv` ties to the code byte by byte: for every stream, segmentation and read sizes the two
runs make the same reads and hand out the same bytes in the same pieces; only the error of the
LAST read may differ — `io.ErrUnexpectedEOF` where the original says `io.EOF` (a truncated frame),
or another non-EOF error for a non-EOF error (a SETTINGS frame is read before it is refused). -/
theorem h3_repaired_refines_original (b : H3Body) (ks : List Nat) :
    (b.runReads ks).1.map (·.1) = (bodyRunR b ks).1.map (·.1) ∧
    (lastErr (b.runReads ks).1 = lastErr (bodyRunR b ks).1 ∨
      ∃ e e', lastErr (b.runReads ks).1 = some e ∧ lastErr (bodyRunR b ks).1 = some e' ∧
        (e' = e ∨ (e = .eof ∧ e' = .unexpectedEOF) ∨ (e ≠ .eof ∧ e' ≠ .eof))) :=
  run_bridge b ks

/-! ### the cached connection -/

/-- **broken_conn_not_reused_h3.** Whatever happened before, `getClient` never hands out a cached
connection whose context is done: it is evicted and a new one dialled (fixes/C03-2). -/
theorem broken_conn_not_reused_h3 (c : H3Cache) : c.getClient.cached = true ∧ c.getClient.closed = false := by
  unfold H3Cache.getClient
  split
  · rename_i h; exact ⟨h.1, by simpa using h.2⟩
  · exact ⟨rfl, rfl⟩

/-- A failed call drops the cached connection (unless the caller's own context was cancelled); a
failure while reading the body does not — only a closed connection costs a new dial. -/
theorem h3_dials_two (e : H3End) (o : H3Outcome) (h : o = .callFailed ∨ ∃ c, e = .connClose c) :
    h3DialsAfterSecond e o = 2 := by
  rcases h with rfl | ⟨c, rfl⟩
  · cases e <;> rfl
  · cases o <;> rfl

theorem h3_dials_one (e : H3End) (o : H3Outcome) (h1 : o ≠ .callFailed) (h2 : ∀ c, e ≠ .connClose c) :
    h3DialsAfterSecond e o = 1 := by
  cases e with
  | connClose c => exact absurd rfl (h2 c)
  | fin => cases o <;> first | rfl | exact absurd rfl h1
  | reset c => cases o <;> first | rfl | exact absurd rfl h1

end Req.Props.C03H3
