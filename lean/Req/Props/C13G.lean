import Req.Lemmas.C13Sites
/-!
C13, HTTP/2 and HTTP/3: which bytes each dump call site hands to the dumper
(`Req/Client/DumpSites.lean`; tied to the code by lanes `h2sites`, `h3sites`, `e2eh2` (frame
granularity), `e2eh3`).
-/
namespace Req.Props.C13G
open Req.Proto Req.Client.DumpSites

/-- **dump = wire, request head, HTTP/2 and HTTP/3.** For every enumeration of header pairs (any
names, any values), with (`skip` = HTTP/2) or without the non-ASCII filter: the dumper is handed
exactly the textual rendering — `name: value\r\n` per field, in wire order, then the blank line —
of the field list handed to the header compressor, each field once; nothing when header dump is
off; and the field list itself does not depend on dump. -/
theorem dump_equals_wire_head (skip : Bool) (en : List Field) :
    (encodeHead skip true en).dump = renderBlock (encodeHead skip true en).wire ∧
    (encodeHead skip false en).dump = [] ∧
    (encodeHead skip true en).wire = (encodeHead skip false en).wire := by
  refine ⟨?_, ?_, ?_⟩
  · have := encodeLoop_inv skip true en {} rfl
    simp only [↓reduceIte] at this
    simp [encodeHead, this, renderBlock]
  · have := encodeLoop_inv skip false en {} rfl
    simpa [encodeHead] using this
  · simp only [encodeHead]
    exact encodeLoop_wire skip en {} {} rfl

/-- non-vacuity: `X-A: 1`, a non-ASCII name (skipped on HTTP/2, lower-cased bytewise on HTTP/3). -/
example :
    (encodeHead true true [([88, 45, 65], [49]), ([195, 169], [50])]).dump =
      [120, 45, 97, 58, 32, 49, 13, 10, 13, 10] ∧
    (encodeHead false true [([88, 45, 65], [49]), ([195, 169], [50])]).wire.length = 2 := by decide

/-- **dump = wire, HTTP/2 request body.** For every frame size limit, every sequence of body reads
and EVERY flow-control schedule (any grants, exhausted or not): the DATA payloads concatenate to
the body, none is empty or longer than the limit, none crosses a read; and the dumper is handed
exactly those payloads, one call per frame — so its content is the body, each byte once. -/
theorem dump_equals_wire_h2_body (maxFrame : Nat) (hm : 1 ≤ maxFrame) (pieces : List Bytes) (gs : List Nat) :
    dataDump maxFrame pieces gs = dataFrames maxFrame pieces gs ∧
    (dataDump maxFrame pieces gs).flatten = pieces.flatten ∧
    ∀ f ∈ dataFrames maxFrame pieces gs, f ≠ [] ∧ f.length ≤ maxFrame :=
  ⟨rfl, (dataFrames_spec maxFrame hm pieces gs).1, (dataFrames_spec maxFrame hm pieces gs).2⟩

/-- non-vacuity: one read of 5 bytes, grants 2, 1, then open: frames of 2, 1, 2 bytes. -/
example : dataFrames 16384 [[1, 2, 3, 4, 5]] [2, 1] = [[1, 2], [3], [4, 5]] := by decide

/-- the seeded defect C13-1 as a model: dumping the rest of the read on every split hands the
dumper more bytes than were sent. -/
theorem dump_rest_not_exact :
    (cutReadDumpRest 16384 5 [1, 2, 3, 4, 5] [2, 1]).flatten ≠ [1, 2, 3, 4, 5] := by decide

open Req.H2.Meta in
/-- **Transparency of the HTTP/2 response-head dump**: the dumping emit callback drives the
parser's state machine exactly like the plain one, for every fragment list and decoder behaviour. -/
theorem meta_dump_transparent (s : St) (frags : List Frag) (d : Bytes) :
    (fragLoopDump s frags d).1 = (fragLoop s frags).toOption :=
  fragLoopDump_fst frags s d

open Req.H2.Meta in
/-- **dump = wire, HTTP/2 response head.** Whenever `readMetaFrame` accepts a header block
without truncating it — for every split into HEADERS / CONTINUATION fragments, every limit — the
dumper has been handed exactly the rendering of the fields of the `MetaHeadersFrame`, each once,
then the blank line. (A block that is refused or truncated is dumped up to and including the
field that caused it, without the blank line unless the truncated frame is returned: what was
received, as far as the client listened.) -/
theorem dump_equals_wire_h2_resp (maxHeaderList : Nat) (frags : List Frag) (closeErr : Bool)
    (fields : List Field) (h : readMeta maxHeaderList frags closeErr = .ok fields false) :
    metaDump maxHeaderList frags closeErr = renderBlock fields := by
  unfold metaDump
  rw [h]
  unfold readMeta at h
  have hfst := fragLoopDump_fst frags { remainSize := maxHeaderListSize maxHeaderList } []
  have hinv := fragLoopDump_inv frags { remainSize := maxHeaderListSize maxHeaderList } []
    ⟨fun _ => rfl, fun h => by simp at h⟩
  generalize fragLoopDump { remainSize := maxHeaderListSize maxHeaderList } frags [] = r at hfst hinv
  obtain ⟨so, d⟩ := r
  simp only at hfst hinv ⊢
  cases hl : fragLoop { remainSize := maxHeaderListSize maxHeaderList } frags with
  | error o =>
    rw [hl] at h; simp only at h
    obtain ⟨c, hc⟩ := fragLoop_error_conn frags _ o hl
    rw [hc] at h; cases h
  | ok s =>
    rw [hl] at h hfst
    simp only [Except.toOption] at hfst
    subst hfst
    simp only at h
    split at h
    · cases h
    · split at h
      · cases h
      · split at h
        · cases h
        · rename_i hinval _
          injection h with hf ht
          have hi := hinv s rfl
          have hen : s.emitEnabled = true := by
            by_cases he : s.emitEnabled = true
            · exact he
            · have := hi.2 (by simpa using he)
              rcases this with h1 | h1
              · rw [h1] at hinval; exact absurd rfl hinval
              · rw [h1] at ht; cases ht
          rw [hi.1 hen, hf]; rfl

open Req.H2.Meta in
/-- non-vacuity: `:status: 200`, `a: b` in two fragments. -/
example :
    readMeta 0 [⟨10, [.field sStatus [50, 48, 48]]⟩, ⟨4, [.field [97] [98]]⟩] false =
      .ok [(sStatus, [50, 48, 48]), ([97], [98])] false ∧
    metaDump 0 [⟨10, [.field sStatus [50, 48, 48]]⟩, ⟨4, [.field [97] [98]]⟩] false =
      [58, 115, 116, 97, 116, 117, 115, 58, 32, 50, 48, 48, 13, 10, 97, 58, 32, 98, 13, 10, 13, 10] := by
  decide

/-- **dump = wire, HTTP/3 response head.** Every field of the decoded field section, as received
and in order, then the blank line; nothing without the flag, nothing when the HEADERS frame is
refused before it is decoded. -/
theorem dump_equals_wire_h3_resp (fs : List Field) (b : Bool) :
    respHeadH3 true (some fs) = renderBlock fs ∧ respHeadH3 false (some fs) = [] ∧
    respHeadH3 b none = [] := ⟨rfl, rfl, rfl⟩

/-- **dump = wire, HTTP/3 request body**, also when the stream fails. For every sequence of body
reads and every failure point of the QUIC stream: the dumper holds a prefix of the body — the
payload bytes the stream accepted, in order, each once, nothing after the failure — and the whole
body if the stream did not fail. -/
theorem dump_equals_wire_h3_body (limit : Option Nat) (pieces : List Bytes) :
    (h3Body limit pieces).dump <+: pieces.flatten ∧
    ((h3Body limit pieces).failed = false → (h3Body limit pieces).dump = pieces.flatten) := by
  obtain ⟨x, h1, h2, _, h4⟩ := h3_fold_prefix pieces { limit := limit }
  unfold h3Body
  simp only [List.nil_append] at h1
  rw [h1]
  exact ⟨h2, h4⟩

/-- non-vacuity: two reads; unlimited: two DATA frames `00 02 ab`, `00 01 c`; the stream failing
after 4 bytes: `00 02 ab` went out, the dump holds `ab`. -/
example :
    (h3Body none [[97, 98], [], [99]]).wire = [0, 2, 97, 98, 0, 1, 99] ∧
    (h3Body none [[97, 98], [], [99]]).dump = [97, 98, 99] ∧
    (h3Body (some 5) [[97, 98], [], [99]]).dump = [97, 98] ∧
    (h3Body (some 5) [[97, 98], [], [99]]).failed = true := by decide

end Req.Props.C13G
