import Req.Props.C08H3
/-!
# C08 — interim (1xx) responses and the HTTP/3 watcher (round 6)

`Ev.peerInterim` = an informational response (100 Continue, 103 Early Hints, …) is read by the
`ReadResponse` loop of `doRequest`, which goes back to `ReadResponse`.

* `interim_keeps_watcher_h3` — a 1xx never signals `reqDone`: the event changes nothing the request's
  goroutines talk through — `reqDone` stays open, the watcher stays where it is, both directions of the
  stream stay as they are — however many of them arrive.
* `cancel_after_interims_releases_h3` — `cancel_releases_h3` after ANY number of interim responses at any
  reachable state: the context ends, every run of internal steps has ≤ 17 steps and ends released with
  the context's error (or the response already held).
* `interim_signal_strands_cancel_h3` — sharpness = seed C08-r6-3: with the 1xx closing `reqDone` a reachable
  state (request sent, one 103 read, watcher gone through `reqDone`, then the context cancelled) is stuck
  with the caller still inside `ReadResponse` and the receive side still open — the call never returns.
-/
namespace Req.Props.C08H3Interim
open Req.Cancel (CtxErr)
open Req.CancelH3 Req.Lemmas.CancelH3 Req.Props.C08H3

/-- `k` interim responses in a row -/
def interims : Nat → St → St
  | 0, s => s
  | k + 1, s => interims k (evApply s .peerInterim)

/-- **interim_keeps_watcher_h3** -/
theorem interim_keeps_watcher_h3 (s : St) (k : Nat) :
    (interims k s).reqDone = s.reqDone ∧ (interims k s).wat = s.wat ∧
    (interims k s).send = s.send ∧ (interims k s).recv = s.recv ∧ interims k s = s := by
  have h : interims k s = s := by
    induction k generalizing s with
    | zero => rfl
    | succ k ih => simp only [interims, CancelH3.evApply]; exact ih s
  rw [h]; exact ⟨rfl, rfl, rfl, rfl, rfl⟩

/-- the event is enabled exactly while the caller waits for the final header on an open stream -/
example : evGuard (apply (evApply (evApply (init false) .hsDone) .streamOpen) .cSendHdr) .peerInterim = true := by
  decide

theorem reach_interims {s : St} (hr : Reach s) (hg : evGuard s .peerInterim = true) (k : Nat) :
    Reach (interims k s) := by
  induction k generalizing s with
  | zero => exact hr
  | succ k ih =>
    simp only [interims]
    exact ih (Reach.ev .peerInterim hr hg) (by simpa only [CancelH3.evApply] using hg)

/-- **cancel_after_interims_releases_h3** -/
theorem cancel_after_interims_releases_h3 {s : St} (hr : Reach s) (k : Nat)
    (hg : evGuard s .peerInterim = true) (e : CtxErr) (hc : s.ctx = none)
    (hd : s.reqDone = false) {as : List Act} {s' : St}
    (run : Run (evApply (interims k s) (.cancel e)) as s') :
    as.length ≤ K ∧
    (stuck s' = true →
      released s' = true ∧ (s'.cpc = .returned (.err (.ctx e)) ∨ s'.cpc = .returned .resp)) := by
  have h := (interim_keeps_watcher_h3 s k).2.2.2.2
  exact cancel_releases_h3 (reach_interims hr hg k) e (by rw [h]; exact hc) (by rw [h]; exact hd) run

/-- request sent (no body), one 103 read — closing `reqDone` as in seed C08-r6-3 —, the watcher leaves
through `reqDone`, then the context is cancelled -/
def exInterimSignalled : St :=
  let s := init false
  let s := evApply s .hsDone
  let s := evApply s .streamOpen
  let s := apply s .cSendHdr
  let s := evApplyInterimSignals s .peerInterim
  let s := apply s .wExit
  evApply s (.cancel .canceled)

/-- **interim_signal_strands_cancel_h3** -/
theorem interim_signal_strands_cancel_h3 :
    stuck exInterimSignalled = true ∧ exInterimSignalled.cpc = .readResp ∧
    exInterimSignalled.recv = .open ∧ exInterimSignalled.wat = .done := by decide

/-- the same point in the model of the code as it is: every maximal run ends released with the
context's error -/
example : (finals 20 (evApply (evApply (apply (evApply (evApply (init false) .hsDone) .streamOpen) .cSendHdr)
    .peerInterim) (.cancel .canceled))).all
    (fun t => released t && t.cpc == .returned (.err (.ctx .canceled))) = true := by decide

end Req.Props.C08H3Interim
