import Req.Props.C01BodyH1
import Req.Props.C01
/-!
C01 (round 5) — the reader-level model of the HTTP/1.1 body writer (`Req.H1.BodyWrite`) REFINES the
byte-level serialiser `serializeH1` (`Req.H1.framing` + `bodyBytes`, the functions `h1_fidelity` /
`h1_send_fidelity` are stated about): for every honest reader — whatever its read sizes, zero-length
reads and the way it signals its end — with a truthful or absent declared length, the bytes
`writeBody` produces are the bytes `bodyBytes` gives for the body `r.data` and SOME list of read
sizes; `h1_fidelity` quantifies over all such lists, so an independent origin reads exactly
`r.data`.
-/
namespace Req.Props.C01BodyH1
open Req.Proto Req.H1 Req.H1.BodyWrite Req.Lemmas.C01Body Req.Lemmas.C01BodyH1
open Req.H2.BodyWrite (Reader RErr Ending)

/-- `Request.ContentLength` as `plan` takes it -/
def clOf (c : Int) : Option Nat := if c ≤ 0 then none else some c.toNat

theorem probe_nonempty (r : Reader) (h : r.data ≠ []) :
    ((r.read 1).1.isEmpty && (r.read 1).2.1 == RErr.eof) = false := by
  have hd := read_data r 1
  have he := read_eof r 1
  generalize r.read 1 = x at *
  obtain ⟨c, e, r1⟩ := x
  simp only at hd he ⊢
  cases hc : c.isEmpty with
  | false => rfl
  | true =>
    cases e with
    | eof =>
      exfalso
      apply h
      rw [← hd, List.isEmpty_iff.mp hc, he rfl]
      rfl
    | none => rfl
    | fail => rfl

theorem writeBody_chunked (buf : Nat) (p : Plan) (data : Bytes) (hm : p.mode = .chunked)
    (hok : (pieces buf p).2 = .ok) (hfl : (pieces buf p).1.flatten = data)
    (hne : ∀ w ∈ (pieces buf p).1, w ≠ []) :
    (writeBody buf p).1 = chunkedBody data ((pieces buf p).1.map List.length) := by
  unfold writeBody chunkedBody
  simp only [hm, hok, if_true]
  rw [← hfl, splitReads_pieces _ hne]
  simp [List.append_assoc]

theorem writeBody_plain (buf : Nat) (p : Plan) (hm : p.mode ≠ .chunked) :
    (writeBody buf p).1 = (pieces buf p).1.flatten := by
  unfold writeBody
  cases h : p.mode with
  | chunked => exact absurd h hm
  | noBody => rfl
  | identity => rfl
  | known n => rfl

/-- **h1_reader_refines_serialize** -/
theorem h1_reader_refines_serialize (buf : Nat) (hbuf : 1 ≤ buf) (w : WReq) (r : Reader) (f : Framing)
    (hbody : w.hasBody = true) (hdata : w.body = r.data)
    (hend : r.ending = .eof ∨ r.ending = .eofWithLast)
    (hcl : w.contentLength = 0 ∨ w.contentLength = -1 ∨ w.contentLength = r.data.length)
    (hf : framing w = .ok f) :
    ∃ reads, bodyBytes { w with reads := reads } f =
      .ok (writeBody buf (plan w.method (clOf w.contentLength) r)).1 := by
  have hcl' : clOf w.contentLength = none ∨ clOf w.contentLength = some r.data.length := by
    unfold clOf
    rcases hcl with h | h | h
    · left; simp [h]
    · left; simp [h]
    · by_cases h0 : w.contentLength ≤ 0
      · left; simp [h0]
      · right; rw [if_neg h0, h]; simp
  obtain ⟨hok, hfl⟩ := h1_honest_body_completes buf hbuf w.method (clOf w.contentLength) r hend hcl'
  have hk := (plan_inv w.method (clOf w.contentLength) r).known
  have hne := (pieces_spec buf (plan w.method (clOf w.contentLength) r) hk).2.2
  -- the framing `newTransferWriter` settles on, both ways
  by_cases hpos : 0 < w.contentLength
  · -- a declared (truthful) length
    have hc : w.contentLength = r.data.length := by
      rcases hcl with h | h | h
      · omega
      · omega
      · exact h
    have hlen : 0 < r.data.length := by omega
    obtain ⟨k, hk1⟩ : ∃ k, r.data.length = k + 1 := ⟨r.data.length - 1, by omega⟩
    have hclof : clOf w.contentLength = some (k + 1) := by
      unfold clOf; rw [hc, hk1]; simp
    have hplan : (plan w.method (clOf w.contentLength) r).mode = .known (k + 1) := by rw [hclof]; rfl
    have hff : f = ⟨true, false, (r.data.length : Int)⟩ := by
      unfold framing at hf
      simp only [hbody, Bool.not_true, Bool.and_false, Bool.false_eq_true, if_false] at hf
      have h2 : (w.contentLength != 0) = true := by simp; omega
      simp only [h2, if_true] at hf
      have h3 : ¬ w.contentLength < 0 := by omega
      simp only [h3, if_false, Except.ok.injEq] at hf
      rw [← hf, hc]
    refine ⟨[], ?_⟩
    rw [writeBody_plain buf _ (by rw [hplan]; intro h; cases h), hfl, hff]
    unfold bodyBytes
    simp only [Bool.not_true, Bool.false_eq_true, if_false, hdata]
    have : ((r.data.length : Int) == -1) = false := by simp
    simp [this]
  · -- unknown length
    have hclof : clOf w.contentLength = none := by unfold clOf; simp; omega
    have hcneg : (if w.contentLength != 0 then w.contentLength else (-1 : Int)) = -1 := by
      rcases hcl with h | h | h
      · simp [h]
      · simp [h]
      · have : w.contentLength = 0 := by omega
        simp [this]
    unfold framing at hf
    simp only [hbody, Bool.not_true, Bool.and_false, Bool.false_eq_true, if_false, hcneg] at hf
    have hlt : ((-1 : Int) < 0) := by omega
    simp only [hlt, if_true] at hf
    rw [hclof] at hok hfl hne ⊢
    have hpu : plan w.method none r = planUnknown w.method r := rfl
    rw [hpu] at hok hfl hne ⊢
    by_cases hconn : (methodOrGet w.method == sCONNECT) = true
    · simp only [hconn, if_true, Except.ok.injEq] at hf
      have hmode : (planUnknown w.method r).mode = .identity := by
        unfold planUnknown; simp [hconn]
      refine ⟨[], ?_⟩
      rw [writeBody_plain buf _ (by rw [hmode]; intro h; cases h), hfl, ← hf]
      simp [bodyBytes, hdata]
    · simp only [hconn, Bool.false_eq_true, if_false] at hf
      by_cases hlack : methodUsuallyLacksBody (methodOrGet w.method) = true
      · simp only [hlack, if_true] at hf
        by_cases hemp : r.data = []
        · have hbe : w.body.isEmpty = true := by rw [hdata, hemp]; rfl
          simp only [hbe, if_true, Except.ok.injEq] at hf
          have hmode : (planUnknown w.method r).mode = .noBody := by
            unfold planUnknown
            simp only [hconn, Bool.false_eq_true, if_false, hlack, if_true, read_at_end r 1 hemp hend]
            simp
          refine ⟨[], ?_⟩
          rw [writeBody_plain buf _ (by rw [hmode]; intro h; cases h), hfl, ← hf, hemp]
          simp [bodyBytes]
        · have hbe : w.body.isEmpty = false := by
            rw [hdata]
            cases hd : r.data with
            | nil => exact absurd hd hemp
            | cons _ _ => rfl
          simp only [hbe, Bool.false_eq_true, if_false, Except.ok.injEq] at hf
          have hmode : (planUnknown w.method r).mode = .chunked := by
            unfold planUnknown
            simp only [hconn, Bool.false_eq_true, if_false, hlack, if_true, probe_nonempty r hemp]
          refine ⟨((pieces buf (planUnknown w.method r)).1.map List.length), ?_⟩
          rw [writeBody_chunked buf _ r.data hmode hok hfl hne, ← hf]
          simp [bodyBytes, hdata]
      · simp only [hlack, Bool.false_eq_true, if_false, Except.ok.injEq] at hf
        have hmode : (planUnknown w.method r).mode = .chunked := by
          unfold planUnknown
          simp [hconn, hlack]
        refine ⟨((pieces buf (planUnknown w.method r)).1.map List.length), ?_⟩
        rw [writeBody_chunked buf _ r.data hmode hok hfl hne, ← hf]
        simp [bodyBytes, hdata]

/-- **h1_reader_fidelity** — `h1_fidelity` for a body that is a READER: for every request that is
`Valid` (see Props/C01.lean / `h1_send_fidelity`) whose body is an honest reader — any read sizes,
zero-length reads, EOF alone or with the last bytes — of truthful or absent declared length, and
every copy-buffer length: the head followed by what the reader-level `writeBody` writes, followed by
ANY bytes, is read by the independent origin as exactly one request with the method, target, header
lines and EXACTLY the reader's bytes as body, the rest untouched. -/
theorem h1_reader_fidelity (buf : Nat) (hbuf : 1 ≤ buf) (w : WReq) (r : Reader) (host : Bytes) (f : Framing)
    (hbody : w.hasBody = true) (hdata : w.body = r.data)
    (hend : r.ending = .eof ∨ r.ending = .eofWithLast)
    (hcl : w.contentLength = 0 ∨ w.contentLength = -1 ∨ w.contentLength = r.data.length)
    (hh : wireHost w = .ok host) (hf : framing w = .ok f)
    (hctl : Req.BStr.containsCTL (requestTarget w host) = false)
    (hv : Req.H1.Origin.Valid w host f) (rest : Bytes) :
    Req.H1.Origin.parseRequestH1
      (requestLine w (requestTarget w host) ++ renderFields (h1Fields w host f) ++ crlf ++
        (writeBody buf (plan w.method (clOf w.contentLength) r)).1 ++ rest) =
      some (Req.Props.C01.view w host f, rest) := by
  obtain ⟨reads, hb⟩ := h1_reader_refines_serialize buf hbuf w r f hbody hdata hend hcl hf
  have hh' : wireHost { w with reads := reads } = .ok host := hh
  have hf' : framing { w with reads := reads } = .ok f := hf
  have hs : serializeH1 { w with reads := reads } =
      .ok (requestLine w (requestTarget w host) ++ renderFields (h1Fields w host f) ++ crlf ++
        (writeBody buf (plan w.method (clOf w.contentLength) r)).1) := by
    unfold serializeH1
    simp only [hh', hf', bind, Except.bind]
    have hc : Req.BStr.containsCTL (requestTarget { w with reads := reads } host) = false := hctl
    rw [if_neg (by rw [hc]; simp)]
    simp only [hb, pure, Except.pure]
    rfl
  have hv' : Req.H1.Origin.Valid { w with reads := reads } host f :=
    ⟨hv.method_ok, hv.target_ok, hv.ua_ok, hv.framing_hdr, hv.framing_extra, hv.framed⟩
  exact Req.Props.C01.h1_fidelity { w with reads := reads } _ host f hh' hf' hs hv' rest

/-- whole chunks with nothing behind them (the connection was closed): the origin's chunk reader
does not complete -/
theorem readChunks_truncated (ps : List Bytes) (hne : ∀ p ∈ ps, p ≠ []) :
    ∀ fuel, Req.H1.Origin.readChunks fuel (ps.flatMap chunk) = none := by
  induction ps with
  | nil =>
    intro fuel
    cases fuel with
    | zero => rfl
    | succ f => simp [Req.H1.Origin.readChunks, Req.H1.Origin.readLine]
  | cons p ps ih =>
    intro fuel
    cases fuel with
    | zero => rfl
    | succ f =>
      have hp : p ≠ [] := hne p (by simp)
      have e : (p :: ps).flatMap chunk =
          Req.BStr.natToHex p.length ++ 13 :: 10 :: (p ++ 13 :: 10 :: (ps.flatMap chunk)) := by
        simp [chunk, crlf, List.append_assoc]
      rw [e, Req.H1.Origin.readChunks, Req.H1.Origin.readLine_append _ _ [] (Req.H1.Origin.natToHex_no_cr _)]
      simp only [List.reverse_nil, List.nil_append, Req.H1.Origin.parseHex_natToHex]
      have hlen : (p.length == 0) = false := by
        cases p with
        | nil => exact absurd rfl hp
        | cons _ _ => simp
      simp only [hlen, Bool.false_eq_true, if_false]
      have hlt : ¬ (p ++ 13 :: 10 :: (ps.flatMap chunk)).length < p.length := by
        simp only [List.length_append]; omega
      simp only [hlt, if_false, List.drop_left, List.take_left]
      simp only [beq_self_eq_true, Bool.and_self, if_true]
      rw [ih (fun q hq => hne q (by simp [hq])) f]

/-- **h1_failed_reader_not_accepted** — chunked framing, ANY reader that fails (a non-EOF error, alone
or together with bytes): `writeBody` leaves whole chunks on the wire and no terminating chunk; the
connection is then closed, and the independent origin does NOT read a complete body from what
arrived (RFC 9112 §8: incomplete message) — a failed upload is never taken for a complete one. The
HTTP/1.1 counterpart of `h2_no_end_stream_unless_done` / `h3_reset_not_accepted`. -/
theorem h1_failed_reader_not_accepted (buf : Nat) (method : Bytes) (cl : Option Nat) (r : Reader)
    (hm : (plan method cl r).mode = .chunked) (hfail : (pieces buf (plan method cl r)).2 ≠ .ok) :
    Req.H1.Origin.decodeBody .chunked (writeBody buf (plan method cl r)).1 = none := by
  have hk := (plan_inv method cl r).known
  have hne := (pieces_spec buf (plan method cl r) hk).2.2
  unfold writeBody Req.H1.Origin.decodeBody
  simp only [hm, hfail, if_false, List.append_nil]
  exact readChunks_truncated _ hne _

example : (pieces 4 (plan [80, 79, 83, 84] none { data := [1, 2, 3, 4, 5], sizes := [2], ending := .errorWithLast })).2 = .readError ∧
    (writeBody 4 (plan [80, 79, 83, 84] none { data := [1, 2, 3, 4, 5], sizes := [2], ending := .errorWithLast })).1 =
      [50, 13, 10, 1, 2, 13, 10, 51, 13, 10, 3, 4, 5, 13, 10] := by decide

end Req.Props.C01BodyH1
