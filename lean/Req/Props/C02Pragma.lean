import Req.Props.C02Msg
import Req.Lemmas.C02TrailerMap
/-!
C02 round 5 — HTTP/1.1 heads WITH a `Pragma` field.

Round 4's `h1_head_roundtrip` excluded a `Pragma` field (`OriginFraming.pragma`), because
`persistConn.readResponse` runs net/http's `fixPragmaCacheControl` on the header: a response that
carries `Pragma: no-cache` (first value) and no `Cache-Control` gets `Cache-Control: no-cache`
ADDED.  Here the field is allowed and the statement says exactly what the caller sees: every
ordinary field as the origin sent it, and under `Cache-Control` the one added value in that
case.  (HTTP/2 and HTTP/3 do not add it: `cross_protocol_message` keeps its no-`pragma`
hypothesis — the three protocols differ there, by inheritance from Go.)

Tie: lane `e2eh1` / `h1ReceiveView` (C04's `parseFinalHead` contains `fixPragmaCacheControl`;
C04's lanes generate Pragma heads).
-/
namespace Req.Props.C02
open Req.Proto Req.Ascii Req.C02 Req.H1

/-- `OriginFraming` without the "no Pragma field" clause. -/
structure OriginFramingP (o : OHead) (cc chunked : Bool) (te : Bytes) (cl : Option (Bytes × Nat))
    (tr : Option Bytes) : Prop where
  conn : valuesOf kConnection (fieldsOf o.fs) = if cc then [vClose] else []
  teVals : valuesOf kTransferEncoding (fieldsOf o.fs) = if chunked then [te] else []
  teLow : lower te = vChunked
  clVals : valuesOf kContentLength (fieldsOf o.fs) = (match cl with | some p => [p.1] | none => [])
  clParse : ∀ p, cl = some p → parseContentLength1 p.1 = some p.2
  trVals : valuesOf Req.H1.kTrailer (fieldsOf o.fs) = (match tr with | some v => [v] | none => [])

theorem OriginFramingP.entries {o : OHead} {cc chunked : Bool} {te : Bytes} {cl : Option (Bytes × Nat)}
    {tr : Option Bytes} (h : OriginFramingP o cc chunked te cl tr) :
    FrameEntries0 o.hmap cc chunked te cl tr := by
  obtain ⟨h2, h3, h4, h5, h6, h7⟩ := h
  refine ⟨?_, ?_, h4, ?_, h6, ?_⟩
  · cases cc <;> simp [OHead.hmap, get_hmapOf, h2]
  · cases chunked <;> simp [OHead.hmap, get_hmapOf, h3]
  · cases cl <;> simp [OHead.hmap, get_hmapOf, h5]
  · cases tr <;> simp [OHead.hmap, get_hmapOf, h7]

/-- The origin's field list makes `fixPragmaCacheControl` add `Cache-Control: no-cache`: the
first `Pragma` value is `no-cache` and there is no `Cache-Control` field. -/
def pragmaAdds (fs : List (Bytes × Bytes)) : Bool :=
  (match valuesOf kPragma fs with | v :: _ => v == vNoCache | [] => false) &&
    (valuesOf kCacheControl fs).isEmpty

/-- `fixPragmaCacheControl` on the map `ReadMIMEHeader` built. -/
theorem get_fixPragma_hmapOf (fs : List (Bytes × Bytes)) (k : Bytes) :
    (fixPragmaCacheControl (hmapOf fs)).get k =
      if k = kCacheControl ∧ pragmaAdds fs = true then some [vNoCache]
      else if valuesOf k fs = [] then none else some (valuesOf k fs) := by
  have hcc : (hmapOf fs).has kCacheControl = !(valuesOf kCacheControl fs).isEmpty := by
    simp only [HeaderMap.has]
    have := get_hmapOf fs kCacheControl
    simp only [HeaderMap.get] at this
    rw [this]
    cases hv : valuesOf kCacheControl fs <;> simp
  unfold fixPragmaCacheControl pragmaAdds
  rw [get_hmapOf fs kPragma]
  cases hp : valuesOf kPragma fs with
  | nil =>
    simp only [if_true, Bool.false_and, Bool.false_eq_true, and_false, if_false]
    exact get_hmapOf fs k
  | cons v vs =>
    simp only [List.cons_ne_nil, if_false, hcc, Bool.not_not]
    by_cases hadd : (v == vNoCache && (valuesOf kCacheControl fs).isEmpty) = true
    · simp only [hadd, if_true]
      by_cases hk : k = kCacheControl
      · subst hk
        simp [get_set]
      · simp only [hk, false_and, if_false]
        rw [get_set' _ _ _ _ hk]
        exact get_hmapOf fs k
    · have hadd' : (v == vNoCache && (valuesOf kCacheControl fs).isEmpty) = false := by
        simpa using hadd
      simp only [hadd', Bool.false_eq_true, if_false, and_false]
      exact get_hmapOf fs k

/-- **h1_head_roundtrip with `Pragma` allowed.**  Same statement as `h1_head_roundtrip`, for
every origin head with or without `Pragma` / `Cache-Control` fields: status, framing verdict,
consumed bytes as before; under every ordinary field name exactly the origin's values — except
that `Cache-Control: no-cache` appears when (and only when) the origin sent `Pragma: no-cache`
first and no `Cache-Control`. -/
theorem h1_head_roundtrip_pragma (isHead : Bool) (is : List OHead) (his : ∀ i ∈ is, i.Interim) (hn : is.length ≤ 5)
    (o : OHead) (ho : o.OK) (hfc : FinalCode o.code)
    (cc chunked : Bool) (te : Bytes) (cl : Option (Bytes × Nat)) (tr : Option Bytes)
    (hF : OriginFramingP o cc chunked te cl tr)
    (hexcl : chunked = true → cl = none) (htrc : tr.isSome = true → chunked = true)
    (hkeys : ∀ tv, tr = some tv → (declKeys tv).any badTrailerKey = false) (W : Bytes) :
    ∃ msg, Req.H1.parseFinalHead 6 isHead (interimsWire is ++ (o.wire ++ W)) = some (msg, W) ∧
      msg.sl.code = o.code ∧
      (∀ k, OrdinaryKey k → msg.header.get k =
        if k = kCacheControl ∧ pragmaAdds (fieldsOf o.fs) = true then some [vNoCache]
        else if valuesOf k (fieldsOf o.fs) = [] then none else some (valuesOf k (fieldsOf o.fs))) ∧
      msg.trailerDecl = trailerDeclOf tr ∧
      msg.framing =
        (if (isHead || !Req.H1.bodyAllowedForStatus o.code) = true then RespFraming.none
         else if chunked = true then RespFraming.chunked
         else framingOfCL cl) := by
  obtain ⟨msg, hph, hcode, _, htd, hfr, hhdr⟩ :=
    parseHead_origin_pragma isHead o ho cc chunked te cl tr hF.entries hexcl htrc hkeys W
  refine ⟨msg, ?_, hcode, ?_, htd, hfr⟩
  · apply parseFinalHead_origin isHead is his 6 (by omega) (o.wire ++ W) _ hph
    intro m r hmr
    simp only [Option.some.injEq, Prod.mk.injEq] at hmr
    rw [← hmr.1, hcode]
    exact hfc
  · intro k ⟨k1, k2, k3, k4⟩
    rw [hhdr, get_afterTransfer _ _ _ _ _ k k1 k2 k3 k4]
    exact get_fixPragma_hmapOf _ k

/-! Non-vacuity: `Pragma: no-cache` alone adds the field; with a `Cache-Control` it does not. -/
example : pragmaAdds [(kPragma, vNoCache), ([88, 45, 65], [49])] = true := by decide
example : pragmaAdds [(kPragma, vNoCache), (kCacheControl, [120])] = false := by decide
example : (fixPragmaCacheControl (hmapOf [(kPragma, vNoCache)])).get kCacheControl = some [vNoCache] := by decide

end Req.Props.C02
