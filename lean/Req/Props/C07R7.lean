/-!
C07 (round 7) — the trailer look-ahead of the HTTP/1 body reader never waits for a byte beyond the end
of the message.

`seeUpcomingDoubleCRLF` (transfer.go:824-837) is run by `body.readTrailer` after the last chunk: it
peeks 4, 5, 6, … bytes and stops at the first peek whose result ends in CR LF CR LF. `bufio.Reader.Peek n`
(n ≤ buffer size) does not return before `n` bytes have arrived, the stream has ended, or the read failed —
on a connection the server keeps open and silent after its response, a `Peek` for more bytes than the
server sent never returns (`Peek.blocked`).

`peek_loop_never_blocks`: for EVERY byte sequence `s` the server sends before falling silent and every
buffer size `B`: if some prefix of `s` of length `k` (4 ≤ k ≤ B) ends in CR LF CR LF — the trailer section
is complete — the loop answers `yes` and no peek asks for more than `k` bytes, so it returns however
the bytes were split into segments and although the connection stays open. `peek_loop_demand_le`: in
general every peek size it asks for is ≤ the first such `k`.

Hand model of 14 lines; tied to the code by lane `h1pos` (class "connection kept open after the last
byte": 1 byte per read on every self-delimited stream of the matrix, two segments split at every offset;
a reader waiting for more answers `wedge`, which no model outcome equals).
-/
namespace Req.Props.C07.r7

def dcrlf : List UInt8 := [13, 10, 13, 10]

/-- `bytes.HasSuffix(buf, doubleCRLF)` -/
def endsD (l : List UInt8) : Bool := dcrlf.isSuffixOf l

inductive Peek where
  | yes      -- the loop returned true
  | no       -- the loop returned false (buffer filled without a double CRLF)
  | blocked  -- a Peek asked for more bytes than the silent, open connection will ever deliver
  deriving DecidableEq, Repr

/-- The loop of `seeUpcomingDoubleCRLF`, `n` = peekSize, on a connection that delivers exactly `s` and
then stays open; `fuel` bounds the iterations (the loop ends at `n = B + 1` at the latest). -/
def loop (B : Nat) (s : List UInt8) : Nat → Nat → Peek
  | _, 0 => .no
  | n, fuel + 1 =>
    if B < n then
      -- Peek(n) with n > size: what is buffered (B bytes, the previous Peek(B) succeeded) + ErrBufferFull
      if endsD (s.take B) then .yes else .no
    else if s.length < n then .blocked
    else if endsD (s.take n) then .yes
    else loop B s (n + 1) fuel

/-- `seeUpcomingDoubleCRLF` -/
def see (B : Nat) (s : List UInt8) : Peek := loop B s 4 (B + 2)

theorem loop_yes (B : Nat) (s : List UInt8) (k : Nat) (hk : k ≤ s.length) (hB : k ≤ B)
    (he : endsD (s.take k) = true) :
    ∀ d n fuel, n + d = k → d < fuel → loop B s n fuel = .yes := by
  intro d
  induction d with
  | zero =>
    intro n fuel hn hf
    cases fuel with
    | zero => omega
    | succ f =>
      have : n = k := by omega
      subst this
      unfold loop
      have h1 : ¬ B < n := by omega
      have h2 : ¬ s.length < n := by omega
      simp [h1, h2, he]
  | succ d ih =>
    intro n fuel hn hf
    cases fuel with
    | zero => omega
    | succ f =>
      unfold loop
      have h1 : ¬ B < n := by omega
      have h2 : ¬ s.length < n := by omega
      simp only [h1, h2, if_false]
      cases hE : endsD (s.take n) with
      | true => simp
      | false =>
        simp
        exact ih (n + 1) f (by omega) (by omega)

/-- The trailer section is complete within what arrived and within the buffer ⇒ the look-ahead answers
`yes`; in particular it is never `blocked`, whatever follows (nothing, on an open connection). -/
theorem peek_loop_never_blocks (B : Nat) (s : List UInt8) (k : Nat) (h4 : 4 ≤ k) (hk : k ≤ s.length)
    (hB : k ≤ B) (he : endsD (s.take k) = true) : see B s = .yes := by
  unfold see
  exact loop_yes B s k hk hB he (k - 4) 4 (B + 2) (by omega) (by omega)

/-- The answer depends only on the first `k` bytes: bytes after the end of the trailer section (the next
response on the connection, or none) are never asked for. -/
theorem peek_loop_demand_le (B : Nat) (s t : List UInt8) (k : Nat) (h4 : 4 ≤ k) (hk : k ≤ s.length)
    (hB : k ≤ B) (he : endsD (s.take k) = true) : see B (s.take k) = .yes ∧ see B (s ++ t) = .yes := by
  constructor
  · apply peek_loop_never_blocks B (s.take k) k h4
    · simp [List.length_take]; omega
    · exact hB
    · simp [List.take_take, he]
  · apply peek_loop_never_blocks B (s ++ t) k h4
    · simp [List.length_append]; omega
    · exact hB
    · rw [List.take_append_of_le_length hk]; exact he

/-- The seeded shape — one `Peek(size)` when the double CRLF is not buffered yet — blocks on the stream
of the round-7 seed: `0 CRLF X: 1 CRLF` arrived, `CRLF` still to come, 4096-byte buffer. -/
def seeOnce (B : Nat) (buffered s : List UInt8) : Peek :=
  if (List.range (buffered.length + 1)).any (fun i => endsD (buffered.take i)) then .yes
  else if s.length < B then .blocked
  else if (List.range (B + 1)).any (fun i => endsD (s.take i)) then .yes else .no

example : seeOnce 4096 [88, 58, 49, 13, 10] [88, 58, 49, 13, 10, 13, 10] = .blocked := by decide
example : see 4096 [88, 58, 49, 13, 10, 13, 10] = .yes := by
  apply peek_loop_never_blocks 4096 _ 7 <;> decide

end Req.Props.C07.r7
