import Req.H1.ExpectContinue
/-!
C01, round 7 — a request that waits for `100 Continue` never leaves a hole on a connection that is
used again.

* `reused_connection_has_body` — for EVERY way the wait ends (timer, 100 Continue, a final status
  with or without `Connection: close`) and every `Request.Close`: if the connection may carry another
  request, the body was written. (The seeded change C01-r7-2 skips the body for every final status
  >= 300: `skip_on_kept_connection_swallows_next` shows what the origin then reads.)
* `origin_reads_body_then_next` — on a reused connection the origin, reading the announced number
  of bytes behind the head, gets exactly the framed body, and the next request starts where it
  stopped — for all heads, bodies and following requests.
* `closing_connection_carries_nothing_more` — when the body is skipped, nothing follows the head on
  that connection.
-/
namespace Req.Props.C01Expect
open Req.H1.Expect

/-- a final status that was answered with `respClose` -/
def Wake.agrees (respClose : Bool) : Wake → Prop
  | .final rc => rc = respClose
  | _ => True

theorem reused_connection_has_body (reqClose respClose : Bool) (w : Wake) (hw : Wake.agrees respClose w)
    (h : reusable reqClose respClose = true) : sendsBody reqClose w = true := by
  cases w with
  | timer => rfl
  | continue100 => rfl
  | final rc =>
    simp only [Wake.agrees] at hw
    subst hw
    simpa [sendsBody, reusable] using h

theorem origin_reads_body_then_next (reqClose respClose : Bool) (w : Wake) (hw : Wake.agrees respClose w)
    (h : reusable reqClose respClose = true) (head framed next : Bytes) :
    connBytes reqClose respClose w head framed next = head ++ framed ++ next ∧
    originSplit framed.length (framed ++ next) = (framed, next) := by
  have hb := reused_connection_has_body reqClose respClose w hw h
  constructor
  · simp [connBytes, hb, h]
  · simp [originSplit]

theorem closing_connection_carries_nothing_more (reqClose respClose : Bool) (w : Wake)
    (hw : Wake.agrees respClose w) (h : sendsBody reqClose w = false) (head framed next : Bytes) :
    connBytes reqClose respClose w head framed next = head := by
  cases w with
  | timer => simp [sendsBody] at h
  | continue100 => simp [sendsBody] at h
  | final rc =>
    simp only [Wake.agrees] at hw
    subst hw
    have hr : reusable reqClose rc = false := by simpa [sendsBody, reusable] using h
    simp [connBytes, h, hr]

/-- the seeded variant (body skipped although the connection is kept): the origin takes the first
bytes of the NEXT request for the body. -/
theorem skip_on_kept_connection_swallows_next (head framed next : Bytes) :
    originSplit framed.length ((head ++ [] ++ next).drop head.length) =
      (next.take framed.length, next.drop framed.length) := by
  simp [originSplit]

end Req.Props.C01Expect
