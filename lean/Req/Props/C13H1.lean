import Req.Lemmas.C13Sched
/-!
C13, HTTP/1.1 request side: which bytes the stack hands to the dumper, when they leave, and what
is claimed when the request fails while it is written. Model: `Req/H1/DumpWrite.lean` (the write
program of `persistConn.writeRequest` + `transferWriter.writeBody` over the connection's
`bufio.Writer`); tied to the code by lane `h1w`.
-/
namespace Req.Props.C13H1
open Req.Proto Req.H1 Req.H1.DumpWrite

/-- the request every example below uses: `POST h://h/a` with an unknown-length body `abcde`
read as `ab`, `cde` (chunked). -/
def exReq : WReq :=
  { method := [80, 79, 83, 84], url := { scheme := [104], host := [104], path := [47, 97] },
    header := [⟨[88, 45, 65], [[118]]⟩], hasBody := true, body := [97, 98, 99, 100, 101], reads := [2] }

def exPieces : List Bytes := [[97, 98], [99, 100, 101], []]

/-- **dump = wire, HTTP/1.1 request** (no failure). For every request the writer accepts, every
buffer size `B`, every segmentation of the body into reads, every dump mode: once `writeLoop` has
flushed, the wire holds exactly the head followed by the framed body; every dumper with
`RequestHeader()` was handed exactly the head bytes — request line, each header line, the blank
line, as transmitted — once; every dumper with `RequestBody()` exactly the body bytes as sent
(`bodyDumpBytes`: the data without the chunk-size lines, plus the final CRLF of a chunked body),
once; without the flag nothing. -/
theorem dump_equals_wire_h1 (B : Nat) (r : WReq) (md : Mode) (pieces : List Bytes) (st : St)
    (hbf : md.bodyFails = false) (h : writeRequest B none r md pieces = .ok st) :
    ∃ host f, wireHost r = .ok host ∧ framing r = .ok f ∧
      let line := requestLine r (requestTarget r host)
      let fields := h1Fields r host f
      st.w.flush.wire = headBytes line fields ++ bodyWire f pieces ∧ st.w.flush.buf = [] ∧
      st.dumpH = (if md.hdrDump then headBytes line fields else []) ∧
      st.dumpB = (if md.bodyDump then bodyDumpBytes f pieces else []) := by
  obtain ⟨host, f, hh, hf, _, hst⟩ := writeRequest_ok B none r md pieces st h
  refine ⟨host, f, hh, hf, ?_⟩
  generalize hprog : program r.method (requestLine r (requestTarget r host)) (h1Fields r host f) f md pieces = prog at hst
  have hd := dataOf_program r.method (requestLine r (requestTarget r host)) (h1Fields r host f) f md pieces hbf
  rw [hprog] at hd
  have hnf := run_nofail B prog (St.init none) rfl rfl
  have hcons := run_conserve B prog (St.init none) rfl
  have hfl := flush_nofail (run B (St.init none) prog).w hnf.1 hnf.2
  have acc : ∀ a, (run B (St.init none) prog).acc a = dataOf a prog := by
    intro a
    obtain ⟨x, h1, _, _, h4⟩ := run_acc_prefix B a prog (St.init none)
    rw [h1, h4 hnf.2]
    cases a <;> rfl
  subst hst
  refine ⟨?_, hfl.2.2.1, ?_, ?_⟩
  · rw [hfl.2.2.2, hcons]
    have := acc .all
    simp only [St.acc] at this
    rw [this, hd.1]
  · have := acc .hdr
    simp only [St.acc] at this
    rw [this, hd.2.1]
  · have := acc .body
    simp only [St.acc] at this
    rw [this, hd.2.2]

/-- non-vacuity, and the decision "are chunk-size lines dumped?" on a concrete upload: the wire
carries `2\r\nab\r\n3\r\ncde\r\n0\r\n\r\n`, the body dumper gets `abcde\r\n`. -/
example :
    (writeRequest 16 none exReq { hdrDump := true, bodyDump := true, flushHeaders := true } exPieces).toOption.map
      (fun st => (st.w.flush.wire.drop 116, st.dumpB, st.dumpH.length)) =
    some ([50, 13, 10, 97, 98, 13, 10, 51, 13, 10, 99, 100, 101, 13, 10, 48, 13, 10, 13, 10],
          [97, 98, 99, 100, 101, 13, 10], 116) := by decide

/-- The wire side of `dump_equals_wire_h1` is the byte-exact serialisation of C01/C16
(`serializeH1`) when the body reads are the chunk boundaries of that model. -/
theorem h1_wire_is_serializeH1 (r : WReq) (wire host : Bytes) (f : Framing)
    (hh : wireHost r = .ok host) (hf : framing r = .ok f) (hs : serializeH1 r = .ok wire) :
    headBytes (requestLine r (requestTarget r host)) (h1Fields r host f) ++
      bodyWire f (splitReads r.body r.reads) = wire := by
  have hspec : ∀ (reads : List Nat) (b : Bytes),
      (splitReads b reads).flatten = b ∧ ∀ p ∈ splitReads b reads, p ≠ [] := by
    intro reads
    induction reads with
    | nil =>
      intro b
      cases b with
      | nil => simp [splitReads]
      | cons x xs => simp [splitReads]
    | cons n ns ih =>
      intro b
      cases b with
      | nil => simp [splitReads]
      | cons x xs =>
        by_cases hn : n = 0
        · subst hn
          have := ih (x :: xs)
          simpa [splitReads] using this
        · obtain ⟨h1, h2⟩ := ih ((x :: xs).drop n)
          have hn' : (n == 0) = false := by simpa using hn
          simp only [splitReads, List.isEmpty_cons, Bool.false_eq_true, ↓reduceIte, hn']
          refine ⟨by simp [h1], ?_⟩
          intro p hp
          simp only [List.mem_cons] at hp
          rcases hp with hp | hp
          · subst hp
            cases n with
            | zero => exact absurd rfl hn
            | succ k => simp
          · exact h2 p hp
  obtain ⟨hfl, hne⟩ := hspec r.reads r.body
  have hfilter : (splitReads r.body r.reads).filter (!·.isEmpty) = splitReads r.body r.reads := by
    apply List.filter_eq_self.mpr
    intro p hp
    have := hne p hp
    cases p with
    | nil => exact absurd rfl this
    | cons _ _ => rfl
  unfold serializeH1 at hs
  rw [hh] at hs
  simp only [bind, Except.bind] at hs
  by_cases hc : Req.BStr.containsCTL (requestTarget r host)
  · simp [hc, throw, throwThe, MonadExceptOf.throw] at hs
  · simp only [hc, Bool.false_eq_true, ↓reduceIte, pure, Except.pure] at hs
    rw [hf] at hs
    simp only at hs
    cases hb : bodyBytes r f with
    | error e => rw [hb] at hs; cases hs
    | ok body =>
      rw [hb] at hs
      simp only at hs
      injection hs with hs
      rw [← hs]
      unfold headBytes
      congr 1
      rcases f with ⟨sb, ch, cl⟩
      cases sb with
      | false =>
        simp only [bodyBytes, bodyWire, Bool.not_false, ↓reduceIte] at hb ⊢
        injection hb
      | true =>
        cases ch with
        | true =>
          simp only [bodyBytes, bodyWire, chunkedBody, Bool.not_true, Bool.false_eq_true, ↓reduceIte] at hb ⊢
          injection hb with hb
          rw [← hb, hfilter]
        | false =>
          simp only [bodyBytes, bodyWire, Bool.not_true, Bool.false_eq_true, ↓reduceIte] at hb ⊢
          rw [hfl]
          by_cases h2 : (cl == -1) = true
          · rw [if_pos h2] at hb; injection hb
          · rw [if_neg h2] at hb
            by_cases h3 : (cl != (r.body.length : Int)) = true
            · rw [if_pos h3] at hb; cases hb
            · rw [if_neg h3] at hb; injection hb

set_option maxRecDepth 8000 in
example : (serializeH1 exReq).toOption.map (·.length) = some 136 := by decide

/-- **Transparency of the flush schedule.** For every buffer size, every failure point of the
wire, every segmentation: two dump modes that agree on what the transfer writer decides
(`flushHeaders`, a failing body) produce the same connection state — bytes on the wire, bytes
withheld in the buffer, error — and the same withheld-byte count at EVERY body read, whenever the
body is streamed (chunked, or unframed: CONNECT) or not sent; for bodies of known length the same
holds when the copy path is the same (`bodyDump` equal) — there `io.CopyBuffer` legitimately picks
`ReadFrom` or `Write`, and only `dump_equals_wire_h1` (same bytes) applies. This is the theorem
the seeded defect C13-r3-1 and the CONNECT finding (fixes/C13-6) violate. -/
theorem h1_flush_schedule_transparent (B : Nat) (limit : Option Nat) (r : WReq) (md md' : Mode)
    (pieces : List Bytes) (st st' : St)
    (h1 : md.flushHeaders = md'.flushHeaders) (h2 : md.bodyFails = md'.bodyFails)
    (h3 : md.connectOld = false) (h3' : md'.connectOld = false)
    (h4 : ∀ f, framing r = .ok f →
      f.chunked = true ∨ (f.cl == -1) = true ∨ f.sendBody = false ∨ md.bodyDump = md'.bodyDump)
    (h : writeRequest B limit r md pieces = .ok st) (h' : writeRequest B limit r md' pieces = .ok st') :
    st.w = st'.w ∧ st.pending = st'.pending := by
  obtain ⟨host, f, hh, hf, _, hst⟩ := writeRequest_ok B limit r md pieces st h
  obtain ⟨host', f', hh', hf', _, hst'⟩ := writeRequest_ok B limit r md' pieces st' h'
  rw [hh] at hh'; injection hh' with hh'; subst hh'
  rw [hf] at hf'; injection hf' with hf'; subst hf'
  have hcf : connectFlush r.method md = connectFlush r.method md' := by
    simp [connectFlush, h3, h3']
  have he := program_erase r.method (requestLine r (requestTarget r host)) (h1Fields r host f) f md md'
    pieces h1 h2 hcf (h4 f hf)
  have a := run_erase B (program r.method (requestLine r (requestTarget r host)) (h1Fields r host f) f md pieces)
    (St.init limit) (St.init limit) rfl rfl
  have b := run_erase B (program r.method (requestLine r (requestTarget r host)) (h1Fields r host f) f md' pieces)
    (St.init limit) (St.init limit) rfl rfl
  rw [hst, hst']
  rw [he] at a
  exact ⟨a.1.trans b.1.symm, a.2.trans b.2.symm⟩

/-- non-vacuity: dump off vs everything dumped, tiny buffer, wire failing after 120 bytes. -/
example :
    (writeRequest 16 (some 120) exReq { flushHeaders := true } exPieces).toOption.map (fun st => (st.w, st.pending)) =
    (writeRequest 16 (some 120) exReq { hdrDump := true, bodyDump := true, flushHeaders := true } exPieces).toOption.map
      (fun st => (st.w, st.pending)) ∧
    (writeRequest 16 (some 120) exReq { flushHeaders := true } exPieces).toOption.map (·.w.err) = some true := by
  decide

/-- The tree before fixes/C13-6 is NOT transparent: a CONNECT stream of two writes, dump off vs
request-body dump: the second read finds the first piece still in the buffer. -/
theorem connect_old_not_transparent :
    let r : WReq := { method := sCONNECT, url := { scheme := [104], host := [104, 58, 52] },
                      hasBody := true, body := [1, 2, 3], contentLength := -1 }
    (writeRequest 64 none r { flushHeaders := true, connectOld := true } [[1], [2, 3]]).toOption.map (·.pending)
      = some [0, 0] ∧
    (writeRequest 64 none r { bodyDump := true, flushHeaders := true, connectOld := true } [[1], [2, 3]]).toOption.map
      (·.pending) = some [0, 1] := by decide

/-- **Streamed bodies leave at once, with or without dump.** If the wire does not fail and the
head is flushed before the body (`FlushHeaders`: every body that is not an in-memory reader), then
for a chunked body and for a CONNECT stream, for every dump mode, buffer size and segmentation:
whenever the body is asked for its next piece NOTHING produced so far is still withheld. -/
theorem h1_stream_prompt (B : Nat) (r : WReq) (md : Mode) (pieces : List Bytes) (st : St)
    (hfh : md.flushHeaders = true) (hold : md.connectOld = false)
    (hs : ∀ f, framing r = .ok f → streams r.method f = true)
    (h : writeRequest B none r md pieces = .ok st) :
    ∀ n ∈ st.pending, n = 0 := by
  obtain ⟨host, f, hh, hf, _, hst⟩ := writeRequest_ok B none r md pieces st h
  have hstr := hs f hf
  subst hst
  unfold program
  rw [run_append, run_append]
  -- after the head and its flush
  have hz0 : Z (run B (run B (St.init none) (headOps md.htag (requestLine r (requestTarget r host)) (h1Fields r host f)))
      (if md.flushHeaders then [Op.flush] else [])) := by
    rw [hfh]
    have hw : Zw (run B (St.init none) (headOps md.htag (requestLine r (requestTarget r host)) (h1Fields r host f))) := by
      apply Zw_writes
      · intro op hop
        rw [headOps_eq] at hop
        simp only [List.mem_map] at hop
        obtain ⟨d, _, rfl⟩ := hop
        exact ⟨d, _, rfl⟩
      · exact ⟨rfl, rfl, by intro n hn; cases hn⟩
    exact Z_flush B _ hw
  generalize (run B (run B (St.init none) (headOps md.htag (requestLine r (requestTarget r host)) (h1Fields r host f)))
      (if md.flushHeaders then [Op.flush] else [])) = s1 at hz0
  unfold bodyOps
  by_cases h0 : f.sendBody
  · simp only [h0, Bool.not_true, Bool.false_eq_true, ↓reduceIte]
    by_cases hc : f.chunked
    · simp only [hc, ↓reduceIte]
      rw [run_append]
      have hz := Z_pieces_chunked B md.btag pieces s1 hz0
      have : Zw (run B (run B s1 (pieces.flatMap fun p => Op.read :: chunkOps md.btag p))
          (if md.bodyFails then [] else [Op.write [48, 13, 10] .raw, Op.write crlf md.btag])) := by
        apply Zw_writes
        · intro op hop
          split at hop
          · cases hop
          · simp only [List.mem_cons, List.not_mem_nil, or_false] at hop
            rcases hop with rfl | rfl <;> exact ⟨_, _, rfl⟩
        · exact hz.1
      exact this.2.2
    · simp only [streams, hc, Bool.false_or, Bool.and_eq_true] at hstr
      have hcf : connectFlush r.method md = true := by simp [connectFlush, hstr.2, hold]
      simp only [hc, Bool.false_eq_true, ↓reduceIte, hstr.1, hcf]
      exact (Z_pieces_stream B md.btag pieces s1 hz0).1.2.2
  · simp only [h0, Bool.not_false, ↓reduceIte]
    exact hz0.1.2.2

example :
    (writeRequest 16 none exReq { bodyDump := true, flushHeaders := true } exPieces).toOption.map (·.pending) =
      some [0, 0, 0] ∧ (framing exReq).toOption.map (streams exReq.method) = some true := by decide

/-- **What is dumped when the request fails while it is written.** For every failure point of
the wire (`limit`), buffer size, dump mode and segmentation — also when the body itself fails
(`bodyFails`): the header dump is a PREFIX of the head, the body dump a prefix of the body bytes,
the bytes the buffered writer accepted a prefix of the request, and the wire holds those accepted
bytes except for what is still in the buffer: nothing is dumped twice, nothing out of order,
nothing that was not handed to the connection, nothing after the failure; and if the wire did not
fail all three are complete. (`dataOf`: the bytes of the program's writes for that account.) -/
theorem h1_dump_on_failure (B : Nat) (limit : Option Nat) (r : WReq) (md : Mode) (pieces : List Bytes)
    (st : St) (h : writeRequest B limit r md pieces = .ok st) :
    ∃ host f, wireHost r = .ok host ∧ framing r = .ok f ∧
      let prog := program r.method (requestLine r (requestTarget r host)) (h1Fields r host f) f md pieces
      st.dumpH <+: dataOf .hdr prog ∧ st.dumpB <+: dataOf .body prog ∧
      st.accepted <+: dataOf .all prog ∧ st.w.wire ++ st.w.buf = st.accepted ∧
      (st.w.err = false →
        st.dumpH = dataOf .hdr prog ∧ st.dumpB = dataOf .body prog ∧ st.accepted = dataOf .all prog) := by
  obtain ⟨host, f, hh, hf, _, hst⟩ := writeRequest_ok B limit r md pieces st h
  refine ⟨host, f, hh, hf, ?_⟩
  simp only
  generalize program r.method (requestLine r (requestTarget r host)) (h1Fields r host f) f md pieces = prog at hst
  subst hst
  obtain ⟨xh, a1, a2, _, a4⟩ := run_acc_prefix B .hdr prog (St.init limit)
  obtain ⟨xb, b1, b2, _, b4⟩ := run_acc_prefix B .body prog (St.init limit)
  obtain ⟨xa, c1, c2, _, c4⟩ := run_acc_prefix B .all prog (St.init limit)
  have e1 : (run B (St.init limit) prog).dumpH = xh := by simpa [St.acc, St.init] using a1
  have e2 : (run B (St.init limit) prog).dumpB = xb := by simpa [St.acc, St.init] using b1
  have e3 : (run B (St.init limit) prog).accepted = xa := by simpa [St.acc, St.init] using c1
  refine ⟨by rw [e1]; exact a2, by rw [e2]; exact b2, by rw [e3]; exact c2,
    run_conserve B prog (St.init limit) rfl, ?_⟩
  intro he
  exact ⟨by rw [e1]; exact a4 he, by rw [e2]; exact b4 he, by rw [e3]; exact c4 he⟩

/-- with `dataOf_program`: on a completed body the three accounts are the head, the body bytes
and the wire bytes of `dump_equals_wire_h1`. -/
theorem h1_accounts (m line : Bytes) (fields : Hdr) (f : Framing) (md : Mode) (pieces : List Bytes)
    (hf : md.bodyFails = false) :
    dataOf .all (program m line fields f md pieces) = headBytes line fields ++ bodyWire f pieces ∧
    dataOf .hdr (program m line fields f md pieces) = (if md.hdrDump then headBytes line fields else []) ∧
    dataOf .body (program m line fields f md pieces) = (if md.bodyDump then bodyDumpBytes f pieces else []) :=
  dataOf_program m line fields f md pieces hf

/-- non-vacuity: the wire fails in the middle of the first chunk (after `2\r\na`): the header
dump is complete (116 bytes), the body dump holds `ab` — the piece the buffered writer accepted, of
which one byte reached the wire and 3 bytes (`b\r\n`) are still in the buffer — and nothing of the
second piece. -/
example :
    (writeRequest 16 (some 120) exReq { hdrDump := true, bodyDump := true, flushHeaders := true } exPieces).toOption.map
      (fun st => (st.dumpH.length, st.dumpB, st.w.wire.length, st.w.buf.length, st.w.err)) =
      some (116, [97, 98], 120, 3, true) := by
  decide

end Req.Props.C13H1
