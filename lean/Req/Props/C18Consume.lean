import Req.Client.Consume
import Req.Props.C18Pipeline
/-!
C18 — property theorems, part 6: every way the body is consumed after the call. The error a
call ended with is what every consumer reports, unchanged and for ever; a body that was not read
during the call (auto-read off, `SetOutput`, no target selected) is read by the first consumer,
and a failure of that late read or of the body transformer is reported AND recorded, so it is
again what every later consumer — and `resp.Err` — shows.
-/
namespace Req.Props.C18
open Req.Result Req.Pipeline Req.Consume

/-- **consumers_report_the_call_error** — on a response whose `Err` is set (any call that ended
in error) every consumer returns exactly that error and changes nothing. -/
theorem consumers_report_the_call_error (r : Resp) (e : Err) (h : r.err = some e) (u : Use) :
    consume r u = (r, some e) := by
  cases u <;> simp [consume, Consume.toBytes, unmarshalWith, h]
  cases r.http <;> simp [unmarshalWith, h]

/-- … for any sequence of consumptions. -/
theorem consumers_report_the_call_error_all (r : Resp) (e : Err) (h : r.err = some e) (us : List Use) :
    consumeAll r us = (r, us.map fun _ => some e) := by
  induction us with
  | nil => rfl
  | cons u rest ih => simp [consumeAll, consumers_report_the_call_error r e h u, ih]

/-- On the response of ANY call of the repaired code the above applies to the call's error. -/
theorem consumers_report_the_call_error_call (s : Stack) (r : Resp) (hr : callResp (run Fixes.all s) = some r)
    (e : Err) (he : callErr (run Fixes.all s) = some e) (us : List Use) :
    consumeAll r us = (r, us.map fun _ => some e) := by
  apply consumers_report_the_call_error_all
  have h := resp_nonnil_and_err_agree s
  cases hrun : run Fixes.all s with
  | ret resp err hooks atts =>
    rw [hrun] at h hr he
    obtain ⟨r0, h1, h2, _⟩ := h
    simp only [callResp] at hr
    simp only [callErr] at he
    rw [h1] at hr; cases hr
    rw [← h2]; exact he
  | mustPanic e' hooks atts => rw [hrun] at hr; simp [callResp] at hr
  | crash atts => rw [hrun] at hr; simp [callResp] at hr
  | exhausted atts => rw [hrun] at hr; simp [callResp] at hr

/-- **late_read_failure_is_recorded** — a consumer that fails does so with the error already in
`resp.Err`, or with a failure to read / transform the body that it records in `resp.Err`, or —
unmarshalling consumers only — with the unmarshaller's rejection (not recorded: the body is
fine, another target may fit). -/
theorem late_read_failure_is_recorded (r : Resp) (u : Use) (e : Err) (h : (consume r u).2 = some e) :
    r.err = some e ∨
    (r.err = none ∧ (consume r u).1.err = some e ∧ r.bodyCached = false ∧ ∃ hh, r.http = some hh ∧ hh.acqErr = some e) ∨
    (r.err = none ∧ e = .unmarshal ∧ u ≠ .toBytes ∧ (consume r u).1.err = none) := by
  have tb : ∀ e', (Consume.toBytes r).2 = some e' →
      r.err = some e' ∨ (r.err = none ∧ (Consume.toBytes r).1.err = some e' ∧ r.bodyCached = false ∧
        ∃ hh, r.http = some hh ∧ hh.acqErr = some e') := by
    intro e' h'
    cases hre : r.err with
    | some e0 => left; simp [Consume.toBytes, hre] at h'; rw [h']
    | none =>
      right
      cases hc : r.bodyCached with
      | true => simp [Consume.toBytes, hre, hc] at h'
      | false =>
        cases hh : r.http with
        | none => simp [Consume.toBytes, hre, hc, hh] at h'
        | some h0 =>
          cases ha : h0.acqErr with
          | none => simp [Consume.toBytes, hre, hc, hh, ha] at h'
          | some e1 =>
            simp [Consume.toBytes, hre, hc, hh, ha] at h'
            subst h'
            refine ⟨rfl, ?_, rfl, h0, rfl, ha⟩
            simp [Consume.toBytes, hre, hc, hh, ha]
  have tbok : (Consume.toBytes r).2 = none → r.err = none → (Consume.toBytes r).1.err = none := by
    intro h' hre
    cases hc : r.bodyCached with
    | true => simp [Consume.toBytes, hre, hc]
    | false =>
      cases hh : r.http with
      | none => simp [Consume.toBytes, hre, hc, hh]
      | some h0 =>
        cases ha : h0.acqErr with
        | none => simp [Consume.toBytes, hre, hc, hh, ha]
        | some e1 => simp [Consume.toBytes, hre, hc, hh, ha] at h'
  have um : ∀ c, (unmarshalWith r c).2 = some e →
      r.err = some e ∨
      (r.err = none ∧ (unmarshalWith r c).1.err = some e ∧ r.bodyCached = false ∧ ∃ hh, r.http = some hh ∧ hh.acqErr = some e) ∨
      (r.err = none ∧ e = .unmarshal ∧ (unmarshalWith r c).1.err = none) := by
    intro c h'
    cases hre : r.err with
    | some e0 => left; simp [unmarshalWith, hre] at h'; rw [h']
    | none =>
      right
      cases ht : (Consume.toBytes r).2 with
      | some e1 =>
        have hpair : Consume.toBytes r = ((Consume.toBytes r).1, some e1) := by rw [← ht]
        have hv : unmarshalWith r c = ((Consume.toBytes r).1, some e1) := by
          unfold unmarshalWith; simp only [hre]; rw [hpair]
        rw [hv] at h' ⊢
        simp only [Option.some.injEq] at h'
        subst h'
        rcases tb e1 ht with x | ⟨_, x2, x3, x4⟩
        · rw [hre] at x; cases x
        · left; exact ⟨rfl, x2, x3, x4⟩
      | none =>
        have hpair : Consume.toBytes r = ((Consume.toBytes r).1, none) := by rw [← ht]
        by_cases hd : decodes (Consume.toBytes r).1 c = true
        · have hv : unmarshalWith r c = ((Consume.toBytes r).1, none) := by
            unfold unmarshalWith; simp only [hre]; rw [hpair]; simp [hd]
          rw [hv] at h'; cases h'
        · have hv : unmarshalWith r c = ((Consume.toBytes r).1, some .unmarshal) := by
            unfold unmarshalWith; simp only [hre]; rw [hpair]; simp [hd]
          rw [hv] at h' ⊢
          simp only [Option.some.injEq] at h'
          subst h'
          right
          exact ⟨rfl, rfl, tbok ht hre⟩
  cases u with
  | toBytes =>
    rcases tb e h with x | x
    · left; exact x
    · right; left; exact x
  | unmarshalJson =>
    rcases um .json h with x | x | ⟨a, b, c⟩
    · left; exact x
    · right; left; exact x
    · right; right; exact ⟨a, b, by simp, c⟩
  | unmarshalXml =>
    rcases um .xml h with x | x | ⟨a, b, c⟩
    · left; exact x
    · right; left; exact x
    · right; right; exact ⟨a, b, by simp, c⟩
  | into =>
    simp only [consume] at h ⊢
    cases hh : r.http with
    | none =>
      simp only [hh] at h ⊢
      rcases um .json h with x | x | ⟨a, b, c⟩
      · left; exact x
      · right; left; rw [hh] at x; exact x
      · right; right; exact ⟨a, b, by simp, c⟩
    | some h0 =>
      simp only [hh] at h ⊢
      rcases um (codecFor h0.ct) h with x | x | ⟨a, b, c⟩
      · left; exact x
      · right; left; rw [hh] at x; exact x
      · right; right; exact ⟨a, b, by simp, c⟩

/-- A late failure sticks: after a consumer recorded a read / transform failure every later
consumer reports it. -/
theorem late_failure_sticks (r : Resp) (u : Use) (e : Err) (h : (consume r u).1.err = some e) (us : List Use) :
    (consumeAll (consume r u).1 us).2 = us.map fun _ => some e := by
  rw [consumers_report_the_call_error_all _ e h]

/-- With auto-read off (or `SetOutput`) and no target selected the call does not read the body:
the first consumer does. -/
theorem lazy_read_only_for_a_target (s : Stack) (r : Resp) (hoff : s.autoRead = false ∨ s.save = true)
    (hsel : selectTarget (bindIn s r) = none) (hc : r.bodyCached = false) :
    (parseResp s (autoRead s r).1).resp.bodyCached = false := by
  have ha : (autoRead s r).1 = r := by
    unfold autoRead
    split
    · rw [if_neg]
      rintro ⟨_, ⟨h1, h2⟩, _⟩
      rcases hoff with h | h
      · rw [h] at h1; cases h1
      · rw [h] at h2; cases h2
    · rfl
  rw [ha]
  unfold parseResp parseBody
  simp only [hsel]
  cases hh : (bindIn s r).http <;> simp [bindIn, hc]

/-- a 200 whose body transformer fails, auto-read off, no target -/
def exLazy : Stack :=
  { autoRead := false,
    transport := [.resp { status := 200, ct := [], custom := none, readOK := true, jsonOK := true, xmlOK := false,
                          xf := .fail (.stage 3) false }] }

/-- … the call succeeds, the first `ToBytes` fails with the transformer's error and records it,
`Into` afterwards reports it too -/
example : callErr (run Fixes.all exLazy) = none ∧
    ((callResp (run Fixes.all exLazy)).map fun r => (consumeAll r [.toBytes, .into]).2) =
      some [some (.stage 3), some (.stage 3)] := by decide

end Req.Props.C18
