import Req.Client.AuthWire
import Req.Lemmas.C20Base64
import Req.Props.C20
/-!
C20 — basic and bearer credentials on the wire: which credential a request carries
(request-level / client-level / URL user information) and what the origin recovers after HTTP
field transport, for every byte string.
-/
namespace Req.Props.C20
open Req.Proto Req.Auth Req.Ascii

/-! ### field transport -/

/-- a byte that passes the transport's check and is not optional white space -/
def solid (c : UInt8) : Bool := isFieldByte c && !isOws c

theorem trimOws_id (v : Bytes) (hh : ∀ a ∈ v.head?, isOws a = false) (hl : ∀ z ∈ v.getLast?, isOws z = false) :
    trimOws v = v := by
  unfold trimOws
  have h1 : v.dropWhile isOws = v := by
    cases v with
    | nil => rfl
    | cons a r => simp [hh a (by simp)]
  rw [h1]
  have h2 : v.reverse.dropWhile isOws = v.reverse := by
    cases hr : v.reverse with
    | nil => rfl
    | cons z zs =>
      have hz : v.getLast? = some z := by rw [← List.head?_reverse, hr]; rfl
      simp [hl z hz]
  rw [h2, List.reverse_reverse]

theorem alpha_solid : ∀ n, n < 64 → solid (Req.Base64.alpha n) = true := by decide

theorem encode_solid : ∀ bs : Bytes, (Req.Base64.encode bs).all solid = true := by
  intro bs
  fun_induction Req.Base64.encode bs with
  | case1 => rfl
  | case2 a =>
    have ha : a.toNat < 256 := UInt8.toNat_lt a
    simp [alpha_solid (a.toNat / 4) (by omega), alpha_solid (a.toNat % 4 * 16) (by omega), Req.Base64.pad]
    decide
  | case3 a b =>
    have ha : a.toNat < 256 := UInt8.toNat_lt a
    have hb : b.toNat < 256 := UInt8.toNat_lt b
    simp [alpha_solid (a.toNat / 4) (by omega), alpha_solid (a.toNat % 4 * 16 + b.toNat / 16) (by omega),
      alpha_solid (b.toNat % 16 * 4) (by omega), Req.Base64.pad]
    decide
  | case4 a b c rest ih =>
    have ha : a.toNat < 256 := UInt8.toNat_lt a
    have hb : b.toNat < 256 := UInt8.toNat_lt b
    have hc : c.toNat < 256 := UInt8.toNat_lt c
    simp [alpha_solid (a.toNat / 4) (by omega), alpha_solid (a.toNat % 4 * 16 + b.toNat / 16) (by omega),
      alpha_solid (b.toNat % 16 * 4 + c.toNat / 64) (by omega), alpha_solid (c.toNat % 64) (by omega), ih]

theorem encode_ne_nil (a : UInt8) (l : Bytes) : Req.Base64.encode (a :: l) ≠ [] := by
  cases l with
  | nil => simp [Req.Base64.encode]
  | cons b l =>
    cases l with
    | nil => simp [Req.Base64.encode]
    | cons c l => simp [Req.Base64.encode]

theorem solid_field {c : UInt8} (h : solid c = true) : isFieldByte c = true := by
  simp only [solid, Bool.and_eq_true] at h; exact h.1

theorem solid_not_ows {c : UInt8} (h : solid c = true) : isOws c = false := by
  simp only [solid, Bool.and_eq_true, Bool.not_eq_true'] at h; exact h.2

/-- the Basic value never needs anything of the transport: it is refused by nobody and loses
nothing -/
theorem basic_transported (h2 : Bool) (u p : Bytes) : transport h2 (basic u p) = some (basic u p) := by
  have henc := encode_solid (u ++ colon :: p)
  have hne : Req.Base64.encode (u ++ colon :: p) ≠ [] := by
    cases u with
    | nil => exact encode_ne_nil _ _
    | cons a r => exact encode_ne_nil _ _
  have hall : (basic u p).all isFieldByte = true := by
    unfold basic
    simp only [List.all_append, Bool.and_eq_true]
    refine ⟨by decide, ?_⟩
    rw [List.all_eq_true] at henc ⊢
    exact fun x hx => solid_field (henc x hx)
  have hlast : ∀ z ∈ (basic u p).getLast?, isOws z = false := by
    intro z hz
    unfold basic at hz
    rw [List.getLast?_append] at hz
    cases hl : (Req.Base64.encode (u ++ colon :: p)).getLast? with
    | none =>
      cases he : Req.Base64.encode (u ++ colon :: p) with
      | nil => exact absurd he hne
      | cons x xs => rw [he] at hl; simp [List.getLast?_cons] at hl
    | some w =>
      rw [hl] at hz
      simp only [Option.some_or, Option.mem_def, Option.some.injEq] at hz
      subst hz
      exact solid_not_ows (List.all_eq_true.mp henc _ (List.mem_of_getLast? hl))
  unfold transport
  simp only [hall, if_true]
  rw [trimOws_id _ (by intro a ha; simp [basic, basicPrefix] at ha; subst ha; decide) hlast]
  cases h2 <;> rfl

/-- **basic_wire_exact**: for EVERY user-id without a colon and EVERY password — any byte
values, CR, LF, NUL, quotes, non-ASCII, empty, any length — the call is not refused and the
origin recovers exactly `(user, password)` after field transport, over HTTP/1.1 and HTTP/2. -/
theorem basic_wire_exact (h2 : Bool) (u p : Bytes) (h : colon ∉ u) : wireBasic h2 u p = some (some (u, p)) := by
  unfold wireBasic
  rw [basic_transported, Option.map_some, basic_roundtrip u p h]

/-- with a colon in the user-id: still never refused, and `user:password` arrives whole -/
theorem basic_wire_joined (h2 : Bool) (u p : Bytes) :
    ∃ u' p', wireBasic h2 u p = some (some (u', p')) ∧ u' ++ colon :: p' = u ++ colon :: p := by
  obtain ⟨u', p', h1, h2⟩ := basic_joined u p
  exact ⟨u', p', by unfold wireBasic; rw [basic_transported, Option.map_some, h1], h2⟩

/-- **bearer_wire_exact**: a token made of bytes a header field can carry (no control byte but
HTAB), not empty and not ending in SP/HTAB, arrives exactly — spaces inside and in front, quotes,
colons, non-ASCII bytes included (HTTP/1.1; over HTTP/2 see `bearer_wire_exact_h2`). -/
theorem bearer_wire_exact (t : Bytes) (hf : t.all isFieldByte = true) (hne : t ≠ [])
    (hl : ∀ z ∈ t.getLast?, isOws z = false) : wireBearer false t = some (some t) := by
  have hall : (bearer t).all isFieldByte = true := by
    unfold bearer
    simp only [List.all_append, Bool.and_eq_true]
    exact ⟨by decide, hf⟩
  have hlast : ∀ z ∈ (bearer t).getLast?, isOws z = false := by
    intro z hz
    unfold bearer at hz
    rw [List.getLast?_append] at hz
    cases hlt : t.getLast? with
    | none =>
      cases t with
      | nil => exact absurd rfl hne
      | cons x xs => simp [List.getLast?_cons] at hlt
    | some w =>
      rw [hlt] at hz
      simp only [Option.some_or, Option.mem_def, Option.some.injEq] at hz
      subst hz
      exact hl _ hlt
  unfold wireBearer transport
  simp only [hall, if_true, Option.map_some, Bool.false_eq_true, if_false]
  rw [trimOws_id _ (by intro a ha; simp [bearer, bearerPrefix] at ha; subst ha; decide) hlast]
  exact congrArg some (bearer_exact t)

/-- over HTTP/2 the value is carried as it is: EVERY token without control bytes arrives exactly,
the empty one and those ending in white space included -/
theorem bearer_wire_exact_h2 (t : Bytes) (hf : t.all isFieldByte = true) : wireBearer true t = some (some t) := by
  have hall : (bearer t).all isFieldByte = true := by
    unfold bearer
    simp only [List.all_append, Bool.and_eq_true]
    exact ⟨by decide, hf⟩
  unfold wireBearer transport
  simp only [hall, if_true, Option.map_some]
  exact congrArg some (bearer_exact t)

/-- **bearer_unsendable_refused**: a token with a control byte (CR, LF, NUL, DEL, …) makes the call
FAIL before anything is sent — never another token, never an injected header line. -/
theorem bearer_unsendable_refused (h2 : Bool) (t : Bytes) (h : t.all isFieldByte = false) :
    wireBearer h2 t = none := by
  have hall : (bearer t).all isFieldByte = false := by
    unfold bearer
    simp [List.all_append, h]
  unfold wireBearer transport
  simp [hall]

/-- The excluded points of "the server recovers exactly the token for all strings", which no HTTP
HTTP/1.1 client can avoid: white space at the END of a token is not part of a field value (it
arrives without), and an empty (or all-white) token leaves `Bearer` without credentials. -/
theorem bearer_trailing_ows_excluded :
    wireBearer false [116, 111, 107, 32] = some (some [116, 111, 107]) ∧
    wireBearer false [32, 116, 111, 107] = some (some [32, 116, 111, 107]) ∧
    wireBearer false [] = some none ∧ wireBearer false [32, 9] = some none := by decide

example : wireBearer false [116, 58, 32, 34, 195, 169] = some (some [116, 58, 32, 34, 195, 169]) := by decide
example : wireBearer true [116, 111, 107, 32] = some (some [116, 111, 107, 32]) := by decide
example : wireBearer false [97, 13, 10, 88, 58, 49] = none ∧ wireBearer true [97, 13, 10, 88, 58, 49] = none := by
  decide
example : wireBasic false [97, 13, 10] [0, 255, 34] = some (some ([97, 13, 10], [0, 255, 34])) := by decide

/-! ### which credential goes out -/

/-- a request-level credential always wins -/
theorem request_level_wins (v : Bytes) (c : Option Bytes) (u : Option (Bytes × Bytes)) :
    effective (some v) c u = some v := rfl

/-- without one, the client-level credential — also when the URL carries user information -/
theorem client_level_over_url (v : Bytes) (u : Option (Bytes × Bytes)) :
    effective none (some v) u = some v := rfl

/-- the user information of the URL is used only when nothing else is configured, as Basic -/
theorem url_userinfo_last (user pass : Bytes) :
    effective none none (some (user, pass)) = some (basic user pass) ∧ effective none none none = none :=
  ⟨rfl, rfl⟩

end Req.Props.C20
