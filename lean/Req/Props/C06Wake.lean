import Req.Props.C06
import Req.Lemmas.C06Wake
import Req.Lemmas.C06WakeW
/-!
C06, round 4 — the liveness half "a peer that stays within its limits never stalls a request
for ever", wake-up discipline.

A `RoundTrip` that finds the connection at the peer's MAX_CONCURRENT_STREAMS parks in
`awaitOpenSlotForStreamLocked` and sleeps on `cc.cond`. `no_lost_wakeup`: in every reachable
state of the model no parked request is *enabled* (connection usable, a slot free) — i.e. every
operation that can make the condition true (a stream ends, is reset or cancelled, the peer
raises the limit, the first SETTINGS frame replaces the initial limit of 100 by the default)
ends in a broadcast that the parked request acts on in the same step. `wake_is_silent` is the
same fact seen from the lane: an extra `cond.Broadcast()` after any operation makes the client
write nothing. The table `Conn.wakes` is tied to the code by the wake-up lane (script lane
without forced broadcasts: an enabled request must go ahead within the barrier) and by the
regenerated fact `condBroadcasters` (Bridge/C06).

On the unchanged code a SETTINGS frame that only raises the limit does not broadcast:
`max_concurrent_wake_counterexample` (finding c06-max-concurrent-wake, fixes/C06-9).
-/
set_option linter.unusedSimpArgs false
namespace Req.Props.C06
open Req.H2 Req.H2.Flow Req.H2.Conn Req.H2.Monitor Req.Lemmas.C06

/-- **no_lost_wakeup** (`enabled_implies_woken`): for every fingerprint with fixes/C06-9 and every
operation list, no RoundTrip is left parked in a state in which it could open its stream. -/
theorem no_lost_wakeup (cfg : Cfg) (hfix : cfg.fixes.mcsWake = true) (ops : List Op) :
    enabled (run cfg ops).1 = false := by
  unfold run
  exact wake_runFrom ops (newConn cfg).1 _ hfix (by simp [enabled, newConn])

/-- **wake_is_silent**: a spurious wake-up (any `cc.cond.Broadcast()`, from any goroutine, at any
moment) never makes the client write a frame — whoever could write had been woken by the
operation that enabled it. (It may let a parked request notice that the connection has become
unusable and give up.) -/
theorem wake_is_silent (cfg : Cfg) (hfix : cfg.fixes.mcsWake = true) (ops : List Op) :
    (step (run cfg ops).1 .wake).2 = [] := by
  have h := no_lost_wakeup cfg hfix ops
  generalize (run cfg ops).1 = st at h
  unfold step
  split
  · rfl
  · rename_i hc
    simp only [apply, wakes, Bool.true_or, if_true, List.nil_append]
    unfold resumePending
    split
    · rfl
    · rename_i r hp
      simp only
      split
      · rfl
      · split
        · rfl
        · rename_i hct
          split
          · rename_i hl
            have hc' : st.closed = false := by cases hx : st.closed <;> simp [hx] at hc ⊢
            have hct' : canTake { st with pendingOpen := none } = true := by
              cases hx : canTake { st with pendingOpen := none } <;> simp [hx] at hct ⊢
            exfalso
            have : enabled st = true := by
              unfold enabled
              rw [hct', hp, hc']
              simp [hl]
            rw [h] at this; cases this
          · rfl

/-- **writer_woken** — the same for the body writers blocked in `awaitFlowControl`: in every state,
whenever an operation raises the send window a live stream's writer sees
(`cs.flow.available()` = min(connection window, stream window)), that operation ends in a
broadcast. Only an applied WINDOW_UPDATE and a SETTINGS frame with SETTINGS_INITIAL_WINDOW_SIZE
can raise it (`noraise_apply`: every other handler leaves every send window where it was or
lower), and both are in the table `Conn.wakes`. -/
theorem writer_woken (st : State) (op : Op) (id : Nat) (a a1 : Int)
    (h0 : availOf st id = some a) (h1 : availOf (apply st op).1 id = some a1) (hup : a < a1) :
    wakes st (apply st op).1 op = true :=
  writer_woken_apply st op id a a1 h0 h1 hup

/-- a writer blocked on a stream window of 0 sees 100 after the peer's WINDOW_UPDATE -/
example :
    let st := (run exampleCfg [.peer (.settings [(sInitialWindowSize, 0)]), .openStream 40 1000 true, .feed 1 0]).1
    availOf st 1 = some 0 ∧ availOf (apply st (.peer (.windowUpdate 1 100))).1 1 = some 100 := by decide

/-- strict mode, the peer allows no stream at first, then five -/
def cfgStrict (fx : Fixes) : Cfg :=
  { settings := [], connFlow := 0, prio := [], hdrPrio := false, maxHeaderList := 10485760, strict := true,
    fixes := fx }

def opsRaise : List Op :=
  [.peer (.settings [(sMaxConcurrentStreams, 0)]), .openStream 51 0 true,
   .peer (.settings [(sMaxConcurrentStreams, 5)])]

example : enabled (run (cfgStrict Fixes.all) [.peer (.settings [(sMaxConcurrentStreams, 0)]), .openStream 51 0 true]).1 = false ∧
    (run (cfgStrict Fixes.all) [.peer (.settings [(sMaxConcurrentStreams, 0)]), .openStream 51 0 true]).1.pendingOpen.isSome = true := by
  decide

/-- unchanged code (fixes/C06-9 off): after the limit was raised the request could go ahead but
sleeps on (its HEADERS are not written until something else broadcasts); repaired: it goes
ahead in the step that raised the limit. The same with the first SETTINGS frame's default. -/
theorem max_concurrent_wake_counterexample :
    enabled (run (cfgStrict { Fixes.all with mcsWake := false }) opsRaise).1 = true ∧
    (history (run (cfgStrict { Fixes.all with mcsWake := false }) opsRaise)).getLast? = some (.c .settingsAck) ∧
    enabled (run (cfgStrict Fixes.all) opsRaise).1 = false ∧
    (history (run (cfgStrict Fixes.all) opsRaise)).getLast? = some (.c (.headers 1 51 true true)) := by decide

end Req.Props.C06
