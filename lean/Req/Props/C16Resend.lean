import Req.Client.Resend
import Req.Props.C16
/-!
C16 for SECOND SENDS (retry, the same request sent again, digest-auth re-send, redirect hop):
the second request carries the same header set as the first — same names in the caller's exact
spelling, same values, same multiplicities, same order lists — except for the one entry the
mechanism is there to change (`Authorization` for digest, `Referer` and, across domains, the
credentials for a redirect).
-/
namespace Req.Props.C16Resend
open Req.Proto Req.Ascii Req.HeaderSort Req.H1 Req.Resend Req.Validate Req.Props.C16

theorem canon_auth : canonicalMIMEHeaderKey sAuthorization = sAuthorization := by decide
theorem canon_referer : canonicalMIMEHeaderKey sReferer = sReferer := by decide

/-- **Shape of a second send**: the header map of the second request is the first one without the
keys the mechanism owns, plus the entry it adds — every other entry is the SAME entry (key
spelling, values, value order). -/
theorem secondHeader_eq (k : Kind) (h : Hdr) :
    secondHeader k h = h.filter (fun kv => !touched k kv.key) ++ added k := by
  cases k with
  | same =>
    simp only [secondHeader, touched, added, List.append_nil, Bool.not_false]
    exact (List.filter_eq_self.mpr (by intros; rfl)).symm
  | digest a => simp [secondHeader, hdrSet, hdrDel, touched, added, canon_auth]
  | redirect strip ref =>
    simp only [secondHeader, touched, added]
    by_cases he : ref.isEmpty
    · simp [he]
    · simp only [he, Bool.false_eq_true, if_false, hdrSet, hdrDel, canon_referer, List.filter_filter,
        Bool.not_false, Bool.true_and]
      congr 1
      apply List.filter_congr
      intro kv _
      cases strip <;> cases sensitive kv.key <;> cases kv.key == sReferer <;> rfl

/-- every entry the mechanism does not own survives as it is (exact spelling — `x-api-KEY` stays
`x-api-KEY`, `X-Dup` and `x-dup` stay two entries). -/
theorem second_keeps_entry (k : Kind) (h : Hdr) (kv : KV) (hm : kv ∈ h)
    (ht : touched k kv.key = false) : kv ∈ secondHeader k h := by
  rw [secondHeader_eq]
  exact List.mem_append_left _ (List.mem_filter.mpr ⟨hm, by simp [ht]⟩)

/-- and nothing appears besides the mechanism's own entry. -/
theorem second_adds_only (k : Kind) (h : Hdr) (kv : KV) (hm : kv ∈ secondHeader k h) :
    kv ∈ h ∨ kv ∈ added k := by
  rw [secondHeader_eq] at hm
  rcases List.mem_append.mp hm with h1 | h1
  · exact Or.inl (List.mem_filter.mp h1).1
  · exact Or.inr h1

/-- the digest re-send of the seeded defect's demo: non-canonical and case-variant names keep
their spelling, the old `Authorization` is replaced. -/
example :
    (secondHeader (.digest [68])
      [⟨[120, 45, 97, 112, 105, 45, 75, 69, 89], [[49]]⟩, ⟨[88, 45, 68, 117, 112], [[50]]⟩,
       ⟨sAuthorization, [[111]]⟩, ⟨[120, 45, 100, 117, 112], [[51]]⟩]).map (·.key) =
    [[120, 45, 97, 112, 105, 45, 75, 69, 89], [88, 45, 68, 117, 112], [120, 45, 100, 117, 112],
     sAuthorization] := by decide

theorem added_keys_touched (k : Kind) : ∀ kv ∈ added k, touched k kv.key = true := by
  intro kv hm
  cases k with
  | same => simp [added] at hm
  | digest a =>
    simp [added] at hm; subst hm; simp [touched]
  | redirect strip ref =>
    simp only [added] at hm
    split at hm
    · simp at hm
    next he =>
      simp at hm; subst hm
      simp [touched, he]

theorem find?_filter_untouched (p : Bytes → Bool) (key : Bytes) (hp : p key = true) (l : Hdr) :
    (l.filter fun kv => p kv.key).find? (·.key == key) = l.find? (·.key == key) := by
  induction l with
  | nil => rfl
  | cons x xs ih =>
    by_cases hx : (x.key == key) = true
    · have hxe : x.key = key := by simpa using hx
      have : p x.key = true := by rw [hxe]; exact hp
      simp [this, hx]
    · by_cases hpx : p x.key = true
      · simp [hpx, hx, ih]
      · simp [hpx, hx, ih]

/-- a lookup of any key the mechanism does not own gives the same values in the same order. -/
theorem second_get (k : Kind) (h : Hdr) (key : Bytes) (ht : touched k key = false) :
    hdrGet? (secondHeader k h) key = hdrGet? h key := by
  rw [secondHeader_eq]
  unfold hdrGet?
  congr 1
  rw [List.find?_append]
  have h1 := find?_filter_untouched (fun x => !touched k x) key (by simp [ht]) h
  rw [h1]
  have h2 : (added k).find? (·.key == key) = none := by
    apply List.find?_eq_none.mpr
    intro kv hm hk
    have hke : kv.key = key := by simpa using hk
    have := added_keys_touched k kv hm
    rw [hke, ht] at this
    exact absurd this (by decide)
  rw [h2]
  cases List.find? (fun x => x.key == key) h <;> rfl

theorem touched_headerOrderKey (k : Kind) : touched k headerOrderKey = false := by
  cases k with
  | same => rfl
  | digest a => simp only [touched]; decide
  | redirect strip ref =>
    have h1 : sensitive headerOrderKey = false := by decide
    have h2 : (headerOrderKey == sReferer) = false := by decide
    simp [touched, h1, h2]

theorem touched_pseudoHeaderOrderKey (k : Kind) : touched k pseudoHeaderOrderKey = false := by
  cases k with
  | same => rfl
  | digest a => simp only [touched]; decide
  | redirect strip ref =>
    have h1 : sensitive pseudoHeaderOrderKey = false := by decide
    have h2 : (pseudoHeaderOrderKey == sReferer) = false := by decide
    simp [touched, h1, h2]

/-- **the order lists travel with the request**: the second send sorts by the same header-order
list and the same pseudo-header-order list as the first. -/
theorem second_order_lists (k : Kind) (h : Hdr) :
    orderList (secondHeader k h) = orderList h ∧
    Req.H2.pseudoOrderList (secondHeader k h) = Req.H2.pseudoOrderList h := by
  unfold orderList Req.H2.pseudoOrderList
  rw [second_get k h _ (touched_headerOrderKey k), second_get k h _ (touched_pseudoHeaderOrderKey k)]
  exact ⟨rfl, rfl⟩

/-! ### on the HTTP/1.1 wire -/

theorem count_linesOf_filter (p : Bytes → Bool) (n v : Bytes) (hp : p n = true) (l : Hdr) :
    (linesOf (l.filter fun kv => p kv.key)).count (n, v) = (linesOf l).count (n, v) := by
  induction l with
  | nil => rfl
  | cons x xs ih =>
    by_cases hpx : p x.key = true
    · simp only [List.filter_cons, hpx, if_true]
      have e : ∀ t : Hdr, linesOf (x :: t) = linesOf [x] ++ linesOf t := by
        intro t; simp [linesOf]
      rw [e, e xs, List.count_append, List.count_append, ih]
    · simp only [List.filter_cons, hpx, Bool.false_eq_true, if_false]
      have e : linesOf (x :: xs) = linesOf [x] ++ linesOf xs := by simp [linesOf]
      rw [e, List.count_append, ih]
      have hz : (linesOf [x]).count (n, v) = 0 := by
        apply List.count_eq_zero.mpr
        intro hm
        obtain ⟨kv, hkv, hk, _⟩ := mem_linesOf hm
        simp at hkv
        subst hkv
        rw [hk] at hpx
        exact hpx hp
      omega

theorem callerFields_filter (p : Bytes → Bool) (h : Hdr) (ex : List Bytes) :
    callerFields (h.filter fun kv => p kv.key) ex = (callerFields h ex).filter fun kv => p kv.key := by
  unfold callerFields
  rw [List.filter_filter, List.filter_map, List.filter_filter]
  congr 1
  apply List.filter_congr
  intro kv _
  simp [Function.comp, Bool.and_comm]

theorem callerFields_append (a b : Hdr) (ex : List Bytes) :
    callerFields (a ++ b) ex = callerFields a ex ++ callerFields b ex := by
  simp [callerFields]

/-- **Every caller line is on the wire of the second send exactly as often as on the first**
(HTTP/1.1): for any header line `(name, value)` whose name — in this exact spelling — is not one
the mechanism owns and not one the writer writes itself, the number of times it appears in the
second request equals the number of times it appears in the first; whatever the order lists, the
map iteration orders and the framing of the two requests. Nothing the caller set is dropped,
duplicated, re-spelled or merged by a second send. -/
theorem resend_wire_count (k : Kind) (r : WReq) (host host' : Bytes) (f f' : Framing)
    (n v : Bytes) (ht : touched k n = false) (hown : n ∉ ownKeysH1) :
    (linesOf (h1Fields { r with header := secondHeader k r.header } host' f')).count (n, v) =
    (linesOf (h1Fields r host f)).count (n, v) := by
  rw [(wire_set_h1 r host f).count_eq, (wire_set_h1 _ host' f').count_eq]
  simp only [List.count_append]
  have hz : ∀ (r0 : WReq) (h0 : Bytes) (f0 : Framing),
      (linesOf (ownFieldsH1 r0 h0 f0)).count (n, v) = 0 := by
    intro r0 h0 f0
    apply List.count_eq_zero.mpr
    intro hm
    obtain ⟨kv, hkv, hk, _⟩ := mem_linesOf hm
    exact hown (hk ▸ ownFieldsH1_keys r0 h0 f0 kv hkv)
  rw [hz, hz]
  have hc : (linesOf (callerFields (secondHeader k r.header) reqWriteExcludeHeader)).count (n, v) =
      (linesOf (callerFields r.header reqWriteExcludeHeader)).count (n, v) := by
    rw [secondHeader_eq, callerFields_append, linesOf_append, List.count_append,
      callerFields_filter (fun x => !touched k x), count_linesOf_filter (fun x => !touched k x) n v (by simp [ht])]
    have hz2 : (linesOf (callerFields (added k) reqWriteExcludeHeader)).count (n, v) = 0 := by
      apply List.count_eq_zero.mpr
      intro hm
      obtain ⟨kv, hkv, hk, _⟩ := mem_linesOf hm
      unfold callerFields at hkv
      obtain ⟨kv0, h0, rfl⟩ := List.mem_map.mp hkv
      have := added_keys_touched k kv0 (List.mem_filter.mp h0).1
      simp only at hk
      rw [hk, ht] at this
      exact absurd this (by decide)
    omega
  simp only [hc]

/-- **the listed headers of the second send are in the order the caller listed** — the list that
was given for the first send. -/
theorem resend_order_respected (k : Kind) (r : WReq) (host : Bytes) (f : Framing)
    (hmode : (orderList r.header).isEmpty = false) :
    ((h1Fields { r with header := secondHeader k r.header } host f).filterMap
      (fun kv => lastIndex (orderList r.header) kv.key)).Pairwise (· ≤ ·) := by
  have h := header_order_h1 { r with header := secondHeader k r.header } host f
    (by simp only [(second_order_lists k r.header).1]; exact hmode)
  simpa only [(second_order_lists k r.header).1] using h

/-- **no bookkeeping key on the wire of a second send** either. -/
theorem resend_no_bookkeeping (k : Kind) (r : WReq) (host : Bytes) (f : Framing)
    (hextra : ∀ kv ∈ r.extra, isBookkeeping kv.key = false) :
    ∀ l ∈ linesOf (h1Fields { r with header := secondHeader k r.header } host f),
      isBookkeeping l.1 = false :=
  h1_no_bookkeeping { r with header := secondHeader k r.header } host f hextra

/-- the transport's own extra headers never carry a bookkeeping key: the hypothesis of
`h1_no_bookkeeping` / `resend_no_bookkeeping` holds for what `persistConn.roundTrip` builds. -/
theorem transportExtra_no_bookkeeping (dc dk : Bool) (r : WReq) :
    ∀ kv ∈ transportExtra dc dk r, isBookkeeping kv.key = false := by
  intro kv hm
  unfold transportExtra at hm
  rcases List.mem_append.mp hm with h1 | h1
  · have := mem_ite_l h1; subst this; decide
  · have := mem_ite_l h1; subst this; decide

/-- non-vacuity of `resend_wire_count` / `resend_order_respected`: digest re-send of a request
with the order list `x-dup, authorization, x-api-key`. -/
example :
    (linesOf (h1Fields
      { method := [71, 69, 84], url := {}, header := secondHeader (.digest [68])
          [⟨[120, 45, 97, 112, 105, 45, 75, 69, 89], [[49]]⟩, ⟨[88, 45, 68, 117, 112], [[50]]⟩,
           ⟨headerOrderKey, [[120, 45, 100, 117, 112], [97, 117, 116, 104, 111, 114, 105, 122, 97, 116, 105, 111, 110],
              [120, 45, 97, 112, 105, 45, 107, 101, 121]]⟩] }
      [104] ⟨false, false, 0⟩)).map (·.1)
    = [sHost, [88, 45, 68, 117, 112], sAuthorization, sUserAgent, [120, 45, 97, 112, 105, 45, 75, 69, 89]] := by
  decide

end Req.Props.C16Resend
