import Req.H1.BufLine
import Req.Lemmas.BufLine
/-!
C13 — dump is transparent and faithful: property theorems.

Part 1 (this section): the response-header line reader.
`dump_readline_equiv`   — the dumping `readLine` installed by `newTextprotoReader` returns the
                          same (line, isPrefix, err) and leaves the bufio reader in the same state
                          as `bufio.ReadLine`, for every buffer size, every reader state and every
                          read script (hence for every line length, also > B).
`dump_readline_exact`   — what it hands to the dumper is exactly what it consumed.
`dump_readlineslice_*`  — the same two facts for `readLineSlice` (the accumulation loop), i.e.
                          for whole status / header lines of any length.
`dump_prog_*`           — and for ANY parser written on top of `readLine` plus direct reader
                          access (ReadMIMEHeader, readContinuedLineSlice, …).
`old_dump_readline_*`   — the closure as it stands in the pinned tree is NOT equivalent: witness
                          for B = 16 (replayed on the implementation with B = 4096 by the lane);
                          it agrees whenever no line reaches the buffer size.
-/
namespace Req.Props.C13
open Req.Proto Req.H1.BufLine

/-! ### the dumping readLine is `bufio.ReadLine` -/

/-- **dump_readline_equiv**: same result, same reader state. (`16 ≤ B` is what
`bufio.NewReaderSize` guarantees; the equality needs no bound.) -/
theorem dump_readline_equiv (B : Nat) (_hB : 16 ≤ B) (st : Rd) :
    ((dumpReadLine B st).1, (dumpReadLine B st).2.1) = readLine B st := by
  cases h : readSlice B st with
  | mk r st1 =>
    simp only [dumpReadLine, readLine, h]
    split <;> split <;> rfl

/-- **dump_readline_exact**: dumped bytes ++ everything still unread = everything that was
unread before: the dump is exactly the consumed bytes (a put-back '\r' is dumped by the call
that finally consumes it). -/
theorem dump_readline_exact (B : Nat) (st : Rd) :
    (dumpReadLine B st).2.2 ++ (dumpReadLine B st).2.1.bytes = st.bytes := by
  have hc := readSlice_bytes B st
  cases h : readSlice B st with
  | mk r st1 =>
    rw [h] at hc
    simp only [dumpReadLine, h]
    simp only [Rd.bytes] at hc ⊢
    split
    · split
      · next hcr =>
        rw [← hc]
        conv => rhs; rw [← lastIs_dropLast hcr]
        simp
      · exact hc
    · split
      · next he => simpa [he] using hc
      · exact hc

example : (dumpReadLine 16 (Rd.ofSrc [⟨[72, 105, 13, 10, 88], none⟩])) =
    (⟨[72, 105], false, none⟩, ⟨[88], none, []⟩, [72, 105, 13, 10]) := by decide

theorem plain_readline_dumps_nothing (B : Nat) (st : Rd) : (plainReadLine B st).2.2 = [] := by
  simp [plainReadLine]

/-! ### whole lines: `readLineSlice` -/

theorem readLineSliceLoop_congr (rl1 rl2 : LineFn)
    (h : ∀ st, ((rl1 st).1, (rl1 st).2.1) = ((rl2 st).1, (rl2 st).2.1))
    (lim : Option Nat) (f : Nat) (acc d1 d2 : Bytes) (st : Rd) :
    (readLineSliceLoop rl1 lim f acc d1 st).res = (readLineSliceLoop rl2 lim f acc d2 st).res ∧
    (readLineSliceLoop rl1 lim f acc d1 st).st = (readLineSliceLoop rl2 lim f acc d2 st).st := by
  induction f generalizing acc d1 d2 st with
  | zero => simp [readLineSliceLoop]
  | succ f ih =>
    have hs := h st
    cases h1 : rl1 st with
    | mk r1 p1 =>
      cases p1 with
      | mk s1 e1 =>
        cases h2 : rl2 st with
        | mk r2 p2 =>
          cases p2 with
          | mk s2 e2 =>
            rw [h1, h2] at hs
            simp only [Prod.mk.injEq] at hs
            obtain ⟨rfl, rfl⟩ := hs
            simp only [readLineSliceLoop, h1, h2]
            split
            · simp
            · split
              · simp
              · split
                · exact ih _ _ _ _
                · simp

/-- **dump_readlineslice_equiv**: a whole line of ANY length (also many times the buffer size)
is read identically — same bytes or same error, same reader state — with and without dump. -/
theorem dump_readlineslice_equiv (B : Nat) (_hB : 16 ≤ B) (lim : Option Nat) (st : Rd) :
    (readLineSlice (dumpReadLine B) lim st).res = (readLineSlice (plainReadLine B) lim st).res ∧
    (readLineSlice (dumpReadLine B) lim st).st = (readLineSlice (plainReadLine B) lim st).st := by
  apply readLineSliceLoop_congr
  intro st
  rw [dump_readline_equiv B _hB st]
  simp [plainReadLine]

theorem readLineSliceLoop_exact (rl : LineFn)
    (h : ∀ st, (rl st).2.2 ++ (rl st).2.1.bytes = st.bytes)
    (lim : Option Nat) (f : Nat) (acc d : Bytes) (st : Rd) :
    (readLineSliceLoop rl lim f acc d st).dumped ++ (readLineSliceLoop rl lim f acc d st).st.bytes
      = d ++ st.bytes := by
  induction f generalizing acc d st with
  | zero => simp [readLineSliceLoop]
  | succ f ih =>
    have hs := h st
    cases h1 : rl st with
    | mk r1 p1 =>
      cases p1 with
      | mk s1 e1 =>
        rw [h1] at hs
        simp only at hs
        simp only [readLineSliceLoop, h1]
        split
        · simp [← hs]
        · split
          · simp [← hs]
          · split
            · rw [ih]; simp [← hs]
            · simp [← hs]

/-- **dump_readlineslice_exact**: the dump of reading one line is exactly the bytes the read
consumed (terminator included), whatever the line length and the read sizes. -/
theorem dump_readlineslice_exact (B : Nat) (lim : Option Nat) (st : Rd) :
    (readLineSlice (dumpReadLine B) lim st).dumped ++ (readLineSlice (dumpReadLine B) lim st).st.bytes
      = st.bytes := by
  have := readLineSliceLoop_exact (dumpReadLine B) (dump_readline_exact B) lim
    (st.bytes.length + 2) [] [] st
  simpa [readLineSlice] using this

-- a 20-byte line through a 16-byte buffer, delivered in two reads
example : (readLineSlice (dumpReadLine 16) none
      (Rd.ofSrc [⟨[88, 45, 65, 58, 32, 97, 97, 97, 97, 97], none⟩,
                 ⟨[97, 97, 97, 97, 97, 97, 97, 97, 13, 10, 89], none⟩])).res
    = .ok [88, 45, 65, 58, 32, 97, 97, 97, 97, 97, 97, 97, 97, 97, 97, 97, 97, 97] := by decide

/-! ### any parser on top of the reader -/

/-- **dump_prog_equiv**: every parser built from `readLine` calls and direct reader access
computes the same result and leaves the same reader state with the dumping `readLine`. -/
theorem dump_prog_equiv {α : Type} (B : Nat) (hB : 16 ≤ B) (p : Prog α) (st : Rd) (d d' : Bytes)
    (e e' : Bool) :
    (p.run (dumpReadLine B) e st d).1 = (p.run (plainReadLine B) e' st d').1 ∧
    (p.run (dumpReadLine B) e st d).2.1 = (p.run (plainReadLine B) e' st d').2.1 := by
  induction p generalizing st d d' with
  | ret a => simp [Prog.run]
  | line k ih =>
    have hs := dump_readline_equiv B hB st
    cases h1 : dumpReadLine B st with
    | mk r1 p1 =>
      cases p1 with
      | mk s1 e1 =>
        rw [h1] at hs
        simp only [Prog.run, h1, plainReadLine, ← hs]
        exact ih _ _ _ _
  | look k ih => simp only [Prog.run]; exact ih _ _ _ _
  | upd f k ih => simp only [Prog.run]; exact ih _ _ _
  | eat f k ih =>
    simp only [Prog.run]
    cases f st with
    | mk e1 s1 => exact ih _ _ _ _

/-- **dump_prog_exact**: for such a parser the dump is exactly the consumed bytes. -/
theorem dump_prog_exact {α : Type} (B : Nat) (p : Prog α) (hp : p.Accounted) (st : Rd) (d : Bytes) :
    (p.run (dumpReadLine B) true st d).2.2 ++ (p.run (dumpReadLine B) true st d).2.1.bytes
      = d ++ st.bytes := by
  induction p generalizing st d with
  | ret a => simp [Prog.run]
  | line k ih =>
    have hs := dump_readline_exact B st
    cases h1 : dumpReadLine B st with
    | mk r1 p1 =>
      cases p1 with
      | mk s1 e1 =>
        rw [h1] at hs
        simp only at hs
        simp only [Prog.run, h1]
        rw [ih _ (hp r1)]
        simp [← hs]
  | look k ih => simp only [Prog.run]; exact ih _ (hp st) _ _
  | upd f k ih => simp only [Prog.run]; rw [ih hp.2, hp.1]
  | eat f k ih =>
    have hs := hp.1 st
    simp only [Prog.run]
    cases h1 : f st with
    | mk e1 s1 =>
      rw [h1] at hs
      simp only at hs
      simp only [if_true]
      rw [ih _ (hp.2 e1)]
      simp [← hs]

/-! ### the closure as it stands in the pinned tree -/

/-- **old_dump_readline_not_equiv**: with a 16-byte buffer and a 20-byte header line the
closure of the pinned tree returns the first 16 bytes as a COMPLETE line (`isPrefix = false`)
where `bufio.ReadLine` reports a prefix: `readLineSlice` then yields a truncated line and the
remainder is parsed as the next header ("malformed MIME header: missing colon"). -/
theorem old_dump_readline_not_equiv :
    ∃ st : Rd, (dumpReadLineOld 16 st).1 ≠ (readLine 16 st).1 ∧
      (readLineSlice (dumpReadLineOld 16) none st).res ≠ (readLineSlice (plainReadLine 16) none st).res :=
  ⟨Rd.ofSrc [⟨[88, 45, 65, 58, 32, 97, 97, 97, 97, 97, 97, 97, 97, 97, 97, 97, 97, 97, 13, 10], none⟩],
    by decide, by decide⟩

/-- …and it is equivalent exactly as long as `ReadSlice` never reports a full buffer, which is
why the 141 tests (short header lines) never see it. -/
theorem old_dump_readline_equiv_when_fits (B : Nat) (st : Rd)
    (h : (readSlice B st).1.err ≠ some .bufferFull) :
    dumpReadLineOld B st = dumpReadLine B st := by
  cases h1 : readSlice B st with
  | mk r st1 =>
    rw [h1] at h
    simp only [dumpReadLineOld, dumpReadLine, h1]
    simp [h]

end Req.Props.C13
