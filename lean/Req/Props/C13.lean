import Req.H1.BufLine
import Req.Lemmas.BufLine
import Req.Client.Dump
/-!
C13 — dump is transparent and faithful: property theorems.

Part 1 (this section): the response-header line reader.
`dump_readline_equiv`   — the dumping `readLine` installed by `newTextprotoReader` returns the
                          same (line, isPrefix, err) and leaves the bufio reader in the same state
                          as `bufio.ReadLine`, for every buffer size, every reader state and every
                          read script (hence for every line length, also > B).
`dump_readline_exact`   — what it hands to the dumper is exactly what it consumed.
`dump_readlineslice_*`  — the same two facts for `readLineSlice` (the accumulation loop), i.e.
                          for whole status / header lines of any length.
`dump_prog_*`           — and for ANY parser written on top of `readLine` plus direct reader
                          access (ReadMIMEHeader, readContinuedLineSlice, …).
`old_dump_readline_*`   — the closure as it stands in the pinned tree is NOT equivalent: witness
                          for B = 16 (replayed on the implementation with B = 4096 by the lane);
                          it agrees whenever no line reaches the buffer size.
-/
namespace Req.Props.C13
open Req.Proto Req.H1.BufLine

/-! ### the dumping readLine is `bufio.ReadLine` -/

/-- **dump_readline_equiv**: same result, same reader state. (`16 ≤ B` is what
`bufio.NewReaderSize` guarantees; the equality needs no bound.) -/
theorem dump_readline_equiv (B : Nat) (_hB : 16 ≤ B) (st : Rd) :
    ((dumpReadLine B st).1, (dumpReadLine B st).2.1) = readLine B st := by
  cases h : readSlice B st with
  | mk r st1 =>
    simp only [dumpReadLine, readLine, h]
    split <;> split <;> rfl

/-- **dump_readline_exact**: dumped bytes ++ everything still unread = everything that was
unread before: the dump is exactly the consumed bytes (a put-back '\r' is dumped by the call
that finally consumes it). -/
theorem dump_readline_exact (B : Nat) (st : Rd) :
    (dumpReadLine B st).2.2 ++ (dumpReadLine B st).2.1.bytes = st.bytes := by
  have hc := readSlice_bytes B st
  cases h : readSlice B st with
  | mk r st1 =>
    rw [h] at hc
    simp only [dumpReadLine, h]
    simp only [Rd.bytes] at hc ⊢
    split
    · split
      · next hcr =>
        rw [← hc]
        conv => rhs; rw [← lastIs_dropLast hcr]
        simp
      · exact hc
    · split
      · next he => simpa [he] using hc
      · exact hc

example : (dumpReadLine 16 (Rd.ofSrc [⟨[72, 105, 13, 10, 88], none⟩])) =
    (⟨[72, 105], false, none⟩, ⟨[88], none, []⟩, [72, 105, 13, 10]) := by decide

/-- The model's recursion fuel is never what ends a `ReadSlice`: the `stuck` marker is
unreachable, every model answer is a Go answer. -/
theorem model_readslice_total (B : Nat) (st : Rd) (hs : st.err ≠ some .stuck) :
    (readSlice B st).1.err ≠ some .stuck := readSlice_not_stuck B st hs

theorem plain_readline_dumps_nothing (B : Nat) (st : Rd) : (plainReadLine B st).2.2 = [] := by
  simp [plainReadLine]

/-! ### whole lines: `readLineSlice` -/

theorem readLineSliceLoop_congr (rl1 rl2 : LineFn)
    (h : ∀ st, ((rl1 st).1, (rl1 st).2.1) = ((rl2 st).1, (rl2 st).2.1))
    (lim : Option Nat) (f : Nat) (acc d1 d2 : Bytes) (st : Rd) :
    (readLineSliceLoop rl1 lim f acc d1 st).res = (readLineSliceLoop rl2 lim f acc d2 st).res ∧
    (readLineSliceLoop rl1 lim f acc d1 st).st = (readLineSliceLoop rl2 lim f acc d2 st).st := by
  induction f generalizing acc d1 d2 st with
  | zero => simp [readLineSliceLoop]
  | succ f ih =>
    have hs := h st
    cases h1 : rl1 st with
    | mk r1 p1 =>
      cases p1 with
      | mk s1 e1 =>
        cases h2 : rl2 st with
        | mk r2 p2 =>
          cases p2 with
          | mk s2 e2 =>
            rw [h1, h2] at hs
            simp only [Prod.mk.injEq] at hs
            obtain ⟨rfl, rfl⟩ := hs
            simp only [readLineSliceLoop, h1, h2]
            split
            · simp
            · split
              · simp
              · split
                · exact ih _ _ _ _
                · simp

/-- **dump_readlineslice_equiv**: a whole line of ANY length (also many times the buffer size)
is read identically — same bytes or same error, same reader state — with and without dump. -/
theorem dump_readlineslice_equiv (B : Nat) (_hB : 16 ≤ B) (lim : Option Nat) (st : Rd) :
    (readLineSlice (dumpReadLine B) lim st).res = (readLineSlice (plainReadLine B) lim st).res ∧
    (readLineSlice (dumpReadLine B) lim st).st = (readLineSlice (plainReadLine B) lim st).st := by
  apply readLineSliceLoop_congr
  intro st
  rw [dump_readline_equiv B _hB st]
  simp [plainReadLine]

theorem readLineSliceLoop_exact (rl : LineFn)
    (h : ∀ st, (rl st).2.2 ++ (rl st).2.1.bytes = st.bytes)
    (lim : Option Nat) (f : Nat) (acc d : Bytes) (st : Rd) :
    (readLineSliceLoop rl lim f acc d st).dumped ++ (readLineSliceLoop rl lim f acc d st).st.bytes
      = d ++ st.bytes := by
  induction f generalizing acc d st with
  | zero => simp [readLineSliceLoop]
  | succ f ih =>
    have hs := h st
    cases h1 : rl st with
    | mk r1 p1 =>
      cases p1 with
      | mk s1 e1 =>
        rw [h1] at hs
        simp only at hs
        simp only [readLineSliceLoop, h1]
        split
        · simp [← hs]
        · split
          · simp [← hs]
          · split
            · rw [ih]; simp [← hs]
            · simp [← hs]

/-- **dump_readlineslice_exact**: the dump of reading one line is exactly the bytes the read
consumed (terminator included), whatever the line length and the read sizes. -/
theorem dump_readlineslice_exact (B : Nat) (lim : Option Nat) (st : Rd) :
    (readLineSlice (dumpReadLine B) lim st).dumped ++ (readLineSlice (dumpReadLine B) lim st).st.bytes
      = st.bytes := by
  have := readLineSliceLoop_exact (dumpReadLine B) (dump_readline_exact B) lim
    (st.bytes.length + 2) [] [] st
  simpa [readLineSlice] using this

/-- The accumulation loop always ends with a Go result (every `isPrefix` round consumes at least
`B - 1 ≥ 1` bytes): the model's `stuck` marker is unreachable here too. `2 ≤ B` is needed —
with a 1-byte buffer `bufio.ReadLine` itself would spin on a lone '\r'. -/
theorem model_readlineslice_total (B : Nat) (hB : 2 ≤ B) (lim : Option Nat) (st : Rd)
    (h : GoodErr st.err) :
    (readLineSlice (dumpReadLine B) lim st).res ≠ .error .stuck := by
  suffices hl : ∀ f acc d (st : Rd), GoodErr st.err → st.bytes.length + 1 ≤ f →
      (readLineSliceLoop (dumpReadLine B) lim f acc d st).res ≠ .error .stuck from
    hl _ [] [] st h (by omega)
  intro f
  induction f with
  | zero => intro _ _ st _ hf; omega
  | succ f ih =>
    intro acc d st h hf
    have hspec := dumpReadLine_spec B st h
    have hex := dump_readline_exact B st
    cases hrl : dumpReadLine B st with
    | mk r p =>
      cases p with
      | mk st1 d1 =>
        rw [hrl] at hspec hex
        simp only at hspec hex
        simp only [readLineSliceLoop, hrl]
        split
        · next e he =>
          intro hc
          simp only [Res.error.injEq] at hc
          exact hspec.2.1 (he.trans (congrArg some hc))
        · split
          · simp
          · split
            · next hp =>
              apply ih _ _ st1 hspec.1
              have h1 := hspec.2.2 hp
              have h2 := congrArg List.length hex
              simp only [List.length_append] at h2
              omega
            · simp

-- a 20-byte line through a 16-byte buffer, delivered in two reads
example : (readLineSlice (dumpReadLine 16) none
      (Rd.ofSrc [⟨[88, 45, 65, 58, 32, 97, 97, 97, 97, 97], none⟩,
                 ⟨[97, 97, 97, 97, 97, 97, 97, 97, 13, 10, 89], none⟩])).res
    = .ok [88, 45, 65, 58, 32, 97, 97, 97, 97, 97, 97, 97, 97, 97, 97, 97, 97, 97] := by decide

/-! ### any parser on top of the reader -/

/-- **dump_prog_equiv**: every parser built from `readLine` calls and direct reader access
computes the same result and leaves the same reader state with the dumping `readLine`. -/
theorem dump_prog_equiv {α : Type} (B : Nat) (hB : 16 ≤ B) (p : Prog α) (st : Rd) (d d' : Bytes)
    (e e' : Bool) :
    (p.run (dumpReadLine B) e st d).1 = (p.run (plainReadLine B) e' st d').1 ∧
    (p.run (dumpReadLine B) e st d).2.1 = (p.run (plainReadLine B) e' st d').2.1 := by
  induction p generalizing st d d' with
  | ret a => simp [Prog.run]
  | line k ih =>
    have hs := dump_readline_equiv B hB st
    cases h1 : dumpReadLine B st with
    | mk r1 p1 =>
      cases p1 with
      | mk s1 e1 =>
        rw [h1] at hs
        simp only [Prog.run, h1, plainReadLine, ← hs]
        exact ih _ _ _ _
  | look k ih => simp only [Prog.run]; exact ih _ _ _ _
  | upd f k ih => simp only [Prog.run]; exact ih _ _ _
  | eat f k ih =>
    simp only [Prog.run]
    cases f st with
    | mk e1 s1 => exact ih _ _ _ _

/-- **dump_prog_exact**: for such a parser the dump is exactly the consumed bytes. -/
theorem dump_prog_exact {α : Type} (B : Nat) (p : Prog α) (hp : p.Accounted) (st : Rd) (d : Bytes) :
    (p.run (dumpReadLine B) true st d).2.2 ++ (p.run (dumpReadLine B) true st d).2.1.bytes
      = d ++ st.bytes := by
  induction p generalizing st d with
  | ret a => simp [Prog.run]
  | line k ih =>
    have hs := dump_readline_exact B st
    cases h1 : dumpReadLine B st with
    | mk r1 p1 =>
      cases p1 with
      | mk s1 e1 =>
        rw [h1] at hs
        simp only at hs
        simp only [Prog.run, h1]
        rw [ih _ (hp r1)]
        simp [← hs]
  | look k ih => simp only [Prog.run]; exact ih _ (hp st) _ _
  | upd f k ih => simp only [Prog.run]; rw [ih hp.2, hp.1]
  | eat f k ih =>
    have hs := hp.1 st
    simp only [Prog.run]
    cases h1 : f st with
    | mk e1 s1 =>
      rw [h1] at hs
      simp only at hs
      simp only [if_true]
      rw [ih _ (hp.2 e1)]
      simp [← hs]

/-- A header line with one obs-fold continuation, read the way `readContinuedLineSlice` does:
`readLine`, `skipSpace` (direct ReadByte access), `readLine`. -/
def foldProg (B : Nat) : Prog (Bytes × Bytes × Bytes) :=
  .line fun r1 => .eat (skipSpace B) fun sp => .line fun r2 => .ret (r1.line, sp, r2.line)

/-- …is accounted (`skipSpace` returns exactly what it removed), so `dump_prog_exact` applies:
after fixes/C13-2 the blanks eaten by `skipSpace` are in the dump. -/
theorem foldProg_accounted (B : Nat) : (foldProg B).Accounted :=
  fun _ => ⟨fun st => skipSpace_bytes B st, fun _ _ => trivial⟩

theorem foldProg_dump_exact (B : Nat) (st : Rd) :
    ((foldProg B).run (dumpReadLine B) true st []).2.2 ++
      ((foldProg B).run (dumpReadLine B) true st []).2.1.bytes = st.bytes := by
  simpa using dump_prog_exact B (foldProg B) (foldProg_accounted B) st []

-- "A: b\r\n  c\r\nX": lines "A: b" and "c", two blanks eaten, all 11 consumed bytes dumped
example : (foldProg 16).run (dumpReadLine 16) true
      (Rd.ofSrc [⟨[65, 58, 32, 98, 13, 10, 32, 32, 99, 13, 10, 88], none⟩]) []
    = (([65, 58, 32, 98], [32, 32], [99]), ⟨[88], none, []⟩,
       [65, 58, 32, 98, 13, 10, 32, 32, 99, 13, 10]) := by decide

/-! ### the closure as it stands in the pinned tree -/

/-- **old_dump_readline_not_equiv**: with a 16-byte buffer and a 20-byte header line the
closure of the pinned tree returns the first 16 bytes as a COMPLETE line (`isPrefix = false`)
where `bufio.ReadLine` reports a prefix: `readLineSlice` then yields a truncated line and the
remainder is parsed as the next header ("malformed MIME header: missing colon"). -/
theorem old_dump_readline_not_equiv :
    ∃ st : Rd, (dumpReadLineOld 16 st).1 ≠ (readLine 16 st).1 ∧
      (readLineSlice (dumpReadLineOld 16) none st).res ≠ (readLineSlice (plainReadLine 16) none st).res :=
  ⟨Rd.ofSrc [⟨[88, 45, 65, 58, 32, 97, 97, 97, 97, 97, 97, 97, 97, 97, 97, 97, 97, 97, 13, 10], none⟩],
    by decide, by decide⟩

/-- …and it is equivalent exactly as long as `ReadSlice` never reports a full buffer, which is
why the 141 tests (short header lines) never see it. -/
theorem old_dump_readline_equiv_when_fits (B : Nat) (st : Rd)
    (h : (readSlice B st).1.err ≠ some .bufferFull) :
    dumpReadLineOld B st = dumpReadLine B st := by
  cases h1 : readSlice B st with
  | mk r st1 =>
    rw [h1] at h
    simp only [dumpReadLineOld, dumpReadLine, h1]
    simp [h]

end Req.Props.C13

/-!
Part 2: routing, wrappers, async delivery (`Req.Client.Dump`).
`routing_resolve_*`      — which writer a part resolves to (own > direction > Output()).
`routing`                — one dumper, one attempt: an enabled non-empty part is emitted exactly
                           once, to exactly its resolved writer; a disabled part never.
`selected_parts_exact`   — the bytes a writer holds are exactly the enabled parts resolved to
                           it, each once, in order — for any number of dumpers and attempts.
`wrappers_transparent`   — what passes through a dump wrapper (results seen by the caller, state
                           of the wrapped writer/reader) is unchanged, for every sequence of
                           writes / read sizes, also when wrappers are nested.
`wrappers_exact`         — the wrapper dumped exactly the bytes that passed, once.
`async_same_content`     — for every schedule of the sending goroutines and the `Start` loop the
                           writers receive a prefix of what the synchronous dump writes, in order;
                           all of it once the queue is drained; a fair schedule drains it.
`unstarted_async_*`      — a dumper nobody started writes nothing and blocks its 21st sender
                           (the request-level async defect of the pinned tree).
-/
namespace Req.Props.C13
open Req.Proto Req.Client.Dump

/-! ### routing -/

theorem routing_resolve_own (o : Opts) :
    (∀ w, o.requestHeaderOutput = some w → o.resolve .reqHeader = w) ∧
    (∀ w, o.requestBodyOutput = some w → o.resolve .reqBody = w) ∧
    (∀ w, o.responseHeaderOutput = some w → o.resolve .respHeader = w) ∧
    (∀ w, o.responseBodyOutput = some w → o.resolve .respBody = w) := by
  refine ⟨?_, ?_, ?_, ?_⟩ <;> intro w h <;> simp [Opts.resolve, pick, h]

theorem routing_resolve_direction (o : Opts) :
    (∀ w, o.requestHeaderOutput = none → o.requestOutput = some w → o.resolve .reqHeader = w) ∧
    (∀ w, o.requestBodyOutput = none → o.requestOutput = some w → o.resolve .reqBody = w) ∧
    (∀ w, o.responseHeaderOutput = none → o.responseOutput = some w → o.resolve .respHeader = w) ∧
    (∀ w, o.responseBodyOutput = none → o.responseOutput = some w → o.resolve .respBody = w) := by
  refine ⟨?_, ?_, ?_, ?_⟩ <;> intro w h1 h2 <;> simp [Opts.resolve, pick, h1, h2]

theorem routing_resolve_default (o : Opts) :
    (o.requestHeaderOutput = none → o.requestOutput = none → o.resolve .reqHeader = o.out) ∧
    (o.requestBodyOutput = none → o.requestOutput = none → o.resolve .reqBody = o.out) ∧
    (o.responseHeaderOutput = none → o.responseOutput = none → o.resolve .respHeader = o.out) ∧
    (o.responseBodyOutput = none → o.responseOutput = none → o.resolve .respBody = o.out) := by
  refine ⟨?_, ?_, ?_, ?_⟩ <;> intro h1 h2 <;> simp [Opts.resolve, pick, h1, h2]

/-- After `newDumper` the default writer is never a nil one and only `Output` was touched. -/
theorem newDumper_out (o : Opts) :
    (newDumper o).out = (match o.output with | some w => w | none => stderr) ∧
    ∀ p, (newDumper o).enabled p = o.enabled p := by
  constructor
  · unfold newDumper Opts.out; cases h : o.output <;> simp [h]
  · intro p; unfold newDumper; cases h : o.output <;> cases p <;> rfl

theorem events_of_part (c : Part → Bool) (ev : Part → PartEvent) (hev : ∀ q, (ev q).part = q)
    (p : Part) (ps : List Part) (hnd : ps.Nodup) :
    ((ps.filterMap fun q => if c q then some (ev q) else none).filter (·.part = p))
    = if p ∈ ps ∧ c p = true then [ev p] else [] := by
  induction ps with
  | nil => simp
  | cons q qs ih =>
    have hq : q ∉ qs := (List.nodup_cons.mp hnd).1
    have ih := ih (List.nodup_cons.mp hnd).2
    simp only [List.filterMap_cons]
    by_cases hc : c q = true
    · simp only [hc, if_true, List.filter_cons, hev]
      by_cases hqp : q = p
      · subst hqp
        rw [ih]; simp [hq, hc]
      · have : ¬ p = q := fun h => hqp h.symm
        rw [ih]; simp [hqp, this]
    · simp only [Bool.not_eq_true] at hc
      simp only [hc, Bool.false_eq_true, if_false]
      by_cases hqp : q = p
      · subst hqp
        rw [ih]; simp [hq, hc]
      · have : ¬ p = q := fun h => hqp h.symm
        rw [ih]; simp [this]

/-- **routing**: an enabled (non-empty) part goes, exactly once, to exactly the writer it
resolves to; a disabled part goes to no writer. -/
theorem routing (o : Opts) (e : Exchange) (p : Part) :
    (o.enabled p = true → (e.part p).isEmpty = false →
      (dumperEvents o e).filter (·.part = p) = [⟨o.resolve p, p, e.part p⟩]) ∧
    (o.enabled p = false → (dumperEvents o e).filter (·.part = p) = []) := by
  have hall : p ∈ Part.all := by cases p <;> simp [Part.all]
  have h := events_of_part (fun q => o.enabled q && !(e.part q).isEmpty)
    (fun q => ⟨o.resolve q, q, e.part q⟩) (fun _ => rfl) p Part.all (by decide)
  unfold dumperEvents
  constructor
  · intro h1 h2
    rw [h]; simp [hall, h1, h2]
  · intro h1
    rw [h]; simp [h1]

example : dumperEvents { requestHeader := true, responseBody := true, output := some 1,
                         responseBodyOutput := some 2 } ⟨[71], [1], [72], [98]⟩
    = [⟨1, .reqHeader, [71]⟩, ⟨2, .respBody, [98]⟩] := by decide

/-- **presets_exact**: a convenience setter switches off exactly the parts it names and never
switches a part on; nothing else about routing changes. -/
theorem presets_exact (p : Preset) (o : Opts) (q : Part) :
    (p.apply o).enabled q = (o.enabled q && !(p.off.contains q)) := by
  cases p <;> cases q <;> simp [Preset.apply, Preset.off, Opts.enabled]

theorem presets_only_narrow (ps : List Preset) (o : Opts) (q : Part) :
    (applyPresets ps o).enabled q = true → o.enabled q = true := by
  induction ps generalizing o with
  | nil => simp [applyPresets]
  | cons p ps ih =>
    intro h
    have := ih (p.apply o) h
    rw [presets_exact] at this
    simp only [Bool.and_eq_true] at this
    exact this.1

example : (applyPresets [.withoutRequestBody, .withoutResponse] (defaultOpts stdout)).enabled .reqHeader = true ∧
    (applyPresets [.withoutRequestBody, .withoutResponse] (defaultOpts stdout)).enabled .reqBody = false := by decide

/-! ### each selected part exactly once, nothing else -/

theorem contentP_append (w : Writer) (a b : List PartEvent) :
    contentP w (a ++ b) = contentP w a ++ contentP w b := by
  induction a with
  | nil => simp [contentP]
  | cons x xs ih => simp [contentP, ih]

theorem contentP_dumper (o : Opts) (e : Exchange) (w : Writer) (ps : List Part) :
    contentP w (ps.filterMap fun p =>
        if o.enabled p && !(e.part p).isEmpty then some (⟨o.resolve p, p, e.part p⟩ : PartEvent) else none)
    = (ps.filter fun p => o.enabled p && o.resolve p == w).flatMap e.part := by
  induction ps with
  | nil => simp [contentP]
  | cons q qs ih =>
    simp only [List.filterMap_cons, List.filter_cons]
    by_cases h1 : o.enabled q = true <;> by_cases h2 : (e.part q).isEmpty = true <;>
      by_cases h3 : o.resolve q = w <;> simp_all [contentP]

/-- The selected parts of one attempt for writer `w`: the enabled parts that resolve to `w`,
in wire order. -/
def selectedParts (o : Opts) (e : Exchange) (w : Writer) : Bytes :=
  (Part.all.filter fun p => o.enabled p && o.resolve p == w).flatMap e.part

theorem contentP_dumpers (ds : List Opts) (e : Exchange) (w : Writer) :
    contentP w (ds.flatMap fun o => dumperEvents o e) = ds.flatMap fun o => selectedParts o e w := by
  induction ds with
  | nil => simp [contentP]
  | cons o os ih =>
    simp only [List.flatMap_cons, contentP_append, ih]
    congr 1
    exact contentP_dumper o e w Part.all

/-- **selected_parts_exact**: for any dumper list (client-level, request-level, both) and any
number of attempts (retries, redirect hops) writer `w` holds exactly the selected parts, each
once, attempt after attempt. -/
theorem selected_parts_exact (ds : List Opts) (es : List Exchange) (w : Writer) :
    expectedDump ds es w = es.flatMap fun e => ds.flatMap fun o => selectedParts o e w := by
  unfold expectedDump expectedEvents
  induction es with
  | nil => simp [contentP]
  | cons e es ih =>
    simp only [List.flatMap_cons, contentP_append, ih, contentP_dumpers]

theorem disabled_part_dumpers (ds : List Opts) (e : Exchange) (p : Part)
    (h : ∀ o ∈ ds, o.enabled p = false) :
    (ds.flatMap fun o => dumperEvents o e).filter (·.part = p) = [] := by
  induction ds with
  | nil => simp
  | cons o os ih =>
    simp only [List.flatMap_cons, List.filter_append]
    rw [(routing o e p).2 (h o (by simp)), ih (fun o' ho' => h o' (by simp [ho']))]
    simp

/-- Nothing of a part that is switched off in every dumper reaches any writer. -/
theorem disabled_part_nowhere (ds : List Opts) (es : List Exchange) (p : Part)
    (h : ∀ o ∈ ds, o.enabled p = false) :
    (expectedEvents ds es).filter (·.part = p) = [] := by
  unfold expectedEvents
  induction es with
  | nil => simp
  | cons e es ih =>
    simp only [List.flatMap_cons, List.filter_append, ih, List.append_nil]
    exact disabled_part_dumpers ds e p h

example : expectedDump
    [{ requestHeader := true, responseBody := true, output := some 1, responseBodyOutput := some 2 },
     { responseBody := true, requestBody := true, output := some 3 }]
    [⟨[71], [1], [72], [98]⟩, ⟨[71], [], [72], [99]⟩] 3 = [1, 98, 99] := by decide

/-! ### per request: a sequence of requests on one connection -/

theorem selectedParts_foreign (o : Opts) (e : Exchange) (w : Writer)
    (h : w ∉ Part.all.map o.resolve) : selectedParts o e w = [] := by
  unfold selectedParts
  have : (Part.all.filter fun p => o.enabled p && o.resolve p == w) = [] := by
    apply List.filter_eq_nil_iff.mpr
    intro p hp
    simp only [Bool.and_eq_true, beq_iff_eq, not_and]
    intro _ hw
    exact h (List.mem_map.mpr ⟨p, hp, hw⟩)
  simp [this]

theorem expectedDump_foreign (ds : List Opts) (e : Exchange) (w : Writer)
    (h : w ∉ writersOf ds) : expectedDump ds [e] w = [] := by
  rw [selected_parts_exact]
  simp only [List.flatMap_cons, List.flatMap_nil, List.append_nil]
  induction ds with
  | nil => simp
  | cons o os ih =>
    simp only [writersOf, List.flatMap_cons, List.mem_append, not_or] at h
    simp only [List.flatMap_cons]
    rw [selectedParts_foreign o e w h.1, ih (by simpa [writersOf] using h.2)]
    simp

/-- **per_request_exact**: in a sequence of requests (one keep-alive connection, one
multiplexed connection) with per-request dumpers, a writer holds, request after request,
exactly the selected parts of the requests whose dumpers resolve to it… -/
theorem per_request_exact (steps : List ReqStep) (w : Writer) :
    expectedDumpSeq steps w =
      steps.flatMap fun s => s.1.flatMap fun o => selectedParts o s.2 w := by
  unfold expectedDumpSeq
  congr 1
  funext s
  rw [selected_parts_exact]
  simp

/-- **per_request_isolated**: …so a writer that only request `s`'s dumpers use holds exactly
that request's selected parts: nothing of an earlier or later exchange on the same connection
(the seeded defect "cached response-header reader" is a violation of this). -/
theorem per_request_isolated (before after : List ReqStep) (s : ReqStep) (w : Writer)
    (hb : ∀ t ∈ before, w ∉ writersOf t.1) (ha : ∀ t ∈ after, w ∉ writersOf t.1) :
    expectedDumpSeq (before ++ s :: after) w = expectedDump s.1 [s.2] w := by
  have nil_of : ∀ l : List ReqStep, (∀ t ∈ l, w ∉ writersOf t.1) → expectedDumpSeq l w = [] := by
    intro l hl
    unfold expectedDumpSeq
    induction l with
    | nil => simp
    | cons t ts ih =>
      simp only [List.flatMap_cons]
      rw [expectedDump_foreign t.1 t.2 w (hl t (by simp)), ih (fun u hu => hl u (by simp [hu]))]
      simp
  have hB := nil_of before hb
  have hA := nil_of after ha
  unfold expectedDumpSeq at hB hA ⊢
  simp only [List.flatMap_append, List.flatMap_cons, hB, hA, List.nil_append, List.append_nil]

example : expectedDumpSeq
    [([{ responseHeader := true, output := some 120 }], ⟨[71], [], [72], [98]⟩),
     ([{ responseHeader := true, output := some 220 }], ⟨[71], [], [73], [99]⟩)] 120 = [72] := by decide

/-! ### wrappers -/

/-- **wrappers_transparent** (writers): for every sequence of writes, the results the caller
sees and everything the wrapped writer experiences are the same as without the wrapper. -/
theorem wrappers_transparent {σ : Type} (w : WriterM σ) (s : σ) (d : Bytes) (ps : List Bytes) :
    ((wrapWriter w).runAll (s, d) ps).1 = (w.runAll s ps).1 ∧
    ((wrapWriter w).runAll (s, d) ps).2.1 = (w.runAll s ps).2 := by
  induction ps generalizing s d with
  | nil => simp [WriterM.runAll]
  | cons p ps ih =>
    have := ih (w.write s p).2 (d ++ p.take (w.write s p).1.n)
    simp only [WriterM.runAll, wrapWriter] at this ⊢
    simp [this.1, this.2]

/-- What passed: the accepted prefix of every write. -/
def passed : List Bytes → List IORes → Bytes
  | p :: ps, r :: rs => p.take r.n ++ passed ps rs
  | _, _ => []

/-- **wrappers_exact** (writers): the dump is exactly the bytes that passed, once. -/
theorem wrappers_exact {σ : Type} (w : WriterM σ) (s : σ) (d : Bytes) (ps : List Bytes) :
    ((wrapWriter w).runAll (s, d) ps).2.2 = d ++ passed ps (w.runAll s ps).1 := by
  induction ps generalizing s d with
  | nil => simp [WriterM.runAll, passed]
  | cons p ps ih =>
    have := ih (w.write s p).2 (d ++ p.take (w.write s p).1.n)
    simp only [WriterM.runAll, wrapWriter] at this ⊢
    simp [this, passed]

/-- Two dumpers (client-level and request-level) wrap the same writer twice: still
transparent, and both dump the same bytes. -/
theorem wrappers_nested {σ : Type} (w : WriterM σ) (s : σ) (ps : List Bytes) :
    ((wrapWriter (wrapWriter w)).runAll ((s, []), []) ps).1 = (w.runAll s ps).1 ∧
    ((wrapWriter (wrapWriter w)).runAll ((s, []), []) ps).2.1.1 = (w.runAll s ps).2 ∧
    ((wrapWriter (wrapWriter w)).runAll ((s, []), []) ps).2.2 =
      ((wrapWriter (wrapWriter w)).runAll ((s, []), []) ps).2.1.2 := by
  have t1 := wrappers_transparent (wrapWriter w) (s, []) [] ps
  have t2 := wrappers_transparent w s [] ps
  have e1 := wrappers_exact (wrapWriter w) (s, []) [] ps
  have e2 := wrappers_exact w s [] ps
  refine ⟨t1.1.trans t2.1, ?_, ?_⟩
  · rw [t1.2]; exact t2.2
  · rw [e1, t1.2, e2, t2.1]

/-- **wrappers_transparent** (response body reader): for every sequence of read sizes the
caller gets the same data and errors, and the wrapped reader ends in the same state. -/
theorem wrappers_transparent_reader {σ : Type} (r : ReaderM σ) (s : σ) (d : Bytes) (k : Nat)
    (caps : List Nat) :
    ((wrapReader r).runAll (s, d, k) caps).1 = (r.runAll s caps).1 ∧
    ((wrapReader r).runAll (s, d, k) caps).2.1 = (r.runAll s caps).2 := by
  induction caps generalizing s d k with
  | nil => simp [ReaderM.runAll]
  | cons c cs ih =>
    have := ih (r.read s c).2 (d ++ (r.read s c).1.1) (if (r.read s c).1.2 = 1 then k + 1 else k)
    simp only [ReaderM.runAll, wrapReader] at this ⊢
    simp [this.1, this.2]

def received : List (Bytes × Nat) → Bytes
  | [] => []
  | x :: xs => x.1 ++ received xs

def eofs : List (Bytes × Nat) → Nat
  | [] => 0
  | x :: xs => (if x.2 = 1 then 1 else 0) + eofs xs

/-- **wrappers_exact** (response body reader): the dumped body is exactly the bytes the caller
received, once, and one separator is written per reported EOF. -/
theorem wrappers_exact_reader {σ : Type} (r : ReaderM σ) (s : σ) (d : Bytes) (k : Nat)
    (caps : List Nat) :
    ((wrapReader r).runAll (s, d, k) caps).2.2.1 = d ++ received (r.runAll s caps).1 ∧
    ((wrapReader r).runAll (s, d, k) caps).2.2.2 = k + eofs (r.runAll s caps).1 := by
  induction caps generalizing s d k with
  | nil => simp [ReaderM.runAll, received, eofs]
  | cons c cs ih =>
    have := ih (r.read s c).2 (d ++ (r.read s c).1.1) (if (r.read s c).1.2 = 1 then k + 1 else k)
    simp only [ReaderM.runAll, wrapReader] at this ⊢
    refine ⟨by simp [this.1, received], ?_⟩
    rw [this.2]
    simp only [eofs]
    split <;> omega

example : ((wrapWriter limitedWriter).runAll ((5, []), []) [[1, 2, 3], [4, 5, 6], [7]]) =
    ([⟨3, 0⟩, ⟨2, 2⟩, ⟨0, 2⟩], ((0, [1, 2, 3, 4, 5]), [1, 2, 3, 4, 5])) := by decide

example : ((wrapReader (bytesReader false)).runAll ([1, 2, 3], [], 0) [2, 2, 2]) =
    ([([1, 2], 0), ([3], 0), ([], 1)], ([], [1, 2, 3], 1)) := by decide

/-! ### async delivery -/

/-- Channel invariant: written ++ queued ++ not-yet-sent is the program-order event list. -/
theorem chan_step_inv (cap : Nat) (c c' : Chan) (st : Step) (h : c.step cap st = some c') :
    c'.written ++ c'.queue ++ c'.todo = c.written ++ c.queue ++ c.todo ∧ c'.started = c.started := by
  cases st with
  | send =>
    simp only [Chan.step] at h
    split at h
    · cases h
    · split at h
      · cases h; simp_all
      · cases h
  | recv =>
    simp only [Chan.step] at h
    split at h
    · split at h
      · cases h
      · cases h; simp_all
    · cases h

theorem chan_run_inv (cap : Nat) (c : Chan) (sched : List Step) :
    (c.run cap sched).written ++ (c.run cap sched).queue ++ (c.run cap sched).todo
      = c.written ++ c.queue ++ c.todo ∧ (c.run cap sched).started = c.started := by
  induction sched generalizing c with
  | nil => simp [Chan.run]
  | cons s ss ih =>
    simp only [Chan.run]
    cases h : c.step cap s with
    | none => exact ih c
    | some c' =>
      have h1 := chan_step_inv cap c c' s h
      have h2 := ih c'
      exact ⟨h2.1.trans h1.1, h2.2.trans h1.2⟩

theorem content_append (w : Writer) (a b : List Event) :
    content w (a ++ b) = content w a ++ content w b := by
  induction a with
  | nil => simp [content]
  | cons x xs ih => simp [content, ih]

/-- **async_same_content**: under EVERY schedule of senders and the `Start` loop, what has been
written is a prefix (in program order) of the synchronous dump; once the queue is drained every
writer holds exactly the synchronous content. -/
theorem async_same_content (cap : Nat) (evs : List Event) (sched : List Step) :
    let c := (Chan.mk evs [] [] true).run cap sched
    (∃ rest, c.written ++ rest = evs) ∧
    (c.done = true → ∀ w, content w c.written = content w evs) := by
  intro c
  have h := (chan_run_inv cap ⟨evs, [], [], true⟩ sched).1
  simp only [List.nil_append] at h
  constructor
  · exact ⟨c.queue ++ c.todo, by simpa [List.append_assoc] using h⟩
  · intro hd w
    simp only [Chan.done, Bool.and_eq_true, List.isEmpty_iff] at hd
    have : c.written = evs := by
      have h' := h
      simp only [c] at hd
      rw [hd.1, hd.2] at h'
      simpa using h'
    rw [this]

/-- The alternating schedule send, recv, send, recv, … drains any event list (capacity ≥ 1):
delivery does complete, so the theorem above is not vacuous. -/
def alternating : Nat → List Step
  | 0 => []
  | n + 1 => .send :: .recv :: alternating n

theorem async_alternating_drains (cap : Nat) (hcap : 0 < cap) (evs wr : List Event) :
    ((Chan.mk evs [] wr true).run cap (alternating evs.length)).done = true := by
  induction evs generalizing wr with
  | nil => simp [alternating, Chan.run, Chan.done]
  | cons e es ih =>
    simp only [List.length_cons, alternating, Chan.run, Chan.step, List.length_nil, hcap, if_true,
      List.nil_append]
    exact ih _

theorem lifeStep_started (st : Option DumperSt) (op : LifeOp)
    (hst : ∀ x, st = some x → x.started = true) :
    ∀ x, lifeStep st op = some x → x.started = true := by
  intro x hx
  cases st with
  | none => cases op <;> simp [lifeStep] at hx <;> subst hx <;> rfl
  | some d0 =>
    have h0 := hst d0 rfl
    cases op <;> simp [lifeStep] at hx <;> subst hx <;> simp [h0]

theorem lifeFold_started (ops : List LifeOp) (st : Option DumperSt)
    (hst : ∀ x, st = some x → x.started = true) :
    ∀ y, ops.foldl lifeStep st = some y → y.started = true := by
  induction ops generalizing st with
  | nil => intro y hy; exact hst y hy
  | cons op ops ih =>
    intro y hy
    exact ih (lifeStep st op) (lifeStep_started st op hst) y hy

/-- **lifecycle_always_started**: after ANY sequence of enabling, re-configuring (also
sync → async on a live dumper), disabling and cloning, the client's dumper — if there is one —
has a running `Start` loop, hence (`async_same_content`, `async_alternating_drains`) delivers
whatever its options are switched to later. (A clone that starts the loop only when the copied
options are async at that moment breaks exactly this.) -/
theorem lifecycle_always_started (ops : List LifeOp) (d : DumperSt) (h : lifeRun ops = some d) :
    d.started = true ∧ d.delivers = true := by
  have := lifeFold_started ops none (by simp) d h
  simp [DumperSt.delivers, this]

example : lifeRun [.set false, .clone, .asyncAll] = some ⟨true, true⟩ := by decide

/-- **unstarted_async_writes_nothing**: a dumper whose `Start` loop was never launched (every
request-level dumper of the pinned tree) writes nothing under any schedule… -/
theorem unstarted_async_writes_nothing (cap : Nat) (evs : List Event) (sched : List Step) :
    ((Chan.mk evs [] [] false).run cap sched).written = [] := by
  suffices h : ∀ c : Chan, c.started = false → c.written = [] → (c.run cap sched).written = [] from
    h _ rfl rfl
  induction sched with
  | nil => intro c _ hw; simpa [Chan.run] using hw
  | cons s ss ih =>
    intro c hs hw
    simp only [Chan.run]
    cases h : c.step cap s with
    | none => exact ih c hs hw
    | some c' =>
      apply ih c'
      · exact (chan_step_inv cap c c' s h).2.trans hs
      · cases s with
        | send =>
          simp only [Chan.step] at h
          split at h
          · cases h
          · split at h
            · cases h; simpa using hw
            · cases h
        | recv => simp [Chan.step, hs] at h

/-- …and once `cap` tasks are queued the next `DumpTo` blocks for ever: no step is enabled. -/
theorem unstarted_async_blocks (cap : Nat) (c : Chan) (hs : c.started = false)
    (hfull : c.queue.length = cap) (st : Step) : c.step cap st = none := by
  cases st with
  | send =>
    simp only [Chan.step]
    split
    · rfl
    · simp [hfull]
  | recv => simp [Chan.step, hs]

example : ((Chan.mk [⟨1, [65]⟩, ⟨2, [66]⟩, ⟨1, [67]⟩] [] [] true).run 2
    [.recv, .send, .send, .send, .recv, .send, .recv, .recv]).written
    = [⟨1, [65]⟩, ⟨2, [66]⟩, ⟨1, [67]⟩] := by decide

end Req.Props.C13
