/-! C13 — property theorems (none yet). -/
