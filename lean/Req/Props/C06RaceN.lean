import Req.Props.C06Race
import Req.Lemmas.C06RaceN
/-!
C06, round 5 — several SETTINGS frames inside one race window (open from round 4).

`race_tolerated` / `race_breaks_only` cover ONE SETTINGS frame processed and acknowledged
between "a DATA frame is sized under `cc.mu`" and "it is written under `cc.wmu`". A body writer
can be off the CPU for longer: `Req.H2.RaceN.writeRacedN id frames` lets the read loop process and
acknowledge ANY NUMBER of SETTINGS frames in that window; `openRacedN r vals more` does the same
between the admission of a request and the write of its header block. The verdicts stay the same
three.

The proof (`Req.Lemmas.C06RaceN.race_seq`) is an induction over the frames of the window that
carries the books of the atomic order "DATA first, then all the SETTINGS so far" (booking a DATA
frame commutes with every acknowledgement: `debit_foldl` over the concatenated settings) and the
fact that the tolerant monitor's grace values for the stream never drop below what was in force
when the frame was sized. For a new stream (`open_seq`): the stream limit the tolerant monitor has
noted since the last new stream only grows from acknowledgement to acknowledgement.
-/
set_option linter.unusedSimpArgs false
namespace Req.Props.C06
open Req.H2 Req.H2.Flow Req.H2.Conn Req.H2.Monitor Req.H2.Race Req.Lemmas.C06

/-- **race_tolerated_n**: every history of the two-phase machine with any number of SETTINGS
frames inside a DATA frame's or a new stream's race window is accepted by the race-tolerant reading of the strict
peer, and no SETTINGS frame is left unacknowledged. -/
theorem race_tolerated_n (cfg : Cfg) (hfix : cfg.fixes = Fixes.all) (ops : List NOp) (hops : ∀ op ∈ ops, op.ok) :
    ∃ t, Tolerant.run Tolerant.init (nrun cfg ops).2 = .ok t ∧ t.m.final = .ok () := by
  unfold nrun
  obtain ⟨t0, h0, hm0⟩ := tolerant_run_of_strict ((newConn cfg).2.map Event.c) (t := Tolerant.init)
    (m' := Send.init) (preface_run cfg)
  have hinv : RaceInv (newConn cfg).1 t0 :=
    ⟨by rw [hm0]; rfl, by rw [hm0]; rfl, fun _ => by rw [hm0]; exact sinv_init cfg hfix⟩
  obtain ⟨t, h1, h2⟩ := race_nrunFrom ops hops h0 hinv
  exact ⟨t, h1, by simp [Send.final, h2.pending, h2.hdr]⟩

/-- **race_breaks_only_n**: … hence the strict peer accepts it, or rejects it with `frame-size`,
`stream-window-exceeded` or `max-concurrent-streams` — however many SETTINGS frames were
acknowledged between the decision and the write. -/
theorem race_breaks_only_n (cfg : Cfg) (hfix : cfg.fixes = Fixes.all) (ops : List NOp) (hops : ∀ op ∈ ops, op.ok) :
    (∃ m, Send.run Send.init (nrun cfg ops).2 = .ok m ∧ m.final = .ok ()) ∨
    ∃ r, Send.run Send.init (nrun cfg ops).2 = .error r ∧
      (r = "frame-size" ∨ r = "stream-window-exceeded" ∨ r = "max-concurrent-streams") := by
  obtain ⟨t, h1, h2⟩ := race_tolerated_n cfg hfix ops hops
  rcases strict_of_tolerant _ h1 with h | ⟨r, h, hr⟩
  · exact Or.inl ⟨t.m, h, h2⟩
  · exact Or.inr ⟨r, h, hr⟩

/-- a 32768-octet frame is sized under MAX_FRAME_SIZE 32768 and a window of 65535; the peer lowers
MAX_FRAME_SIZE to 16384 (acknowledged), then INITIAL_WINDOW_SIZE to 100 (acknowledged); the frame
is written -/
def raceTwoFrames : List NOp :=
  [.r (.plain (.peer (.settings [(sMaxFrameSize, 32768)]))), .r (.plain (.openStream 40 60000 true)),
   .r (.plain (.feed 1 0)), .writeRacedN 1 [[(sMaxFrameSize, 16384)], [(sInitialWindowSize, 100)]]]

/-- … and a window in which the second frame takes the first one back (INITIAL_WINDOW_SIZE 4096,
then 65535): the strict peer has nothing to object to -/
def raceUndone : List NOp :=
  [.r (.plain (.peer (.settings []))), .r (.plain (.openStream 40 60000 true)),
   .r (.plain (.feed 1 0)), .writeRacedN 1 [[(sInitialWindowSize, 4096)], [(sInitialWindowSize, 65535)]]]

/-- a request is admitted under MAX_CONCURRENT_STREAMS = 1; the peer raises the limit to 5
(acknowledged), then lowers it to 0 (acknowledged); the HEADERS are written -/
def raceOpenTwoFrames : List NOp :=
  [.r (.plain (.peer (.settings [(sMaxConcurrentStreams, 1)]))),
   .openRacedN { hdrLen := 40, bodyLen := 0, known := true } [(sMaxConcurrentStreams, 5)] [[(sMaxConcurrentStreams, 0)]]]

theorem race_n_examples :
    (nrun exampleCfg raceTwoFrames).2.getLast? = some (.c (.data 1 32768 false)) ∧
    strictVerdict (nrun exampleCfg raceTwoFrames).2 = "frame-size" ∧
    tolerantOk (nrun exampleCfg raceTwoFrames).2 = true ∧
    (nrun exampleCfg raceOpenTwoFrames).2.getLast? = some (.c (.headers 1 40 true true)) ∧
    strictVerdict (nrun exampleCfg raceOpenTwoFrames).2 = "max-concurrent-streams" ∧
    tolerantOk (nrun exampleCfg raceOpenTwoFrames).2 = true ∧
    (nrun exampleCfg raceUndone).2.getLast? = some (.c (.data 1 16384 false)) ∧
    strictVerdict (nrun exampleCfg raceUndone).2 = "ok" ∧
    -- a window with one frame is `writeRaced`
    nrun exampleCfg ((raceStreamWindow.take 3).map NOp.r ++ [.writeRacedN 1 [[(sInitialWindowSize, 4096)]]]) =
      rrun exampleCfg raceStreamWindow := by decide

example : ∀ op ∈ raceTwoFrames ++ raceUndone ++ raceOpenTwoFrames, op.ok := by
  intro op h
  simp only [raceTwoFrames, raceUndone, raceOpenTwoFrames, List.cons_append, List.nil_append, List.mem_cons,
    List.mem_nil_iff, or_false] at h
  rcases h with rfl | rfl | rfl | rfl | rfl | rfl | rfl | rfl | rfl | rfl <;>
    simp [NOp.ok, ROp.ok, Op.ok, PFrame.ok, sInitialWindowSize, sMaxFrameSize, sMaxConcurrentStreams]

end Req.Props.C06
