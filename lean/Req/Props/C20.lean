/-! C20 — property theorems (none yet). -/
