import Req.Client.Auth
import Req.Lemmas.C20Base64
/-!
C20 — authentication headers are computed correctly: property theorems.

Part 1 (this file): base64, basic and bearer credentials.
Part 2: `Req/Props/C20Digest.lean` — digest authentication (the code as repaired by fixes/C20-5).
Part 3: `Req/Props/C20Legacy.lean` — the same statements about the code AS FOUND (conditioned on
the quoted-string corners) and the concrete failing inputs that document the finding.
-/
namespace Req.Props.C20
open Req.Proto

/-! ## base64 -/

section b64
open Req.Base64

/-- **base64_roundtrip**: the (strict) decoder of a server recovers every byte string from what
`base64.StdEncoding.EncodeToString` produced — all lengths, all byte values. -/
theorem base64_roundtrip : ∀ bs : Bytes, decode (encode bs) = some bs := by
  intro bs
  fun_induction encode bs with
  | case1 => rfl
  | case2 a =>
    have ha : a.toNat < 256 := UInt8.toNat_lt a
    have h0 : a.toNat / 4 < 64 := by omega
    have h1 : a.toNat % 4 * 16 < 64 := by omega
    have h2 : a.toNat % 4 * 16 % 16 = 0 := by omega
    simp [-UInt8.ofNat_add, -UInt8.ofNat_mul, decode, value_alpha _ h0, value_alpha _ h1, h2, pad]
    apply ofNat_eq; omega
  | case3 a b =>
    have ha : a.toNat < 256 := UInt8.toNat_lt a
    have hb : b.toNat < 256 := UInt8.toNat_lt b
    have h0 : a.toNat / 4 < 64 := by omega
    have h1 : a.toNat % 4 * 16 + b.toNat / 16 < 64 := by omega
    have h2 : b.toNat % 16 * 4 < 64 := by omega
    have h3 : b.toNat % 16 * 4 % 4 = 0 := by omega
    have hp : (alpha (b.toNat % 16 * 4) == pad) = false := alpha_ne_pad _ h2
    have hp' : (alpha (b.toNat % 16 * 4) == (61 : UInt8)) = false := hp
    simp [-UInt8.ofNat_add, -UInt8.ofNat_mul, decode, value_alpha _ h0, value_alpha _ h1, value_alpha _ h2, h3, byte1, pad, hp']
    apply ofNat_eq; omega
  | case4 a b c rest ih =>
    have ha : a.toNat < 256 := UInt8.toNat_lt a
    have hb : b.toNat < 256 := UInt8.toNat_lt b
    have hc : c.toNat < 256 := UInt8.toNat_lt c
    have h0 : a.toNat / 4 < 64 := by omega
    have h1 : a.toNat % 4 * 16 + b.toNat / 16 < 64 := by omega
    have h2 : b.toNat % 16 * 4 + c.toNat / 64 < 64 := by omega
    have h3 : c.toNat % 64 < 64 := by omega
    have hp : (alpha (c.toNat % 64) == pad) = false := alpha_ne_pad _ h3
    simp [-UInt8.ofNat_add, -UInt8.ofNat_mul, decode, value_alpha _ h0, value_alpha _ h1, value_alpha _ h2, value_alpha _ h3, hp, ih,
      quad, byte1]
    constructor <;> (apply ofNat_eq; omega)

/-- non-vacuity: `"hi?"`, `"hi"`, `"h"` (all three padding cases). -/
example : encode [104, 105, 63] = [97, 71, 107, 47] ∧ encode [104, 105] = [97, 71, 107, 61] ∧
    encode [104] = [97, 65, 61, 61] := by decide

end b64

/-! ## Basic and Bearer -/

section basic
open Req.Auth

theorem cutColon_append (u p : Bytes) (h : colon ∉ u) : cutColon (u ++ colon :: p) = some (u, p) := by
  induction u with
  | nil => simp [cutColon]
  | cons c cs ih =>
    have hc : (c == colon) = false := by
      simp only [beq_eq_false_iff_ne, ne_eq]
      intro e; exact h (e ▸ List.mem_cons_self)
    have hcs : colon ∉ cs := fun m => h (List.mem_cons_of_mem _ m)
    simp [cutColon, hc, ih hcs]

/-- **basic_roundtrip**: for EVERY user-id without a colon and EVERY password (any bytes, empty,
any length) the origin recovers exactly `(user, password)` from the header value produced by
`BasicAuthHeaderValue`. The colon restriction is RFC 7617's own ("a user-id containing a colon
character is invalid"). -/
theorem basic_roundtrip (u p : Bytes) (h : colon ∉ u) : serverBasic (basic u p) = some (u, p) := by
  have ht : (basic u p).take 6 = basicPrefix := rfl
  have hd : (basic u p).drop 6 = Req.Base64.encode (u ++ colon :: p) := rfl
  have hf : Req.Ascii.equalFold basicPrefix basicPrefix = true := by decide
  simp only [serverBasic, ht, hd, hf, if_true, base64_roundtrip, cutColon_append u p h]

/-- The excluded point: with a colon in the user-id the split moves — `("a:b", "c")` is
received as `("a", "b:c")`. No encoding could avoid it: the scheme has no escape for `:`. -/
theorem basic_colon_excluded :
    serverBasic (basic [97, 58, 98] [99]) = some ([97], [98, 58, 99]) := by decide

/-- Even then nothing is lost: the origin always recovers `user ++ ":" ++ password`. -/
theorem basic_joined (u p : Bytes) :
    ∃ u' p', serverBasic (basic u p) = some (u', p') ∧ u' ++ colon :: p' = u ++ colon :: p := by
  have ht : (basic u p).take 6 = basicPrefix := rfl
  have hd : (basic u p).drop 6 = Req.Base64.encode (u ++ colon :: p) := rfl
  have hf : Req.Ascii.equalFold basicPrefix basicPrefix = true := by decide
  have key : ∀ s : Bytes, colon ∈ s → ∃ u' p', cutColon s = some (u', p') ∧ u' ++ colon :: p' = s := by
    intro s
    induction s with
    | nil => intro m; cases m
    | cons c cs ih =>
      intro m
      by_cases hc : c = colon
      · exact ⟨[], cs, by simp [cutColon, hc], by simp [hc]⟩
      · have m' : colon ∈ cs := by
          cases m with
          | head => exact absurd rfl hc
          | tail _ m' => exact m'
        obtain ⟨u', p', h1, h2⟩ := ih m'
        refine ⟨c :: u', p', ?_, by simp [h2]⟩
        have : (c == colon) = false := by simp [hc]
        simp [cutColon, this, h1]
  obtain ⟨u', p', h1, h2⟩ := key (u ++ colon :: p) (by simp)
  exact ⟨u', p', by simp only [serverBasic, ht, hd, hf, if_true, base64_roundtrip, h1], h2⟩

/-- non-vacuity: `Aladdin` / `open sesame` (RFC 7617 section 2) gives `QWxhZGRpbjpvcGVuIHNlc2FtZQ==`. -/
example : basic [65, 108, 97, 100, 100, 105, 110] [111, 112, 101, 110, 32, 115, 101, 115, 97, 109, 101] =
    basicPrefix ++ [81, 87, 120, 104, 90, 71, 82, 112, 98, 106, 112, 118, 99, 71, 86, 117, 73, 72, 78, 108,
      99, 50, 70, 116, 90, 81, 61, 61] := by decide

/-- **bearer_exact**: the origin recovers exactly the token, for every byte string. -/
theorem bearer_exact (t : Bytes) : serverBearer (bearer t) = some t := by
  have ht : (bearer t).take 7 = bearerPrefix := rfl
  have hd : (bearer t).drop 7 = t := rfl
  have hf : Req.Ascii.equalFold bearerPrefix bearerPrefix = true := by decide
  simp only [serverBearer, ht, hd, hf, if_true]

example : serverBearer (bearer [116, 111, 107, 58, 32, 195, 169]) = some [116, 111, 107, 58, 32, 195, 169] := by
  decide

/-- **bearer_scheme_like_token** (round 7): a token that itself begins with the scheme - a stored
    complete header value `Bearer xxx` - is a token like any other: the origin recovers all of it,
    the seven bytes included. -/
theorem bearer_scheme_like_token (t : Bytes) :
    serverBearer (bearer (bearerPrefix ++ t)) = some (bearerPrefix ++ t) := bearer_exact _

/-- **bearer_never_verbatim**: the header value is never the token itself, whatever the token
    looks like: the scheme is always written (seven bytes longer). -/
theorem bearer_never_verbatim (t : Bytes) : bearer t ≠ t := by
  intro h
  have := congrArg List.length h
  simp [bearer, bearerPrefix] at this
  omega

/-- non-vacuity: the token `Bearer abc` goes out as `Bearer Bearer abc`. -/
example : bearer (bearerPrefix ++ [97, 98, 99]) = bearerPrefix ++ bearerPrefix ++ [97, 98, 99] := by decide

end basic

end Req.Props.C20
