import Req.Client.Auth
import Req.Client.Digest
import Req.Client.Rfc7616
import Req.Lemmas.C20Base64
import Req.Lemmas.C20Accept
/-!
C20 — authentication headers are computed correctly: property theorems.

Part 1 (this section): basic and bearer credentials.
-/
namespace Req.Props.C20
open Req.Proto

/-! ## base64 -/

section b64
open Req.Base64

/-- **base64_roundtrip**: the (strict) decoder of a server recovers every byte string from what
`base64.StdEncoding.EncodeToString` produced — all lengths, all byte values. -/
theorem base64_roundtrip : ∀ bs : Bytes, decode (encode bs) = some bs := by
  intro bs
  fun_induction encode bs with
  | case1 => rfl
  | case2 a =>
    have ha : a.toNat < 256 := UInt8.toNat_lt a
    have h0 : a.toNat / 4 < 64 := by omega
    have h1 : a.toNat % 4 * 16 < 64 := by omega
    have h2 : a.toNat % 4 * 16 % 16 = 0 := by omega
    simp [-UInt8.ofNat_add, -UInt8.ofNat_mul, decode, value_alpha _ h0, value_alpha _ h1, h2, pad]
    apply ofNat_eq; omega
  | case3 a b =>
    have ha : a.toNat < 256 := UInt8.toNat_lt a
    have hb : b.toNat < 256 := UInt8.toNat_lt b
    have h0 : a.toNat / 4 < 64 := by omega
    have h1 : a.toNat % 4 * 16 + b.toNat / 16 < 64 := by omega
    have h2 : b.toNat % 16 * 4 < 64 := by omega
    have h3 : b.toNat % 16 * 4 % 4 = 0 := by omega
    have hp : (alpha (b.toNat % 16 * 4) == pad) = false := alpha_ne_pad _ h2
    have hp' : (alpha (b.toNat % 16 * 4) == (61 : UInt8)) = false := hp
    simp [-UInt8.ofNat_add, -UInt8.ofNat_mul, decode, value_alpha _ h0, value_alpha _ h1, value_alpha _ h2, h3, byte1, pad, hp']
    apply ofNat_eq; omega
  | case4 a b c rest ih =>
    have ha : a.toNat < 256 := UInt8.toNat_lt a
    have hb : b.toNat < 256 := UInt8.toNat_lt b
    have hc : c.toNat < 256 := UInt8.toNat_lt c
    have h0 : a.toNat / 4 < 64 := by omega
    have h1 : a.toNat % 4 * 16 + b.toNat / 16 < 64 := by omega
    have h2 : b.toNat % 16 * 4 + c.toNat / 64 < 64 := by omega
    have h3 : c.toNat % 64 < 64 := by omega
    have hp : (alpha (c.toNat % 64) == pad) = false := alpha_ne_pad _ h3
    simp [-UInt8.ofNat_add, -UInt8.ofNat_mul, decode, value_alpha _ h0, value_alpha _ h1, value_alpha _ h2, value_alpha _ h3, hp, ih,
      quad, byte1]
    constructor <;> (apply ofNat_eq; omega)

/-- non-vacuity: `"hi?"`, `"hi"`, `"h"` (all three padding cases). -/
example : encode [104, 105, 63] = [97, 71, 107, 47] ∧ encode [104, 105] = [97, 71, 107, 61] ∧
    encode [104] = [97, 65, 61, 61] := by decide

end b64

/-! ## Basic and Bearer -/

section basic
open Req.Auth

theorem cutColon_append (u p : Bytes) (h : colon ∉ u) : cutColon (u ++ colon :: p) = some (u, p) := by
  induction u with
  | nil => simp [cutColon]
  | cons c cs ih =>
    have hc : (c == colon) = false := by
      simp only [beq_eq_false_iff_ne, ne_eq]
      intro e; exact h (e ▸ List.mem_cons_self)
    have hcs : colon ∉ cs := fun m => h (List.mem_cons_of_mem _ m)
    simp [cutColon, hc, ih hcs]

/-- **basic_roundtrip**: for EVERY user-id without a colon and EVERY password (any bytes, empty,
any length) the origin recovers exactly `(user, password)` from the header value produced by
`BasicAuthHeaderValue`. The colon restriction is RFC 7617's own ("a user-id containing a colon
character is invalid"). -/
theorem basic_roundtrip (u p : Bytes) (h : colon ∉ u) : serverBasic (basic u p) = some (u, p) := by
  have ht : (basic u p).take 6 = basicPrefix := rfl
  have hd : (basic u p).drop 6 = Req.Base64.encode (u ++ colon :: p) := rfl
  have hf : Req.Ascii.equalFold basicPrefix basicPrefix = true := by decide
  simp only [serverBasic, ht, hd, hf, if_true, base64_roundtrip, cutColon_append u p h]

/-- The excluded point: with a colon in the user-id the split moves — `("a:b", "c")` is
received as `("a", "b:c")`. No encoding could avoid it: the scheme has no escape for `:`. -/
theorem basic_colon_excluded :
    serverBasic (basic [97, 58, 98] [99]) = some ([97], [98, 58, 99]) := by decide

/-- Even then nothing is lost: the origin always recovers `user ++ ":" ++ password`. -/
theorem basic_joined (u p : Bytes) :
    ∃ u' p', serverBasic (basic u p) = some (u', p') ∧ u' ++ colon :: p' = u ++ colon :: p := by
  have ht : (basic u p).take 6 = basicPrefix := rfl
  have hd : (basic u p).drop 6 = Req.Base64.encode (u ++ colon :: p) := rfl
  have hf : Req.Ascii.equalFold basicPrefix basicPrefix = true := by decide
  have key : ∀ s : Bytes, colon ∈ s → ∃ u' p', cutColon s = some (u', p') ∧ u' ++ colon :: p' = s := by
    intro s
    induction s with
    | nil => intro m; cases m
    | cons c cs ih =>
      intro m
      by_cases hc : c = colon
      · exact ⟨[], cs, by simp [cutColon, hc], by simp [hc]⟩
      · have m' : colon ∈ cs := by
          cases m with
          | head => exact absurd rfl hc
          | tail _ m' => exact m'
        obtain ⟨u', p', h1, h2⟩ := ih m'
        refine ⟨c :: u', p', ?_, by simp [h2]⟩
        have : (c == colon) = false := by simp [hc]
        simp [cutColon, this, h1]
  obtain ⟨u', p', h1, h2⟩ := key (u ++ colon :: p) (by simp)
  exact ⟨u', p', by simp only [serverBasic, ht, hd, hf, if_true, base64_roundtrip, h1], h2⟩

/-- non-vacuity: `Aladdin` / `open sesame` (RFC 7617 section 2) gives `QWxhZGRpbjpvcGVuIHNlc2FtZQ==`. -/
example : basic [65, 108, 97, 100, 100, 105, 110] [111, 112, 101, 110, 32, 115, 101, 115, 97, 109, 101] =
    basicPrefix ++ [81, 87, 120, 104, 90, 71, 82, 112, 98, 106, 112, 118, 99, 71, 86, 117, 73, 72, 78, 108,
      99, 50, 70, 116, 90, 81, 61, 61] := by decide

/-- **bearer_exact**: the origin recovers exactly the token, for every byte string. -/
theorem bearer_exact (t : Bytes) : serverBearer (bearer t) = some t := by
  have ht : (bearer t).take 7 = bearerPrefix := rfl
  have hd : (bearer t).drop 7 = t := rfl
  have hf : Req.Ascii.equalFold bearerPrefix bearerPrefix = true := by decide
  simp only [serverBearer, ht, hd, hf, if_true]

example : serverBearer (bearer [116, 111, 107, 58, 32, 195, 169]) = some [116, 111, 107, 58, 32, 195, 169] := by
  decide

end basic

/-! ## Digest -/

section digest
open Req.Digest Req.Rfc7616 Req.Ascii

/-- Everything the header must carry inside a quoted-string is qdtext. -/
structure Expressible (c : Challenge) (user uri : Bytes) : Prop where
  user : c.userhash = b!"true" ∨ user.all isQd = true
  realm : c.realm.all isQd = true
  nonce : c.nonce.all isQd = true
  uri : uri.all isQd = true
  opaq : c.opaq.all isQd = true

theorem colons_eq_colonJoin : ∀ l : List Bytes, colons l = colonJoin l
  | [] => rfl
  | [_] => rfl
  | x :: y :: r => by
    have := colons_eq_colonJoin (y :: r)
    simp only [colons, colonJoin, this, List.append_assoc, List.singleton_append]

theorem digest_accepted (H : Alg → Bytes → Bytes) (hH : ∀ a x, (H a x).all isQd = true)
    (raw : Bytes) (c : Challenge) (user pass method uri body : Bytes) (rnd : Option Bytes) (hdr : Bytes)
    (hp : parseChallenge raw = .ok c)
    (hx : Expressible c user uri)
    (ha : authorize H algOf c { user, pass, method, uri } rnd = .ok hdr) :
    verify H specAlg { issued := issuedOf c, method, uri, user, pass, body } hdr = true := by
  have hnc : 44 ∉ c.qop := (parseChallenge_noComma hp).2.2.2.2.2.2.1
  unfold authorize at ha
  split at ha
  · cases ha
  · rename_i alg halg
    split at ha
    · cases ha
    · rename_i hvq
      split at ha
      · cases ha
      · rename_i hsess
        split at ha
        · cases ha
        · rename_i r
          simp only [Except.ok.injEq] at ha
          subst ha
          have hvq' : validateQop c.qop = true := by simpa using hvq
          have hqop := validateQop_noComma hnc hvq'
          have hspec := algOf_spec halg
          have halg' : c.algorithm = [] ∨ (c.algorithm ≠ [] ∧ c.algorithm.all isTokenByte = true) := by
            rcases hspec with ⟨e, _, _⟩ | ⟨e1, e2, _⟩
            · exact Or.inl e
            · exact Or.inr ⟨e1, e2⟩
          have hcn : ((hex r).take 32).all isQd = true := all_take 32 (hex_all_qd r)
          have hnc1 : hex8 (0 + 1) = b!"00000001" := hex8_one
          have hncok : hex8 (0 + 1) ≠ [] ∧ (hex8 (0 + 1)).all isTokenByte = true := by
            rw [hnc1]; decide
          have hok := params_ok (H alg) c { user, pass, method, uri } (hex8 (0 + 1)) ((hex r).take 32)
            (hH alg) hx.user hx.realm hx.nonce hx.uri hx.opaq halg' hqop hncok hcn
          have hpc : parseCredentials (digestPrefix ++ commaJoin ((params (H alg) c { user, pass, method, uri }
              (hex8 (0 + 1)) ((hex r).take 32)).map Param.render)) =
              some (pairs (params (H alg) c { user, pass, method, uri } (hex8 (0 + 1)) ((hex r).take 32))) :=
            parseCredentials_render _ (params_ne_nil (H alg) c { user, pass, method, uri }
              (hex8 (0 + 1)) ((hex r).take 32)) hok
          unfold verify
          simp only [fields, hpc]
          simp only [names_distinct, get_username, get_realm, get_nonce, get_uri, get_response,
            get_opaque, get_algorithm, get_userhash, get_qop, get_nc, get_cnonce, Bool.true_and]
          have hsa : specAlg (effAlg (issuedOf c).algorithm) = some (alg, isSess c.algorithm) := by
            rcases hspec with ⟨e, ea, es⟩ | ⟨e1, _, e3⟩
            · simp only [issuedOf, e, ea, es, List.isEmpty_nil, if_true, effAlg]; rfl
            · have hne : c.algorithm.isEmpty = false := by
                cases hc : c.algorithm with
                | nil => exact absurd hc e1
                | cons _ _ => rfl
              simp only [issuedOf, hne, Bool.false_eq_true, if_false, e3, effAlg]
          simp only [hsa, beq_self_eq_true, Bool.true_and, colons_eq_colonJoin]
          rcases hqop with hq | hq
          · have hs : isSess c.algorithm = false := by simpa [hq] using hsess
            by_cases huh : (c.userhash == b!"true") = true <;>
              simp [hq, hs, huh, response, issuedOf]
          · by_cases huh : (c.userhash == b!"true") = true <;>
              cases hs : isSess c.algorithm <;>
              simp [hq, hs, huh, response, issuedOf, hnc1]


end digest

end Req.Props.C20
