import Req.Lemmas.C01Body
import Req.Lemmas.C01BodyH3
import Req.Lemmas.H1Parse
/-!
C01 — request fidelity of the HTTP/2 request body: what `clientStream.writeRequestBody` +
`awaitFlowControl` put into DATA frames, for EVERY body, every behaviour of the body reader
(sizes of its reads, how it signals its end, errors), every scratch-buffer length, every
SETTINGS_MAX_FRAME_SIZE and every flow-control schedule (`avails`: the window seen at each look,
zeros = still waiting; the list ending = no more window ever).

Model: `Req.H2.BodyWrite` (tied to the real `ClientConn` by the `h2body` lane).
-/
namespace Req.Props.C01Body
open Req.Proto Req.H2.BodyWrite Req.Lemmas.C01Body

/-- **h2_data_is_body_prefix**: whatever happens — reader errors, a lying content length, a
window that never opens — the concatenation of the DATA payloads written so far is a prefix of
the bytes the reader yields: no byte is altered, dropped in the middle, duplicated or reordered. -/
theorem h2_data_is_body_prefix (cfg : Cfg) (r : Reader) (avails : List Nat) :
    payloads (frames (writeBody cfg r avails).1) <+: r.data := by
  obtain ⟨⟨tail, h, _⟩, _⟩ := loop_spec cfg (fuelFor r)
    (remain0 cfg.cl) r avails
  exact ⟨tail, h⟩

/-- **h2_body_exact**: when `writeRequestBody` reports success the DATA payloads are EXACTLY the
bytes of the body, END_STREAM is set on exactly one frame and that frame is the last one (a DATA
frame that carries the final bytes, an empty DATA frame, or the trailers), and the body was not
longer than a declared content length. -/
theorem h2_body_exact (cfg : Cfg) (r : Reader) (avails : List Nat)
    (h : (writeBody cfg r avails).2 = .done) :
    payloads (frames (writeBody cfg r avails).1) = r.data ∧
    EndsOnce (writeBody cfg r avails).1 ∧
    ∀ n, cfg.cl = some n → r.data.length ≤ n := by
  obtain ⟨⟨tail, h1, h2⟩, _, h3, _, h5⟩ := loop_spec cfg (fuelFor r)
    (remain0 cfg.cl) r avails
  refine ⟨?_, h3 h, ?_⟩
  · have := h2 h
    subst this
    simpa [writeBody] using h1
  · intro n hn
    have := h5 (by simp [hn]) h
    simp only [hn, remain0] at this
    omega

/-- **h2_no_end_stream_unless_done**: in every other outcome (reader error, body longer than the
declared length, writer still blocked on flow control) NO frame carries END_STREAM: the peer never
sees a complete request made of a partial body (the stream is then reset by `cleanupWriteRequest`). -/
theorem h2_no_end_stream_unless_done (cfg : Cfg) (r : Reader) (avails : List Nat)
    (h : (writeBody cfg r avails).2 ≠ .done) : NoEnd (writeBody cfg r avails).1 := by
  obtain ⟨_, _, _, h4, _⟩ := loop_spec cfg (fuelFor r)
    (remain0 cfg.cl) r avails
  exact h4 h

/-- **h2_within_window**: no DATA payload exceeds the window `awaitFlowControl` saw when it cut
the frame, nor the peer's SETTINGS_MAX_FRAME_SIZE. -/
theorem h2_within_window (cfg : Cfg) (r : Reader) (avails : List Nat) :
    ∀ s ∈ (writeBody cfg r avails).1,
      s.frame.payload.length ≤ s.avail ∧ s.frame.payload.length ≤ cfg.maxFrame := by
  obtain ⟨_, h2, _⟩ := loop_spec cfg (fuelFor r)
    (remain0 cfg.cl) r avails
  exact h2

/-- **h2_windows_used_in_order**: the windows recorded with the flow-controlled frames are looks of
the given schedule, in order, each used for at most one frame (a sublist of `avails`): together with
`h2_within_window`, every DATA frame fits the window that was really available when it was cut. -/
theorem h2_windows_used_in_order (cfg : Cfg) (r : Reader) (avails : List Nat) :
    (dataAvails (writeBody cfg r avails).1).Sublist avails :=
  loop_avails cfg (fuelFor r) (remain0 cfg.cl) r avails

/-- **h2_long_reader_never_completes**: a reader that yields MORE bytes than the declared content
length never completes the request: the outcome is an error (or the writer is still blocked) and
no END_STREAM was sent. -/
theorem h2_long_reader_never_completes (cfg : Cfg) (r : Reader) (avails : List Nat) (n : Nat)
    (hcl : cfg.cl = some n) (hlong : n < r.data.length) :
    (writeBody cfg r avails).2 ≠ .done ∧ NoEnd (writeBody cfg r avails).1 := by
  have hne : (writeBody cfg r avails).2 ≠ .done := by
    intro h
    have := (h2_body_exact cfg r avails h).2.2 n hcl
    omega
  exact ⟨hne, h2_no_end_stream_unless_done cfg r avails hne⟩

/-- **h2_origin_reads_exact_body**: an origin that follows RFC 9113 §8.1 / §8.1.1 (content = DATA
payloads up to END_STREAM; a content-length that differs from their total is malformed) reads from
a completed write exactly the body when the declared length is truthful (or absent) — and REJECTS
the request when the reader yielded fewer bytes than declared: a short body is never accepted as
the body. -/
theorem h2_origin_reads_exact_body (cfg : Cfg) (r : Reader) (avails : List Nat)
    (h : (writeBody cfg r avails).2 = .done) :
    originRead cfg.cl (frames (writeBody cfg r avails).1) [] =
      if clMatches cfg.cl r.data.length then some r.data else none := by
  obtain ⟨hp, ⟨init, s, hfs, hs, hno⟩, _⟩ := h2_body_exact cfg r avails h
  rw [hfs] at hp ⊢
  rw [originRead_noEnd cfg.cl init s [] hno hs]
  simp only [List.nil_append, hp]

theorem h2_short_reader_rejected (cfg : Cfg) (r : Reader) (avails : List Nat) (n : Nat)
    (hcl : cfg.cl = some n) (hshort : r.data.length < n) (h : (writeBody cfg r avails).2 = .done) :
    originRead cfg.cl (frames (writeBody cfg r avails).1) [] = none := by
  rw [h2_origin_reads_exact_body cfg r avails h, hcl]
  have : (n == r.data.length) = false := by simp; omega
  simp [clMatches, this]

/-- **h2_body_completes** (non-vacuity of `done`, for every body): with a reader that ends with
`io.EOF` (either way), a truthful or absent content length, a window that is positive at every look
and at least one look per body byte, the write completes — so `h2_body_exact` applies. -/
theorem h2_body_completes (cfg : Cfg) (r : Reader) (avails : List Nat)
    (hmf : 1 ≤ cfg.maxFrame) (hb : 1 ≤ cfg.buf)
    (hend : r.ending = .eof ∨ r.ending = .eofWithLast)
    (hcl : cfg.cl = none ∨ cfg.cl = some r.data.length)
    (hpos : ∀ a ∈ avails, 0 < a) (hlen : r.data.length ≤ avails.length) :
    (writeBody cfg r avails).2 = .done := by
  apply loop_progress cfg hmf hb (fuelFor r) _ r avails (by simp [fuelFor]) hend _ hpos hlen
  intro hs
  rcases hcl with h | h
  · simp [h] at hs
  · simp [h, remain0]

/-- non-vacuity: 10 bytes, declared length 10, reads of 3 then 5-byte buffers, windows 2, 0, 100,
100, 1, 100, maximum frame size 4: frames of 2, 1, 4, 1, 2 bytes, END_STREAM on the last. -/
example :
    writeBody { maxFrame := 4, buf := 5, cl := some 10 }
      { data := [1, 2, 3, 4, 5, 6, 7, 8, 9, 10], sizes := [3], ending := .eof } [2, 0, 100, 100, 1, 100, 100] =
    ([⟨2, .data [1, 2] false⟩, ⟨100, .data [3] false⟩, ⟨100, .data [4, 5, 6, 7] false⟩,
      ⟨1, .data [8] false⟩, ⟨100, .data [9, 10] true⟩], .done) := by decide

/-- no declared length: the end is an empty DATA frame; one byte too many: `errReqBodyTooLong`
before the last chunk is written; one byte short: completes, and the origin rejects it. -/
example :
    (writeBody { maxFrame := 4, buf := 5, cl := none }
      { data := [1, 2, 3], sizes := [], ending := .eof } [9, 9]).1.map (·.frame) =
      [.data [1, 2, 3] false, .data [] true] ∧
    writeBody { maxFrame := 4, buf := 5, cl := some 2 }
      { data := [1, 2, 3], sizes := [2], ending := .eof } [9, 9] = ([], .tooLong) ∧
    originRead (some 4) (frames (writeBody { maxFrame := 4, buf := 5, cl := some 4 }
      { data := [1, 2, 3], sizes := [], ending := .eofWithLast } [9, 9]).1) [] = none := by decide

/-! ## HTTP/3 -/

section H3
open Req.H3.BodyWrite Req.Lemmas.C01BodyH3

/-- **h3_data_is_body_prefix**: whatever the reader does, the payloads handed to `stream.Write`
(one DATA frame each) concatenate to a prefix of the body; no `Write` is empty or longer than the
copy buffer. -/
theorem h3_data_is_body_prefix (buf : Nat) (r : Reader) :
    (sendBody buf r).1.flatten <+: r.data ∧ ∀ w ∈ (sendBody buf r).1, w ≠ [] ∧ w.length ≤ buf := by
  obtain ⟨⟨tail, h, _⟩, hw⟩ := copy_spec buf (fuelFor r) r
  exact ⟨⟨tail, h⟩, hw⟩

/-- **h3_body_exact**: when the copy ends cleanly (the stream is closed with FIN) the DATA payloads
are exactly the body, the byte stream `stream.Write` produces exists (every length fits its
varint), and an origin that follows RFC 9114 §4.1.2 / §7.2.1 — DATA frames parsed with the frame
parser of C05, content = their payloads, a content-length that differs from the total is malformed
— reads exactly the body when the declared length is truthful or absent and REJECTS the request
otherwise (reader shorter or longer than declared). -/
theorem h3_body_exact (buf : Nat) (hbuf : buf < 2 ^ 62) (cl : Option Nat) (r : Reader)
    (h : (sendBody buf r).2 = .closed) :
    (sendBody buf r).1.flatten = r.data ∧
    ∃ s, wire (sendBody buf r).1 = some s ∧
      Req.H3.BodyWrite.originRead cl s true =
        if clMatches cl r.data.length then some r.data else none := by
  obtain ⟨⟨tail, h1, h2⟩, hw⟩ := copy_spec buf (fuelFor r) r
  have ht := h2 h
  subst ht
  have hflat : (sendBody buf r).1.flatten = r.data := by simpa [sendBody] using h1
  have hlt : ∀ w ∈ (sendBody buf r).1, w.length < 2 ^ 62 := fun w hw' => by
    have := (hw w hw').2; omega
  obtain ⟨s, hs, hl⟩ := wire_some _ hlt
  refine ⟨hflat, s, hs, ?_⟩
  unfold Req.H3.BodyWrite.originRead
  simp only [if_true]
  rw [originLoop_wire cl _ (s.length + 1) s [] hs hlt (by omega)]
  simp [hflat]

/-- **h3_reset_not_accepted**: when the reader fails the stream is reset, and the origin never
takes what arrived before for a request body. -/
theorem h3_reset_not_accepted (cl : Option Nat) (s : Bytes) :
    Req.H3.BodyWrite.originRead cl s false = none := by
  simp [Req.H3.BodyWrite.originRead]

/-- **h3_body_completes**: every reader that ends with `io.EOF` is copied to the end. -/
theorem h3_body_completes (buf : Nat) (hb : 1 ≤ buf) (r : Reader)
    (hend : r.ending = .eof ∨ r.ending = .eofWithLast) : (sendBody buf r).2 = .closed :=
  copy_progress buf hb (fuelFor r) r (by simp [fuelFor]) hend

/-- non-vacuity: 5 bytes read as 2 + 3 into a 4-byte buffer: two DATA frames `00 02 ..`, `00 03 ..`. -/
example :
    sendBody 4 { data := [1, 2, 3, 4, 5], sizes := [2], ending := .eof } = ([[1, 2], [3, 4, 5]], .closed) ∧
    wire [[1, 2], [3, 4, 5]] = some [0, 2, 1, 2, 0, 3, 3, 4, 5] ∧
    Req.H3.BodyWrite.originRead (some 5) [0, 2, 1, 2, 0, 3, 3, 4, 5] true = some [1, 2, 3, 4, 5] ∧
    Req.H3.BodyWrite.originRead (some 6) [0, 2, 1, 2, 0, 3, 3, 4, 5] true = none := by decide

end H3

/-! ## the three protocols deliver the same body -/

section Cross
open Req.H1 Req.H1.Origin Req.H3.BodyWrite

/-- **cross_protocol_body**: the same body bytes, read from an honest reader in ANY sizes, are
delivered identically by all three protocols — HTTP/1.1 chunked (any read split; `h1_fidelity` adds
the Content-Length form), HTTP/2 (any window schedule that lets the write complete, any frame size,
truthful or absent content length) and HTTP/3: each protocol's independent origin reads exactly
`r.data`. -/
theorem cross_protocol_body (r : Reader) (reads : List Nat) (rest : Bytes)
    (cfg : Cfg) (avails : List Nat) (buf3 : Nat) (hbuf3 : buf3 < 2 ^ 62)
    (hcl : cfg.cl = none ∨ cfg.cl = some r.data.length)
    (h2done : (writeBody cfg r avails).2 = .done) (h3done : (sendBody buf3 r).2 = .closed) :
    decodeBody .chunked (chunkedBody r.data reads ++ rest) = some (r.data, rest) ∧
    Req.H2.BodyWrite.originRead cfg.cl (frames (writeBody cfg r avails).1) [] = some r.data ∧
    ∃ s, wire (sendBody buf3 r).1 = some s ∧ Req.H3.BodyWrite.originRead cfg.cl s true = some r.data := by
  have hm : clMatches cfg.cl r.data.length = true := by
    rcases hcl with h | h <;> simp [h, clMatches]
  refine ⟨decodeBody_chunked r.data reads rest, ?_, ?_⟩
  · rw [h2_origin_reads_exact_body cfg r avails h2done, hm]; rfl
  · obtain ⟨_, s, hs, ho⟩ := h3_body_exact buf3 hbuf3 cfg.cl r h3done
    exact ⟨s, hs, by rw [ho, hm]; rfl⟩

end Cross

end Req.Props.C01Body
