import Req.Lemmas.C03H2Over
import Req.C03.H2Pool
import Req.Lemmas.C03H2Wire
/-!
C03 — HTTP/2: a truncated, over-long or spliced body is never reported as success; a broken
connection is not reused.

Model: one client stream of the receive path of C02 (`Req.C02.H2Stream`: `processHeaders`,
`processData`, `processResetStream`, `endStream`, `readLoop.cleanup`, `transportResponseBody.Read`
with `bytesRemain`, the pipe) under the events of `Req.C03.H2XEv` (HEADERS, DATA, RST_STREAM with
any code, GOAWAY with last-stream-id and code, loss of the connection) and the caller's operations
(`Read(p)` of any size, `Close`).  Every theorem quantifies over ALL lists of operations: every
frame sequence, every interleaving with caller reads of any sizes; nothing is bounded.

`obs` = one observation per read (`none` = the read blocks), `outOf obs` = the bytes handed to the
caller, `dataOf evs` = the concatenated payloads of the DATA frames.
-/
namespace Req.Props.C03H2
open Req.Proto Req.C02 Req.C03

/-- **h2_cut_never_success.** No frame carries END_STREAM — the stream was reset (any code), the
connection got a GOAWAY, was lost at a frame boundary or inside a frame, or the peer just stopped
— and whatever else happens in whatever order: no body read ever reports a clean `io.EOF`, and
a response to anything but HEAD has a piped body (so the caller must read to find out). -/
theorem h2_cut_never_success (sid : Nat) (ops : List H2XOp)
    (hes : ∀ e ∈ evsOf ops, e.noES = true) :
    NoCleanEOF ((H2X.init sid false).run ops).1 ∧
    ∀ r, ((H2X.init sid false).run ops).2.st.res = some r → r.body = .piped := by
  obtain ⟨h1, h2⟩ := run_open (x := H2X.init sid false) (Inv.init false) Open.init ops hes
  exact ⟨h1, h2.piped ((Mono.run (x := H2X.init sid false) (Inv.init false) ops).isHead.trans rfl)⟩

example :
    ((H2X.init 1 false).run [.ev (.headers [([58, 115, 116, 97, 116, 117, 115], [50, 48, 48])] false),
      .ev (.data [1, 2, 3] false false), .read 2, .ev (.rst 0), .read 8, .read 8]).1
    = [some ([1, 2], none), some ([3], none), some ([], some .rst)] := by decide

/-- **h2_cut_call_or_read_fails.** …and the failure is delivered: once the stream was reset or the
connection lost before END_STREAM, the call has failed if it had no response head yet, and
otherwise no read blocks and a draining caller gets an error other than `io.EOF` after the bytes
that had arrived. -/
theorem h2_cut_call_or_read_fails (sid : Nat) (ops : List H2XOp) (last : H2XEv)
    (hes : ∀ e ∈ evsOf ops, e.noES = true) (hl : last = .connLost ∨ ∃ c, last = .rst c)
    (hlive : ((H2X.init sid false).run ops).2.st.readAborted = false ∧
             ((H2X.init sid false).run ops).2.st.connDead = false) :
    ((((H2X.init sid false).run ops).2.step last).st.res = none →
      (((H2X.init sid false).run ops).2.step last).st.headErr.isSome = true) ∧
    ∀ ks : List Nat, (∀ k ∈ ks, 0 < k) →
      (((H2X.init sid false).run ops).2.step last).st.pipe.buf.length < ks.length →
      ∃ d e, ((((H2X.init sid false).run ops).2.step last).st.runReads ks).1.getLast? = some (d, some e) ∧
        e ≠ .eof := by
  have hi := Inv.reach sid false ops
  obtain ⟨_, ho⟩ := run_open (x := H2X.init sid false) (Inv.init false) Open.init ops hes
  generalize ((H2X.init sid false).run ops).2 = x0 at *
  have hi' := hi.step last
  have hno : last.noES = true := by rcases hl with rfl | ⟨c, rfl⟩ <;> rfl
  have ho' := ho.step hi last hno
  -- the step is an abort on a state with the same response head
  have hab : ∃ (s0 : H2Stream) (e : H2Err), (x0.step last).st = s0.abort e ∧ s0.res = x0.st.res ∧ s0.headErr = x0.st.headErr := by
    rw [step_st]
    rcases hl with rfl | ⟨c, rfl⟩
    · refine ⟨{ x0.st with connDead := true }, .connProto, ?_, rfl, rfl⟩
      simp [H2Stream.connError, ho.readClosed]
    · refine ⟨x0.st, .rst, ?_, rfl, rfl⟩
      simp [H2Stream.processRst, hlive.1, hlive.2]
  obtain ⟨s0, e, hst, hres0, hhe0⟩ := hab
  have hdead : Dead (x0.step last).st := by
    right; right
    have hsome : (x0.step last).st.pipe.err.isSome = true := by
      rw [hst, abort_pipe]; exact cwe_err_some _ _ _
    cases he : (x0.step last).st.pipe.err with
    | none => rw [he] at hsome; simp at hsome
    | some e' =>
      refine ⟨e', rfl, ?_⟩
      intro hx; subst hx
      have := hi'.eofClosed he
      rw [ho'.readClosed] at this; simp at this
  constructor
  · intro hr
    rw [hst] at hr ⊢
    simp only [abort_res] at hr
    rw [abort_headErr]
    split
    · rfl
    · rename_i h
      simp only [hr, Option.isNone_none, true_and] at h
      cases hh : s0.headErr with
      | none => simp [hh] at h
      | some _ => rfl
  · intro ks hpos hlen
    exact drain_dead hi' hdead ks hpos hlen

/-- **h2_abort_is_final.** A stream that was aborted before END_STREAM — reset, connection lost,
GOAWAY above last-stream-id, a protocol violation noticed by the read loop, a length violation
noticed by the reader, the caller closing the body — stays failed: no later frame (not even one
with END_STREAM) and no later event makes any read end cleanly. -/
theorem h2_abort_is_final (sid : Nat) (isHead : Bool) (ops1 ops2 : List H2XOp)
    (hd : Dead ((H2X.init sid isHead).run ops1).2.st) :
    NoCleanEOF (((H2X.init sid isHead).run ops1).2.run ops2).1 :=
  (run_dead (Inv.reach sid isHead ops1) hd ops2).1

example : Dead ((H2X.init 1 false).run [.ev (.headers [([58, 115, 116, 97, 116, 117, 115], [50, 48, 48])] false),
    .ev (.data [1, 2, 3] false false), .ev (.goAway 0 0)]).2.st := by
  right; right; exact ⟨.connProto, by decide, by decide⟩

/-- **h2_delivers_prefix.** Whatever the caller has been handed at any moment — before an error or
not — is a prefix of the concatenated DATA payloads: nothing padded, nothing spliced in, nothing
reordered. -/
theorem h2_delivers_prefix (sid : Nat) (isHead : Bool) (ops : List H2XOp) :
    outOf ((H2X.init sid isHead).run ops).1 <+: dataOf (evsOf ops) :=
  (Inv.reach sid isHead ops).outPfx

/-- **h2_overlong_not_delivered.** With a declared Content-Length `n` the caller never receives
more than `n` bytes, however the surplus is split over frames and reads. -/
theorem h2_overlong_not_delivered (sid : Nat) (ops : List H2XOp) (r : H2Res) (n : Nat)
    (hres : ((H2X.init sid false).run ops).2.st.res = some r) (hp : r.body = .piped)
    (hcl : r.contentLength = some n) :
    (outOf ((H2X.init sid false).run ops).1).length ≤ n :=
  (Inv.reach sid false ops).bound r n hres hp hcl

/-- **h2_overlong_is_error.** Once the pipe holds more than the declared length still allows (the
surplus has arrived: in the same frame, in a later frame, after the caller had already drained
the declared bytes, with a declared length of zero, …), no read ever ends cleanly, whatever
follows — END_STREAM included. -/
theorem h2_overlong_is_error (sid : Nat) (ops1 ops2 : List H2XOp) (r : H2Res) (n : Nat)
    (hres : ((H2X.init sid false).run ops1).2.st.res = some r) (hp : r.body = .piped)
    (hcl : r.contentLength = some n)
    (hbuf : ((H2X.init sid false).run ops1).2.st.pipe.hasBuf = true)
    (hsur : (outOf ((H2X.init sid false).run ops1).1).length +
      ((H2X.init sid false).run ops1).2.st.pipe.buf.length > n) :
    NoCleanEOF (((H2X.init sid false).run ops1).2.run ops2).1 :=
  run_surplus (Inv.reach sid false ops1) (Or.inr ⟨r, n, hres, hp, hcl, hbuf, hsur⟩) ops2

/-- **h2_overlong_frames.** The same in terms of frames: before any END_STREAM the DATA frames —
however many, however split, interleaved with caller reads of any sizes at any moments — bring more
bytes than the declared length, the last of them possibly with END_STREAM itself (surplus in the
same frame, in a later frame after the caller drained the declared bytes, declared length zero,
declared length equal to the caller's buffer): from then on no read ever ends cleanly, whatever
follows. -/
theorem h2_overlong_frames (sid : Nat) (ops1 ops2 : List H2XOp) (p : Bytes) (pad es : Bool) (r : H2Res) (n : Nat)
    (hes : ∀ e ∈ evsOf ops1, e.noES = true)
    (hres : ((H2X.init sid false).run ops1).2.st.res = some r) (hcl : r.contentLength = some n)
    (hsur : (dataOf (evsOf ops1)).length + p.length > n) :
    NoCleanEOF ((((H2X.init sid false).run ops1).2.step (.data p pad es)).run ops2).1 := by
  have hi := Inv.reach sid false ops1
  obtain ⟨_, ho⟩ := run_open (x := H2X.init sid false) (Inv.init false) Open.init ops1 hes
  have hs := Shut.run (x := H2X.init sid false) (Shut.init false) ops1
  have hh : ((H2X.init sid false).run ops1).2.st.isHead = false :=
    (Mono.run (x := H2X.init sid false) (Inv.init false) ops1).isHead.trans rfl
  have hsp := surplus_after_data hi ho hs hh r n hres hcl p pad es hsur
  exact run_surplus (hi.step _) hsp ops2

-- content-length: 2; the third byte arrives in a later frame, after the caller drained the two
example :
    ((H2X.init 1 false).run [.ev (.headers [([58, 115, 116, 97, 116, 117, 115], [50, 48, 48]),
        ([99, 111, 110, 116, 101, 110, 116, 45, 108, 101, 110, 103, 116, 104], [50])] false),
      .ev (.data [97, 98] false false), .read 4, .ev (.data [99] false true), .read 4, .read 4]).1
    = [some ([97, 98], none), some ([], some .overDeclared), some ([], some .overDeclared)] := by decide

/-- **h2_short_is_error.** Fewer DATA bytes in total than the declared Content-Length: no read
ever ends cleanly (with or without END_STREAM, in any interleaving). -/
theorem h2_short_is_error (sid : Nat) (ops : List H2XOp) (r : H2Res) (n : Nat)
    (hres : ((H2X.init sid false).run ops).2.st.res = some r) (hp : r.body = .piped)
    (hcl : r.contentLength = some n) (hlt : (dataOf (evsOf ops)).length < n) :
    NoCleanEOF ((H2X.init sid false).run ops).1 :=
  run_short (x := H2X.init sid false) (Inv.init false) ops r n hres hp hcl (by simpa using hlt)

/-- **h2_short_unexpected_eof.** …and after END_STREAM a draining caller receives exactly what
is still buffered, then `io.ErrUnexpectedEOF`. -/
theorem h2_short_unexpected_eof (sid : Nat) (ops : List H2XOp) (r : H2Res) (n : Nat)
    (hres : ((H2X.init sid false).run ops).2.st.res = some r) (hp : r.body = .piped)
    (hcl : r.contentLength = some n) (hlt : (dataOf (evsOf ops)).length < n)
    (hes : ((H2X.init sid false).run ops).2.st.pipe.err = some .eof)
    (hbe : ((H2X.init sid false).run ops).2.st.pipe.breakErr = none)
    (hre : ((H2X.init sid false).run ops).2.st.readErr = none)
    (ks : List Nat) (hpos : ∀ k ∈ ks, 0 < k)
    (hlen : ((H2X.init sid false).run ops).2.st.pipe.buf.length < ks.length) :
    ∃ d, (((H2X.init sid false).run ops).2.st.runReads ks).1.getLast? = some (d, some .unexpectedEOF) ∧
      outBytes (((H2X.init sid false).run ops).2.st.runReads ks).1 =
        ((H2X.init sid false).run ops).2.st.pipe.buf :=
  drain_short (Inv.reach sid false ops) r n hres hp hcl hes hbe hre hlt ks hpos hlen

example :
    ((H2X.init 1 false).run [.ev (.headers [([58, 115, 116, 97, 116, 117, 115], [50, 48, 48]),
        ([99, 111, 110, 116, 101, 110, 116, 45, 108, 101, 110, 103, 116, 104], [53])] false),
      .ev (.data [97, 98] false true), .read 4, .read 4]).1
    = [some ([97, 98], none), some ([], some .unexpectedEOF)] := by decide

/-- **h2_ok_complete.** What the model-judged lane compares against: if, after the events, the
call and a draining caller end in success, then some frame carried END_STREAM, the body is a
prefix of the DATA sent, and it has exactly the declared length if one was declared. -/
theorem h2_ok_complete (sid : Nat) (evs : List H2XEv) (k status : Nat) (body : Bytes)
    (h : ((H2X.init sid false).run (evs.map .ev)).2.outcome k = .ok status body) :
    (∃ e ∈ evs, e.noES = false) ∧ body <+: dataOf evs ∧
    ∀ r n, ((H2X.init sid false).run (evs.map .ev)).2.st.res = some r → r.body = .piped →
      r.contentLength = some n → body.length = n := by
  have hev := evsOf_map_ev evs
  have hout := outOf_run_evs (H2X.init sid false) evs
  have hi := Inv.reach sid false (evs.map .ev)
  rw [hev, hout] at hi
  have hih : ((H2X.init sid false).run (evs.map .ev)).2.st.isHead = false :=
    (Mono.run (x := H2X.init sid false) (Inv.init false) (evs.map .ev)).isHead.trans rfl
  have hopen : (∀ e ∈ evs, e.noES = true) → Open ((H2X.init sid false).run (evs.map .ev)).2.st := by
    intro hes
    exact (run_open (x := H2X.init sid false) (Inv.init false) Open.init (evs.map .ev) (by rwa [hev])).2
  generalize ((H2X.init sid false).run (evs.map .ev)).2 = x at *
  unfold H2X.outcome at h
  cases hr : x.st.res with
  | none => rw [hr] at h; simp only [] at h; split at h <;> simp at h
  | some res =>
    rw [hr] at h
    simp only [] at h
    have hES : x.st.readClosed = true → ∃ e ∈ evs, e.noES = false := by
      intro hrc
      apply Classical.byContradiction
      intro hne
      have : ∀ e ∈ evs, e.noES = true := by
        intro e he
        cases hx : e.noES with
        | true => rfl
        | false => exact absurd ⟨e, he, hx⟩ hne
      have := (hopen this).readClosed
      rw [hrc] at this; simp at this
    cases hb : res.body with
    | missingBody => rw [hb] at h; simp at h
    | noBody =>
      rw [hb] at h; simp only [] at h
      simp at h
      obtain ⟨_, rfl⟩ := h
      refine ⟨?_, List.nil_prefix, ?_⟩
      · apply Classical.byContradiction
        intro hne
        have : ∀ e ∈ evs, e.noES = true := by
          intro e he
          cases hx : e.noES with
          | true => rfl
          | false => exact absurd ⟨e, he, hx⟩ hne
        have := (hopen this).piped hih res hr
        rw [hb] at this; simp at this
      · intro r n h1 h2; simp at h1; subst h1; rw [hb] at h2; simp at h2
    | piped =>
      rw [hb] at h; simp only [] at h
      generalize hd : drainAll k (x.st.pipe.buf.length + 2) x.st [] = dr at h
      obtain ⟨⟨b, t⟩, s'⟩ := dr
      cases t with
      | none => simp at h
      | some t =>
        cases t with
        | none => simp at h
        | some e =>
          cases e <;> simp at h
          obtain ⟨_, rfl⟩ := h
          obtain ⟨O', hb', hpf, hrc, hlen⟩ := drainAll_eof hi k _ [] b s' hd
          simp at hb' hpf hlen
          subst hb'
          exact ⟨hES hrc, hpf, fun r n h1 h2 h3 => hlen r n (hr.trans h1) h2 h3⟩

/-! ### informational responses, HEAD -/

/-- **h2_interim_transparent.** A valid informational (1xx) HEADERS frame in front of the final
response changes nothing but the counter of informational responses (at most five are skipped):
every theorem above quantifies over arbitrary frame lists, so over any number of them. -/
theorem h2_interim_transparent (s : H2Stream) (fs : Fields) (sv : Bytes) (code : Nat)
    (hs : h2StatusValue fs = some sv) (hne : sv ≠ []) (hc : natOfDigits sv = some code)
    (h1 : 100 ≤ code ∧ code ≤ 199) (hlim : s.num1xx + 1 ≤ 5)
    (hlive : s.readAborted = false ∧ s.connDead = false ∧ s.readClosed = false ∧ s.pastHeaders = false) :
    s.processHeaders fs false = { s with num1xx := s.num1xx + 1 } := by
  have hemp : sv.isEmpty = false := by cases sv <;> simp_all
  have hnot : ¬ (s.num1xx + 1 > 5) := by omega
  obtain ⟨a, b, c, d⟩ := hlive
  have : s = { s with pastHeaders := false } := by cases s; simp_all
  rw [this]
  simp [H2Stream.processHeaders, H2Stream.handleResponse, a, b, c, hs, hemp, hc, h1.1, h1.2, hnot]

/-- A 204 / 304 response that ends on its HEADERS frame has no body that could be missing,
whatever Content-Length it declares (`bodyAllowedForStatus`). -/
theorem h2_bodiless_status_no_short (s : H2Stream) (fs : Fields) (r : H2Res) (s' : H2Stream)
    (h : s.handleResponse fs true = (.ok (some r), s')) (hh : s.isHead = false)
    (hst : r.status = 204 ∨ r.status = 304) : r.body = .noBody := by
  unfold H2Stream.handleResponse at h
  split at h
  · simp at h
  · split at h
    · simp at h
    · split at h
      · simp at h
      · simp only [] at h
        split at h
        · split at h
          · simp at h
          · split at h <;> simp at h
        · simp only [hh, Bool.false_eq_true, if_false, if_true] at h
          simp only [Prod.mk.injEq, Except.ok.injEq, Option.some.injEq] at h
          obtain ⟨rfl, _⟩ := h
          simp only [] at hst ⊢
          split
          · rename_i n hn
            split
            · rename_i hc
              rcases hst with hst | hst <;> simp [bodyAllowedForStatusH2, hst] at hc
            · rfl
          · rfl

/-- **h2_head_no_body.** A response to HEAD never has a body that could come up short, whatever
length it declares: the body is `noBody`. -/
theorem h2_head_no_body (sid : Nat) (ops : List H2XOp) (r : H2Res)
    (hres : ((H2X.init sid true).run ops).2.st.res = some r) : r.body = .noBody := by
  exact head_no_body_run ops (H2X.init sid true) [] [] (Inv.init true) rfl (by simp [H2X.init, H2Stream.init]) r hres

/-! ### the wire: a cut inside a frame -/

section wire
open Req.H2.Frame
/-- **A frame cut short by the transport never reaches the stream.** The connection's bytes end
`j` bytes into a frame (inside its 9-byte header or inside its payload), whatever the frame is:
`Framer.ReadFrame` returns an error (`io.EOF`, `io.ErrUnexpectedEOF`, or "frame too large") and no
frame — the read loop ends (`H2XEv.connLost`), exactly as for a close at the frame boundary. -/
theorem h2_midframe_cut_is_conn_lost (r : Reader) (input : Bytes) (fh : FrameHeader) (rest : Bytes)
    (hp : parseHeader input = some (fh, rest)) (j : Nat) (hj : j < 9 + fh.length) :
    ∃ e, (readFrame r (input.take j)).1 = .error e ∧ (e = .eof ∨ e = .unexpectedEOF ∨ e = .tooLarge) := by
  unfold readFrame
  by_cases h9 : j < 9
  · have : parseHeader (input.take j) = none := parseHeader_short _ (by simp; omega)
    rw [this]
    simp only []
    split
    · exact ⟨_, rfl, Or.inl rfl⟩
    · exact ⟨_, rfl, Or.inr (Or.inl rfl)⟩
  · rw [parseHeader_take input fh rest hp j (by omega)]
    simp only []
    split
    · exact ⟨_, rfl, Or.inr (Or.inr rfl)⟩
    · have hlt : (rest.take (j - 9)).length < fh.length := by simp; omega
      simp only [hlt, if_true]
      split
      · exact ⟨_, rfl, Or.inl rfl⟩
      · exact ⟨_, rfl, Or.inr (Or.inl rfl)⟩

end wire

/-! ### the connection pool -/

/-- **broken_conn_not_reused_h2.** Once the read loop ended (transport EOF at a frame boundary or
inside a frame, a connection error) or a GOAWAY was processed — with any code, any
last-stream-id — the connection takes no new request and is out of the pool, whatever else
happened before or happens after, in any order. -/
theorem broken_conn_not_reused_h2 (sid : Nat) (isHead : Bool) (ops : List H2XOp)
    (hf : ∃ e ∈ evsOf ops, H2XEv.fatal e = true) :
    ((H2X.init sid isHead).run ops).2.canTakeNewRequest = false ∧
    ((H2X.init sid isHead).run ops).2.inPool = false :=
  fatal_run (H2X.init sid isHead) ops hf (by simp [H2X.init, H2Stream.init])

/-- …and `GetClientConn` never hands out a connection that cannot take a new request: it dials. -/
theorem pool_hands_out_usable (p : H2Pool) : p.getClientConn.2.canTake = true := by
  unfold H2Pool.getClientConn
  cases h : p.conns.find? (·.canTake) with
  | none => rfl
  | some c => simpa using List.find?_some h

/-- After a connection-fatal event the next `GetClientConn` dials a new connection. -/
theorem broken_conn_redials_h2 (sid : Nat) (isHead : Bool) (ops : List H2XOp)
    (hf : ∃ e ∈ evsOf ops, H2XEv.fatal e = true) :
    h2DialsAfterNext ((H2X.init sid isHead).run ops).2 = 2 := by
  obtain ⟨h1, h2⟩ := broken_conn_not_reused_h2 sid isHead ops hf
  simp [h2DialsAfterNext, h1, h2, H2Pool.getClientConn, H2Pool.empty, H2Pool.setCanTake, H2Pool.markDead]

/-- **h2_stream_failure_keeps_conn.** A failure of the stream alone — RST_STREAM with any code but
PROTOCOL_ERROR, a short or over-long body, the caller closing the body — leaves the connection in
the pool and able to take the next request (as long as the read loop did not fail): no new dial. -/
theorem h2_stream_failure_keeps_conn (sid : Nat) (isHead : Bool) (ops : List H2XOp)
    (hs : ∀ e ∈ evsOf ops, H2XEv.streamLevel e = true)
    (hfin : ((H2X.init sid isHead).run ops).2.st.connDead = false) :
    h2DialsAfterNext ((H2X.init sid isHead).run ops).2 = 1 := by
  obtain ⟨h1, h2⟩ := stream_level_run (H2X.init sid isHead) ops hs (by rfl) (by rfl) hfin
  simp [h2DialsAfterNext, h1, h2, H2Pool.getClientConn, H2Pool.empty, H2Pool.setCanTake]

example : h2DialsAfterNext ((H2X.init 1 false).run [.ev (.headers [([58, 115, 116, 97, 116, 117, 115], [50, 48, 48])] false),
    .ev (.rst 8)]).2 = 1 := by decide
example : h2DialsAfterNext ((H2X.init 1 false).run [.ev (.headers [([58, 115, 116, 97, 116, 117, 115], [50, 48, 48])] false),
    .ev (.rst 1)]).2 = 2 := by decide
example : h2DialsAfterNext ((H2X.init 1 false).run [.ev (.goAway 1 0),
    .ev (.headers [([58, 115, 116, 97, 116, 117, 115], [50, 48, 48])] true)]).2 = 2 := by decide

end Req.Props.C03H2
