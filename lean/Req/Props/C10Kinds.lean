import Req.Client.RetryKinds
import Req.Props.C10
/-!
C10, round 5 — the retry decision over the lattice error kind × context state.

`retry_iff_ctx_alive`: for every attempt (any cause, any state of the request's context that
is coherent with it), every policy and attempt counter, the loop goes round again **iff** the
request's context is alive ∧ nothing aborted ∧ retries are enabled and left ∧ the conditions /
the default rule ask for it.  The kind of the error enters only through what the caller's
conditions are shown — never through "it looks like a deadline".
-/
namespace Req.Props.C10Kinds
open Req.Retry Req.RetryKinds Req.Props.C10

variable {σ W : Type} (p : Policy σ) (mw : Nat → σ → σ × W)

theorem outcome_not_before (a : Att) : a.outcome ≠ .beforeErr := by
  obtain ⟨c, n, x⟩ := a
  cases c <;> cases x <;> simp [Att.outcome]

/-- The image of a coherent attempt is "context done" exactly when its context is not alive. -/
theorem outcome_ctx (a : Att) (h : a.coherent = true) :
    (a.outcome = .cancelled ∨ a.outcome.ctxDone = true) ↔ a.ctx ≠ .alive := by
  obtain ⟨c, n, x⟩ := a
  cases c <;> cases x <;> simp_all [Att.outcome, Att.coherent, Outcome.ctxDone]

/-- The error the callbacks are shown is present exactly when the attempt failed. -/
theorem outcome_err (a : Att) : a.outcome.errKind.isSome = a.cause.failed := by
  obtain ⟨c, n, x⟩ := a
  cases c <;> cases x <;> simp [Att.outcome, Outcome.errKind, Cause.failed]

/-- **retry_iff_ctx_alive** (one pass of the real loop model): after an attempt of ANY kind the
loop goes round again iff the request's context is alive and the policy asks for a retry. -/
theorem retry_iff_ctx_alive (a : Att) (h : a.coherent = true) (ra : Nat) (st : σ) (prev : Option Resp) :
    (∃ x, (iteration R p mw a.outcome ra st prev).2 = .inr x) ↔
      a.ctx = .alive ∧ aborted p a.outcome ra = false ∧ p.enabled = true ∧
      (p.maxRetries < 0 ∨ (ra : Int) < p.maxRetries) ∧ need p a.outcome ra = true := by
  rw [retry_iff_step, wants_iff]
  have hctx := outcome_ctx a h
  have hnb := outcome_not_before a
  have hneed : need p a.outcome ra = true ↔
      (if p.conds.isEmpty then a.outcome.errKind.isSome = true
       else ∃ c ∈ p.conds, c.2 ⟨ra, a.outcome.view, a.outcome.errKind⟩ = true) := by
    unfold need
    by_cases hc : p.conds.isEmpty = true <;> simp [hc]
  constructor
  · rintro ⟨_, h2, h3, h4, h5, h6, h7⟩
    refine ⟨?_, h2, h4, h5, hneed.mpr h6⟩
    by_cases hx : a.ctx = .alive
    · exact hx
    · exact absurd (hctx.mpr hx) (by simp [h3, h7])
  · rintro ⟨h1, h2, h4, h5, h6⟩
    have hn : ¬ (a.outcome = .cancelled ∨ a.outcome.ctxDone = true) := fun hh => hctx.mp hh h1
    refine ⟨hnb, h2, fun hh => hn (Or.inl hh), h4, h5, hneed.mp h6, ?_⟩
    cases hd : a.outcome.ctxDone with
    | false => rfl
    | true => exact absurd (Or.inr hd) hn

/-- **default_rule_blind_to_error_kind**: with the default rule (no condition, no request-level
response middleware) two failed attempts that leave the context in the same state are decided
alike — a client timeout, a dial timeout and a connection reset are all just "an error occurred";
in particular an error that merely MATCHES `context.DeadlineExceeded` is retried like any other
while the context is alive. -/
theorem default_rule_blind_to_error_kind (a b : Att) (ha : a.coherent = true) (hb : b.coherent = true)
    (hctx : a.ctx = b.ctx) (hfa : a.cause.failed = true) (hfb : b.cause.failed = true)
    (hc : p.conds = []) (haf : p.after = []) (ra : Nat) (st : σ) (prev : Option Resp) :
    (∃ x, (iteration R p mw a.outcome ra st prev).2 = .inr x) ↔
      (∃ x, (iteration R p mw b.outcome ra st prev).2 = .inr x) := by
  rw [retry_iff_ctx_alive p mw a ha, retry_iff_ctx_alive p mw b hb, hctx]
  have hna : need p a.outcome ra = true := by simp [need, hc, outcome_err, hfa]
  have hnb : need p b.outcome ra = true := by simp [need, hc, outcome_err, hfb]
  simp [hna, hnb, aborted, haf]

/-- **deadline_like_error_is_retried**: an attempt that ran into the client's per-attempt timeout
(or a dial / TLS / read timeout) while the request's context is alive IS retried under the default
rule whenever retries are enabled and left. -/
theorem deadline_like_error_is_retried (a : Att) (hk : a.cause = .clientTimeout ∨ a.cause = .netTimeout)
    (hx : a.ctx = .alive) (hc : p.conds = []) (haf : p.after = []) (he : p.enabled = true)
    (ra : Nat) (hn : p.maxRetries < 0 ∨ (ra : Int) < p.maxRetries) (st : σ) (prev : Option Resp) :
    ∃ x, (iteration R p mw a.outcome ra st prev).2 = .inr x := by
  have hcoh : a.coherent = true := by rcases hk with h | h <;> simp [Att.coherent, h]
  rw [retry_iff_ctx_alive p mw a hcoh]
  have hf : a.cause.failed = true := by rcases hk with h | h <;> simp [Cause.failed, h]
  exact ⟨hx, by simp [aborted, haf], he, hn, by simp [need, hc, outcome_err, hf]⟩

/-- … and NO kind of attempt is followed by another one once the context is done. -/
theorem no_retry_when_ctx_done (a : Att) (h : a.coherent = true) (hx : a.ctx ≠ .alive) (ra : Nat) (st : σ)
    (prev : Option Resp) : ¬ ∃ x, (iteration R p mw a.outcome ra st prev).2 = .inr x := by
  rw [retry_iff_ctx_alive p mw a h]
  exact fun hh => hx hh.1

/-! non-vacuity -/

def exP : Policy Unit := ⟨true, 3, [], [], [], .fixed 0⟩
def exMw : Nat → Unit → Unit × Nat := fun ra s => (s, ra)

/-- the client's timeout on attempt 0, context alive: retried; same error with the context's
deadline passed: not; a connection reset with the context cancelled meanwhile: not -/
example : iterations (loop R exP exMw [(⟨.clientTimeout, 0, .alive⟩ : Att).outcome, .status 200] 0 () none).1 = 2 ∧
    iterations (loop R exP exMw [(⟨.clientTimeout, 0, .expired⟩ : Att).outcome, .status 200] 0 () none).1 = 1 ∧
    iterations (loop R exP exMw [(⟨.transport, 0, .canceled⟩ : Att).outcome, .status 200] 0 () none).1 = 1 ∧
    iterations (loop R exP exMw [(⟨.transport, 0, .alive⟩ : Att).outcome, .status 200] 0 () none).1 = 2 := by
  decide

example : (⟨.netTimeout, 0, .alive⟩ : Att).coherent = true ∧ (⟨.ctxDeadline, 0, .alive⟩ : Att).coherent = false ∧
    Cause.isDeadlineExceeded .clientTimeout = true ∧ Cause.isCanceled .clientTimeout = false := by decide

end Req.Props.C10Kinds
