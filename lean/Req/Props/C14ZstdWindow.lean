import Req.Props.C14Zstd
/-!
C14 — the zstd frame header's PARAMETER space (round 5): which windows the reader under
`Content-Encoding: zstd` accepts. The decoder `ZstdReader` builds (`zstd.NewReader(body)`, no
options) takes every window the format's descriptor byte can name up to klauspost's
`MaxWindowSize` = 2^29, and single-segment frames of any content size up to the same bound;
nothing smaller is a limit (seeded/C14-r5-3 adds `WithDecoderMaxWindow(8 MiB)`; mutation M31 1 MiB).

* `window_accepted_iff` — the descriptor bytes whose window is accepted: exponent 0 … 18 with any
  mantissa (1 KiB … 480 MiB), and exactly `0x98` (2^29);
* `unzstd_any_window` — a frame with ANY such window descriptor, every Frame_Content_Size layout,
  any split into raw blocks that fit the window: exactly the content, then the body's own end;
* `unzstd_single_segment_any_size` — a single-segment frame (no window descriptor: the window is
  the content size) of any content size up to 2^29;
* `unzstd_window_exceeded` — a descriptor that names more than 2^29: an error before any byte of
  that frame is delivered (after whatever complete frames came first) — the memory bound.

Tie: lanes `containers` / `containers_e2e` (kinds `window-large`, `window-max`, `window-above`:
descriptor bytes over the whole range, the model decides accept / refuse), `readers` / `e2e_*`
(real encoder with `WithWindowSize` 1 KiB … 512 MiB, `WithSingleSegment`, 12 MiB payloads).
-/
namespace Req.Props.C14ZstdWindow
open Req.Proto Req.Compress Req.Compress.Zstd Req.Compress.Auto Req.Props.C14Zstd

variable (S : ZSums)

set_option maxRecDepth 8192 in
/-- **window_accepted_iff** — of the 256 window descriptors exactly those with exponent ≤ 18,
and `0x98` (exponent 19, mantissa 0: 2^29), name a window the decoder accepts. -/
theorem window_accepted_iff : ∀ n < 256,
    (windowOf (UInt8.ofNat n) ≤ maxWindow ↔ (n / 8 ≤ 18 ∨ n = 152)) := by decide

example : windowOf 0 = 1024 := by decide
example : windowOf 104 = 8 * 1024 * 1024 := by decide          -- 8 MiB: the RFC 9659 advice
example : windowOf 112 = 16 * 1024 * 1024 := by decide         -- 16 MiB: `zstd --long=24`
example : windowOf 152 = maxWindow := by decide
example : ¬ windowOf 153 ≤ maxWindow := by decide

/-- **unzstd_any_window** — a frame with a window descriptor, whatever window (≤ 2^29) it names. -/
theorem unzstd_any_window (hS : ∀ x, (S.sum x).length = 4) (fhd wd : UInt8) (f : Bytes)
    (bs : List Bytes) (l : Bytes)
    (hss : fhd &&& 32 = 0) (hres : fhd &&& 8 = 0) (hwin : windowOf wd ≤ maxWindow)
    (hf : f.length = fcsLen fhd)
    (hv : fcsLen fhd ≠ 0 →
      (if fcsLen fhd = 2 then leVal f + 256 else leVal f) = (bs.flatten ++ l).length)
    (hb : ∀ b ∈ bs, b.length ≤ maxBlock ∧ b.length ≤ windowOf wd)
    (hl : l.length ≤ maxBlock ∧ l.length ≤ windowOf wd) (fin : Term) :
    unzstd S fin ((Frame.data fhd wd f bs l).bytes S) = (bs.flatten ++ l, fin) := by
  have hw : ∀ t, frameWindow fhd wd t = windowOf wd := by
    intro t; simp [frameWindow, hss]
  have wf : DataWF fhd wd f bs l :=
    ⟨hres, hf, hv, by rw [hw]; exact hwin, by intro b hb'; rw [hw]; exact hb b hb', by rw [hw]; exact hl⟩
  have := unzstd_frames S hS [Frame.data fhd wd f bs l]
    (by intro x hx; simp at hx; subst hx; exact wf) fin
  simpa [wireOf, contentOf, Frame.content] using this

/-- **unzstd_single_segment_any_size** — no window descriptor: the content size is the window;
any size up to 2^29 is read (blocks of at most 128 KiB that fit the window, which is never
below 1 KiB). -/
theorem unzstd_single_segment_any_size (hS : ∀ x, (S.sum x).length = 4) (fhd wd : UInt8)
    (f : Bytes) (bs : List Bytes) (l : Bytes)
    (hss : fhd &&& 32 ≠ 0) (hres : fhd &&& 8 = 0)
    (hsize : (bs.flatten ++ l).length ≤ maxWindow)
    (hf : f.length = fcsLen fhd)
    (hv : (if fcsLen fhd = 2 then leVal f + 256 else leVal f) = (bs.flatten ++ l).length)
    (hb : ∀ b ∈ bs, b.length ≤ maxBlock ∧ b.length ≤ max (bs.flatten ++ l).length minWindow)
    (hl : l.length ≤ maxBlock ∧ l.length ≤ max (bs.flatten ++ l).length minWindow) (fin : Term) :
    unzstd S fin ((Frame.data fhd wd f bs l).bytes S) = (bs.flatten ++ l, fin) := by
  have hw : frameWindow fhd wd (bs.flatten ++ l).length = max (bs.flatten ++ l).length minWindow := by
    simp [frameWindow, hss]
  have hmax : max (bs.flatten ++ l).length minWindow ≤ maxWindow := by
    have : minWindow ≤ maxWindow := by decide
    exact Nat.max_le.mpr ⟨hsize, this⟩
  have wf : DataWF fhd wd f bs l :=
    ⟨hres, hf, fun _ => hv, by rw [hw]; exact hmax, by intro b hb'; rw [hw]; exact hb b hb',
      by rw [hw]; exact hl⟩
  have := unzstd_frames S hS [Frame.data fhd wd f bs l]
    (by intro x hx; simp at hx; subst hx; exact wf) fin
  simpa [wireOf, contentOf, Frame.content] using this

/-- the header of a frame (no Dictionary_ID, no Frame_Content_Size field) whose window
descriptor names more than the decoder's bound: refused at the descriptor -/
theorem run_window_exceeded (fhd wd : UInt8) (r : Bytes)
    (hss : fhd &&& 32 = 0) (hres : fhd &&& 8 = 0) (hd : dictLen fhd = 0) (hc : fcsLen fhd = 0)
    (hwin : maxWindow < windowOf wd) :
    (zframe S).run (0x28 :: 0xB5 :: 0x2F :: 0xFD :: fhd :: wd :: r) (.magic []) =
      (.failed Zstd.errCorrupt, [], r) := by
  rw [run_magic]
  rw [zrun_silent S fhd _ .fhd (.win fhd) rfl (by simp [zstep, hres, hss])]
  have hstep : zstep S (.win fhd) wd = (.failed Zstd.errCorrupt, none) := by
    have hw : ¬ (windowOf wd ≤ maxWindow) := Nat.not_le.mpr hwin
    simp [zstep, afterWin, afterDict, startBlocks, hd, hc, hss, Nat.not_le.mp hw]
  rw [zrun_silent S wd _ (.win fhd) _ rfl hstep]
  exact zfailed_stop S _ r

/-- **unzstd_window_exceeded** — after any complete frames, a frame whose descriptor names a
window above 2^29 ends the body in an error; nothing of it is delivered. -/
theorem unzstd_window_exceeded (hS : ∀ x, (S.sum x).length = 4) (fs : List Frame)
    (hok : ∀ f ∈ fs, Frame.OK f) (fhd wd : UInt8) (r : Bytes)
    (hss : fhd &&& 32 = 0) (hres : fhd &&& 8 = 0) (hd : dictLen fhd = 0) (hc : fcsLen fhd = 0)
    (hwin : maxWindow < windowOf wd) (fin : Term) :
    unzstd S fin (wireOf S fs ++ 0x28 :: 0xB5 :: 0x2F :: 0xFD :: fhd :: wd :: r) =
      (contentOf fs, Zstd.errCorrupt) := by
  have := after_frames S hS fs hok (0x28 :: 0xB5 :: 0x2F :: 0xFD :: fhd :: wd :: r) (by simp) _ _ _
    Zstd.errCorrupt (run_window_exceeded S fhd wd r hss hres hd hc hwin) rfl fin
  simpa using this

/-! ### non-vacuity -/

/-- "hello" behind a 16 MiB window descriptor, check-summed, four-byte content size -/
example : unzstd xxh .eof ((Frame.data 0x84 112 [5, 0, 0, 0] [[104, 101]] [108, 108, 111]).bytes xxh) =
    ([104, 101, 108, 108, 111], .eof) :=
  unzstd_any_window xxh xxh_len 0x84 112 _ _ _ (by decide) (by decide) (by decide) (by decide)
    (by intro _; decide) (by intro b hb; simp at hb; subst hb; decide) (by decide) .eof

/-- the same bytes with descriptor 0x99 (2^29 + 2^26): refused -/
example : unzstd xxh .eof ([0x28, 0xB5, 0x2F, 0xFD, 0x04, 0x99, 1, 0, 0]) = ([], Zstd.errCorrupt) :=
  unzstd_window_exceeded xxh xxh_len [] (by intro f hf; cases hf) 0x04 0x99 [1, 0, 0] (by decide)
    (by decide) (by decide) (by decide) (by decide) .eof

end Req.Props.C14ZstdWindow
