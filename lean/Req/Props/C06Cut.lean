import Req.Props.C06Peer
import Req.Lemmas.C06Cut
/-!
C06, round 5 — operations inside somebody's frame write (`Req.H2.Cut`).

`conn_conforms` quantifies over operation lists at lock granularity. Two families of schedules of
the real code sit below that granularity because `cc.wmu` is held across a blocking write: a
request cancelled at some octet of its (multi-frame) header block, and a caller operation on
another stream (`Body.Close`, `Body.Read`, cancel) issued while a body writer is parked inside a
DATA frame. The script lane drives the real `ClientConn` into exactly these situations (a gate
between the connection and the socket parks the writer at a chosen octet) and compares the frames
with `Cut.xstep Variant.real`. The theorems here say what that model is worth:

* `cut_is_run` — every such script is a run of the atomic machine (same state, same history), so
* `cut_conforms`, `cut_peer_window_exact`, `cut_credit_accounted` — the strict peer accepts it, and
  the peer's books agree with the client's;
* `block_contiguous_under_cancel` — the frames do not depend on the cut point at all;
* `close_returns_all_credit` — after `Body.Close` at ANY state of the response (unread, partly
  read, fully received, already ended by the peer) the peer's connection window, by the peer's
  own books, is what the client advertised minus what is still buffered for OTHER streams (minus
  the sub-threshold remainder `unsent < 4096` that goes out with the next update);
* two counter-examples: the alternatives `Variant.cancelBetweenFrames` and `Variant.closeTryLock`
  (what the seeded changes C06-r4-1 / C06-r4-3 are instances of) are rejected.
-/
set_option linter.unusedSimpArgs false
namespace Req.Props.C06
open Req.H2 Req.H2.Flow Req.H2.Conn Req.H2.Monitor Req.H2.Cut Req.Lemmas.C06

/-- **cut_is_run**: a script with cancellations inside header blocks and operations under a held
`cc.wmu` is a run of the connection machine on an operation list (the two halves of each such
operation one after the other, `write`s and wake-ups inserted): same final state, same history. -/
theorem cut_is_run (cfg : Cfg) (xs : List XOp) :
    ∃ ops : List Op, ((∀ x ∈ xs, x.ok) → ∀ o ∈ ops, o.ok) ∧ run cfg ops = xrun Variant.real cfg xs := by
  obtain ⟨ops, h1, h2⟩ := xrunFrom_is_run xs (newConn cfg).1 ((newConn cfg).2.map Event.c)
  exact ⟨ops, h1, h2⟩

/-- **cut_conforms**: the strict peer accepts every frame of every such script — whatever octet
of a header block the cancellation arrives at, whatever is going on while `cc.wmu` is held. -/
theorem cut_conforms (cfg : Cfg) (hfix : cfg.fixes = Fixes.all) (hcfg : cfg.ok)
    (xs : List XOp) (hxs : ∀ x ∈ xs, x.ok) :
    Monitor (xrun Variant.real cfg xs).2 = true := by
  obtain ⟨ops, h1, h2⟩ := cut_is_run cfg xs
  rw [← h2]
  exact conn_conforms cfg hfix hcfg ops (h1 hxs)

/-- **cut_peer_window_exact**: … and the peer's connection-level send window by its own books
equals `cc.inflow.avail` (credit committed under `cc.mu` while `cc.wmu` was held is written, not
dropped). -/
theorem cut_peer_window_exact (cfg : Cfg) (hfix : cfg.fixes = Fixes.all) (hcfg : cfg.ok)
    (xs : List XOp) (hxs : ∀ x ∈ xs, x.ok) :
    (xrun Variant.real cfg xs).1.closed = true ∨
    ∃ r, Recv.run Recv.init (xrun Variant.real cfg xs).2 = .ok r ∧
      r.connWin = (xrun Variant.real cfg xs).1.connIn.avail := by
  obtain ⟨ops, h1, h2⟩ := cut_is_run cfg xs
  rw [← h2]
  exact peer_window_exact cfg hfix hcfg ops (h1 hxs)

/-- **cut_credit_accounted**: the peer's window + what waits below the refresh threshold + what
sits unread in response bodies = what the client advertised. -/
theorem cut_credit_accounted (cfg : Cfg) (hfix : cfg.fixes = Fixes.all) (hcfg : cfg.ok)
    (xs : List XOp) (hxs : ∀ x ∈ xs, x.ok) :
    let st := (xrun Variant.real cfg xs).1
    st.closed = true ∨ st.panicked = true ∨
    ∃ r, Recv.run Recv.init (xrun Variant.real cfg xs).2 = .ok r ∧
      r.connWin + st.connIn.unsent + sumBuffered st.streams = connInflowInit cfg.connFlow ∧
      Fresh st.connIn := by
  obtain ⟨ops, h1, h2⟩ := cut_is_run cfg xs
  rw [← h2]
  rcases peer_window_exact cfg hfix hcfg ops (h1 hxs) with h | ⟨r, hr1, hr2⟩
  · exact Or.inl h
  · rcases credit_conservation cfg hfix ops (h1 hxs) with hp | ⟨hc, hf, _⟩
    · exact Or.inr (Or.inl hp)
    · refine Or.inr (Or.inr ⟨r, hr1, ?_, hf⟩)
      rw [hr2]; exact hc

/-- a default connection; a request with a 40000-octet header block (three frames) cancelled
after one octet; an upload parked in its DATA frame while a response with 16384 unread octets
is closed -/
def exampleCut : List XOp :=
  [.plain (.peer (.settings [])), .openCancel { hdrLen := 40000, bodyLen := 0, known := true } 1,
   .plain (.openStream 50 100000 true), .plain (.openStream 50 0 true),
   .plain (.peer (.headers 5 false)), .plain (.peer (.data 5 16384 0 false)),
   .held 3 0 (.close 5)]

example : ∀ x ∈ exampleCut, x.ok := by
  intro x hx
  simp [exampleCut] at hx
  rcases hx with rfl | rfl | rfl | rfl | rfl | rfl | rfl <;> simp [XOp.ok, Op.ok, PFrame.ok, Op.openStream]

example : clientFrames (xrun Variant.real exampleCfg exampleCut).2 =
    [.settings [(2, 0), (4, 4194304), (6, 10485760)], .windowUpdate 0 1073741824, .settingsAck,
     .headers 1 16384 true false, .continuation 1 16384 false, .continuation 1 7232 true, .rst 1,
     .headers 3 50 false true, .headers 5 50 true true,
     .data 3 16384 false, .rst 5, .windowUpdate 0 16384] := by decide

/-- **block_contiguous_under_cancel**: what the client writes for a request that is cancelled
while its header block is being written does not depend on the octet at which the cancellation
arrives: `writeHeaders` holds `cc.wmu` from HEADERS to the last CONTINUATION and does not look.
(That the block is contiguous and complete on the wire is then `cut_conforms`.) -/
theorem block_contiguous_under_cancel (st : State) (r : Req) (cut cut' : Nat) :
    xstepE Variant.real st (.openCancel r cut) = xstepE Variant.real st (.openCancel r cut') := by
  simp [xstepE, Variant.real, writeBlock_real]

/-- … and it is what opening and then cancelling gives at lock granularity -/
theorem open_cancel_frames (st : State) (r : Req) (cut : Nat) :
    (xstep Variant.real st (.openCancel r cut)).2 =
      (step st (.openReq r)).2 ++ (scriptStep (step st (.openReq r)).1 (.cancel st.nextStreamID)).2 := by
  simp only [xstep, xstepE, Variant.real, writeBlock_real, clientFrames_append, clientFrames_scriptEvents]
  cases hc : st.closed with
  | true => simp [step_closed hc, clientFrames]
  | false => simp [clientFrames_map_c]

/-- the state after one more operation -/
theorem run_snoc (cfg : Cfg) (ops : List Op) (op : Op) :
    (run cfg (ops ++ [op])).1 = (step (run cfg ops).1 op).1 := by
  have hrun : ∀ l, run cfg l = runFrom (newConn cfg).1 ((newConn cfg).2.map Event.c) l := fun _ => rfl
  rw [hrun, hrun, runFrom_append, step_is_run]

/-- **close_returns_all_credit**: `Body.Close` on a response that has a body and was not closed
before — whatever has been received, whatever has been read, whether or not the peer has already
ended the stream, whether or not the stream is still in `cc.streams` — leaves the books like
this: the peer's connection-level send window (by the peer's own books: `Recv`) plus what waits
below the refresh threshold (`unsent`, less than 4096 and less than the window) plus what is
still buffered for OTHER streams is everything the client advertised. Nothing of the closed
response is held back. (`peer_window_exact` + `credit_conservation` across `Close` at any state.) -/
theorem close_returns_all_credit (cfg : Cfg) (hfix : cfg.fixes = Fixes.all) (hcfg : cfg.ok)
    (ops : List Op) (hops : ∀ op ∈ ops, op.ok) (id : Nat) (s : Stream)
    (hf : findStream (run cfg ops).1.streams id = some s)
    (h1 : s.gotHeaders = true) (h2 : s.noBody = false) (h3 : s.broken = false) :
    let st := (run cfg (ops ++ [.close id])).1
    st.closed = true ∨ st.panicked = true ∨
    ∃ r, Recv.run Recv.init (history (run cfg (ops ++ [.close id]))) = .ok r ∧
      r.connWin + st.connIn.unsent + sumBuffered (st.streams.filter (fun t => t.id ≠ id)) =
        connInflowInit cfg.connFlow ∧
      Fresh st.connIn := by
  intro st
  have hops' : ∀ op ∈ ops ++ [Op.close id], op.ok := by
    intro op hop
    rcases List.mem_append.mp hop with h | h
    · exact hops op h
    · have : op = Op.close id := by simpa using h
      subst this; trivial
  cases hc0 : (run cfg ops).1.closed with
  | true =>
    left
    show (run cfg (ops ++ [.close id])).1.closed = true
    rw [run_snoc, step_closed hc0]; exact hc0
  | false =>
    rcases peer_window_exact cfg hfix hcfg _ hops' with h | ⟨r, hr1, hr2⟩
    · exact Or.inl h
    · rcases credit_conservation cfg hfix _ hops' with hp | ⟨hc, hfr, _⟩
      · exact Or.inr (Or.inl hp)
      · refine Or.inr (Or.inr ⟨r, hr1, ?_, hfr⟩)
        have hz : ∀ t ∈ st.streams, t.id = id → t.buffered = 0 := by
          show ∀ t ∈ (run cfg (ops ++ [.close id])).1.streams, t.id = id → t.buffered = 0
          rw [run_snoc]
          exact close_step_buffered _ id s hc0 hf h1 h2 h3
        rw [← sumBuffered_filter_ne id st.streams hz, hr2]
        exact hc

/-- a download: 16384 octets received, 5000 read, the peer ends the stream, `Close` — and a
second response still unread: the hypotheses are satisfiable, the run is not trivial -/
def opsCloseEnded : List Op :=
  [.peer (.settings []), .openStream 50 0 true, .openStream 50 0 true,
   .peer (.headers 1 false), .peer (.headers 3 false), .peer (.data 3 7000 0 false),
   .peer (.data 1 16384 0 false), .read 1 5000, .peer (.data 1 100 0 true)]

example : (findStream (run exampleCfg opsCloseEnded).1.streams 1).map
    (fun s => (s.gotHeaders, s.noBody, s.broken, s.peerEnd, s.buffered)) = some (true, false, false, true, 11484) := by decide
example : (history (run exampleCfg (opsCloseEnded ++ [.close 1]))).getLast? = some (.c (.windowUpdate 0 11484)) := by decide
example : sumBuffered ((run exampleCfg (opsCloseEnded ++ [.close 1])).1.streams.filter (fun t => t.id ≠ 1)) = 7000 := by decide

/-- a loop that looks at the cancellation between the frames of a block (the alternative
`cancelBetweenFrames`): HEADERS without END_HEADERS, then RST_STREAM — the strict peer rejects
the history; the code as it is passes -/
theorem cancel_between_frames_counterexample :
    let xs : List XOp := [.plain (.peer (.settings [])), .openCancel { hdrLen := 40000, bodyLen := 0, known := true } 1]
    Monitor (xrun Variant.real exampleCfg xs).2 = true ∧
    Monitor (xrun { cancelBetweenFrames := true } exampleCfg xs).2 = false ∧
    clientFrames (xstepE { cancelBetweenFrames := true }
      (xrun Variant.real exampleCfg [.plain (.peer (.settings []))]).1
      (.openCancel { hdrLen := 40000, bodyLen := 0, known := true } 1)).2 =
      [.headers 1 16384 true false, .rst 1] := by decide

/-- an upload of 100 octets with 40000 octets of trailers, cancelled one octet into the second
frame of the trailer block -/
def exampleTrailerCut : List XOp :=
  [.plain (.peer (.settings [])), .plain (.openReq { hdrLen := 50, bodyLen := 100, known := true, trailer := some 40000 }),
   .feedCancel 1 0 16385]

/-- the same for the request's trailer block: the code as it is writes DATA, the whole trailer
block (END_STREAM, END_HEADERS on the last frame), then RST_STREAM; the alternative stops after
the second frame -/
theorem cancel_in_trailers_counterexample :
    clientFrames (xstepE Variant.real (xrun Variant.real exampleCfg (exampleTrailerCut.take 2)).1 (.feedCancel 1 0 16385)).2 =
      [.data 1 100 false, .headers 1 16384 true false, .continuation 1 16384 false, .continuation 1 7232 true, .rst 1] ∧
    Monitor (xrun Variant.real exampleCfg exampleTrailerCut).2 = true ∧
    clientFrames (xstepE { cancelBetweenFrames := true } (xrun Variant.real exampleCfg (exampleTrailerCut.take 2)).1 (.feedCancel 1 0 16385)).2 =
      [.data 1 100 false, .headers 1 16384 true false, .continuation 1 16384 false, .rst 1] ∧
    Monitor (xrun { cancelBetweenFrames := true } exampleCfg exampleTrailerCut).2 = false := by decide

/-- `Body.Close` that drops its WINDOW_UPDATE when `cc.wmu` is taken (the alternative
`closeTryLock`): the peer's window is 16384 octets below the client's books, for good; the code
as it is: equal -/
theorem close_trylock_counterexample :
    let r := xrun { closeTryLock := true } exampleCfg exampleCut
    let r' := xrun Variant.real exampleCfg exampleCut
    r.1.closed = false ∧ peerConnWin r.2 = r.1.connIn.avail - 16384 ∧
    r'.1.closed = false ∧ peerConnWin r'.2 = r'.1.connIn.avail := by decide

end Req.Props.C06

namespace Req.Props.C06
open Req.H2 Req.H2.Conn
/-- /repo 5224b93: a 204 with Content-Length 10 whose stream stays open — 5000 octets of DATA are
read and credited at both levels like any other (no "more than declared" abort); a 200 with the
same declaration is aborted by the Read (RST_STREAM, connection-level credit only) -/
example : (history (run exampleCfg [.peer (.settings []), .openStream 51 0 true, .peer (.resp 1 false 204 (some 10)),
    .peer (.data 1 5000 0 false), .read 1 8192])).getLast? = some (.c (.windowUpdate 1 5000)) := by decide
example : (history (run exampleCfg [.peer (.settings []), .openStream 51 0 true, .peer (.resp 1 false 200 (some 10)),
    .peer (.data 1 5000 0 false), .read 1 8192])).getLast? = some (.c (.windowUpdate 0 5000)) := by decide
end Req.Props.C06
