import Req.Client.RedirectLoop
import Req.Lemmas.C11Loop
import Req.Lemmas.C11Chain
/-!
C11 — the property over the WHOLE hop loop (`Req.Redirect.Loop`: net/http `Client.do` with the
`SetRedirectPolicy` closure as `CheckRedirect`, header copier, method/body rewriting, Referer, `Host`
override, cookie jar), for every script of replies of any length: any status codes, any Location
forms (absolute, network-path, path-only, unparsable, missing, with userinfo, empty host), any
Set-Cookie, any initial request.

1. `credentials_never_reach_refused_host` and its instances for each host policy: a request — hence
   any header, cookie or body — reaches an origin only if EVERY configured policy allowed that
   origin's `URL.Host` given exactly the requests sent before.
2. `policy_reads_only_url_host`, `host_override_not_origin`, `host_field_only_across_relative`: the
   `Host` override, userinfo, scheme, method, path are not what policies judge by.
3. `sensitive_headers_cross_origin`, `header_flow_loop`, `always_copy_everywhere`: Go's sticky
   stripping and AlwaysCopy, at map-entry level.
4. `policy_order_irrelevant_for_delivery`: which requests are sent does not depend on the order of the
   `SetRedirectPolicy` arguments — the host policies are evaluated before anything reaches the wire.
5. `method_body_rewrite`: method and body of each followed redirect.
-/
namespace Req.Props.C11Loop
open Req.Proto Req.Ascii Req.Redirect Req.Redirect.Loop Req.Lemmas.C11 Req.Lemmas.C11Loop

/-- The requests `Client.Do` sent: the first one, then the followed redirects. -/
theorem start_sent (cfg : Config) (ireq : Loop.Req) (script : List Reply) :
    ∃ later, (start cfg ireq script).1 = sendMutate cfg [] ireq :: later ∧
      Chain cfg { copier := Copier.init cfg.jar ireq.hdr } ireq script later := by
  obtain ⟨later, hs, hc⟩ := run_chain cfg script { copier := Copier.init cfg.jar ireq.hdr } ireq
  exact ⟨later, by simpa [start] using hs, hc⟩

/-! ## 1. No request without permission -/

/-- **credentials_never_reach_refused_host**: in every run of the loop, the (k+1)-th request was
allowed by EVERY configured policy, evaluated on its `URL.Host` and on exactly the requests sent
before it. Contrapositive: an origin some policy refuses receives no request at all — no
Authorization, no Cookie (client-supplied or from the jar), no custom header, no body. -/
theorem credentials_never_reach_refused_host (cfg : Config) (ireq : Loop.Req) (script : List Reply)
    (k : Nat) (hk : k + 1 < (start cfg ireq script).1.length) :
    ∀ p, some p ∈ cfg.ps →
      p.check ((start cfg ireq script).1[k + 1]).url.host
        { first := ((start cfg ireq script).1[0]).toHop
          rest := (((start cfg ireq script).1.drop 1).take k).map Req.toHop } = .allow := by
  obtain ⟨later, hs, hc⟩ := start_sent cfg ireq script
  intro p hp
  have hk' : k < later.length := by rw [hs] at hk; simpa using hk
  have := permitted_get cfg.ps _ later (chain_permitted hc) k hk' p hp
  simpa [hs, viaL] using this

/-- The first request goes where the caller said. -/
theorem first_request_url (cfg : Config) (ireq : Loop.Req) (script : List Reply) :
    ((start cfg ireq script).1[0]?).map (·.url) = some ireq.url := by
  obtain ⟨later, hs, _⟩ := start_sent cfg ireq script
  simp [hs]

/-- **same_host_every_request**: with SameHostRedirectPolicy anywhere in the composition, EVERY
request of every run goes to the hostname of the original URL (`getHostname` = the URL's hostname,
lower-cased, port and brackets removed: `hostname_spec`). -/
theorem same_host_every_request (cfg : Config) (hp : some sameHostRedirectPolicy ∈ cfg.ps)
    (ireq : Loop.Req) (script : List Reply) (k : Nat) (hk : k < (start cfg ireq script).1.length) :
    getHostname ((start cfg ireq script).1[k]).url.host = getHostname ireq.url.host := by
  obtain ⟨later, hs, hc⟩ := start_sent cfg ireq script
  cases k with
  | zero => simp [hs]
  | succ k =>
    have := credentials_never_reach_refused_host cfg ireq script k hk _ hp
    simp only [sameHostRedirectPolicy] at this
    split at this
    · exact absurd this (by simp)
    · rename_i hne
      simpa [hs, Req.toHop] using hne

/-- **same_domain_every_request** -/
theorem same_domain_every_request (cfg : Config) (hp : some sameDomainRedirectPolicy ∈ cfg.ps)
    (ireq : Loop.Req) (script : List Reply) (k : Nat) (hk : k < (start cfg ireq script).1.length) :
    getDomain ((start cfg ireq script).1[k]).url.host = getDomain ireq.url.host := by
  obtain ⟨later, hs, hc⟩ := start_sent cfg ireq script
  cases k with
  | zero => simp [hs]
  | succ k =>
    have := credentials_never_reach_refused_host cfg ireq script k hk _ hp
    simp only [sameDomainRedirectPolicy] at this
    split at this
    · exact absurd this (by simp)
    · rename_i hne
      simpa [hs, Req.toHop] using hne

/-- **allowed_host_every_request**: with AllowedHostRedirectPolicy(hosts…) in the composition every
REDIRECTED request goes to the hostname of one of the configured entries. -/
theorem allowed_host_every_request (cfg : Config) (hosts : List Bytes)
    (hp : some (allowedHostRedirectPolicy hosts) ∈ cfg.ps)
    (ireq : Loop.Req) (script : List Reply) (k : Nat) (hk : k + 1 < (start cfg ireq script).1.length) :
    getHostname ((start cfg ireq script).1[k + 1]).url.host ∈ hosts.map fun h => lower (getHostname h) := by
  have := credentials_never_reach_refused_host cfg ireq script k hk _ hp
  simp only [allowedHostRedirectPolicy] at this
  split at this
  · rename_i hc; exact List.contains_iff_mem.mp hc
  · exact absurd this (by simp)

/-- **allowed_domain_every_request** -/
theorem allowed_domain_every_request (cfg : Config) (hosts : List Bytes)
    (hp : some (allowedDomainRedirectPolicy hosts) ∈ cfg.ps)
    (ireq : Loop.Req) (script : List Reply) (k : Nat) (hk : k + 1 < (start cfg ireq script).1.length) :
    getDomain ((start cfg ireq script).1[k + 1]).url.host ∈ hosts.map fun h => lower (getDomain h) := by
  have := credentials_never_reach_refused_host cfg ireq script k hk _ hp
  simp only [allowedDomainRedirectPolicy] at this
  split at this
  · rename_i hc; exact List.contains_iff_mem.mp hc
  · exact absurd this (by simp)

/-- **loop_bound**: with MaxRedirectPolicy(n) anywhere in the composition no run — whatever the
statuses, Location forms, cookies — sends more than `max 1 n` requests. -/
theorem loop_bound (cfg : Config) (n : Int) (hp : some (maxRedirectPolicy n) ∈ cfg.ps)
    (ireq : Loop.Req) (script : List Reply) :
    ((start cfg ireq script).1.length : Int) ≤ max 1 n := by
  obtain ⟨later, hs, hc⟩ := start_sent cfg ireq script
  rw [hs]
  cases hl : later.length with
  | zero => simp [hl]; omega
  | succ m =>
    have hk : m + 1 < (start cfg ireq script).1.length := by rw [hs]; simp [hl]
    have := credentials_never_reach_refused_host cfg ireq script m hk _ hp
    have := (max_check_iff n _ _).mp this
    simp only [Via.length, List.length_map, List.length_take, List.length_drop, hs, List.length_cons] at this
    simp only [List.length_cons, hl]
    omega

/-- **loop_no_redirect**: with NoRedirectPolicy anywhere only the original request is sent. -/
theorem loop_no_redirect (cfg : Config) (hp : some noRedirectPolicy ∈ cfg.ps)
    (ireq : Loop.Req) (script : List Reply) : (start cfg ireq script).1.length = 1 := by
  obtain ⟨later, hs, hc⟩ := start_sent cfg ireq script
  cases later with
  | nil => simp [hs]
  | cons x xs =>
    have hk : 0 + 1 < (start cfg ireq script).1.length := by rw [hs]; simp
    have := credentials_never_reach_refused_host cfg ireq script 0 hk _ hp
    simp [noRedirectPolicy] at this

/-! ## 2. What the policies judge by -/

/-- **policy_reads_only_url_host**: the verdict of the installed closure — and the header map it
leaves — is the same for any two (request, via) pairs that agree on `URL.Host` and header map of the
request and of every via entry: the `Host` field (header override), userinfo, scheme, method, path,
body of ANY of the requests involved cannot change it. -/
theorem policy_reads_only_url_host (ps : List (Option Policy)) (req req' : Loop.Req)
    (prev prev' : List Loop.Req) (last last' : Loop.Req)
    (h1 : req.toHop = req'.toHop) (h2 : prev.map Req.toHop = prev'.map Req.toHop)
    (h3 : last.toHop = last'.toHop) :
    checkRedirect ps req prev last = checkRedirect ps req' prev' last' := by
  have hv : viaOf prev last = viaOf prev' last' := by
    rw [viaOf_eq, viaOf_eq]
    have : (prev ++ [last]).map Req.toHop = (prev' ++ [last']).map Req.toHop := by simp [h2, h3]
    generalize prev ++ [last] = l at this
    generalize prev' ++ [last'] = l' at this
    cases l <;> cases l' <;> simp_all [viaL]
  have hh : req.url.host = req'.url.host := congrArg Hop.host h1
  have hd : req.hdr = req'.hdr := congrArg Hop.hdr h1
  simp [checkRedirect, hv, hh, hd]

/-- **host_override_not_origin**: a `Host` header override (request level or common header) changes
`http.Request.Host` only; the authority the policies see as the origin (`via[0].URL.Host`) is the
one of the URL the caller addressed, minus an empty port. -/
theorem host_override_not_origin (cl : ApiClient) (a : ApiCall) :
    (initialRequest cl a).toHop.host = removeEmptyPort a.url.host ∧
    (initialRequest cl a).url.user = a.url.user ∧ (initialRequest cl a).url.scheme = a.url.scheme := by
  simp [initialRequest, Req.toHop]

/-- …and it is what the receiver reads in `Host`. -/
example :
    let a : ApiCall := { url := { host := [49, 46, 50, 46, 51, 46, 52] }, method := mGET,
                         headers := [(hHost, [[97, 46, 98]])] }
    (initialRequest {} a).hostField = [97, 46, 98] ∧ (initialRequest {} a).url.host = [49, 46, 50, 46, 51, 46, 52] := by
  decide

/-- **host_field_only_across_relative** and **method_body_rewrite**: for consecutive requests of a
run, with `r` the reply that led from one to the next: the next URL is the Location resolved against
the previous URL; the method is GET after 301/302/303 unless it was GET or HEAD, unchanged after
307/308; a body is attached only after 307/308 and only if the original request can replay it; the
`Host` field is carried over only when it was a real override and the Location has no scheme, and is
empty (= the new URL's host is used) otherwise. -/
theorem consecutive_requests (cfg : Config) (ireq : Loop.Req) (script : List Reply) (k : Nat)
    (hk : k + 1 < (start cfg ireq script).1.length) :
    ∃ r, script[k]? = some r ∧
      let a := (start cfg ireq script).1[k]
      let b := (start cfg ireq script).1[k + 1]
      resolve a.url r.loc = some b.url ∧
      (b.method = if (r.status = 301 ∨ r.status = 302 ∨ r.status = 303) ∧ a.method ≠ mGET ∧ a.method ≠ mHEAD
                  then mGET else a.method) ∧
      (b.body = true → (r.status = 307 ∨ r.status = 308) ∧ cfg.getBody = true) ∧
      (b.hostField = if a.hostField ≠ [] ∧ a.hostField ≠ a.url.host ∧ r.loc.isAbs = false
                     then a.hostField else []) := by
  obtain ⟨later, hs, hc⟩ := start_sent cfg ireq script
  have hl := chain_linked hc
  have hk' : k < later.length := by rw [hs] at hk; simpa using hk
  -- walk down the chain to position k
  have walk : ∀ (cur : Loop.Req) (rs : List Reply) (xs : List Loop.Req) (k : Nat) (hk : k < xs.length),
      Linked cfg cur rs xs →
      ∃ r, rs[k]? = some r ∧
        let a := (cur :: xs)[k]'(by simp; omega)
        let b := xs[k]
        resolve a.url r.loc = some b.url ∧
        (b.method = if (r.status = 301 ∨ r.status = 302 ∨ r.status = 303) ∧ a.method ≠ mGET ∧ a.method ≠ mHEAD
                    then mGET else a.method) ∧
        (b.body = true → (r.status = 307 ∨ r.status = 308) ∧ cfg.getBody = true) ∧
        (b.hostField = if a.hostField ≠ [] ∧ a.hostField ≠ a.url.host ∧ r.loc.isAbs = false
                       then a.hostField else []) := by
    intro cur rs xs k
    induction k generalizing cur rs xs with
    | zero =>
      intro hk hl
      cases xs with
      | nil => simp at hk
      | cons x xs =>
        cases rs with
        | nil => exact absurd hl (by simp [Linked])
        | cons r rs =>
          obtain ⟨⟨rm, ib, u, hb, hr, hu, hm, hbody, hh⟩, _⟩ := hl
          refine ⟨r, rfl, ?_, ?_, ?_, ?_⟩
          · simpa [hu] using hr
          · simp only [List.getElem_cons_zero, hm]
            unfold redirectBehavior at hb
            by_cases h1 : r.status = 301 ∨ r.status = 302 ∨ r.status = 303
            · simp only [h1, if_true, Option.some.injEq, Prod.mk.injEq] at hb
              rw [← hb.1]
              by_cases hg : cur.method = mGET <;> by_cases hh' : cur.method = mHEAD <;> simp [hg, hh', h1]
            · simp only [h1, if_false] at hb
              split at hb
              · split at hb
                · simp only [Option.some.injEq, Prod.mk.injEq] at hb
                  simp [← hb.1, h1]
                · exact absurd hb (by simp)
              · exact absurd hb (by simp)
          · simp only [List.getElem_cons_zero, hbody]
            intro hbt
            simp only [Bool.and_eq_true] at hbt
            refine ⟨?_, hbt.2⟩
            unfold redirectBehavior at hb
            by_cases h1 : r.status = 301 ∨ r.status = 302 ∨ r.status = 303
            · simp only [h1, if_true, Option.some.injEq, Prod.mk.injEq] at hb
              rw [← hb.2] at hbt; simp at hbt
            · simp only [h1, if_false] at hb
              split at hb
              · rename_i h2; exact h2
              · exact absurd hb (by simp)
          · simp only [List.getElem_cons_zero, hh]
            by_cases e1 : cur.hostField = [] <;> by_cases e2 : cur.hostField = cur.url.host <;>
              cases e3 : r.loc.isAbs <;> simp [e1, e2]
    | succ k ih =>
      intro hk hl
      cases xs with
      | nil => simp at hk
      | cons x xs =>
        cases rs with
        | nil => exact absurd hl (by simp [Linked])
        | cons r rs =>
          have := ih x rs xs (by simpa using hk) hl.2
          simpa using this
  have := walk (sendMutate cfg [] ireq) script later k hk' (by
    exact linked_congr cfg _ _ _ _ (sendMutate_url _ _ _).symm (sendMutate_method _ _ _).symm
      (sendMutate_hostField _ _ _).symm hl)
  obtain ⟨r, hr, hrest⟩ := this
  refine ⟨r, hr, ?_⟩
  simpa [hs] using hrest

/-! ## 3. Headers -/

/-- Map entries of header `k` under ANY spelling of the key (what a receiver attributes to `k`). -/
abbrev entries := @entriesFor

/-- **sensitive_headers_cross_origin** (Go's copier is sticky): under any composition of redirect.go's
policies, once some hop so far went to a host that is neither the first URL's host nor a subdomain
of it, a redirected request has NO header-map entry, under any spelling of the key, for
Authorization / Www-Authenticate / Cookie2 — on that hop and on every later one, including hops that
return to the first host — unless an AlwaysCopy policy lists the header. -/
theorem sensitive_headers_cross_origin (ds : List PolicyDesc) (cfg : Config)
    (hps : cfg.ps = ds.map PolicyDesc.denote) (ireq : Loop.Req) (script : List Reply) (k : Bytes)
    (hsens : isSensitive k = true) (hck : canonicalMIMEHeaderKey k ≠ hCookie)
    (hcl : copyListed ds k = false)
    (j : Nat) (hj : j + 1 < (start cfg ireq script).1.length)
    (hx : crossed ireq.url.host ((((start cfg ireq script).1.drop 1).take (j + 1)).map (·.url.host)) = true) :
    entriesFor ((start cfg ireq script).1[j + 1]).hdr k = [] ∧
    ((start cfg ireq script).1[j + 1]).hdr.values k = [] ∧
    wireValues ((start cfg ireq script).1[j + 1]).hdr k = [] := by
  obtain ⟨later, hs, hc⟩ := start_sent cfg ireq script
  have hj' : j < later.length := by rw [hs] at hj; simpa using hj
  have he := chain_sensitive ds cfg hps k hsens hcl hck hc j hj' (by
    simpa [hs, firstHost] using hx)
  have he' : entriesFor ((start cfg ireq script).1[j + 1]).hdr k = [] := by simpa [hs] using he
  refine ⟨he', entriesFor_nil_values he', ?_⟩
  rw [wireValues_entriesFor, he']; rfl

/-- **header_flow_loop**: for every header other than Cookie and Referer, on every redirected request
of every run: no values if the header is sensitive, a cross-domain hop happened so far and no
AlwaysCopy policy lists it; exactly the original request's values otherwise. -/
theorem header_flow_loop (ds : List PolicyDesc) (cfg : Config)
    (hps : cfg.ps = ds.map PolicyDesc.denote) (ireq : Loop.Req) (script : List Reply) (k : Bytes)
    (hck : canonicalMIMEHeaderKey k ≠ hCookie) (hrf : canonicalMIMEHeaderKey k ≠ hReferer)
    (j : Nat) (hj : j + 1 < (start cfg ireq script).1.length) :
    ((start cfg ireq script).1[j + 1]).hdr.values k =
      if crossed ireq.url.host ((((start cfg ireq script).1.drop 1).take (j + 1)).map (·.url.host)) = true ∧
          isSensitive k = true ∧ copyListed ds k = false
      then [] else ireq.hdr.values k := by
  obtain ⟨later, hs, hc⟩ := start_sent cfg ireq script
  have hj' : j < later.length := by rw [hs] at hj; simpa using hj
  have := chain_flow ds cfg hps ireq.hdr k hck hrf hc rfl (by
    simp only [List.nil_append, viaL, Req.toHop]
    exact values_of_entriesFor_eq (entriesFor_sendMutate_ne _ _ _ _ hck)) j hj'
  simpa [hs, firstHost] using this

/-- **always_copy_everywhere**: a header named in an AlwaysCopyHeaderRedirectPolicy (any position in
the `SetRedirectPolicy` arguments, any spelling) is carried with the original values on EVERY
redirected request, wherever the chain goes. Together with `credentials_never_reach_refused_host`
this is the exact division of labour: AlwaysCopy decides WHAT travels, the host policies decide
WHERE anything travels; a host a policy refuses gets no request, so no copied header either. -/
theorem always_copy_everywhere (ds : List PolicyDesc) (cfg : Config)
    (hps : cfg.ps = ds.map PolicyDesc.denote) (ireq : Loop.Req) (script : List Reply) (k : Bytes)
    (hck : canonicalMIMEHeaderKey k ≠ hCookie) (hrf : canonicalMIMEHeaderKey k ≠ hReferer)
    (hl : copyListed ds k = true)
    (j : Nat) (hj : j + 1 < (start cfg ireq script).1.length) :
    ((start cfg ireq script).1[j + 1]).hdr.values k = ireq.hdr.values k := by
  rw [header_flow_loop ds cfg hps ireq script k hck hrf j hj]
  simp [hl]

/-! ## Non-vacuity: concrete runs -/
section Examples

def aCom : Bytes := [97, 46, 99, 111, 109]
def bCom : Bytes := [98, 46, 99, 111, 109]
def subACom : Bytes := [119, 119, 119, 46, 97, 46, 99, 111, 109]
def mPOST : Bytes := [80, 79, 83, 84]
def p1 : Bytes := [47, 49]
def tokHdr : Headers := [(hAuthorization, [[116]]), ([88, 45, 75], [[107]])]

/-- SameHost + Max(5), request to a.com with `Host: b.com` overridden, 302 to `http://b.com/1`:
refused, b.com gets nothing (the class of seed C11-r3-1). -/
example :
    let cfg : Config := { ps := [some sameHostRedirectPolicy, some (maxRedirectPolicy 5)] }
    let ireq : Loop.Req := { url := { host := aCom }, method := mGET, hostField := bCom, hdr := tokHdr }
    start cfg ireq [{ status := 302, loc := .abs .http none bCom p1 }] =
      ([ireq], .refused 302) := by decide

/-- …while a path-only redirect stays on a.com, is followed, and keeps the override in `Host`. -/
example :
    let cfg : Config := { ps := [some sameHostRedirectPolicy, some (maxRedirectPolicy 5)] }
    let ireq : Loop.Req := { url := { host := aCom }, method := mGET, hostField := bCom, hdr := tokHdr }
    ((start cfg ireq [{ status := 302, loc := .path p1 }]).1.map fun r => (r.url.host, r.hostField, r.url.path)) =
      [(aCom, bCom, [47]), (aCom, bCom, p1)] := by decide

/-- POST with a replayable body: 307 keeps method and body, the following 303 turns it into a
body-less GET; a.com → b.com → www.a.com with Max(5): Authorization is on the first request only
(sticky), the custom header everywhere, Referer names the previous URL. -/
example :
    let cfg : Config := { ps := [PolicyDesc.max 5].map PolicyDesc.denote, getBody := true, noBody := false }
    let ireq : Loop.Req := { url := { host := aCom }, method := mPOST, hdr := tokHdr, body := true }
    ((start cfg ireq [{ status := 307, loc := .abs .http none bCom p1 },
                      { status := 303, loc := .abs .https none subACom p1 }]).1.map fun r =>
        (r.method, r.body, r.hdr.values hAuthorization, r.hdr.values [120, 45, 107], (r.hdr.values hReferer).length)) =
      [(mPOST, true, [[116]], [[107]], 0), (mPOST, true, [], [[107]], 1), (mGET, false, [], [[107]], 1)] := by
  decide

/-- The same chain with AlwaysCopy("authorization") BEFORE an AllowedHost that admits b.com only:
b.com gets the token (listed), www.a.com gets no request at all — the copy never reaches the wire
of a refused host, whatever the order of the arguments. -/
example :
    let ds := [PolicyDesc.alwaysCopy [[97,117,116,104,111,114,105,122,97,116,105,111,110]],
               PolicyDesc.allowedHost [bCom]]
    let cfg : Config := { ps := ds.map PolicyDesc.denote }
    let ireq : Loop.Req := { url := { host := aCom }, method := mGET, hdr := tokHdr }
    let res := start cfg ireq [{ status := 302, loc := .abs .http none bCom p1 },
                              { status := 302, loc := .abs .http none subACom p1 }]
    (res.1.map fun r => (r.url.host, r.hdr.values hAuthorization)) = [(aCom, [[116]]), (bCom, [[116]])] ∧
      res.2 = .refused 302 := by decide

/-- Jar and copier: the initial request carries `Cookie: sid=1; x=2`; a.com re-sets `sid` while
redirecting to `/1` on itself: the copied Cookie header loses `sid`, the jar supplies the new value. -/
example :
    let cfg : Config := { ps := [] }
    let ck : Headers := [(hCookie, [[115,105,100,61,49,59,32,120,61,50]])]
    let ireq : Loop.Req := { url := { host := aCom }, method := mGET, hdr := ck }
    ((start cfg ireq [{ status := 302, loc := .path p1, setCookie := [([115,105,100], [57])] }]).1.map
        fun r => r.hdr.values hCookie) =
      [[[115,105,100,61,49,59,32,120,61,50]], [[120,61,50,59,32,115,105,100,61,57]]] := by decide

/-- An unparsable Location (`Loc.bad`: e.g. a non-numeric port) and an empty host end the run
without a further request under SameHost. -/
example :
    let cfg : Config := { ps := [some sameHostRedirectPolicy] }
    let ireq : Loop.Req := { url := { host := aCom }, method := mGET }
    start cfg ireq [{ status := 302, loc := .bad }] = ([ireq], .badLocation) ∧
    start cfg ireq [{ status := 302, loc := .abs .http none [] p1 }] = ([ireq], .refused 302) := by decide

end Examples

/-! ## 4. The order of the `SetRedirectPolicy` arguments -/

/-- **policy_order_irrelevant_for_delivery**: two clients whose `SetRedirectPolicy` arguments
(built from redirect.go's constructors, `nil` included) are permutations of each other send, for
every initial request and every script, the SAME requests: same number, same URLs, methods, `Host`
fields, bodies, and the same values under every header name. In particular
`SetRedirectPolicy(AlwaysCopyHeaderRedirectPolicy(h), SameHostRedirectPolicy())` delivers the copied
header to exactly the hosts `SetRedirectPolicy(SameHostRedirectPolicy(), AlwaysCopy…(h))` does: the
closure hands a request to the transport only after EVERY policy ran, so a copy made by an earlier
argument never reaches the wire of a host a later argument refuses. (Only WHICH error the caller
sees — a refusal or the last response — can depend on the order: `compose_first_refusal`.) -/
theorem policy_order_irrelevant_for_delivery (ds ds' : List PolicyDesc) (hperm : ds.Perm ds')
    (jar getBody noBody : Bool) (ireq : Loop.Req) (script : List Reply) :
    let a := (start { ps := ds.map PolicyDesc.denote, jar := jar, getBody := getBody, noBody := noBody } ireq script).1
    let b := (start { ps := ds'.map PolicyDesc.denote, jar := jar, getBody := getBody, noBody := noBody } ireq script).1
    a.length = b.length ∧
    ∀ k (hk : k < a.length) (hk' : k < b.length),
      a[k].url = b[k].url ∧ a[k].method = b[k].method ∧ a[k].hostField = b[k].hostField ∧
      a[k].body = b[k].body ∧ ∀ key, a[k].hdr.values key = b[k].hdr.values key := by
  have h := run_perm ds ds' hperm
    { ps := ds.map PolicyDesc.denote, jar := jar, getBody := getBody, noBody := noBody }
    { ps := ds'.map PolicyDesc.denote, jar := jar, getBody := getBody, noBody := noBody }
    rfl rfl rfl rfl rfl script
    { copier := Copier.init jar ireq.hdr } { copier := Copier.init jar ireq.hdr } ireq ireq
    .nil rfl rfl rfl (ReqEq.refl _)
  refine ⟨h.length_eq, ?_⟩
  intro k hk hk'
  have := h.get k hk hk'
  exact ⟨this.url, this.method, this.hostField, this.body, this.hdr⟩

/-- Order matters only for the kind of error: NoRedirect first gives the last response, Max(0)
first a refusal; either way one request. -/
example :
    let ireq : Loop.Req := { url := { host := aCom }, method := mGET }
    let sc : List Reply := [{ status := 302, loc := .abs .http none bCom p1 }]
    start { ps := [PolicyDesc.no, .max 0].map PolicyDesc.denote } ireq sc = ([ireq], .useLast 302) ∧
    start { ps := [PolicyDesc.max 0, .no].map PolicyDesc.denote } ireq sc = ([ireq], .refused 302) := by decide

/-! ## 6. Cookies -/

/-- **client_cookie_dropped_cross_origin**: with a jar, once a cross-domain hop happened and no
AlwaysCopy policy lists Cookie, the Cookie entries of a redirected request are EXACTLY what `send`
writes from the jar's cookies for that URL host onto an empty header map, the jar having been fed only
by the Set-Cookie lines of the replies received so far in this call: nothing of the Cookie header
(or `SetCookies` cookies) the caller supplied survives, on that hop or any later one. -/
theorem client_cookie_dropped_cross_origin (ds : List PolicyDesc) (cfg : Config)
    (hps : cfg.ps = ds.map PolicyDesc.denote) (hjar : cfg.jar = true)
    (hcl : copyListed ds hCookie = false) (ireq : Loop.Req) (script : List Reply)
    (j : Nat) (hj : j + 1 < (start cfg ireq script).1.length)
    (hx : crossed ireq.url.host ((((start cfg ireq script).1.drop 1).take (j + 1)).map (·.url.host)) = true) :
    entriesFor ((start cfg ireq script).1[j + 1]).hdr hCookie =
      entriesFor (((jarAfter (exchanges ((start cfg ireq script).1.take (j + 1)) (script.take (j + 1)))).cookiesFor
        ((start cfg ireq script).1[j + 1]).url.host).foldl addCookie []) hCookie := by
  obtain ⟨later, hs, hc⟩ := start_sent cfg ireq script
  have hj' : j < later.length := by rw [hs] at hj; simpa using hj
  have := chain_cookie ds cfg hps hjar hcl hc [] rfl j hj' (by simpa [hs, firstHost] using hx)
  simp only [hs, List.getElem_cons_succ, List.take_succ_cons, List.nil_append] at this ⊢
  rw [this, exchanges_head_congr (sendMutate cfg [] ireq) ireq _ _ (by simp)]

/-- **jar_cookies_host_only**: a cookie the jar returns for a host was set by a reply to a request
addressed to the same canonical host (host-only cookies: no Domain attribute in the model). With
`credentials_never_reach_refused_host`: a jar cookie reaches only hosts every policy allows, and only
the host that set it. -/
theorem jar_cookies_host_only (pairs : List (Bytes × List (Bytes × Bytes))) (host : Bytes) (c : Bytes × Bytes)
    (hc : c ∈ (jarAfter pairs).cookiesFor host) :
    ∃ p ∈ pairs, jarCanonicalHost p.1 = jarCanonicalHost host ∧ c ∈ p.2 :=
  cookiesFor_prov pairs host c hc

/-- a.com (Cookie: sid=1 from the caller) → b.com (sets t=2) → b.com/2: b.com gets no `sid`, and on
the second visit its own `t=2` from the jar. -/
example :
    let cfg : Config := { ps := [] }
    let ck : Headers := [(hCookie, [[115,105,100,61,49]])]
    let ireq : Loop.Req := { url := { host := aCom }, method := mGET, hdr := ck }
    ((start cfg ireq [{ status := 302, loc := .abs .http none bCom p1 },
                      { status := 302, loc := .path [47, 50], setCookie := [([116], [50])] }]).1.map
        fun r => r.hdr.values hCookie) = [[[115,105,100,61,49]], [], [[116,61,50]]] := by decide

end Req.Props.C11Loop
