import Req.Client.HeaderSort
import Req.H1.RequestWrite
import Req.H2.Fields
/-!
C16 — property theorems (sorting part).
`sort_perm`: ordering never adds, drops or duplicates a field.
`sort_listed_ordered`: the listed fields come out in list order for inputs of ANY length and
any number of unlisted fields.
-/
namespace Req.Props.C16
open Req.HeaderSort

variable {α : Type} (idx : α → Option Nat)

/-! ### permutation -/

theorem ins_perm (x : α) (ys : List α) : (ins idx x ys).Perm (x :: ys) := by
  induction ys with
  | nil => simp [ins]
  | cons y ys ih =>
    unfold ins
    split
    · exact (List.Perm.cons y ih).trans (List.Perm.swap x y ys)
    · exact List.Perm.refl _

theorem foldl_ins_perm (l acc : List α) :
    (l.foldl (fun acc x => ins idx x acc) acc).Perm (l.reverse ++ acc) := by
  induction l generalizing acc with
  | nil => simp
  | cons x xs ih =>
    simp only [List.foldl_cons, List.reverse_cons, List.append_assoc, List.singleton_append]
    exact (ih _).trans (List.Perm.append_left _ (ins_perm idx x acc))

theorem isort_perm (l : List α) : (isort idx l).Perm l := by
  unfold isort
  have h := foldl_ins_perm idx l []
  simp only [List.append_nil] at h
  exact (List.reverse_perm _).trans (h.trans (List.reverse_perm l))

/-- **sort_perm** -/
theorem sort_perm (kvs : List KV) (order : List Req.Proto.Bytes) :
    (sortKeyValues kvs order).Perm kvs :=
  isort_perm _ kvs

/-! ### listed keys end up ordered -/

/-- Invariant of the reversed sorted prefix: every listed element to the left of `y`
(i.e. in the tail) has index ≤ the comparator key of `y` at its position. -/
def Inv : List α → Prop
  | [] => True
  | y :: ys => (∀ z ∈ ys, ∀ i, idx z = some i → i ≤ keyAt idx y ys.length) ∧ Inv ys

theorem ins_length (x : α) (ys : List α) : (ins idx x ys).length = ys.length + 1 := by
  induction ys with
  | nil => simp [ins]
  | cons y ys ih => unfold ins; split <;> simp [ih]

theorem mem_ins (x z : α) (ys : List α) : z ∈ ins idx x ys → z = x ∨ z ∈ ys := by
  intro h
  have := (ins_perm idx x ys).mem_iff.mp h
  simpa using this

/-- All listed elements of the prefix are bounded by `b` whenever the head's key is. -/
theorem listed_le_of_head (y : α) (ys : List α) (h : Inv idx (y :: ys)) (b : Nat)
    (hb : keyAt idx y ys.length ≤ b) (hy : ∀ i, idx y = some i → i ≤ b) :
    ∀ z ∈ y :: ys, ∀ i, idx z = some i → i ≤ b := by
  intro z hz i hi
  rcases List.mem_cons.mp hz with rfl | hz
  · exact hy i hi
  · exact Nat.le_trans (h.1 z hz i hi) hb

theorem ins_inv (x : α) (ys : List α) (h : Inv idx ys) : Inv idx (ins idx x ys) := by
  induction ys with
  | nil => simp [ins, Inv]
  | cons y ys ih =>
    unfold ins
    split
    next hlt =>
      -- x moves left past y; y is now at position ys.length + 1
      refine ⟨?_, ih h.2⟩
      intro z hz i hi
      rw [ins_length]
      rcases mem_ins idx x z ys hz with rfl | hz
      · -- z = x : its index is < key of y (old position) ≤ key of y (new position)
        have hx : keyAt idx z (ys.length + 1) = i := by simp [keyAt, hi]
        rw [hx] at hlt
        unfold keyAt at hlt ⊢
        cases hy : idx y with
        | some j => simp [hy] at hlt ⊢; omega
        | none => simp [hy] at hlt ⊢; omega
      · have := h.1 z hz i hi
        unfold keyAt at this ⊢
        cases hy : idx y with
        | some j => simp [hy] at this ⊢; exact this
        | none => simp [hy] at this ⊢; omega
    next hge =>
      refine ⟨?_, h⟩
      have hge' : keyAt idx y ys.length ≤ keyAt idx x (ys.length + 1) := Nat.le_of_not_lt hge
      simp only [List.length_cons]
      apply listed_le_of_head idx y ys h _ hge'
      intro i hi
      have : keyAt idx y ys.length = i := by simp [keyAt, hi]
      omega

theorem foldl_ins_inv (l acc : List α) (h : Inv idx acc) :
    Inv idx (l.foldl (fun acc x => ins idx x acc) acc) := by
  induction l generalizing acc with
  | nil => simpa
  | cons x xs ih => exact ih _ (ins_inv idx x acc h)

/-- Indices of the listed elements, left to right. -/
def listedIdx (l : List α) : List Nat := l.filterMap idx

/-- From the invariant on the reversed list: the listed indices, read right-to-left,
are pairwise ≥. -/
theorem inv_pairwise (ys : List α) (h : Inv idx ys) :
    (listedIdx idx ys).Pairwise (· ≥ ·) := by
  induction ys with
  | nil => simp [listedIdx]
  | cons y ys ih =>
    unfold listedIdx
    cases hy : idx y with
    | none =>
      rw [List.filterMap_cons_none hy]
      exact ih h.2
    | some j =>
      rw [List.filterMap_cons_some hy]
      refine List.Pairwise.cons ?_ (ih h.2)
      intro i hi
      obtain ⟨z, hz, hzi⟩ := List.mem_filterMap.mp hi
      have := h.1 z hz i hzi
      simpa [keyAt, hy] using this

/-- **isort_listed_ordered**: after sorting, listed indices are non-decreasing left to right. -/
theorem isort_listed_ordered (l : List α) :
    (listedIdx idx (isort idx l)).Pairwise (· ≤ ·) := by
  unfold isort listedIdx
  rw [List.filterMap_reverse, List.pairwise_reverse]
  exact inv_pairwise idx _ (foldl_ins_inv idx l [] trivial)

/-- **sort_listed_ordered** (C16): for header lists of any length, any order list (subset,
superset, duplicates, other case), the listed fields appear in the listed relative order. -/
theorem sort_listed_ordered (kvs : List KV) (order : List Req.Proto.Bytes) :
    ((sortKeyValues kvs order).filterMap (fun kv => lastIndex order kv.key)).Pairwise (· ≤ ·) :=
  isort_listed_ordered _ kvs

/-- Non-vacuity: a 3-element input (keys "B","X","A"; order list "a","b") with one unlisted
key really gets reordered to "A","B","X". -/
example :
    (sortKeyValues [⟨[66], []⟩, ⟨[88], []⟩, ⟨[65], []⟩] [[97], [98]]).map (·.key)
      = [[65], [66], [88]] := by decide

/-! ## Wire part: what the three writers transmit

`linesOf` flattens key/value groups into the header lines / fields actually written (one per
value). The theorems below are about the collectors of `Req.H1.RequestWrite` (HTTP/1.1) and
`Req.H2.Fields` (HTTP/2, HTTP/3). -/

section Wire
open Req.Proto Req.H1 Req.H2 Req.Validate Req.BStr

theorem linesOf_perm {a b : List KV} (h : a.Perm b) : (linesOf a).Perm (linesOf b) :=
  List.Perm.flatMap_right _ h

theorem linesOf_append (a b : List KV) : linesOf (a ++ b) = linesOf a ++ linesOf b := by
  simp [linesOf]

/-! ### insertion sort by key is a permutation -/

theorem insertBy_perm {β} (le : β → β → Bool) (x : β) (l : List β) :
    (insertBy le x l).Perm (x :: l) := by
  induction l with
  | nil => simp [insertBy]
  | cons y ys ih =>
    unfold insertBy
    split
    · exact List.Perm.refl _
    · exact (List.Perm.cons y ih).trans (List.Perm.swap x y ys)

theorem isortBy_perm {β} (le : β → β → Bool) (l : List β) : (isortBy le l).Perm l := by
  induction l with
  | nil => simp [isortBy]
  | cons x xs ih =>
    unfold isortBy at ih ⊢
    simp only [List.foldr_cons]
    exact (insertBy_perm le x _).trans (List.Perm.cons x ih)

/-! ### HTTP/1.1 -/

/-- The caller's fields as the property describes them, no ordering involved: every key the
writer does not handle itself (`exclude`, exact spelling) and that is a valid field name, with
each value sanitised (CR/LF → space, surrounding white space removed). -/
def callerFields (h : Hdr) (exclude : List Bytes) : Hdr :=
  (h.filter fun kv => !exclude.contains kv.key && validHeaderFieldName kv.key).map fun kv =>
    ⟨kv.key, kv.values.map sanitizeValue⟩

theorem writeSubset_perm (h : Hdr) (exclude : List Bytes) (mode : Bool) :
    (writeSubset h exclude mode).Perm (callerFields h exclude) := by
  unfold writeSubset callerFields
  simp only
  apply List.Perm.map
  have hp : (if mode = true then List.filter (fun kv => !exclude.contains kv.key) h
      else isortBy (fun a b => le a.key b.key) (List.filter (fun kv => !exclude.contains kv.key) h)).Perm
      (List.filter (fun kv => !exclude.contains kv.key) h) := by
    split
    · exact List.Perm.refl _
    · exact isortBy_perm _ _
  have := List.Perm.filter (fun kv : KV => validHeaderFieldName kv.key) hp
  rw [List.filter_filter] at this
  refine this.trans ?_
  apply List.Perm.of_eq
  congr 1
  funext kv
  simp [Bool.and_comm]

/-- the fields the writer adds itself: Host, User-Agent (caller's first value, or the default, or
none when blank), `Connection: close`, Content-Length / Transfer-Encoding. -/
def ownFieldsH1 (r : WReq) (host : Bytes) (f : Framing) : Hdr :=
  let ua := if (hdrGet? r.header sUserAgent).isSome then hdrFirst r.header sUserAgent
            else defaultUserAgent
  [⟨sHost, [host]⟩] ++ (if ua.isEmpty then [] else [⟨sUserAgent, [ua]⟩]) ++ framingFields r f

/-- **wire_set (HTTP/1.1)**: whatever the header-order list and whatever order Go iterates the
header map in, the multiset of header lines on the wire is the writer's own fields plus every
caller value exactly once (name in the caller's spelling) plus the transport's extra headers —
nothing added, dropped or duplicated. -/
theorem wire_set_h1 (r : WReq) (host : Bytes) (f : Framing) :
    (linesOf (h1Fields r host f)).Perm
      (linesOf (ownFieldsH1 r host f) ++ linesOf (callerFields r.header reqWriteExcludeHeader) ++
        linesOf (callerFields r.extra [])) := by
  have hcol : ∀ mode : Bool,
      (linesOf (ownFieldsH1 r host f ++ writeSubset r.header reqWriteExcludeHeader mode ++
        writeSubset r.extra [] mode)).Perm
      (linesOf (ownFieldsH1 r host f) ++ linesOf (callerFields r.header reqWriteExcludeHeader) ++
        linesOf (callerFields r.extra [])) := by
    intro mode
    rw [linesOf_append, linesOf_append]
    exact List.Perm.append (List.Perm.append (List.Perm.refl _)
      (linesOf_perm (writeSubset_perm _ _ _))) (linesOf_perm (writeSubset_perm _ _ _))
  unfold h1Fields
  simp only
  split
  · refine (linesOf_perm (sort_perm _ _)).trans ?_
    simpa [ownFieldsH1, List.append_assoc] using hcol (!(orderList r.header).isEmpty)
  · simpa [ownFieldsH1, List.append_assoc] using hcol (!(orderList r.header).isEmpty)

/-- the two bookkeeping keys -/
def isBookkeeping (k : Bytes) : Bool := k == headerOrderKey || k == pseudoHeaderOrderKey

theorem callerFields_mem_key {h : Hdr} {ex : List Bytes} {kv : KV} (hm : kv ∈ callerFields h ex) :
    ex.contains kv.key = false ∧ validHeaderFieldName kv.key = true := by
  unfold callerFields at hm
  obtain ⟨kv0, h0, rfl⟩ := List.mem_map.mp hm
  have := (List.mem_filter.mp h0).2
  simpa using this

theorem mem_linesOf {h : List KV} {k v : Bytes} (hm : (k, v) ∈ linesOf h) :
    ∃ kv ∈ h, kv.key = k ∧ v ∈ kv.values := by
  unfold linesOf at hm
  obtain ⟨kv, hkv, hv⟩ := List.mem_flatMap.mp hm
  obtain ⟨v', hv', heq⟩ := List.mem_map.mp hv
  cases heq
  exact ⟨kv, hkv, rfl, hv'⟩

/-- the names of the fields the HTTP/1.1 writer adds itself -/
def ownKeysH1 : List Bytes := [sHost, sUserAgent, sConnection, sContentLength, sTransferEncoding]

theorem ownKeys_not_bookkeeping : ∀ k ∈ ownKeysH1, isBookkeeping k = false := by decide

theorem mem_ite_l {c : Prop} [Decidable c] {x kv : KV} (h : kv ∈ (if c then [x] else [])) :
    kv = x := by
  split at h <;> simp at h; exact h

theorem mem_ite_r {c : Prop} [Decidable c] {x kv : KV} (h : kv ∈ (if c then [] else [x])) :
    kv = x := by
  split at h <;> simp at h; exact h

theorem mem_ite_lr {c d : Prop} [Decidable c] [Decidable d] {x y kv : KV}
    (h : kv ∈ (if c then [x] else if d then [y] else [])) : kv = x ∨ kv = y := by
  split at h
  · simp at h; exact Or.inl h
  · exact Or.inr (mem_ite_l h)

theorem ownFieldsH1_keys (r : WReq) (host : Bytes) (f : Framing) :
    ∀ kv ∈ ownFieldsH1 r host f, kv.key ∈ ownKeysH1 := by
  intro kv hkv
  unfold ownFieldsH1 framingFields at hkv
  simp only [List.mem_append, List.mem_singleton] at hkv
  rcases hkv with ((hkv | hkv) | hkv | hkv)
  · subst hkv; exact (by decide : sHost ∈ ownKeysH1)
  · have := mem_ite_r hkv
    subst this; exact (by decide : sUserAgent ∈ ownKeysH1)
  · have := mem_ite_l hkv
    subst this; exact (by decide : sConnection ∈ ownKeysH1)
  · rcases mem_ite_lr hkv with h | h
    · subst h; exact (by decide : sContentLength ∈ ownKeysH1)
    · subst h; exact (by decide : sTransferEncoding ∈ ownKeysH1)

/-- **bookkeeping keys never on the HTTP/1.1 wire** (`__header_order__`,
`__pseudo_header_order__`), provided the transport's own extra headers do not contain them (they
are `Accept-Encoding` / `Connection`). -/
theorem h1_no_bookkeeping (r : WReq) (host : Bytes) (f : Framing)
    (hextra : ∀ kv ∈ r.extra, isBookkeeping kv.key = false) :
    ∀ kv ∈ linesOf (h1Fields r host f), isBookkeeping kv.1 = false := by
  intro ⟨k, v⟩ hm
  have hm' := (wire_set_h1 r host f).mem_iff.mp hm
  simp only [List.mem_append] at hm'
  rcases hm' with (hm' | hm') | hm'
  · obtain ⟨kv, hkv, rfl, _⟩ := mem_linesOf hm'
    exact ownKeys_not_bookkeeping _ (ownFieldsH1_keys r host f kv hkv)
  · obtain ⟨kv, hkv, rfl, _⟩ := mem_linesOf hm'
    have hex := (callerFields_mem_key hkv).1
    unfold isBookkeeping
    have h1 : (kv.key == headerOrderKey) = false := by
      cases hb : kv.key == headerOrderKey with
      | false => rfl
      | true =>
        have : kv.key = headerOrderKey := by simpa using hb
        rw [this] at hex
        exact absurd hex (by decide)
    have h2 : (kv.key == pseudoHeaderOrderKey) = false := by
      cases hb : kv.key == pseudoHeaderOrderKey with
      | false => rfl
      | true =>
        have : kv.key = pseudoHeaderOrderKey := by simpa using hb
        rw [this] at hex
        exact absurd hex (by decide)
    simp [h1, h2]
  · obtain ⟨kv, hkv, rfl, _⟩ := mem_linesOf hm'
    unfold callerFields at hkv
    obtain ⟨kv0, h0, rfl⟩ := List.mem_map.mp hkv
    exact hextra kv0 (List.mem_filter.mp h0).1

/-- **h1_noncanonical_spelling**: every value of every caller key that is a valid field name and
is not one the writer handles itself is on the HTTP/1.1 wire under EXACTLY the caller's spelling
of the name (no canonicalisation, no lower-casing), header-order mode or not. -/
theorem h1_noncanonical_spelling (r : WReq) (host : Bytes) (f : Framing) (kv : KV)
    (hkv : kv ∈ r.header) (hex : reqWriteExcludeHeader.contains kv.key = false)
    (hname : validHeaderFieldName kv.key = true) (v : Bytes) (hv : v ∈ kv.values) :
    (kv.key, sanitizeValue v) ∈ linesOf (h1Fields r host f) := by
  apply (wire_set_h1 r host f).mem_iff.mpr
  simp only [List.mem_append]
  refine Or.inl (Or.inr ?_)
  unfold linesOf callerFields
  apply List.mem_flatMap.mpr
  refine ⟨⟨kv.key, kv.values.map sanitizeValue⟩, ?_, ?_⟩
  · apply List.mem_map.mpr
    have hex' : ¬ kv.key ∈ reqWriteExcludeHeader := by simpa using hex
    exact ⟨kv, List.mem_filter.mpr ⟨hkv, by simp [hex', hname]⟩, rfl⟩
  · simp only [List.mem_map]
    exact ⟨sanitizeValue v, ⟨v, hv, rfl⟩, rfl⟩

/-- non-vacuity: `x-MiXed` (set with SetHeaderNonCanonical) and `X-B`, order list `x-b, x-mixed`:
spelling kept, listed order respected (the unlisted Host / User-Agent keep their slice positions),
bookkeeping key gone. -/
example :
    (linesOf (h1Fields
      { method := [71, 69, 84], url := {}, header :=
          [⟨[120, 45, 77, 105, 88, 101, 100], [[49]]⟩, ⟨[88, 45, 66], [[50]]⟩,
           ⟨headerOrderKey, [[120, 45, 98], [120, 45, 109, 105, 120, 101, 100]]⟩] }
      [104] ⟨false, false, 0⟩)).map (·.1)
    = [sHost, [88, 45, 66], sUserAgent, [120, 45, 77, 105, 88, 101, 100]] := by decide

/-! ### independence of Go's map iteration order -/

/-- a lookup by key does not depend on the iteration order of a map (distinct keys). -/
theorem hdrGet?_perm {a b : Hdr} (hp : a.Perm b) (hnd : (a.map (·.key)).Nodup) (k : Bytes) :
    hdrGet? a k = hdrGet? b k := by
  unfold hdrGet?
  congr 1
  induction hp with
  | nil => rfl
  | cons x _ ih =>
    simp only [List.map_cons, List.nodup_cons] at hnd
    simp only [List.find?_cons]
    split
    · rfl
    · exact ih hnd.2
  | swap x y l =>
    simp only [List.map_cons, List.nodup_cons, List.mem_cons, not_or] at hnd
    simp only [List.find?_cons]
    cases hx : x.key == k <;> cases hy : y.key == k <;> simp
    have ex : x.key = k := by simpa using hx
    have ey : y.key = k := by simpa using hy
    exact absurd (ey.trans ex.symm) hnd.1.1
  | trans h1 _ ih1 ih2 =>
    rw [ih1 hnd]
    exact ih2 ((h1.map _).nodup_iff.mp hnd)

theorem callerFields_perm {a b : Hdr} (hp : a.Perm b) (ex : List Bytes) :
    (callerFields a ex).Perm (callerFields b ex) :=
  List.Perm.map _ (List.Perm.filter _ hp)

/-- **wire_set is independent of the map iteration order (HTTP/1.1)**: two runs that differ only
in the order Go iterates the header map and the extra-header map in put the same multiset of
header lines on the wire. -/
theorem wire_set_h1_perm_invariant (r r' : WReq) (host : Bytes) (f : Framing)
    (hh : r.header.Perm r'.header) (he : r.extra.Perm r'.extra)
    (hnd : (r.header.map (·.key)).Nodup)
    (hm : r'.method = r.method) (hc : r'.close = r.close) :
    (linesOf (h1Fields r host f)).Perm (linesOf (h1Fields r' host f)) := by
  refine (wire_set_h1 r host f).trans (List.Perm.trans ?_ (wire_set_h1 r' host f).symm)
  have hown : ownFieldsH1 r host f = ownFieldsH1 r' host f := by
    unfold ownFieldsH1 framingFields hdrFirst
    simp only [hdrGet?_perm hh hnd, hm, hc]
  rw [hown]
  exact List.Perm.append (List.Perm.append (List.Perm.refl _)
    (linesOf_perm (callerFields_perm hh _))) (linesOf_perm (callerFields_perm he _))

/-! ### HTTP/2 and HTTP/3 -/

/-- a refused request (`errRequestHeaderListSize`) is refused by the counting pass: the model has
no encoder state, i.e. nothing of a refused request can reach a later header block — the lanes
check exactly that on sequences of requests over one connection's HPACK encoder/decoder pair. -/
theorem too_large_iff (fl : Flavor) (r : FReq) (fs : List (Bytes × Bytes)) (lim : Nat)
    (hl : r.maxHeaderList = some lim) (h : fields fl r = .ok fs) : headerListSize fs ≤ lim := by
  unfold fields at h
  cases hh : fieldHost r with
  | error e => simp [hh, bind, Except.bind] at h
  | ok host =>
    cases hp : fieldPath r host with
    | error e => simp [hh, hp, bind, Except.bind] at h
    | ok path =>
      simp only [hh, hp, bind, Except.bind, hl] at h
      split at h
      · simp [throw, throwThe, MonadExceptOf.throw] at h
      · simp only [pure, Except.pure] at h
        split at h
        · simp [throw, throwThe, MonadExceptOf.throw] at h
        next hle =>
          simp only [Except.ok.injEq] at h
          subst h
          exact Nat.le_of_not_lt hle

/-- **wire_set (HTTP/2, HTTP/3)**: when a header block is produced, its fields are a permutation
of the default-order pseudo fields followed by the default-order regular fields — neither order
list adds, drops or duplicates a field. -/
theorem wire_set_h2 (fl : Flavor) (r : FReq) (fs : List (Bytes × Bytes))
    (h : fields fl r = .ok fs) :
    ∃ host path, fieldHost r = .ok host ∧ fieldPath r host = .ok path ∧
      fs.Perm (wireOf (basePseudo fl r host path) ++ wireOf (baseRegular fl r)) := by
  unfold fields at h
  cases hh : fieldHost r with
  | error e => simp [hh, bind, Except.bind] at h
  | ok host =>
    cases hp : fieldPath r host with
    | error e => simp [hh, hp, bind, Except.bind] at h
    | ok path =>
      refine ⟨host, path, rfl, hp, ?_⟩
      simp only [hh, hp, bind, Except.bind] at h
      split at h
      · simp [throw, throwThe, MonadExceptOf.throw] at h
      · have h' : fs = wireOf (pseudoKVs fl r host path ++ regularKVs fl r) := by
          simp only [pure, Except.pure] at h
          split at h
          · split at h
            · simp [throw, throwThe, MonadExceptOf.throw] at h
            · simp only [Except.ok.injEq] at h; exact h.symm
          · simp only [Except.ok.injEq] at h; exact h.symm
        subst h'
        have e : ∀ a b : List KV, wireOf (a ++ b) = wireOf a ++ wireOf b := by
          intro a b; simp [wireOf]
        rw [e]
        apply List.Perm.append
        · unfold pseudoKVs
          simp only
          split
          · exact List.Perm.refl _
          · exact List.Perm.flatMap_right _ (sort_perm _ _)
        · unfold regularKVs
          simp only
          split
          · exact List.Perm.refl _
          · exact List.Perm.flatMap_right _ (sort_perm _ _)

/-- the regular groups contain no key `header.IsExcluded` rejects, except the `content-length`
the writer adds itself: connection-specific fields and the bookkeeping keys are omitted. -/
theorem baseRegular_not_excluded (fl : Flavor) (r : FReq) :
    ∀ kv ∈ baseRegular fl r, isExcluded kv.key = false ∨ kv.key = sContentLengthL := by
  intro kv hkv
  unfold baseRegular at hkv
  simp only [List.mem_append] at hkv
  rcases hkv with ((hkv | hkv) | hkv) | hkv
  · left
    unfold headerGroups at hkv
    obtain ⟨kv0, _, h1⟩ := List.mem_flatMap.mp hkv
    split at h1
    · simp at h1
    next hne =>
      have hne' : isExcluded kv0.key = false := by simpa using hne
      split at h1
      · split at h1
        · simp at h1
        · split at h1
          · simp at h1
          · simp at h1; subst h1; exact hne'
      · split at h1
        · simp at h1; subst h1; exact (by decide : isExcluded sCookieL = false)
        · split at h1
          · obtain ⟨v, _, rfl⟩ := List.mem_map.mp h1; exact hne'
          · simp at h1; subst h1; exact hne'
  · right
    split at hkv
    · simp at hkv; subst hkv; rfl
    · simp at hkv
  · left
    split at hkv
    · simp at hkv; subst hkv; decide
    · simp at hkv
  · left
    split at hkv
    · simp at hkv
    · simp at hkv; subst hkv; decide

/-- **wire_set is independent of the map iteration order (HTTP/2, HTTP/3)**: the regular fields
of two runs that differ only in the iteration order of the header map are permutations of each
other. -/
theorem baseRegular_perm_invariant (fl : Flavor) (r : FReq) (h' : Hdr) (hh : r.header.Perm h') :
    (baseRegular fl r).Perm (baseRegular fl { r with header := h' }) := by
  unfold baseRegular
  have hua : didUA r.header = didUA h' := by
    unfold didUA; exact hh.any_eq
  simp only [hua]
  have hact : actualContentLength fl { r with header := h' } = actualContentLength fl r := rfl
  rw [hact]
  refine List.Perm.append (List.Perm.append (List.Perm.append ?_ (List.Perm.refl _))
    (List.Perm.refl _)) (List.Perm.refl _)
  unfold headerGroups
  exact List.Perm.flatMap_right _ hh

/-- **pseudo_order**: the pseudo header groups are a permutation of the default ones (each of
`:authority :method :path :scheme` exactly once; two for CONNECT) and those named in the
pseudo-header order list appear in the relative order of the list. -/
theorem pseudo_order (fl : Flavor) (r : FReq) (host path : Bytes) :
    (pseudoKVs fl r host path).Perm (basePseudo fl r host path) ∧
    ((pseudoKVs fl r host path).filterMap
        (fun kv => lastIndex (pseudoOrderList r.header) kv.key)).Pairwise (· ≤ ·) := by
  unfold pseudoKVs
  simp only
  split
  next hempty =>
    refine ⟨List.Perm.refl _, ?_⟩
    have : pseudoOrderList r.header = [] := by simpa using hempty
    rw [this]
    have : ∀ l : List KV, l.filterMap (fun kv => lastIndex [] kv.key) = [] := by
      intro l; induction l with
      | nil => rfl
      | cons x xs _ => simp [lastIndex, lastIndex.go]
    rw [this]
    exact List.Pairwise.nil
  next => exact ⟨sort_perm _ _, sort_listed_ordered _ _⟩

/-- the same for the regular fields and the header-order list. -/
theorem header_order_h2 (fl : Flavor) (r : FReq) :
    (regularKVs fl r).Perm (baseRegular fl r) ∧
    (¬ (orderList r.header).isEmpty →
      ((regularKVs fl r).filterMap (fun kv => lastIndex (orderList r.header) kv.key)).Pairwise (· ≤ ·)) := by
  unfold regularKVs
  simp only
  split
  next hempty => exact ⟨List.Perm.refl _, fun h => absurd hempty h⟩
  next => exact ⟨sort_perm _ _, fun _ => sort_listed_ordered _ _⟩

/-- the HTTP/1.1 header-order statement on the whole collected list (Host, User-Agent, framing,
caller fields, extra fields). -/
theorem header_order_h1 (r : WReq) (host : Bytes) (f : Framing)
    (hmode : (orderList r.header).isEmpty = false) :
    ((h1Fields r host f).filterMap (fun kv => lastIndex (orderList r.header) kv.key)).Pairwise (· ≤ ·) := by
  unfold h1Fields
  simp only [hmode, Bool.not_false, if_true]
  exact sort_listed_ordered _ _

/-- non-vacuity: pseudo order `:scheme, :PATH, :method` (other case accepted) on an HTTP/2 GET. -/
example :
    (pseudoKVs .h2
      { method := [71, 69, 84], url := { scheme := [104] }, header :=
          [⟨pseudoHeaderOrderKey, [sScheme, [58, 80, 65, 84, 72], sMethod]⟩] } [104] [47]).map (·.key)
    = [sAuthority, sScheme, sPath, sMethod] := by decide

end Wire

end Req.Props.C16
