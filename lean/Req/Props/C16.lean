import Req.Client.HeaderSort
/-!
C16 — property theorems (sorting part).
`sort_perm`: ordering never adds, drops or duplicates a field.
`sort_listed_ordered`: the listed fields come out in list order for inputs of ANY length and
any number of unlisted fields.
-/
namespace Req.Props.C16
open Req.HeaderSort

variable {α : Type} (idx : α → Option Nat)

/-! ### permutation -/

theorem ins_perm (x : α) (ys : List α) : (ins idx x ys).Perm (x :: ys) := by
  induction ys with
  | nil => simp [ins]
  | cons y ys ih =>
    unfold ins
    split
    · exact (List.Perm.cons y ih).trans (List.Perm.swap x y ys)
    · exact List.Perm.refl _

theorem foldl_ins_perm (l acc : List α) :
    (l.foldl (fun acc x => ins idx x acc) acc).Perm (l.reverse ++ acc) := by
  induction l generalizing acc with
  | nil => simp
  | cons x xs ih =>
    simp only [List.foldl_cons, List.reverse_cons, List.append_assoc, List.singleton_append]
    exact (ih _).trans (List.Perm.append_left _ (ins_perm idx x acc))

theorem isort_perm (l : List α) : (isort idx l).Perm l := by
  unfold isort
  have h := foldl_ins_perm idx l []
  simp only [List.append_nil] at h
  exact (List.reverse_perm _).trans (h.trans (List.reverse_perm l))

/-- **sort_perm** -/
theorem sort_perm (kvs : List KV) (order : List Req.Proto.Bytes) :
    (sortKeyValues kvs order).Perm kvs :=
  isort_perm _ kvs

/-! ### listed keys end up ordered -/

/-- Invariant of the reversed sorted prefix: every listed element to the left of `y`
(i.e. in the tail) has index ≤ the comparator key of `y` at its position. -/
def Inv : List α → Prop
  | [] => True
  | y :: ys => (∀ z ∈ ys, ∀ i, idx z = some i → i ≤ keyAt idx y ys.length) ∧ Inv ys

theorem ins_length (x : α) (ys : List α) : (ins idx x ys).length = ys.length + 1 := by
  induction ys with
  | nil => simp [ins]
  | cons y ys ih => unfold ins; split <;> simp [ih]

theorem mem_ins (x z : α) (ys : List α) : z ∈ ins idx x ys → z = x ∨ z ∈ ys := by
  intro h
  have := (ins_perm idx x ys).mem_iff.mp h
  simpa using this

/-- All listed elements of the prefix are bounded by `b` whenever the head's key is. -/
theorem listed_le_of_head (y : α) (ys : List α) (h : Inv idx (y :: ys)) (b : Nat)
    (hb : keyAt idx y ys.length ≤ b) (hy : ∀ i, idx y = some i → i ≤ b) :
    ∀ z ∈ y :: ys, ∀ i, idx z = some i → i ≤ b := by
  intro z hz i hi
  rcases List.mem_cons.mp hz with rfl | hz
  · exact hy i hi
  · exact Nat.le_trans (h.1 z hz i hi) hb

theorem ins_inv (x : α) (ys : List α) (h : Inv idx ys) : Inv idx (ins idx x ys) := by
  induction ys with
  | nil => simp [ins, Inv]
  | cons y ys ih =>
    unfold ins
    split
    next hlt =>
      -- x moves left past y; y is now at position ys.length + 1
      refine ⟨?_, ih h.2⟩
      intro z hz i hi
      rw [ins_length]
      rcases mem_ins idx x z ys hz with rfl | hz
      · -- z = x : its index is < key of y (old position) ≤ key of y (new position)
        have hx : keyAt idx z (ys.length + 1) = i := by simp [keyAt, hi]
        rw [hx] at hlt
        unfold keyAt at hlt ⊢
        cases hy : idx y with
        | some j => simp [hy] at hlt ⊢; omega
        | none => simp [hy] at hlt ⊢; omega
      · have := h.1 z hz i hi
        unfold keyAt at this ⊢
        cases hy : idx y with
        | some j => simp [hy] at this ⊢; exact this
        | none => simp [hy] at this ⊢; omega
    next hge =>
      refine ⟨?_, h⟩
      have hge' : keyAt idx y ys.length ≤ keyAt idx x (ys.length + 1) := Nat.le_of_not_lt hge
      simp only [List.length_cons]
      apply listed_le_of_head idx y ys h _ hge'
      intro i hi
      have : keyAt idx y ys.length = i := by simp [keyAt, hi]
      omega

theorem foldl_ins_inv (l acc : List α) (h : Inv idx acc) :
    Inv idx (l.foldl (fun acc x => ins idx x acc) acc) := by
  induction l generalizing acc with
  | nil => simpa
  | cons x xs ih => exact ih _ (ins_inv idx x acc h)

/-- Indices of the listed elements, left to right. -/
def listedIdx (l : List α) : List Nat := l.filterMap idx

/-- From the invariant on the reversed list: the listed indices, read right-to-left,
are pairwise ≥. -/
theorem inv_pairwise (ys : List α) (h : Inv idx ys) :
    (listedIdx idx ys).Pairwise (· ≥ ·) := by
  induction ys with
  | nil => simp [listedIdx]
  | cons y ys ih =>
    unfold listedIdx
    cases hy : idx y with
    | none =>
      rw [List.filterMap_cons_none hy]
      exact ih h.2
    | some j =>
      rw [List.filterMap_cons_some hy]
      refine List.Pairwise.cons ?_ (ih h.2)
      intro i hi
      obtain ⟨z, hz, hzi⟩ := List.mem_filterMap.mp hi
      have := h.1 z hz i hzi
      simpa [keyAt, hy] using this

/-- **isort_listed_ordered**: after sorting, listed indices are non-decreasing left to right. -/
theorem isort_listed_ordered (l : List α) :
    (listedIdx idx (isort idx l)).Pairwise (· ≤ ·) := by
  unfold isort listedIdx
  rw [List.filterMap_reverse, List.pairwise_reverse]
  exact inv_pairwise idx _ (foldl_ins_inv idx l [] trivial)

/-- **sort_listed_ordered** (C16): for header lists of any length, any order list (subset,
superset, duplicates, other case), the listed fields appear in the listed relative order. -/
theorem sort_listed_ordered (kvs : List KV) (order : List Req.Proto.Bytes) :
    ((sortKeyValues kvs order).filterMap (fun kv => lastIndex order kv.key)).Pairwise (· ≤ ·) :=
  isort_listed_ordered _ kvs

/-- Non-vacuity: a 3-element input (keys "B","X","A"; order list "a","b") with one unlisted
key really gets reordered to "A","B","X". -/
example :
    (sortKeyValues [⟨[66], []⟩, ⟨[88], []⟩, ⟨[65], []⟩] [[97], [98]]).map (·.key)
      = [[65], [66], [88]] := by decide

end Req.Props.C16
