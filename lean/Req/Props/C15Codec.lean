import Req.Lemmas.PrefixCode
import Req.Props.C15
/-!
C15 — the streaming law for the multi-byte, resynchronising decoders (the shape of x/text's
GBK / GB18030 / Big5 / EUC-KR / Shift-JIS): however the input is chunked — through the middle
of a 2- or 4-byte sequence, before a dangling lead byte at the end — feeding the chunks and
flushing gives the whole-input decode (invalid sequences replaced by U+FFFD identically).

* `ofCode_lawful`: for EVERY well-formed prefix code;
* `dbcs_wellFormed` / `dbcs_lawful`: every double-byte code given by a single-byte table and a
  pair decision (any tables: the law is structural);
* `gbk_lawful`: GBK with x/text's byte ranges, any mapping table;
* `gb18030_wellFormed` / `gb18030_lawful`: one-, two- and four-byte sequences, the loop waiting for
  all four bytes before it decides.
These discharge the hypothesis `Lawful` of `outcome_by_sniff`, `header_charset_always_applied`,
`split_only_affects_meta_detection` for those charsets.
-/
namespace Req.Props.C15
open Req.Proto Req.Decode

/-- **ofCode_lawful** -/
theorem ofCode_lawful (c : Code) (hc : c.WellFormed) : (ofCode c).Lawful := by
  intro chunks
  have := ofCode_feedAll c hc chunks []
  simpa [ofCode] using this

theorem dbcs_wellFormed (single : UInt8 → Option Bytes) (pair : UInt8 → UInt8 → Bytes × Bool) :
    (dbcsCode single pair).WellFormed := by
  intro w out n h
  cases w with
  | nil => simp [dbcsCode] at h
  | cons c0 rest =>
    simp only [dbcsCode] at h ⊢
    cases hs : single c0 with
    | some o =>
      simp only [hs, Option.some.injEq, Prod.mk.injEq] at h
      obtain ⟨rfl, rfl⟩ := h
      refine ⟨Nat.le_refl _, by simp, ?_⟩
      intro q
      simp [hs]
    | none =>
      simp only [hs] at h
      cases rest with
      | nil => simp at h
      | cons c1 rest2 =>
        simp only [Option.some.injEq, Prod.mk.injEq] at h
        obtain ⟨rfl, rfl⟩ := h
        refine ⟨by split <;> omega, by simp only [List.length_cons]; split <;> omega, ?_⟩
        intro q
        simp [hs]

/-- **dbcs_lawful**: every double-byte code. -/
theorem dbcs_lawful (single : UInt8 → Option Bytes) (pair : UInt8 → UInt8 → Bytes × Bool) :
    (ofCode (dbcsCode single pair)).Lawful :=
  ofCode_lawful _ (dbcs_wellFormed single pair)

/-- **gbk_lawful**: GBK as x/text decodes it, whatever the mapping table holds. -/
theorem gbk_lawful (tbl : UInt8 → UInt8 → Nat) : (ofCode (gbkCode tbl)).Lawful :=
  dbcs_lawful _ _

theorem gb18030_wellFormed (tbl : UInt8 → UInt8 → Nat) (four : UInt8 → UInt8 → UInt8 → UInt8 → Bytes × Bool) :
    (gb18030Code tbl four).WellFormed := by
  intro w out n h
  cases w with
  | nil => simp [gb18030Code] at h
  | cons c0 rest =>
    simp only [gb18030Code] at h ⊢
    cases hs : gbkSingle c0 with
    | some o =>
      simp only [hs, Option.some.injEq, Prod.mk.injEq] at h
      obtain ⟨rfl, rfl⟩ := h
      exact ⟨Nat.le_refl _, by simp, fun q => by simp [hs]⟩
    | none =>
      simp only [hs] at h
      cases rest with
      | nil => simp at h
      | cons c1 rest2 =>
        simp only at h
        by_cases h4 : 0x30 ≤ c1 ∧ c1 < 0x40
        · simp only [h4, and_self, if_true] at h
          match rest2, h with
          | [], h => simp at h
          | [_], h => simp at h
          | c2 :: c3 :: rest4, h =>
            simp only at h
            by_cases hc2 : c2 < 0x81 ∨ 0xFF ≤ c2
            · simp only [hc2, if_true, Option.some.injEq, Prod.mk.injEq] at h
              obtain ⟨rfl, rfl⟩ := h
              exact ⟨Nat.le_refl _, by simp, fun q => by simp [hs, h4, hc2]⟩
            · by_cases hc3 : c3 < 0x30 ∨ 0x3A ≤ c3
              · simp only [hc2, hc3, if_true, if_false, Option.some.injEq, Prod.mk.injEq] at h
                obtain ⟨rfl, rfl⟩ := h
                exact ⟨Nat.le_refl _, by simp, fun q => by simp [hs, h4, hc2, hc3]⟩
              · simp only [hc2, hc3, if_false, Option.some.injEq, Prod.mk.injEq] at h
                obtain ⟨rfl, rfl⟩ := h
                refine ⟨by split <;> omega, by simp only [List.length_cons]; split <;> omega, ?_⟩
                intro q
                simp [hs, h4, hc2, hc3]
        · simp only [h4, if_false, Option.some.injEq, Prod.mk.injEq] at h
          obtain ⟨rfl, rfl⟩ := h
          refine ⟨by split <;> omega, by simp only [List.length_cons]; split <;> omega, ?_⟩
          intro q
          simp [hs, h4]

/-- **gb18030_lawful** -/
theorem gb18030_lawful (tbl : UInt8 → UInt8 → Nat) (four : UInt8 → UInt8 → UInt8 → UInt8 → Bytes × Bool) :
    (ofCode (gb18030Code tbl four)).Lawful :=
  ofCode_lawful _ (gb18030_wellFormed tbl four)

/-! ### non-vacuity -/

/-- a two-entry mapping table: `C4 E3` = U+4F60, `BA C3` = U+597D. -/
private def demoTbl (a b : UInt8) : Nat :=
  if a = 0xC4 ∧ b = 0xE3 then 0x4F60 else if a = 0xBA ∧ b = 0xC3 then 0x597D else 0

private def demoGbk : Decoder Bytes := ofCode (gbkCode demoTbl)

-- 你好 cut inside both characters
example : (demoGbk.feedAll demoGbk.init [[0xC4], [0xE3, 0xBA], [0xC3]]).2 = [0xE4, 0xBD, 0xA0, 0xE5, 0xA5, 0xBD] := by decide
example : demoGbk.decodeAll [0xC4, 0xE3, 0xBA, 0xC3] = [0xE4, 0xBD, 0xA0, 0xE5, 0xA5, 0xBD] := by decide
-- a lead byte followed by an ASCII digit (not a trail byte): U+FFFD for the lead alone, the ASCII byte survives; dangling lead at EOF
example : demoGbk.decodeAll [0xC4, 0x30, 0xC4] = [0xEF, 0xBF, 0xBD, 0x30, 0xEF, 0xBF, 0xBD] := by decide
example : (demoGbk.feedAll demoGbk.init [[0xC4], [0x30, 0xC4]]).2 ++ demoGbk.flush (demoGbk.feedAll demoGbk.init [[0xC4], [0x30, 0xC4]]).1
    = [0xEF, 0xBF, 0xBD, 0x30, 0xEF, 0xBF, 0xBD] := by decide
-- an unmapped pair is ONE U+FFFD (both bytes consumed); 0x80 is the euro sign
example : demoGbk.decodeAll [0x81, 0x40, 0x80] = [0xEF, 0xBF, 0xBD, 0xE2, 0x82, 0xAC] := by decide
-- GB18030: a four-byte sequence delivered byte by byte is decided only when the fourth byte is there
private def demoFour (_ _ _ _ : UInt8) : Bytes × Bool := ([0xF0, 0x9F, 0x98, 0x80], true)
private def demoGb : Decoder Bytes := ofCode (gb18030Code demoTbl demoFour)
example : (demoGb.feedAll demoGb.init [[0x94], [0x39], [0xFC]]).2 = [] := by decide
example : (demoGb.feedAll demoGb.init [[0x94], [0x39], [0xFC], [0x36]]).2 = [0xF0, 0x9F, 0x98, 0x80] := by decide
-- cut off after three bytes: U+FFFD for the lead, then `39` as ASCII, then the dangling `FC`
example : demoGb.decodeAll [0x94, 0x39, 0xFC] = [0xEF, 0xBF, 0xBD, 0x39, 0xEF, 0xBF, 0xBD] := by decide

end Req.Props.C15
