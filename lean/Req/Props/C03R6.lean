import Req.C03.H1End
import Req.C03.H3Next
import Req.Props.C03
import Req.Props.C03H3
import Req.Props.C02Call
/-!
C03, round 6 — three more dimensions of "a cut body is never a success".

1. **The ending of an HTTP/1 connection (FIN vs RST).** `reset_close_delimited_never_success`:
   a close-delimited body whose connection is RESET ends in an error at every offset;
   `reset_never_more_lenient`: for every framing a success under RST is the same success under
   FIN (so all the cut theorems of `Props/C03.lean` hold under RST too —
   `reset_cut_never_success`); `reset_delivers_same_bytes`.
2. **The cut exchange inside a MULTI-EXCHANGE call** (digest re-send, retried attempts, followed
   redirects; C02's `Call` model of `Request.do` / `Client.roundTrip` / `handleDigestAuthFunc`):
   `call_cut_never_success` — whatever the options and whatever happened before, if the exchange
   the returned response came from has a body that fails, a consuming configuration records
   the failure in `Response.Err` and a streaming one hands out the live failing body.
3. **The request after a failed HTTP/3 response, for every method / body kind**
   (`H3Cache.roundTripNext` = `RoundTripOpt`): `h3_next_request_served`.
-/
namespace Req.Props.C03R6
open Req.Proto Req.H1 Req.C03

/-! ### 1. FIN vs RST -/

/-- **reset_close_delimited_never_success.** Any bytes `s` (nothing assumed: any head, any number
of informational responses, any body bytes, none at all), then a connection reset: if the
response is close-delimited its body ends with an error — never a clean end, at every offset. -/
theorem reset_close_delimited_never_success (isHead : Bool) (B : Nat) (s : Bytes) (m : Msg) (b : BodyRes)
    (h : parseFinalEnd .reset isHead B s = .resp m b) (hf : m.framing = .untilClose) :
    b.ok = false := by
  unfold parseFinalEnd at h
  split at h
  · cases h
  · rename_i m' r _
    simp only [Outcome.resp.injEq] at h
    obtain ⟨rfl, rfl⟩ := h
    simp [readBodyEnd, hf]

/-- **reset_never_more_lenient.** For every byte string: what succeeds when the connection is
reset behind it is not close-delimited and is exactly what `parseFinal` (the FIN reading)
yields — a RST never makes anything a success that a FIN does not. -/
theorem reset_never_more_lenient (isHead : Bool) (B : Nat) (s : Bytes)
    (h : (parseFinalEnd .reset isHead B s).isSuccess = true) :
    parseFinalEnd .reset isHead B s = parseFinal isHead B s ∧
    ∀ m b, parseFinal isHead B s = .resp m b → m.framing ≠ .untilClose := by
  unfold parseFinalEnd parseFinal at *
  cases hp : parseFinalHead 6 isHead s with
  | none => simp [hp, Outcome.isSuccess] at h
  | some p =>
    obtain ⟨m, r⟩ := p
    simp only [hp] at h ⊢
    cases hf : m.framing with
    | untilClose => simp [readBodyEnd, hf, Outcome.isSuccess] at h
    | none => exact ⟨by simp [readBodyEnd, hf], fun m' b' h' => by cases h'; simp [hf]⟩
    | length n => exact ⟨by simp [readBodyEnd, hf], fun m' b' h' => by cases h'; simp [hf]⟩
    | chunked => exact ⟨by simp [readBodyEnd, hf], fun m' b' h' => by cases h'; simp [hf]⟩

/-- A FIN ending is `parseFinal`. -/
theorem fin_is_parseFinal (isHead : Bool) (B : Nat) (s : Bytes) :
    parseFinalEnd .fin isHead B s = parseFinal isHead B s := by
  unfold parseFinalEnd parseFinal
  cases parseFinalHead 6 isHead s with
  | none => rfl
  | some p => simp [readBodyEnd]

/-- **reset_cut_never_success.** A complete exchange `s` (accepted, not close-delimited, nothing
left over): every strict prefix followed by EITHER ending is an error; and if it IS
close-delimited, every prefix followed by a reset is. -/
theorem reset_cut_never_success {isHead : Bool} {B : Nat} {s : Bytes} {m : Msg} {b : BodyRes}
    (h : parseFinal isHead B s = .resp m b) (k : Nat) :
    (m.framing ≠ .untilClose → b.rest = [] → k < s.length →
      ∀ e, (parseFinalEnd e isHead B (s.take k)).isSuccess = false) ∧
    (m.framing = .untilClose → (parseFinalEnd .reset isHead B (s.take k)).isSuccess = false) := by
  refine ⟨fun hf hrest hk e => ?_, fun hf => ?_⟩
  · have hcut := Req.Props.C03.final_cut_never_success h hf hrest k hk
    cases e with
    | fin => rw [fin_is_parseFinal]; exact hcut
    | reset =>
      cases hs : (parseFinalEnd .reset isHead B (s.take k)).isSuccess with
      | false => rfl
      | true =>
        have := (reset_never_more_lenient isHead B (s.take k) hs).1
        rw [this] at hs
        rw [hcut] at hs
        cases hs
  · cases hs : (parseFinalEnd .reset isHead B (s.take k)).isSuccess with
    | false => rfl
    | true =>
      exfalso
      obtain ⟨heq, hne⟩ := reset_never_more_lenient isHead B (s.take k) hs
      -- the head of the prefix is the head of the whole exchange
      rcases Req.Props.C03.final_cut_delivers_prefix h k with hr | ⟨b'', hr, _⟩
      · rw [heq, hr] at hs; cases hs
      · exact hne m b'' hr hf

/-- The bytes handed out do not depend on the ending. -/
theorem reset_delivers_same_bytes (e : ConnEnd) (B : Nat) (m : Msg) (s : Bytes) :
    (readBodyEnd e B m s).data = (readBody B m s).data := by
  cases e with
  | fin => simp [readBodyEnd]
  | reset =>
    cases hf : m.framing <;> simp [readBodyEnd, readBody, hf]

/-- After a reset the connection is never reused (whatever the environment says). -/
theorem reset_close_delimited_not_reused (isHead : Bool) (B : Nat) (s : Bytes) (m : Msg) (b : BodyRes)
    (h : parseFinalEnd .reset isHead B s = .resp m b) (hf : m.framing = .untilClose) (env : ReuseEnv)
    (hbody : (!env.isHead && m.contentLength != 0) = true) (hw : env.bodyWritable = false) :
    connReusable (parseFinalEnd .reset isHead B s) env = false := by
  have hb := reset_close_delimited_never_success isHead B s m b h hf
  rw [h]
  simp [connReusable, mayReuse, hb, hbody, hw]

/-! Non-vacuity: `HTTP/1.0 200 OK\r\n\r\nab` — FIN: success with body "ab"; RST: an error, the
same two bytes delivered. -/
example :
    let s : Bytes := [72,84,84,80,47,49,46,48,32,50,48,48,32,79,75,13,10,13,10,97,98]
    (parseFinalEnd .fin false 4096 s).isSuccess = true ∧
    (parseFinalEnd .reset false 4096 s).isSuccess = false ∧
    (match parseFinalEnd .reset false 4096 s with | .resp _ b => b.data | .reject => []) = [97, 98] := by
  decide

/-! ### 2. the cut exchange of a multi-exchange call -/
open Req.C02 Req.Props.C02

/-- A single exchange whose body fails, consumed by the client: the failure is in `Response.Err`. -/
theorem afterRoundTrip_fail_consumed (base : Cfg) (st : Nat) (cks : List Bytes)
    (h : (AutoCfg base ∧ 199 < st) ∨ base.save = true ∨ wantsBind base st = true) :
    (afterRoundTrip base st (Body.transport cks .fail)).err = some .fail := by
  obtain ⟨cd, rd, sv, res, eres⟩ := base
  by_cases hst : 199 < st <;> by_cases hb : wantsBind ⟨cd, rd, sv, res, eres⟩ st = true <;>
  cases cd <;> cases rd <;> cases sv <;>
  simp [afterRoundTrip, autoRead, hst, hb, parseResponseBody, handleDownload, Resp.toBytes, Body.readAll,
    Body.transport, Fin.toErr, Body.close, Body.restored, AutoCfg] at h ⊢

/-- **call_cut_never_success.** EVERY option combination (auto-read on / off at client or request
level × SetOutput / SetOutputFile × success / error target × digest off / client level / request
level × retry count × retry rule), EVERY script of exchanges (transport errors, 401 challenges,
retried 5xx, followed redirects, bodies of any segmentation): if the exchange the returned
`Response` came from — the authorized exchange of a digest call, the last attempt of a retried
call, the target of a redirect — has a body that ends in a read error, then

* a consuming configuration (auto-read of a final status, a download, a target that applies)
  reports it: `Response.Err` is that error — the call is not a success;
* a streaming configuration hands the caller that exchange's live body untouched: nothing
  cached, and the body is the failing stream (every drain of it ends in the error:
  `Body.readAll` = (bytes, `fail`)). -/
theorem call_cut_never_success (cfg : CCfg) (script : List Exch) (tag st : Nat) (rd : Bool) (cks : List Bytes)
    (hsrc : (call cfg script).1.src = .resp tag st rd cks .fail) :
    let v := (call cfg script).1.v
    v.r.status = st ∧ v.tag = tag ∧
    ((AutoCfg cfg.base ∧ 199 < st) ∨ cfg.base.save = true ∨ wantsBind cfg.base st = true →
      v.r.err = some .fail) ∧
    (StreamCfg cfg.base st →
      v.r.err = none ∧ v.r.cache = none ∧ v.r.body = some (Body.transport cks .fail) ∧
      (Body.transport cks .fail).readAll.1 = (cks.flatten, .fail)) := by
  intro v
  obtain ⟨hcore, hfull⟩ := call_final_exchange cfg script
  rw [hsrc] at hcore hfull
  have herr : v.r.err = (afterRoundTrip cfg.base st (Body.transport cks .fail)).err := by
    have := congrArg (fun v => v.r.err) hcore
    simp only [CView.core, Resp.noOut] at this
    rw [this, single_r]
  obtain ⟨_, hst, htag, _⟩ := (call_no_stale_bytes cfg script).2 tag st rd cks .fail hsrc
  refine ⟨hst, htag, fun h => ?_, fun hstream => ?_⟩
  · rw [herr]; exact afterRoundTrip_fail_consumed cfg.base st cks h
  · obtain ⟨hs, hd, hres⟩ := hstream
    have hr := afterRoundTrip_stream cfg.base st cks .fail hs hd hres
    have he : v.r.err = none := by rw [herr, hr]
    have hv : v = (single cfg (.resp tag st rd cks .fail)).v := hfull he
    have hvr : v.r = afterRoundTrip cfg.base st (Body.transport cks .fail) := by rw [hv, single_r]
    rw [hvr, hr]
    exact ⟨rfl, rfl, rfl, by simp [Body.readAll, Body.transport, Fin.toErr]⟩

/-! Non-vacuity — the situation of seed C03-r6-1: client-level digest auth, auto-read; the 401
challenge is answered, the answer to the authorized request breaks off after "BB": the call
carries the error. And the last attempt of a retried call (503, then a cut 200), request-level
digest with a download. -/
example :
    let cfg : CCfg := { base := { clientDisable := false, reqDisable := false, save := false, result := false },
                        file := false, digest := .client, maxRetries := 0, cond := .dflt }
    let c := (call cfg [.resp 0 401 false [] .eof, .resp 1 200 false [[66, 66]] .fail]).1
    c.src = .resp 1 200 false [[66, 66]] .fail ∧ c.v.r.status = 200 ∧ c.v.r.err = some .fail := by
  decide

example :
    let cfg : CCfg := { base := { clientDisable := false, reqDisable := false, save := true, result := false },
                        file := true, digest := .request, maxRetries := 1, cond := .status }
    let c := (call cfg [.resp 0 503 false [] .eof, .resp 1 401 false [] .eof, .resp 2 200 false [[7], [8]] .fail]).1
    c.v.tag = 2 ∧ c.v.r.err = some .fail := by
  decide

/-! ### 3. the next request after a failed HTTP/3 response -/

/-- `getClient` (with the eviction) never hands out a closed connection, so `RoundTripOpt`
serves the request on it whatever its method and body: the retry rule is never needed. -/
theorem roundTripNext_served (c : H3Cache) (q : NextReq) :
    (c.roundTripNext q).1 = true ∧ (c.roundTripNext q).2 = c.getClient := by
  have h := (Req.Props.C03H3.broken_conn_not_reused_h3 c).2
  simp [H3Cache.roundTripNext, H3Cache.roundTripNextV, H3Cache.getClientV, h]

/-- **h3_next_request_served.** Whatever happened to the first response (any ending: FIN, stream
reset with any code, connection close with any code; any outcome: call failed, body failed, ok)
the next request on the same client is served, for EVERY kind of request — also a POST / PUT with
a body and a non-idempotent request without one, which `RoundTripOpt` would not send twice — and
the number of dials is the one `h3DialsAfterSecond` names (independent of the request kind). -/
theorem h3_next_request_served (e : H3End) (o : H3Outcome) (q : NextReq) :
    h3Next e o q = (true, h3DialsAfterSecond e o) := by
  unfold h3Next
  obtain ⟨h1, h2⟩ := roundTripNext_served (h3CacheAfterFirst e o) q
  rw [Prod.ext_iff]
  refine ⟨h1, ?_⟩
  simp only [h2]
  cases e <;> rfl

/-- Without the eviction the same request sequence depends on the request kind: a dead cached
connection fails exactly the requests that cannot be replayed. (What `getClient`'s check buys;
seed C03-r6-3 is this variant.) -/
theorem h3_no_evict_serves_iff_replayable (c : H3Cache) (q : NextReq)
    (hc : c.cached = true) (hd : c.closed = true) :
    (c.roundTripNextV false q).1 = q.replayable := by
  cases hq : q.replayable <;> simp [H3Cache.roundTripNextV, H3Cache.getClientV, hc, hd, hq]

/-! Non-vacuity: connection closed inside the body, then a POST with a body: served on a second
connection; without the eviction it is not, while a GET is. -/
example :
    h3Next (.connClose 258) (.bodyFailed 200 [1, 2] .reset) ⟨false, true, false⟩ = (true, 2) ∧
    ((h3CacheAfterFirst (.connClose 258) (.bodyFailed 200 [1, 2] .reset)).roundTripNextV false ⟨false, true, false⟩).1 = false ∧
    ((h3CacheAfterFirst (.connClose 258) (.bodyFailed 200 [1, 2] .reset)).roundTripNextV false ⟨true, false, false⟩).1 = true := by
  decide

end Req.Props.C03R6
