import Req.Props.C19
import Req.Props.C19Binding
/-!
# C19 (round 5) — `Clone` preserves the original; request level overrides client level, as ONE
theorem over the table of keyed settings

* `clone_preserves_original` — for EVERY state and every pair of tables: after `Clone` every record
  that existed is what it was, and every observation the harness can make of it (an execution of
  any of its requests: the request the origin receives with the cookies of the jar, attempts, log,
  dump routing; `GetCookies`; the settings probe) is what it was before the `Clone`.
* `heap_clone_preserves_original` — the same through the reference-aware model: for `Safe` tables,
  every growth policy and every program, appending a `Clone` changes the denotation of no existing
  record (jar contents included).
* `mergeQuery_get` — what `parseRequestURL` sends for a query key: the request's values if the
  request has the key, else the client's.
* `request_overrides_client` — for every keyed two-level family (headers, path parameters, query
  parameters): if the request has values for key `k`, the request is sent with the REQUEST's values
  for `k`, whatever the client has for `k` and for any other key.
* `request_setter_overrides_client` — over the setter table `keyedSetters` (SetHeader(s),
  SetHeader(s)NonCanonical, SetPathParam(s), SetQueryParam(s), AddQueryParam / SetQueryString): after
  the client-level setter with (k, vc) and the request-level setter with (k, vr), in either order,
  from any state, the request is sent with the request record's own values for `k`, and these end
  with `vr`; for the Set-type setters they are exactly `[vr]`.
Form data is MERGED by the code (request values first, then the client's), not overridden: it is
not in the table; the example at the end shows the difference.
-/
namespace Req.Props.C19Preserve
open Req.Scope Req.Heap Req.Props.C19 Req.Props.C19Binding

/-! ## Clone preserves the original -/

/-- records are well-formed when the client of every request record is an existing record -/
def ParentsBelow (s : VState) : Prop :=
  ∀ r, r < s.count → ∀ c, (s.owner r).parent = some c → c < s.count

theorem clone_preserves_original (tc tr : Table) (s : VState) (i : Nat) (hwf : ParentsBelow s) :
    let s' := stepOp tc tr s (.clone i)
    (∀ b, b < s.count → s'.owner b = s.owner b) ∧
    (∀ r, r < s.count → ∀ m md path sc, observe s' (.exec r m md path sc) = observe s (.exec r m md path sc)) ∧
    (∀ c, c < s.count → observe s' (.getCookies c) = observe s (.getCookies c)) ∧
    (∀ o, o < s.count → observe s' (.probe o) = observe s (.probe o)) := by
  intro s'
  have hown : ∀ b, b < s.count → s'.owner b = s.owner b := fun b hb =>
    stepOp_frame tc tr s (.clone i) b hb (by simp [Touches])
  have hcnt : s.count ≤ s'.count := stepOp_count_le tc tr s (.clone i)
  refine ⟨hown, ?_, ?_, ?_⟩
  · intro r hr m md path sc
    have hr' : r < s'.count := Nat.lt_of_lt_of_le hr hcnt
    simp only [observe, hr, hr', if_true, hown r hr]
    cases hp : (s.owner r).parent with
    | none => rfl
    | some c =>
      have hc := hwf r hr c hp
      simp only [hown c hc]
  · intro c hc
    have hc' : c < s'.count := Nat.lt_of_lt_of_le hc hcnt
    simp only [observe, hc, hc', if_true, hown c hc]
  · intro o ho
    have ho' : o < s'.count := Nat.lt_of_lt_of_le ho hcnt
    simp only [observe, ho, ho', if_true, hown o ho]

theorem runWith_append (tc tr : Table) : ∀ (ops : List Op) (s : VState) (op : Op),
    (runWith tc tr s (ops ++ [op])).1 = stepOp tc tr (runWith tc tr s ops).1 op := by
  intro ops
  induction ops with
  | nil => intro s op; simp [runWith]
  | cons o ops ih => intro s op; simp only [List.cons_append, runWith]; exact ih _ op

/-- Through the reference-aware model: whatever was done before (in-place inserts, appends into
spare capacity, cookies stored by responses), a `Clone` changes what no existing record denotes. -/
theorem heap_clone_preserves_original (tc tr : Table) (hs : Safe tc tr) (grow : Nat → Nat → Nat)
    (ops : List Op) (i b : Nat) (hb : b < (abs (runHeap grow tc tr ops).1).count) :
    (abs (runHeap grow tc tr (ops ++ [.clone i])).1).owner b = (abs (runHeap grow tc tr ops).1).owner b := by
  have h1 := (heap_refines_scope tc tr hs grow (ops ++ [.clone i])).1
  have h2 := (heap_refines_scope tc tr hs grow ops).1
  rw [h2] at hb
  rw [h1, h2]
  unfold runScope at *
  rw [runWith_append]
  exact stepOp_frame idealClone idealReq _ (.clone i) b hb (by simp [Touches])

/-! ## Request level overrides client level -/

/-- values of the LAST entry with key `k` (what a fold over the entries ends with) -/
def getLast : AMap → Nat → Option (List Nat)
  | [], _ => none
  | e :: m, k =>
    match getLast m k with
    | some vs => some vs
    | none => if e.1 = k then some e.2 else none

theorem has_false_get (m : AMap) (k : Nat) (h : AMap.has m k = false) : AMap.get m k = [] := by
  induction m with
  | nil => rfl
  | cons e m ih =>
    rw [has_cons] at h
    rw [get_cons]
    have h1 : ¬ e.1 = k := by intro he; simp [he] at h
    simp only [h1, if_false]
    exact ih (by simpa [h1] using h)

theorem has_del (m : AMap) (k k' : Nat) : AMap.has (m.del k) k' = (AMap.has m k' && k' != k) := by
  induction m with
  | nil => simp [AMap.del, AMap.has]
  | cons e m ih =>
    unfold AMap.del at ih ⊢
    rw [List.filter_cons]
    by_cases hek : e.1 = k
    · have : (e.1 != k) = false := by simp [hek]
      simp only [this, Bool.false_eq_true, if_false, ih, has_cons]
      by_cases hk : k' = k
      · simp [hk]
      · have : (e.1 == k') = false := by rw [hek]; simpa using fun h => hk h.symm
        simp [this]
    · have : (e.1 != k) = true := by simp [hek]
      simp only [this, if_true, has_cons, ih]
      by_cases hk : k' = k
      · subst hk; simp [hek]
      · have hb : (k' != k) = true := by simpa using hk
        rw [hb]; simp

theorem get_del_other (m : AMap) (k k' : Nat) (hne : k' ≠ k) : AMap.get (m.del k) k' = AMap.get m k' := by
  induction m with
  | nil => rfl
  | cons e m ih =>
    unfold AMap.del at ih ⊢
    rw [List.filter_cons]
    by_cases hek : e.1 = k
    · have : (e.1 != k) = false := by simp [hek]
      simp only [this, Bool.false_eq_true, if_false, ih, get_cons]
      have : ¬ e.1 = k' := by rw [hek]; exact fun h => hne h.symm
      simp [this]
    · have : (e.1 != k) = true := by simp [hek]
      simp only [this, if_true, get_cons, ih]

/-- one step of the query merge, read at key `k'` -/
theorem get_del_append (m : AMap) (k k' : Nat) (vs : List Nat) :
    AMap.get (m.del k ++ [(k, vs)]) k' = if k = k' then vs else AMap.get m k' := by
  rw [get_append_single, has_del]
  by_cases hk : k = k'
  · subst hk; simp
  · have hne : k' ≠ k := fun h => hk h.symm
    simp only [hk, if_false]
    by_cases hh : AMap.has m k' = true
    · simp [hh, hne, get_del_other m k k' hne]
    · have hh' : AMap.has m k' = false := by simpa using hh
      simp [hh', has_false_get m k' hh']

/-- `parseRequestURL`: the query values sent for key `k` are the request's if the request has the
key (its last entry, for a list with repeated keys), else the client's. -/
theorem mergeQuery_get (k : Nat) : ∀ (r c : AMap),
    (mergeQuery c r).get k = match getLast r k with
      | some vs => vs
      | none => c.get k := by
  intro r
  induction r with
  | nil => intro c; rfl
  | cons e r ih =>
    intro c
    have : mergeQuery c (e :: r) = mergeQuery (c.del e.1 ++ [(e.1, e.2)]) r := rfl
    rw [this, ih, getLast]
    cases hl : getLast r k with
    | some vs => rfl
    | none =>
      rw [get_del_append]
      by_cases he : e.1 = k <;> simp [he]

theorem getLast_map_set (m : AMap) (k : Nat) (vs : List Nat) (h : AMap.has m k = true) :
    getLast (m.map (fun e => if e.1 == k then (k, vs) else e)) k = some vs := by
  induction m with
  | nil => simp [AMap.has] at h
  | cons e m ih =>
    rw [List.map_cons, getLast]
    by_cases hm : AMap.has m k = true
    · rw [ih hm]
    · have hm' : AMap.has m k = false := by simpa using hm
      rw [has_cons, hm'] at h
      have hek : e.1 = k := by simpa using h
      -- no later entry has the key
      have hnone : ∀ (m : AMap), AMap.has m k = false →
          getLast (m.map (fun e => if e.1 == k then (k, vs) else e)) k = none := by
        intro m
        induction m with
        | nil => intro _; rfl
        | cons x m ihm =>
          intro hx
          rw [has_cons] at hx
          have hx1 : ¬ x.1 = k := by intro he; simp [he] at hx
          have hxb : (x.1 == k) = false := by simpa using hx1
          rw [List.map_cons, getLast, ihm (by simpa [hxb] using hx)]
          simp [hxb, hx1]
      rw [hnone m hm']
      simp [hek]

theorem getLast_append_single (m : AMap) (k : Nat) (vs : List Nat) : getLast (m ++ [(k, vs)]) k = some vs := by
  induction m with
  | nil => simp [getLast]
  | cons e m ih => rw [List.cons_append, getLast, ih]

theorem getLast_set_same (m : AMap) (k : Nat) (vs : List Nat) : getLast (m.set k vs) k = some vs := by
  unfold AMap.set
  by_cases h : AMap.has m k = true
  · simp only [h, if_true]; exact getLast_map_set m k vs h
  · simp only [h, Bool.false_eq_true, if_false]; exact getLast_append_single m k vs

/-- a record whose keyed field was written by a setter for `k` last: reads and last-reads agree -/
theorem get_eq_of_getLast_set (m : AMap) (k : Nat) (vs : List Nat) :
    (m.set k vs).get k = vs ∧ getLast (m.set k vs) k = some vs :=
  ⟨get_set_same m k vs, getLast_set_same m k vs⟩

/-- the keyed two-level settings families that OVERRIDE -/
inductive Keyed | header | path | query
  deriving DecidableEq, Repr

def Keyed.field : Keyed → Field
  | .header => F.headers
  | .path => F.pathParams
  | .query => F.query

/-- the values the request is sent with for key `k`, from the client's and the request's value of the field -/
def Keyed.sent : Keyed → AMap → AMap → Nat → List Nat
  | .header, c, r, k => (mergeHeaders c r).get k
  | .path, c, r, k =>
    match resolveSeg c r (.param k) with
    | .val v => [v]
    | _ => []
  | .query, c, r, k => (mergeQuery c r).get k

/-- the request's own answer for key `k` (a path parameter has one value: the first) -/
def Keyed.own : Keyed → AMap → Nat → List Nat
  | .path, r, k => (r.get k).take 1
  | _, r, k => r.get k

/-- **Request level overrides client level**, every keyed family: when the request record has values
for `k` (and, for a multimap read by a fold, its reads are unambiguous), the client's field — the
value for `k` and everything else in it — does not matter. -/
theorem request_overrides_client (fam : Keyed) (c r : AMap) (k : Nat)
    (h : (r.get k).isEmpty = false) (hl : getLast r k = some (r.get k)) :
    fam.sent c r k = fam.own r k := by
  cases fam with
  | header => exact mergeHeaders_keeps k c r h
  | path =>
    simp only [Keyed.sent, Keyed.own, resolveSeg]
    cases hg : r.get k with
    | nil => rw [hg] at h; simp at h
    | cons v rest => simp
  | query =>
    simp only [Keyed.sent, Keyed.own]
    rw [mergeQuery_get, hl]

/-- the setter table: family, setter (client level and request level share the constructor), and
whether it REPLACES the values of the key -/
def keyedSetters : List (Keyed × (Nat → Nat → Setter) × Bool) :=
  [(.header, Setter.hdrSet, true), (.header, Setter.hdrAdd, false), (.path, Setter.pathSet, true),
   (.query, Setter.querySet, true), (.query, Setter.queryAdd, false)]

/-- effect of a keyed setter on the record it is called on -/
theorem keyed_setter_effect (e : Keyed × (Nat → Nat → Setter) × Bool) (he : e ∈ keyedSetters)
    (o k v : Nat) (w : VOwner) :
    ((e.2.1 k v).prims o).foldl stepOwner w =
      w.setVal e.1.field ((w.val e.1.field).set k
        (if e.2.2 then [v] else (w.val e.1.field).get k ++ [v])) := by
  simp only [keyedSetters, List.mem_cons, List.mem_nil_iff, or_false] at he
  rcases he with rfl | rfl | rfl | rfl | rfl <;>
    simp [Setter.prims, stepOwner, Keyed.field, kind, sliceFields, F.headers, F.pathParams, F.query, AMap.addMany]

theorem request_setter_overrides_client (e : Keyed × (Nat → Nat → Setter) × Bool) (he : e ∈ keyedSetters)
    (s : VState) (c r : Nat) (hc : c < s.count) (hr : r < s.count) (hne : r ≠ c) (k vc vr : Nat) :
    let s1 := stepOp idealClone idealReq s (.set c (e.2.1 k vc))
    let s2 := stepOp idealClone idealReq s1 (.set r (e.2.1 k vr))
    let t1 := stepOp idealClone idealReq s (.set r (e.2.1 k vr))
    let t2 := stepOp idealClone idealReq t1 (.set c (e.2.1 k vc))
    let mine := (if e.2.2 then [vr] else ((s.owner r).val e.1.field).get k ++ [vr])
    -- client setter first, or request setter first: the same two records
    s2.owner r = t2.owner r ∧ s2.owner c = t2.owner c ∧
    -- the request record's own values for k …
    ((s2.owner r).val e.1.field).get k = mine ∧
    -- … are what the request is sent with
    e.1.sent ((s2.owner c).val e.1.field) ((s2.owner r).val e.1.field) k = e.1.own ((s2.owner r).val e.1.field) k := by
  intro s1 s2 t1 t2 mine
  obtain ⟨a1, a2, a3⟩ := set_spec s c hc (e.2.1 k vc)
  obtain ⟨b1, b2, b3⟩ := set_spec s1 r (by show r < s1.count; rw [a1]; exact hr) (e.2.1 k vr)
  obtain ⟨c1, c2, c3⟩ := set_spec s r hr (e.2.1 k vr)
  obtain ⟨d1, d2, d3⟩ := set_spec t1 c (by show c < t1.count; rw [c1]; exact hc) (e.2.1 k vc)
  have hs2r : s2.owner r = ((e.2.1 k vr).prims r).foldl stepOwner (s.owner r) := by
    show (stepOp idealClone idealReq s1 _).owner r = _
    rw [b2]; show List.foldl stepOwner ((stepOp idealClone idealReq s _).owner r) _ = _
    rw [a3 r hr hne]
  have ht2r : t2.owner r = ((e.2.1 k vr).prims r).foldl stepOwner (s.owner r) := by
    show (stepOp idealClone idealReq t1 _).owner r = _
    rw [d3 r (by rw [c1]; exact hr) hne]; exact c2
  have hs2c : s2.owner c = ((e.2.1 k vc).prims c).foldl stepOwner (s.owner c) := by
    show (stepOp idealClone idealReq s1 _).owner c = _
    rw [b3 c (by rw [a1]; exact hc) (fun h => hne h.symm)]; exact a2
  have ht2c : t2.owner c = ((e.2.1 k vc).prims c).foldl stepOwner (s.owner c) := by
    show (stepOp idealClone idealReq t1 _).owner c = _
    rw [d2]; show List.foldl stepOwner ((stepOp idealClone idealReq s _).owner c) _ = _
    rw [c3 c hc (fun h => hne h.symm)]
  have hval : (s2.owner r).val e.1.field = ((s.owner r).val e.1.field).set k mine := by
    rw [hs2r, keyed_setter_effect e he]
    simp [VOwner.setVal, mine]
  refine ⟨by rw [hs2r, ht2r], by rw [hs2c, ht2c], by rw [hval, get_set_same], ?_⟩
  rw [hval]
  apply request_overrides_client
  · rw [get_set_same]
    show mine.isEmpty = false
    by_cases hb : e.2.2 = true <;> simp [mine, hb]
  · rw [get_set_same]; exact getLast_set_same _ _ _

/-! ## Non-vacuity -/

/-- a state with a configured original that has a cookie in its jar, and a request of it -/
def demo : VState :=
  (runScope [.newClient, .set 0 (.hdrSet 1 5), .newReq 0, .exec 1 0 0 [] 10, .newReq 0]).1

example : ParentsBelow demo := by
  intro r hr c hp
  have : demo.count = 3 := by decide
  rw [this] at hr ⊢
  match r, hr with
  | 0, _ => have : (demo.owner 0).parent = none := by decide
            rw [this] at hp; cases hp
  | 1, _ => have : (demo.owner 1).parent = some 0 := by decide
            rw [this] at hp; injection hp with hp; omega
  | 2, _ => have : (demo.owner 2).parent = some 0 := by decide
            rw [this] at hp; injection hp with hp; omega

/-- the original's jar has the cookie before and after the clone; the clone's jar is new -/
example : ((demo.owner 0).val F.jar).toList = [10] ∧
    (((stepOp idealClone idealReq demo (.clone 0)).owner 0).val F.jar).toList = [10] ∧
    (((stepOp idealClone idealReq demo (.clone 0)).owner 3).val F.jar).toList = [] := by decide

example : (Keyed.header, Setter.hdrAdd, false) ∈ keyedSetters := by simp [keyedSetters]

/-- same key at both levels: the request's value is sent, for a header and for a path parameter … -/
example : Keyed.header.sent [(7, [5])] [(7, [vEmpty])] 7 = [vEmpty] ∧
    Keyed.path.sent [(1, [5])] [(1, [6])] 1 = [6] ∧ Keyed.query.sent [(1, [5]), (2, [4])] [(1, [6])] 1 = [6] ∧
    Keyed.query.sent [(1, [5]), (2, [4])] [(1, [6])] 2 = [4] := by decide

/-- … while form data is merged, not overridden (as `parseRequestBody` does) -/
example : (mergeForm [(1, [5])] [(1, [6])]).get 1 = [6, 5] := by decide

end Req.Props.C19Preserve
