import Req.Client.Redirect
import Req.Client.Authority
import Req.Lemmas.C11
import Req.Lemmas.C11Host
/-!
C11 — host identity, further corners (round 4):

* `ip6_literal_never_plain_host`: an IP-literal never has the host identity of a registered name or
  an IPv4 address — in particular the IPv4-mapped `[::ffff:1.2.3.4]` is not `1.2.3.4`, and a zone id
  that spells a name (`[fe80::1%www.example.com]`) is not that name;
* `empty_host_hostname`, `same_host_refuses_empty_host`: the empty host of `http:///p` / `http://:80/p`
  has the empty hostname and is the same host as no origin that has one;
* `invalid_port_kept`: a port that is not numeric is not a port — the text stays part of the hostname
  (`host:abc`, a configured entry; net/url refuses such a Location outright, `Loop.Loc.bad`).
-/
namespace Req.Props.C11Ident
open Req.Proto Req.Ascii Req.Redirect Req.Authority Req.Lemmas.C11

theorem mem_lower_colon {s : Bytes} : (58 : UInt8) ∈ lower s ↔ (58 : UInt8) ∈ s := by
  induction s with
  | nil => simp
  | cons x s ih =>
    simp only [lower_cons, List.mem_cons, ih]
    have := toLower_eq_colon x
    constructor
    · rintro (h | h)
      · exact Or.inl ((this ▸ h.symm : x = 58)).symm
      · exact Or.inr h
    · rintro (h | h)
      · exact Or.inl ((this.symm ▸ h.symm : toLower x = 58)).symm
      · exact Or.inr h

/-- The hostname of a well-formed name or IPv4 host contains no colon. -/
theorem plain_host_no_colon (a : Authority) (h : WfAuthority a)
    (hk : ∀ addr z, a.host ≠ .ip6 addr z) : (58 : UInt8) ∉ specHost a := by
  obtain ⟨host, port⟩ := a
  have hw := h.host
  simp only [specHost]
  rw [mem_lower_colon]
  cases host with
  | name ls dot =>
    simp only [Host.hostname, Host.nameText, glue_eq_joinWith]
    have := wfName_text_no hw (c := 58) (Or.inl rfl)
    cases dot <;> simp [this]
  | ip4 a b c d =>
    simp only [Host.hostname, glue_eq_joinWith]
    exact ip4_text_digits_dots hw (by decide) (by decide)
  | ip6 addr z => exact absurd rfl (hk addr z)

/-- **ip6_literal_never_plain_host**: for well-formed authorities, an IP-literal (bracketed IPv6, with
or without zone) and a name or IPv4 address are never the same host and never the same domain,
whatever they spell: `[::ffff:1.2.3.4]` vs `1.2.3.4`, `[::1%example.com]` vs `example.com`. -/
theorem ip6_literal_never_plain_host (a b : Authority) (ha : WfAuthority a) (hb : WfAuthority b)
    (addr : Bytes) (z : Option Bytes) (ha6 : a.host = .ip6 addr z)
    (hb6 : ∀ addr' z', b.host ≠ .ip6 addr' z') :
    specHost a ≠ specHost b ∧ specDomain a ≠ specDomain b := by
  have hcol : (58 : UInt8) ∈ specHost a := by
    obtain ⟨host, port⟩ := a
    simp only at ha6
    subst ha6
    have hw : (58 : UInt8) ∈ addr := ha.host
    simp only [specHost, Host.hostname]
    rw [mem_lower_colon]
    cases z <;> simp [Host.ip6Text, hw]
  have hno := plain_host_no_colon b hb hb6
  refine ⟨fun e => hno (e ▸ hcol), ?_⟩
  have hda : specDomain a = specHost a := by
    obtain ⟨host, port⟩ := a
    simp only at ha6
    subst ha6
    rfl
  rw [hda]
  intro e
  -- the domain of a name/IPv4 host has no colon either
  have : (58 : UInt8) ∉ specDomain b := by
    obtain ⟨host, port⟩ := b
    cases host with
    | name ls dot =>
      have hw : WfName ls := hb.host
      simp only [specDomain]
      rw [mem_lower_colon, glue_eq_joinWith]
      intro hm
      obtain ⟨l, hl, hcl⟩ := mem_joinWith (show (58 : UInt8) ≠ 46 by decide) _ hm
      have hl' : l ∈ ls := by
        simp only [dropFirstLabel] at hl
        split at hl
        · exact hl
        · exact List.mem_of_mem_drop hl
      exact wfName_label_no hw hl' (Or.inr (Or.inl rfl)) hcl
    | ip4 _ _ _ _ => exact hno
    | ip6 addr' z' => exact absurd rfl (hb6 addr' z')
  exact this (e ▸ hcol)

/-- `[::ffff:1.2.3.4]` vs `1.2.3.4`, `[::1%a.b]` vs `a.b`. -/
example :
    let m : Authority := ⟨.ip6 [58,58,102,102,102,102,58,49,46,50,46,51,46,52] none, none⟩
    let v : Authority := ⟨.ip4 [49] [50] [51] [52], none⟩
    sameHostRedirectPolicy.check m.render ⟨⟨v.render, []⟩, []⟩ = .deny ∧
    sameDomainRedirectPolicy.check v.render ⟨⟨m.render, []⟩, []⟩ = .deny ∧
    (allowedHostRedirectPolicy [v.render]).check m.render ⟨⟨v.render, []⟩, []⟩ = .deny := by decide

/-- **empty_host_hostname**: `URL.Host` of `http:///p` (empty) or `http://:80/p` (port only) has the
empty hostname and the empty domain. -/
theorem empty_host_hostname (p : Bytes) (hp : p.all isDigit = true) :
    getHostname [] = [] ∧ getDomain [] = [] ∧ getHostname (58 :: p) = [] ∧ getDomain (58 :: p) = [] := by
  have hs : splitLast 58 (58 :: p) = some ([], p) := by
    have := splitLast_append (c := 58) [] p (Req.Lemmas.C11.wfPort_no_colon hp)
    simpa using this
  have hh : getHostname (58 :: p) = [] := by
    simp [getHostname, urlHostname, hs, validPortDigits, hp, hasPrefixByte]
  refine ⟨by decide, by decide, hh, ?_⟩
  simp only [getDomain, hh]
  decide

/-- **same_host_refuses_empty_host**: a redirect to a URL without host is never "the same host" (nor the
same domain) as an origin that has a hostname, and an allow-list admits it only through an entry that
itself has the empty hostname. -/
theorem same_host_refuses_empty_host (origin : Bytes) (ho : getHostname origin ≠ []) (hdr : Headers)
    (rest : List Hop) :
    sameHostRedirectPolicy.check [] ⟨⟨origin, hdr⟩, rest⟩ = .deny ∧
    (∀ hosts : List Bytes, (∀ h ∈ hosts, getHostname h ≠ []) →
      (allowedHostRedirectPolicy hosts).check [] ⟨⟨origin, hdr⟩, rest⟩ = .deny) := by
  have he : getHostname [] = [] := by decide
  refine ⟨?_, ?_⟩
  · simp only [sameHostRedirectPolicy, he]
    have : ([] != getHostname origin) = true := by
      cases h : getHostname origin with
      | nil => exact absurd h ho
      | cons x xs => rfl
    simp [this]
  · intro hosts hh
    simp only [allowedHostRedirectPolicy, he]
    have : (hosts.map fun h => lower (getHostname h)).contains [] = false := by
      cases hc : (hosts.map fun h => lower (getHostname h)).contains [] with
      | false => rfl
      | true =>
        obtain ⟨h, hm, hl⟩ := List.mem_map.mp (List.contains_iff_mem.mp hc)
        have : getHostname h = [] := by
          cases hg : getHostname h with
          | nil => rfl
          | cons x xs => rw [hg] at hl; simp [lower] at hl
        exact absurd this (hh h hm)
    rw [this]; rfl

/-- **invalid_port_kept**: when the text after the last colon is not all digits it is not removed:
the "port" stays part of the hostname (`host:abc` ≠ `host`). -/
theorem invalid_port_kept (h p : Bytes) (hc : (58 : UInt8) ∉ p) (hp : p.all isDigit = false)
    (hb : (h ++ 58 :: p).head? ≠ some 91) :
    getHostname (h ++ 58 :: p) = lower (h ++ 58 :: p) := by
  have hs := splitLast_append (c := 58) h p hc
  simp only [getHostname, urlHostname, hs, validPortDigits, hp]
  have : hasPrefixByte 91 (h ++ 58 :: p) = false := by
    simp only [hasPrefixByte]
    cases hh : (h ++ 58 :: p).head? with
    | none => rfl
    | some x =>
      have : x ≠ 91 := fun e => hb (by rw [hh, e])
      simp [this]
  simp [this]

/-- `host:abc` -/
example : getHostname [104, 58, 97] = [104, 58, 97] ∧ getHostname [104, 58, 56, 48] = [104] := by decide

end Req.Props.C11Ident
