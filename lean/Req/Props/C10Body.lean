import Req.Client.RetryBody
import Req.Props.C10
/-!
C10, round 7 — the place where an attempt fails after the response header arrived is invisible
to the retry loop: `Client.roundTrip` hands out `err = resp.Err` for EVERY combination of
auto-read / result target / fault site, so `Outcome.badBody` (response with a status + error of
kind body) is the one class the loop has to be proved for — and every theorem of `Req.Props.C10*`
about `badBody` is a theorem about truncated bodies, resets mid-body, failing transformers and
failing unmarshallers alike.
-/
namespace Req.Props.C10Body
open Req.Retry Req.RetryBody

/-- **body_fault_site_invisible**: whatever reads the body first and wherever it fails, the code's
`roundTrip` returns exactly what the loop model's `roundTrip` returns for `badBody` / `status`. -/
theorem body_fault_site_invisible (cfg : BodyCfg) (f : BodyFault) (ra c : Nat) :
    roundTripAt .code cfg f ra c = Req.Retry.roundTrip R ra (outcomeOf cfg f c) := by
  obtain ⟨a, t⟩ := cfg
  cases a <;> cases t <;> cases f <;> rfl

/-- `err` and `resp.Err` agree when `roundTrip` returns (what `Request.do`, the default rule, the
conditions and the hooks rely on). -/
theorem err_is_resp_err (cfg : BodyCfg) (f : BodyFault) (ra c : Nat) :
    (roundTripAt .code cfg f ra c).2 = ((roundTripAt .code cfg f ra c).1.bind (·.err)) := by
  obtain ⟨a, t⟩ := cfg
  cases a <;> cases t <;> cases f <;> rfl

/-- The default rule asks for a retry exactly when something failed, wherever. -/
theorem default_rule_retries_any_body_fault {σ : Type} (p : Policy σ) (hp : p.conds.isEmpty = true)
    (cfg : BodyCfg) (f : BodyFault) (ra c : Nat) :
    need p (outcomeOf cfg f c) ra = failed cfg f := by
  unfold need outcomeOf
  cases h : failed cfg f <;> simp [hp, Outcome.errKind]

/-- An explicit-return `roundTrip` (seed C10-r7-1) differs from the code in exactly one cell: the
body breaks off during the auto-read and no result target makes `parseResponseBody` meet the
error again (3xx, or no `SetSuccessResult` / `SetErrorResult`) — why a lane needs that cell. -/
theorem explicit_return_differs_iff (cfg : BodyCfg) (f : BodyFault) (ra c : Nat) :
    roundTripAt .explicit cfg f ra c ≠ roundTripAt .code cfg f ra c ↔
      (f = .read ∧ cfg.autoRead = true ∧ cfg.target = false) := by
  obtain ⟨a, t⟩ := cfg
  cases a <;> cases t <;> cases f <;> simp [roundTripAt, afterAutoRead, parseErr]

/-- … and in that cell the loop is told "no error" while `resp.Err` holds one. -/
theorem explicit_return_loses_read_error (ra c : Nat) :
    roundTripAt .explicit ⟨true, false⟩ .read ra c = (some ⟨ra, .status c, some (ra, .body)⟩, none) := rfl

end Req.Props.C10Body
