import Req.Props.C20Heap
import Req.Props.C20SetAll
/-!
C20 — the life of a client and the setter sequences of `Req.Auth.sent` (round 5) are one model:
a life with ONE request and ONE attempt is `sent`; and whatever happened before, an attempt carries
what `effective` says about the request's own value and the client's.
-/
namespace Req.Props.C20
open Req.Proto Req.Auth

/-- a setter call as an event of the life of a client whose only request is number 0 -/
def evOf (o : SetOp) : Ev :=
  if o.isClient then .client o.value else .request 0 o.value

theorem runPure_setters : ∀ (ops : List SetOp) (c : Conf),
    runPure { client := c.client, reqs := [c.request] } (ops.map evOf) =
      ({ client := (ops.foldl applyOp c).client, reqs := [(ops.foldl applyOp c).request] }, []) := by
  intro ops
  induction ops with
  | nil => intro c; rfl
  | cons o ops ih =>
    intro c
    have h1 : (stepPure { client := c.client, reqs := [c.request] } (evOf o)) =
        ({ client := (applyOp c o).client, reqs := [(applyOp c o).request] }, none) := by
      cases o <;> rfl
    simp only [List.map_cons, runPure, h1, List.foldl_cons, ih]

theorem effective_orElse (a c : Option Bytes) (url : Option (Bytes × Bytes)) :
    effective (orElse a c) c url = effective a c url := by
  cases a <;> cases c <;> rfl

/-- **single_request_life**: for every sequence of setter calls (both levels, any order) the life
"create the request, make the calls, send once" lets exactly `sent ops url` leave — the heap model
with its shared slices and the configuration fold of round 5 agree. -/
theorem single_request_life (ops : List SetOp) (url : Option (Bytes × Bytes)) :
    life .fresh (.newReq :: ops.map evOf ++ [.send 0 url]) = [sent ops url] := by
  rw [life_eq_pure]
  have h := runPure_setters ops {}
  simp only [List.cons_append, runPure, stepPure, List.nil_append]
  rw [show (({ client := none, reqs := [none] } : Pure)) = { client := ({} : Conf).client, reqs := [({} : Conf).request] } from rfl,
    runPure_append, h]
  simp only [runPure, stepPure, List.getElem?_cons_zero, List.nil_append, effective_orElse]
  rfl

/-- the last request-level pair arrives, for all strings, also when the request was ALREADY SENT
with the client's credentials before (`basic_all_strings` of round 5 is the case without history) -/
theorem basic_after_history (es : List Ev) (i : Nat) (hi : i < countReqs es) (u p : Bytes)
    (url : Option (Bytes × Bytes)) :
    life .fresh (es ++ [.request i (basic u p), .send i url]) = life .fresh es ++ [some (basic u p)] :=
  own_credentials_from_next_attempt es i (basic u p) url hi

example : life .fresh (.newReq :: [SetOp.clientBasic [97] [98], .reqBasic [] [], .clientBearer [116]].map evOf ++
    [.send 0 (some ([117], [112]))]) = [some (basic [] [])] := by decide

end Req.Props.C20
