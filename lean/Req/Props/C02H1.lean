import Req.Props.C02Msg
import Req.C02.H1Full
/-!
C02 — `h1_response_roundtrip`: the four per-framing whole-message theorems of
`Req.Props.C02Msg` as ONE statement over every framing the origin may choose.
-/
namespace Req.Props.C02
open Req.Proto Req.Ascii Req.C02 Req.H1

/-- The origin's choice of framing for a response that may have a body: what the head announces
(`OriginFraming`), the body it carries, the trailer fields, the bytes it writes after the head
(`after`), what is left for the next response (`rest`), and the body reader the client is to
install (`none` = `http.NoBody`). `cap` = the client's read-buffer size (the chunk-size lines and
the trailer section must fit it: the code's own limits). -/
inductive OWire (cap : Nat) (o : OHead) (cc : Bool) :
    (body : Bytes) → (trailers : List WField) → (after rest : Bytes) → Option Framing → Prop
  /-- `Content-Length: n` (any spelling the reader parses), then the `n > 0` body bytes -/
  | length (clv body rest : Bytes) (hF : OriginFraming o cc false vChunked (some (clv, body.length)) none)
      (hne : body ≠ []) :
      OWire cap o cc body [] (body ++ rest) rest (some (.length body.length))
  /-- `Content-Length: 0` -/
  | empty (clv rest : Bytes) (hF : OriginFraming o cc false vChunked (some (clv, 0)) none) :
      OWire cap o cc [] [] rest rest none
  /-- `Transfer-Encoding: chunked` (any case), optional `Trailer` announcement; the body in ANY
  split into chunks with any size-line spelling the reader's parser accepts, any last-chunk line,
  the trailer section -/
  | chunked (te : Bytes) (tr : Option Bytes) (cs : List WChunk) (last : Bytes) (trailers : List WField)
      (rest : Bytes) (hF : OriginFraming o cc true te none tr)
      (hkeys : ∀ tv, tr = some tv → (declKeys tv).any badTrailerKey = false)
      (hcap : 2 ≤ cap) (hcs : ∀ c ∈ cs, c.OK cap) (hl : LastOK cap last) (hts : ∀ f ∈ trailers, f.OK)
      (hfit : (blockWire trailers).length ≤ cap) :
      OWire cap o cc (dataOf cs) trailers (wireFrom cs last (trailerSection trailers ++ rest)) rest (some .chunked)
  /-- neither length nor coding: the body ends when the origin closes the connection -/
  | close (body : Bytes) (hF : OriginFraming o cc false vChunked none none) :
      OWire cap o cc body [] body [] (some .close)

/-- **h1_response_roundtrip.** For EVERY origin message — status, reason, field lines in any
order and spelling, 0..5 interim responses before it — and EVERY framing the origin may choose
(`OWire`: declared length, chunked with any chunk split / size-line spelling / trailer section,
close-delimited), followed by whatever comes next on the connection:

* the head reader (`persistConn.readResponse`, C04's byte-exact model) returns the origin's
  status, under every ordinary field name exactly the origin's values in wire order, and consumes
  exactly the heads;
* `readTransfer` installs exactly the body reader the origin's framing calls for;
* through it, from ANY state of the connection's `bufio.Reader` consistent with the heads having
  been consumed (any buffered prefix, any segmentation of what follows), for EVERY sequence of
  caller read sizes: the bytes handed out are a prefix of the body; an error is only ever
  `io.EOF`, and then the caller got EXACTLY the body, `Response.Trailer` got EXACTLY the trailer
  fields, and the connection reader stands EXACTLY at `rest`; positive read sizes and enough
  reads do end. -/
theorem h1_response_roundtrip (is : List OHead) (his : ∀ i ∈ is, i.Interim) (hn : is.length ≤ 5)
    (o : OHead) (ho : o.OK) (hfc : FinalCode o.code) (hba : Req.H1.bodyAllowedForStatus o.code = true)
    (cc : Bool) (cap : Nat) (body : Bytes) (trailers : List WField) (after rest : Bytes) (f? : Option Framing)
    (hW : OWire cap o cc body trailers after rest f?) :
    ∃ msg, Req.H1.parseFinalHead 6 false (interimsWire is ++ (o.wire ++ after)) = some (msg, after) ∧
      msg.sl.code = o.code ∧
      (∀ k, OrdinaryKey k → msg.header.get k =
        if valuesOf k (fieldsOf o.fs) = [] then none else some (valuesOf k (fieldsOf o.fs))) ∧
      framingOfH1 msg.framing = f? ∧
      (match f? with
       | none => body = [] ∧ after = rest
       | some f =>
         ∀ br : Bufio, br.rem = after → br.WF → br.Fits → br.cap = cap → (f = .close → br.net.fin = .eof) →
           BodyExact (H1Body.new f br) body (trailerGot trailers) rest) := by
  cases hW with
  | length clv body rest hF hne =>
    obtain ⟨msg, h1, h2, h3, _, h5⟩ := h1_response_roundtrip_length is his hn o ho hfc hba cc clv _ hF _
    obtain ⟨hfr, hbody⟩ := h5 hne
    refine ⟨msg, h1, h2, h3, by rw [hfr]; rfl, ?_⟩
    intro br hrem hw _ _ _
    exact hbody br hrem hw
  | empty clv rest hF =>
    obtain ⟨msg, h1, h2, h3, h4, _⟩ := h1_response_roundtrip_length is his hn o ho hfc hba cc clv [] hF after
    refine ⟨msg, by simpa using h1, h2, h3, by rw [h4 rfl]; rfl, rfl, rfl⟩
  | chunked te tr cs last trailers rest hF hkeys hcap hcs hl hts hfit =>
    obtain ⟨msg, h1, h2, h3, _, h5, h6⟩ :=
      h1_response_roundtrip_chunked is his hn o ho hfc hba cc te tr hF hkeys cap hcap cs hcs last hl _ hts
        hfit _
    refine ⟨msg, h1, h2, h3, by rw [h5]; rfl, ?_⟩
    intro br hrem hw hf hc _
    exact h6 br hrem hw hf hc
  | close body hF =>
    obtain ⟨msg, h1, h2, h3, h4, h5⟩ := h1_response_roundtrip_close is his hn o ho hfc hba cc hF _
    refine ⟨msg, h1, h2, h3, by rw [h4]; rfl, ?_⟩
    intro br hrem hw _ _ hfin
    exact h5 br hrem hw (hfin rfl)

/-! Non-vacuity: the two example messages of `C02Msg` as `OWire` instances. -/
example : OWire 4096 exHead false [104, 101, 108, 108, 111] [] ([104, 101, 108, 108, 111] ++ [78]) [78]
    (some (.length 5)) :=
  OWire.length [53] [104, 101, 108, 108, 111] [78] exHead_framing (by simp)

example :
    OWire 4096 exHeadChunked false
      (dataOf [⟨[51, 59, 120, 61, 121, 13], [104, 101, 108]⟩, ⟨[48, 48, 50, 13], [108, 111]⟩])
      [⟨[120, 45, 116], [32], [118], []⟩]
      (wireFrom [⟨[51, 59, 120, 61, 121, 13], [104, 101, 108]⟩, ⟨[48, 48, 50, 13], [108, 111]⟩] [48, 13]
        (trailerSection [⟨[120, 45, 116], [32], [118], []⟩] ++ [78]))
      [78] (some .chunked) := by
  refine OWire.chunked _ _ _ _ _ _ exHeadChunked_framing ?_ (by omega) ?_ ⟨by decide, by rfl, by decide, by decide⟩
    ?_ (by decide)
  · intro tv htv; simp only [Option.some.injEq] at htv; subst htv; decide
  · intro c hc
    simp only [List.mem_cons, List.mem_nil_iff, or_false] at hc
    rcases hc with rfl | rfl
    · exact ⟨by decide, by decide, by rfl, by decide, by decide⟩
    · exact ⟨by decide, by decide, by rfl, by decide, by decide⟩
  · intro f hf; simp only [List.mem_singleton] at hf; subst hf; exact wfield_ok_of_bool _ (by decide)

end Req.Props.C02
