import Req.Props.C13H1
/-!
C13, round 7: requests WITH a header order (`Request.SetHeaderOrder`, `Client.SetCommonHeaderOrder`,
an impersonation profile: `r.Header["__header_order__"]`). `writeRequest` then collects the field
lines, sorts them (`header.SortKeyValues`) and writes them in a second pass. That pass has to go
through the request-header dump wrappers like the direct one (seed C13-r7-3 sent it to the raw
writer: wire unchanged, dump = request line + blank line only).
-/
namespace Req.Props.C13R7
open Req.Proto Req.H1 Req.H1.DumpWrite

/-- the field list of a request with a header order: everything collected, sorted by the list. -/
def orderedFields (r : WReq) (host : Bytes) (f : Framing) : Hdr :=
  let ua := if (hdrGet? r.header sUserAgent).isSome then hdrFirst r.header sUserAgent
            else defaultUserAgent
  HeaderSort.sortKeyValues
    ([⟨sHost, [host]⟩]
      ++ (if ua.isEmpty then [] else [⟨sUserAgent, [ua]⟩])
      ++ framingFields r f
      ++ writeSubset r.header reqWriteExcludeHeader true
      ++ writeSubset r.extra [] true)
    (orderList r.header)

theorem h1Fields_ordered (r : WReq) (host : Bytes) (f : Framing)
    (ho : (orderList r.header).isEmpty = false) :
    h1Fields r host f = orderedFields r host f := by
  simp [h1Fields, orderedFields, ho]

/-- **ordered head: dump = wire.** For every request with a non-empty header order, every buffer
size, body segmentation and dump mode: a dumper with `RequestHeader()` holds the request line,
EVERY sorted field line and the blank line — byte for byte the head on the wire. -/
theorem dump_equals_wire_h1_ordered (B : Nat) (r : WReq) (md : Mode) (pieces : List Bytes) (st : St)
    (ho : (orderList r.header).isEmpty = false)
    (hbf : md.bodyFails = false) (hd : md.hdrDump = true)
    (h : writeRequest B none r md pieces = .ok st) :
    ∃ host f, wireHost r = .ok host ∧ framing r = .ok f ∧
      let head := requestLine r (requestTarget r host) ++ renderFields (orderedFields r host f) ++ crlf
      st.dumpH = head ∧ st.w.flush.wire = head ++ bodyWire f pieces := by
  obtain ⟨host, f, hh, hf, hw, _, hdh, _⟩ := Req.Props.C13H1.dump_equals_wire_h1 B r md pieces st hbf h
  refine ⟨host, f, hh, hf, ?_⟩
  simp only [hd, if_true, headBytes, h1Fields_ordered r host f ho] at hdh hw
  exact ⟨hdh, hw⟩

/-- the write program of seed C13-r7-3: request line and blank line through the header wrappers,
the sorted field lines as ONE write to the raw writer. -/
def headOpsRawBlock (t : Tag) (line : Bytes) (fields : Hdr) : List Op :=
  [.write line t, .write (renderFields fields) .raw, .write crlf t]

/-- an ordered request: `GET h://h/a`, `X-A: v`, order `[X-A]`. -/
def exOrdered : WReq :=
  { method := [71, 69, 84], url := { scheme := [104], host := [104], path := [47, 97] },
    header := [⟨[88, 45, 65], [[118]]⟩, ⟨headerOrderKey, [[88, 45, 65]]⟩] }

/-- The seeded variant is NOT faithful: same wire, but the header dump is the request line and the
blank line only (18 bytes instead of the whole head). -/
theorem raw_block_not_faithful :
    let fields := orderedFields exOrdered [104] ⟨false, false, 0⟩
    let line := requestLine exOrdered [47, 97]
    let good := run 4096 (St.init none) (headOps .hdr line fields)
    let bad := run 4096 (St.init none) (headOpsRawBlock .hdr line fields)
    good.w.flush.wire = bad.w.flush.wire ∧ good.dumpH = good.w.flush.wire ∧
      bad.dumpH = line ++ crlf ∧ bad.dumpH ≠ bad.w.flush.wire := by
  decide

end Req.Props.C13R7
