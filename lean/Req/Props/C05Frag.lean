import Req.Lemmas.C05Frag
import Req.Props.C05
/-!
C05 — every writer entry point the client uses is read back: `ClientConn.writeHeaders`, the one
composite writer (a header block cut into HEADERS + CONTINUATION frames at the peer's
SETTINGS_MAX_FRAME_SIZE), on top of the per-frame `*_parse_write` theorems of `Req.Props.C05`.

* `header_block_fragmentation` — shape of the cut, for every block and every frame size ≥ 1
* `header_block_reassembled`   — the frame reader returns exactly these frames, in order, and the
                                  fragments it hands to the header decoder concatenate to the block
* `header_block_empty`, `header_block_priority_too_small` — the two corner cases of the Go loop

The lane `h2emit` runs the real `cc.writeHeaders` on the blocks of the real `encodeHeaders` at frame
sizes 1, 2, 5, 6, around the block length and 16384, compares the bytes with `writeBlock` and reads
them back with x/net's `Framer.ReadFrame` and `ReadMetaHeaders`.
-/
namespace Req.Props.C05
open Req.Proto Req.H2.Frame Req.Lemmas.C05.Frag

/-- **header_block_fragmentation**: for EVERY non-empty header block and EVERY maximum frame size
≥ 1 (≥ 5 when the transport sends a HEADERS priority, whose 5 octets the fork counts against the
peer's limit) `writeHeaders` produces frames such that
* the fragments concatenate to the block (nothing lost, duplicated or reordered),
* only the first frame is a HEADERS frame, all others are CONTINUATION frames,
* only the last frame carries END_HEADERS,
* every frame's payload (fragment, plus the 5 priority octets on the HEADERS frame) fits the
  maximum frame size,
* no CONTINUATION frame is empty (the loop makes progress: at most `block.length` of them). -/
theorem header_block_fragmentation (prio : Priority) (maxFrame : Nat) (block : Bytes)
    (hb : block ≠ []) (hm : 1 ≤ maxFrame) (hp : prio.isZero = false → 5 ≤ maxFrame) :
    ∃ fr, fragments prio maxFrame block = .ok fr ∧
      (fr.map (·.chunk)).flatten = block ∧
      fr.map (·.isHeaders) = true :: List.replicate (fr.length - 1) false ∧
      fr.map (·.endHeaders) = List.replicate (fr.length - 1) false ++ [true] ∧
      (∀ f ∈ fr, f.chunk.length + (if f.isHeaders && !prio.isZero then 5 else 0) ≤ maxFrame) ∧
      (∀ f ∈ fr, f.isHeaders = false → f.chunk ≠ []) :=
  fragmentation prio maxFrame block hb hm hp

/-- a 10-byte block at frame size 4: HEADERS(4) CONTINUATION(4) CONTINUATION(2, END_HEADERS) … -/
example : fragments Priority.zero 4 [1, 2, 3, 4, 5, 6, 7, 8, 9, 10] =
    .ok [⟨true, false, [1, 2, 3, 4]⟩, ⟨false, false, [5, 6, 7, 8]⟩, ⟨false, true, [9, 10]⟩] := by decide
/-- … with a priority at frame size 5 the HEADERS frame has room for the priority octets only … -/
example : fragments ⟨3, false, 7⟩ 5 [1, 2, 3, 4, 5, 6] =
    .ok [⟨true, false, []⟩, ⟨false, false, [1, 2, 3, 4, 5]⟩, ⟨false, true, [6]⟩] := by decide
/-- … and a block that fits goes out as one HEADERS frame with END_HEADERS. -/
example : fragments Priority.zero 16384 [1, 2, 3] = .ok [⟨true, true, [1, 2, 3]⟩] := by decide

/-- an empty block writes nothing at all (not even an empty HEADERS frame). -/
theorem header_block_empty (sid : Nat) (es : Bool) (prio : Priority) (maxFrame : Nat) :
    writeBlock sid es prio maxFrame [] = .ok [] := by
  simp [writeBlock, fragments]

/-- with a HEADERS priority and a frame size below 5 the Go slice expression has a negative
bound (run-time panic); unreachable through SETTINGS, whose minimum is 16384. -/
theorem header_block_priority_too_small (sid : Nat) (es : Bool) (prio : Priority) (maxFrame : Nat)
    (block : Bytes) (hb : block ≠ []) (hz : prio.isZero = false) (hm : maxFrame < 5) :
    writeBlock sid es prio maxFrame block = .error .sliceBounds := by
  have : block.isEmpty = false := by cases block <;> simp_all
  simp [writeBlock, fragments, this, hz, hm]

/-- **header_block_reassembled** (wire level): the bytes `writeHeaders` puts on the connection are
returned by `ReadFrame` as exactly the frames of `header_block_fragmentation`, in order — the
HEADERS frame with END_STREAM as requested, the priority, and END_HEADERS only on the last frame —
by every reader that is outside a header block and accepts frames of the maximum size; the reader
ends outside the block again (`readAll` continues on `rest` from the same state), and the
fragments of the returned frames — what `readMetaFrame` feeds to the HPACK decoder — concatenate to
exactly the block. Frame sizes up to 2^24 − 7 (the per-frame theorem `headers_parse_write` reserves
room for the pad-length and priority octets). -/
theorem header_block_reassembled (sid : Nat) (es : Bool) (prio : Priority) (maxFrame : Nat)
    (block : Bytes) (hs : ValidSid sid) (hpr : WfPriority prio) (hb : block ≠ []) (hm : 1 ≤ maxFrame)
    (hp : prio.isZero = false → 5 ≤ maxFrame) (hsz : maxFrame + 6 < two24)
    (r : Reader) (hr : Ready r maxFrame 0) (rest : Bytes) (k : Nat) :
    ∃ fr out, fragments prio maxFrame block = .ok fr ∧
      writeBlock sid es prio maxFrame block = .ok out ∧
      readAll (fr.length + k) r (out ++ rest) =
        fr.map (fun f => Except.ok (fragFrame sid es prio f)) ++ readAll k r rest ∧
      ((fr.map (fragFrame sid es prio)).map Frame.fragment).flatten = block := by
  obtain ⟨fr, out, h1, h2, h3⟩ := block_read sid es prio maxFrame block hs hpr hb hm hp hsz r hr rest k
  refine ⟨fr, out, h1, h2, h3, ?_⟩
  obtain ⟨fr', h1', hcat, _⟩ := fragmentation prio maxFrame block hb hm hp
  rw [h1] at h1'; cases h1'
  have : (fr.map (fragFrame sid es prio)).map Frame.fragment = fr.map (·.chunk) := by
    simp only [List.map_map]
    apply List.map_congr_left
    intro f _
    simp only [Function.comp, fragFrame]
    split <;> rfl
  rw [this, hcat]

example : (writeBlock 1 true Priority.zero 2 [7, 8, 9]).toOption =
    some [0, 0, 2, 1, 1, 0, 0, 0, 1, 7, 8,   0, 0, 1, 9, 4, 0, 0, 0, 1, 9] := by decide
example : readAll 3 { maxReadSize := 16384 }
    [0, 0, 2, 1, 1, 0, 0, 0, 1, 7, 8,   0, 0, 1, 9, 4, 0, 0, 0, 1, 9] =
    [.ok (.headers ⟨2, 1, 1, 1⟩ Priority.zero [7, 8]), .ok (.continuation ⟨1, 9, 4, 1⟩ [9]), .error .eof] := by
  decide

end Req.Props.C05
