import Req.Props.C04
/-!
C04, round 6 — case-insensitive token comparison is ASCII folding, nothing more.

Every token the response reader compares case-insensitively (`chunked` in `parseTransferEncoding`,
`close` / `keep-alive` / `upgrade` through `HeaderValuesContainsToken`) is compared with
`internal/ascii.EqualFold` (model: `Req.Ascii.equalFold`, `lower a == lower b`; the Go function is
translated on every run and proved equal to the model in `Bridge.PureAscii.equalFold_bridge`).
The theorems below state what that excludes, for ALL byte strings: a value that contains a byte
≥ 0x80 never equals an ASCII token — so no UTF-8 encoded look-alike (U+212A KELVIN SIGN for `k`,
U+017F LONG S for `s`, U+0130 / U+0131 for `i`, fullwidth letters) can be read as `chunked`,
`close`, `keep-alive` — and the accepted spellings of a token are exactly its 2^n ASCII case
variants, byte for byte.  (Seed C04-r6-1 compared with `strings.EqualFold`: the theorem
`te_chunked_only_ascii` is false for that reader, witness `chunKed`.)
Numbers (Content-Length, status code, version, chunk size) are covered by `Req.Props.C04Digits`
(`parseDigits_accepts_iff`, `parseHexUint_accepts_iff`: only the ASCII digit bytes).
-/
namespace Req.Props.C04Fold
open Req.Proto Req.H1 Req.Ascii

/-- ASCII lower-casing maps bytes ≥ 0x80 to themselves and bytes < 0x80 to bytes < 0x80
(all 256 values). -/
theorem toLower_ascii_iff (c : UInt8) : toLower c < 128 ↔ c < 128 := by
  have h : ∀ n, n < 256 → (toLower (UInt8.ofNat n) < 128 ↔ UInt8.ofNat n < 128) := by decide +kernel
  simpa using h c.toNat (UInt8.toNat_lt c)

theorem toLower_high (c : UInt8) (h : ¬ c < 128) : toLower c = c := by
  have hall : ∀ n, n < 256 → ¬ UInt8.ofNat n < 128 → toLower (UInt8.ofNat n) = UInt8.ofNat n := by
    decide +kernel
  have := hall c.toNat (UInt8.toNat_lt c)
  simp only [UInt8.ofNat_toNat] at this
  exact this h

/-- What `toLower a = b` means, byte for byte: the same byte (not an upper-case letter), or `a`
is the upper-case letter 32 below `b`. -/
theorem toLower_eq_iff (a b : UInt8) :
    toLower a = b ↔ (isUpper a = false ∧ a = b) ∨ (isUpper a = true ∧ a + 32 = b) := by
  unfold toLower
  cases h : isUpper a <;> simp

/-- `lower v = t` with `t` all-ASCII forces `v` all-ASCII. -/
theorem lower_eq_ascii : ∀ (v t : Bytes), lower v = t → (∀ b ∈ t, b < 128) → ∀ b ∈ v, b < 128
  | [], _, _, _ => by simp
  | c :: cs, t, h, ht => by
    cases t with
    | nil => simp [lower] at h
    | cons d ds =>
      simp only [lower, List.map_cons, List.cons.injEq] at h
      intro b hb
      rcases List.mem_cons.mp hb with rfl | hb
      · have : toLower b < 128 := by rw [h.1]; exact ht d (by simp)
        exact (toLower_ascii_iff b).mp this
      · exact lower_eq_ascii cs ds h.2 (fun x hx => ht x (by simp [hx])) b hb

/-- **equalFold_ascii_closed.** ∀ byte strings: `ascii.EqualFold(s, t)` with `t` pure ASCII ⇒ `s`
pure ASCII (and of the same length).  No multi-byte look-alike folds onto an ASCII token. -/
theorem equalFold_ascii_closed (s t : Bytes) (h : equalFold s t = true) (ht : ∀ b ∈ t, b < 128) :
    (∀ b ∈ s, b < 128) ∧ s.length = t.length := by
  unfold equalFold at h
  have he : lower s = lower t := by simpa using h
  constructor
  · apply lower_eq_ascii s (lower t) he
    intro b hb
    simp only [lower, List.mem_map] at hb
    obtain ⟨a, ha, rfl⟩ := hb
    exact (toLower_ascii_iff a).mpr (ht a ha)
  · have := congrArg List.length he
    simpa [lower] using this

/-- A byte string with a byte ≥ 0x80 is never case-insensitively equal to an ASCII token. -/
theorem non_ascii_never_folds (s t : Bytes) (hs : ∃ b ∈ s, ¬ b < 128) (ht : ∀ b ∈ t, b < 128) :
    equalFold s t = false := by
  cases h : equalFold s t with
  | false => rfl
  | true =>
    obtain ⟨b, hb, hn⟩ := hs
    exact absurd ((equalFold_ascii_closed s t h ht).1 b hb) hn

theorem lower_chunked : lower vChunked = vChunked := by decide
theorem chunked_ascii : ∀ b ∈ vChunked, b < 128 := by decide
theorem close_ascii : ∀ b ∈ vClose, b < 128 := by decide
theorem keepAlive_ascii : ∀ b ∈ vKeepAlive, b < 128 := by decide

/-- The model's Transfer-Encoding comparison IS `ascii.EqualFold(v, "chunked")`. -/
theorem te_compare_is_equalFold (v : Bytes) : (lower v == vChunked) = equalFold v vChunked := by
  unfold equalFold; rw [lower_chunked]

/-- Spelled out: the accepted spellings are the 2^7 ASCII case variants of `chunked`. -/
def caseVariantOf : Bytes → Bytes → Bool
  | [], [] => true
  | a :: as, b :: bs => (a == b || (isUpper a && a + 32 == b)) && caseVariantOf as bs
  | _, _ => false

theorem lower_eq_iff_caseVariant : ∀ (v t : Bytes), (∀ b ∈ t, isUpper b = false) →
    (lower v = t ↔ caseVariantOf v t = true)
  | [], [], _ => by simp [lower, caseVariantOf]
  | [], _ :: _, _ => by simp [lower, caseVariantOf]
  | _ :: _, [], _ => by simp [lower, caseVariantOf]
  | a :: as, b :: bs, ht => by
    have ih := lower_eq_iff_caseVariant as bs (fun x hx => ht x (by simp [hx]))
    have hb : isUpper b = false := ht b (by simp)
    simp only [lower, List.map_cons, List.cons.injEq, caseVariantOf, Bool.and_eq_true,
      Bool.or_eq_true, beq_iff_eq]
    simp only [lower] at ih
    rw [ih, toLower_eq_iff]
    constructor
    · rintro ⟨h | h, h2⟩
      · exact ⟨Or.inl h.2, h2⟩
      · exact ⟨Or.inr h, h2⟩
    · rintro ⟨h | h, h2⟩
      · subst h; exact ⟨Or.inl ⟨hb, rfl⟩, h2⟩
      · exact ⟨Or.inr h, h2⟩

/-- **te_chunked_only_ascii.** ∀ versions, header maps: when `parseTransferEncoding` reports a
chunked body, the header had exactly ONE Transfer-Encoding value, it is 7 bytes long, pure ASCII,
and byte for byte a case variant of `chunked`. -/
theorem te_chunked_only_ascii {major minor : Nat} {h r : HeaderMap}
    (hp : parseTransferEncoding major minor h = some (true, r)) :
    ∃ v, HeaderMap.get h kTransferEncoding = some [v] ∧ v.length = 7 ∧ (∀ b ∈ v, b < 128) ∧
      caseVariantOf v vChunked = true := by
  unfold parseTransferEncoding at hp
  cases hg : HeaderMap.get h kTransferEncoding with
  | none => simp [hg] at hp
  | some raw =>
    simp only [hg] at hp
    split at hp
    · simp at hp
    · match raw, hp with
      | [v], hp =>
        by_cases hv : lower v = vChunked
        · refine ⟨v, rfl, ?_, lower_eq_ascii v vChunked hv chunked_ascii, ?_⟩
          · have := congrArg List.length hv; simpa [lower, vChunked] using this
          · exact (lower_eq_iff_caseVariant v vChunked (by decide)).mp hv
        · have : (lower v == vChunked) = false := by simpa using hv
          simp [this] at hp
      | [], hp => simp at hp
      | _ :: _ :: _, hp => simp at hp

/-- **reject_te_non_ascii.** On HTTP/1.1 and later a Transfer-Encoding value containing any byte
≥ 0x80 is an unsupported transfer coding — whatever the other bytes are (`chunKed`,
`chunKed` in fullwidth, …). -/
theorem reject_te_non_ascii {major minor : Nat} {h : HeaderMap} {v : Bytes}
    (hget : HeaderMap.get h kTransferEncoding = some [v]) (hv : major > 1 ∨ (major = 1 ∧ minor ≥ 1))
    (hb : ∃ b ∈ v, ¬ b < 128) : parseTransferEncoding major minor h = none := by
  apply Req.Props.C04.reject_te_unsupported hget hv
  intro hl
  obtain ⟨b, hbv, hn⟩ := hb
  exact hn (lower_eq_ascii v vChunked hl chunked_ascii b hbv)

/-- A list element (between commas, blanks trimmed) with a byte ≥ 0x80 never is the token. -/
theorem element_non_ascii_no_match (p tok : Bytes) (ht : ∀ b ∈ tok, b < 128)
    (hb : ∃ b ∈ trimOWS p, ¬ b < 128) : (lower (trimOWS p) == tok) = false := by
  cases h : lower (trimOWS p) == tok with
  | false => rfl
  | true =>
    obtain ⟨b, hbp, hn⟩ := hb
    exact absurd (lower_eq_ascii _ tok (by simpa using h) ht b hbp) hn

/-- **token_match_only_ascii.** ∀ value lists and ASCII tokens: when `HeaderValuesContainsToken`
finds the token, the element it found is pure ASCII and a case variant of the token. -/
theorem token_match_only_ascii (vs : List Bytes) (tok : Bytes) (ht : ∀ b ∈ tok, b < 128)
    (h : valuesContainToken vs tok = true) :
    ∃ v ∈ vs, ∃ p ∈ splitOnByte 44 v, (∀ b ∈ trimOWS p, b < 128) ∧ lower (trimOWS p) = tok := by
  unfold valuesContainToken at h
  simp only [List.any_eq_true] at h
  obtain ⟨v, hv, p, hp, hm⟩ := h
  have hm' : lower (trimOWS p) = tok := by simpa using hm
  exact ⟨v, hv, p, hp, lower_eq_ascii _ tok hm' ht, hm'⟩

/-- When every element of every Connection value carries a byte ≥ 0x80, no ASCII token is found. -/
theorem no_token_in_non_ascii_values (vs : List Bytes) (tok : Bytes) (ht : ∀ b ∈ tok, b < 128)
    (hall : ∀ v ∈ vs, ∀ p ∈ splitOnByte 44 v, ∃ b ∈ trimOWS p, ¬ b < 128) :
    valuesContainToken vs tok = false := by
  cases h : valuesContainToken vs tok with
  | false => rfl
  | true =>
    obtain ⟨v, hv, p, hp, hasc, _⟩ := token_match_only_ascii vs tok ht h
    obtain ⟨b, hb, hn⟩ := hall v hv p hp
    exact absurd (hasc b hb) hn

/-! ### non-vacuity / the seed's inputs, decided -/

/-- `chunKed`, K = U+212A (E2 84 AA) -/
def vChunKed : Bytes := [99,104,117,110,0xE2,0x84,0xAA,101,100]
/-- `cloſe`, ſ = U+017F (C5 BF) -/
def vCloLongSe : Bytes := [99,108,111,0xC5,0xBF,101]
/-- `Keep-alive`, K = U+212A -/
def vKelvinKeepAlive : Bytes := [0xE2,0x84,0xAA,101,101,112,45,97,108,105,118,101]

example : parseTransferEncoding 1 1 [(kTransferEncoding, [vChunKed])] = none := by decide
example : parseTransferEncoding 1 1 [(kTransferEncoding, [[67,72,85,78,75,69,68]])] = some (true, []) := by decide
example : parseTransferEncoding 1 1 [(kTransferEncoding, [vChunKed])] = none :=
  reject_te_non_ascii (v := vChunKed) rfl (Or.inr ⟨rfl, by decide⟩) ⟨0xE2, by decide, by decide⟩
example : ∃ v, HeaderMap.get [(kTransferEncoding, [[67,104,85,110,75,101,68]])] kTransferEncoding = some [v] ∧
    v.length = 7 ∧ (∀ b ∈ v, b < 128) ∧ caseVariantOf v vChunked = true :=
  te_chunked_only_ascii (major := 1) (minor := 1) (r := []) (by decide)
example : equalFold vChunKed vChunked = false ∧ equalFold [67,72,85,78,75,69,68] vChunked = true := by decide
example : (shouldClose 1 1 [(kConnection, [vCloLongSe])]).1 = false ∧
    (shouldClose 1 1 [(kConnection, [[67,76,79,83,69]])]).1 = true := by decide
example : (shouldClose 1 0 [(kConnection, [vKelvinKeepAlive])]).1 = true ∧
    (shouldClose 1 0 [(kConnection, [[75,101,101,112,45,97,108,105,118,101]])]).1 = false := by decide
example : valuesContainToken [vCloLongSe] vClose = false :=
  no_token_in_non_ascii_values _ _ close_ascii (by decide)

end Req.Props.C04Fold
