import Req.Client.SharedScratch
import Req.Client.OrderScope
/-!
C16, round 6.

1. Requests written CONCURRENTLY through a shared scratch object (HTTP/1.1: the pooled
   `headerSorter` of `headerSortedKeyValues`; HTTP/3: `requestWriter.headerBuf` under the writer's
   mutex): for EVERY schedule of the writers' steps, every writer hands to its own connection a
   prefix of its own header block, the whole block once it is done — never an item of another
   request (`scratch_own_prefix`, `scratch_own_output`, `scratch_schedule_irrelevant`), for a pool
   (`cap = none`) and for a mutex around one buffer (`cap = some 1`) alike, two writers never hold
   the same object (`scratch_exclusive`), and in pool mode a writer that gets its steps does finish
   (`scratch_pool_progress`). The discipline "give the object back before
   reading it" (seeds C16-r6-1 / C16-r6-2) is refuted by a two-writer schedule
   (`early_release_foreign_items`).
2. Client-level order settings over op sequences with `Client.Clone`: the order lists a client sends
   with are a function of its OWN history (`order_follows_own_client`), no call on another client
   changes them (`order_unaffected_by_other_clients`), a copy starts with what its source had
   (`clone_copies`) and goes its own way afterwards (`clone_then_diverge`); the first call on a
   client wins and replaces a request-level list (`effective_first_call`).
-/
namespace Req.Props.C16Round6
open Req.Proto

section scratch
open Req.SharedScratch
variable {α : Type}

/-- ∀ schedules: what a writer has put on its own connection so far is a prefix of ITS request. -/
theorem scratch_own_prefix (cap : Option Nat) (reqs : Nat → List α) (sched : List Nat) (i : Nat) :
    ∃ k, (run true cap reqs init sched).out i = (reqs i).take k := by
  have h := inv_run cap reqs sched init (inv_init reqs)
  cases hp : (run true cap reqs init sched).phase i with
  | idle => exact ⟨0, by simp [h.idle i hp]⟩
  | holding id pos => exact ⟨pos, (h.held i id pos hp).2.2.2⟩
  | done => exact ⟨(reqs i).length, by simp [h.done i hp]⟩

/-- ∀ schedules: a writer that is done has written exactly its own request. -/
theorem scratch_own_output (cap : Option Nat) (reqs : Nat → List α) (sched : List Nat) (i : Nat)
    (hd : (run true cap reqs init sched).phase i = .done) :
    (run true cap reqs init sched).out i = reqs i :=
  (inv_run cap reqs sched init (inv_init reqs)).done i hd

/-- the interleaving is invisible on the wire: two schedules that both let writer `i` finish give
the same bytes on its connection — in particular the schedule in which it runs alone. -/
theorem scratch_schedule_irrelevant (cap cap' : Option Nat) (reqs : Nat → List α) (s1 s2 : List Nat) (i : Nat)
    (h1 : (run true cap reqs init s1).phase i = .done)
    (h2 : (run true cap' reqs init s2).phase i = .done) :
    (run true cap reqs init s1).out i = (run true cap' reqs init s2).out i := by
  rw [scratch_own_output cap reqs s1 i h1, scratch_own_output cap' reqs s2 i h2]

/-- the scratch objects in use are pairwise different: two writers never hold the same one. -/
theorem scratch_exclusive (cap : Option Nat) (reqs : Nat → List α) (sched : List Nat) (i j id p q : Nat)
    (hi : (run true cap reqs init sched).phase i = .holding id p)
    (hj : (run true cap reqs init sched).phase j = .holding id q) : i = j :=
  (inv_run cap reqs sched init (inv_init reqs)).excl i j id p q hi hj

/-- pool mode (HTTP/1.1 sorter pool — nobody ever waits for a scratch object): a writer that is
given `length + 2` steps, wherever they fall in the schedule, is done — and by `scratch_own_output`
has then written exactly its own request. -/
theorem scratch_pool_progress (reqs : Nat → List α) (sched : List Nat) (i : Nat)
    (h : (reqs i).length + 2 ≤ sched.count i) :
    (run true none reqs init sched).phase i = .done ∧ (run true none reqs init sched).out i = reqs i := by
  have hd : (run true none reqs init sched).phase i = .done := by
    apply done_of_remaining_zero reqs
    rw [remaining_run]
    have : remaining reqs (init : State α) i = (reqs i).length + 2 := by simp [remaining, init]
    omega
  exact ⟨hd, scratch_own_output none reqs sched i hd⟩

example : (run true none (fun i => [10 * i, 10 * i + 1, 10 * i + 2]) init
    [0, 0, 1, 1, 1, 1, 1, 0, 0, 0]).out 0 = [0, 1, 2] := by decide
example : (run true none (fun i => [10 * i, 10 * i + 1, 10 * i + 2]) init
    [0, 0, 1, 1, 1, 1, 1, 0, 0, 0]).phase 0 = .done := by decide
example : (run true (some 1) (fun i => [10 * i, 10 * i + 1]) init
    [0, 1, 0, 1, 0, 0, 1, 1, 1, 1]).out 1 = [10, 11] := by decide

/-- The discipline of the seeded changes (object given back right after filling, read later):
writer 0 is parked after its first item, writer 1 runs meanwhile, writer 0 finishes with the
items of writer 1. -/
theorem early_release_foreign_items :
    (run false none (fun i => [10 * i, 10 * i + 1, 10 * i + 2]) init
      [0, 0, 1, 1, 1, 1, 1, 0, 0, 0]).out 0 = [0, 11, 12] := by decide

end scratch

section order
open Req.OrderScope

/-- ∀ op sequences (setter calls on any client, copies of any client in any order): the state a
client sends with is the replay of its OWN history — the calls made on it and, through `Clone`,
those its source had received at the moment of the copy. -/
theorem order_follows_own_client (ops : List Op) (c : Nat) :
    run fresh ops c = replay (history ops c) := by
  have := run_eq_replay_rev ops.reverse c
  rw [List.reverse_reverse] at this
  exact this

/-- no call on ANOTHER client — a later `SetCommonHeaderOrder` / `Impersonate*` on the original, on a
sibling, a further `Clone` of it — changes what client `c` sends with. -/
theorem order_unaffected_by_other_clients (st : Store) (ops1 ops2 : List Op) (c : Nat)
    (h : ∀ o ∈ ops2, touches o c = false) :
    run st (ops1 ++ ops2) c = run st ops1 c := by
  induction ops2 generalizing ops1 with
  | nil => simp
  | cons o t ih =>
    have ho : touches o c = false := h o (by simp)
    have ht : ∀ o ∈ t, touches o c = false := fun o' ho' => h o' (by simp [ho'])
    have e : ops1 ++ o :: t = (ops1 ++ [o]) ++ t := by simp
    rw [e, ih (ops1 ++ [o]) ht, run_snoc]
    cases o with
    | setOrder c' l' =>
      have : c ≠ c' := by intro e; simp [touches, e] at ho
      simp [apply, this]
    | setPseudo c' l' =>
      have : c ≠ c' := by intro e; simp [touches, e] at ho
      simp [apply, this]
    | clone s d =>
      have : c ≠ d := by intro e; simp [touches, e] at ho
      simp [apply, this]

/-- a copy starts with exactly what its source has. -/
theorem clone_copies (st : Store) (ops : List Op) (s d : Nat) :
    run st (ops ++ [.clone s d]) d = run st ops s := by
  simp [run_snoc, apply]

/-- clone, then re-configure the ORIGINAL (and anybody else) in any way: the copy still sends with
what the original had when it was copied; and the other way round: re-configuring the copy leaves
the original alone. -/
theorem clone_then_diverge (st : Store) (ops later : List Op) (s d : Nat) (hsd : s ≠ d)
    (hd : ∀ o ∈ later, touches o d = false) (hs : ∀ o ∈ later, touches o s = false) :
    run st (ops ++ [.clone s d] ++ later) d = run st ops s ∧
    run st (ops ++ [.clone s d] ++ later) s = run st ops s := by
  constructor
  · rw [order_unaffected_by_other_clients st _ later d hd, clone_copies]
  · rw [order_unaffected_by_other_clients st _ later s hs, run_snoc]
    simp [apply, hsd]

theorem foldl_applyCfg_hdr (h : List Cfg) (st : CState) :
    (h.foldl applyCfg st).hdr = st.hdr ++ h.filterMap Cfg.hdr? := by
  induction h generalizing st with
  | nil => simp
  | cons x t ih =>
    cases x <;> simp [List.foldl_cons, ih, applyCfg, Cfg.hdr?, List.filterMap_cons]

/-- the list the writer finds: the FIRST `SetCommonHeaderOrder` of the client's own history (the
innermost wrapper assigns last); a request-level list survives only without any. -/
theorem effective_first_call (ops : List Op) (c : Nat) (requestLevel : Option (List Bytes)) :
    effective (run fresh ops c).hdr requestLevel =
      match (history ops c).filterMap Cfg.hdr? with
      | [] => requestLevel
      | l :: _ => some l := by
  rw [order_follows_own_client, replay, foldl_applyCfg_hdr]
  simp only [List.nil_append]
  cases (history ops c).filterMap Cfg.hdr? <;> rfl

example : (run fresh [.setOrder 0 [[1]], .clone 0 1, .setOrder 0 [[2]], .setOrder 1 [[3]]] 1).hdr = [[[1]], [[3]]] := by
  decide
example : effective (run fresh [.setOrder 0 [[1]], .clone 0 1, .setOrder 0 [[2]]] 1).hdr none = some [[1]] := by
  decide
example : history [.setOrder 0 [[1]], .clone 0 1, .setOrder 0 [[2]], .setPseudo 1 [[3]]] 1 = [.hdr [[1]], .pse [[3]]] := by
  decide

end order
end Req.Props.C16Round6
