import Req.Props.C06
import Req.Lemmas.C06Exact
/-!
C06, round 4 — the credit half of the property as the *peer* sees it, and the counter-examples of
the round-4 findings.

`credit_conservation` (in `Req.Props.C06`) is about the client's own books: nothing it was granted
is lost. `peer_window_exact` adds the other half: the client's books and the peer's books are the
same number — the peer's connection-level send window, computed by the receive side of the
strict monitor from the history alone, equals `cc.inflow.avail`. Together:
`no_permanent_stall_peer`. (Before fixes/C06-5 and C06-6 both halves failed on the running code:
see the counter-examples below, replayed on the implementation by the directed scripts
`content-length-overlong*`, `discarded-data*`, `head`, `trailers*` of the script lane.)

The Ping and Push machines of the monitor are part of `Monitor`, hence of `conn_conforms`; the
two corollaries below state them on their own.
-/
set_option linter.unusedSimpArgs false
namespace Req.Props.C06
open Req.H2 Req.H2.Flow Req.H2.Conn Req.H2.Monitor Req.Lemmas.C06

/-- **peer_window_exact**: in every run, unless the connection has been torn down, the peer's
connection-level send window by its own books (`Recv`: 65535 + every connection-level
WINDOW_UPDATE it received − every flow-controlled octet it sent, DATA on closed / reset / unknown
streams, DATA that was answered with a stream error and padding included) is exactly the
client's `cc.inflow.avail`: the two ends never drift apart. -/
theorem peer_window_exact (cfg : Cfg) (hfix : cfg.fixes = Fixes.all) (hcfg : cfg.ok)
    (ops : List Op) (hops : ∀ op ∈ ops, op.ok) :
    (run cfg ops).1.closed = true ∨
    ∃ r, Recv.run Recv.init (history (run cfg ops)) = .ok r ∧ r.connWin = (run cfg ops).1.connIn.avail := by
  have hrun : run cfg ops = runFrom (newConn cfg).1 ((newConn cfg).2.map Event.c) ops := rfl
  unfold history
  rw [hrun]
  obtain ⟨m, r, _, h2, _, _⟩ := joint_runFrom ops hops (preface_run cfg) (rpreface_run cfg hfix hcfg)
    (sinv_init cfg hfix) (rinv_init cfg hfix hcfg)
  have hx := x_runFrom ops hops (preface_run cfg) (sinv_init cfg hfix) (xinv_init cfg hcfg)
  rcases hx with hx | ⟨hx, _⟩
  · exact Or.inl hx
  · refine Or.inr ⟨r, h2, ?_⟩
    have := recv_connWin _ h2
    simp only [Recv.init] at this
    omega

/-- **no_permanent_stall_peer**: once the caller has consumed (read or closed) everything, the
*peer's own* connection-level send window is more than half of what the client advertised (or
all of it) — it is not waiting for credit that was lost on either side. -/
theorem no_permanent_stall_peer (cfg : Cfg) (hfix : cfg.fixes = Fixes.all) (hcfg : cfg.ok)
    (ops : List Op) (hops : ∀ op ∈ ops, op.ok)
    (hc : (run cfg ops).1.closed = false) (hp : (run cfg ops).1.panicked = false)
    (hz : sumBuffered (run cfg ops).1.streams = 0) :
    ∃ r, Recv.run Recv.init (history (run cfg ops)) = .ok r ∧
      (connInflowInit cfg.connFlow < 2 * r.connWin ∨ r.connWin = connInflowInit cfg.connFlow) := by
  rcases peer_window_exact cfg hfix hcfg ops hops with h | ⟨r, h1, h2⟩
  · rw [hc] at h; cases h
  · refine ⟨r, h1, ?_⟩
    rw [h2]
    exact no_permanent_stall cfg hfix ops hops hp hz

/-- a download with padding, a read below the refresh threshold, DATA for a stream the caller
cancelled: the peer's books and the client's agree (1073807359 − 5010 − 3000 + 5010 + 3000 …) -/
def opsCredit : List Op :=
  [.peer (.settings []), .openStream 51 0 true, .peer (.headers 1 false), .peer (.data 1 5000 10 false),
   .read 1 100, .cancel 1, .peer (.data 1 3000 0 false), .read 1 100000]

example : (run exampleCfg opsCredit).1.closed = false := by decide
example : (match Recv.run Recv.init (history (run exampleCfg opsCredit)) with
    | .ok r => r.connWin | .error _ => 0) = (run exampleCfg opsCredit).1.connIn.avail := by decide

/-! ### PING and PUSH_PROMISE -/

/-- **pings_acknowledged**: every PING of the peer is answered with the same octets, no other
PING acknowledgement is ever written, none is owed at the end of a run. -/
theorem pings_acknowledged (cfg : Cfg) (ops : List Op) :
    Ping.run Ping.init (history (run cfg ops)) = .ok Ping.init := by
  unfold history run
  obtain ⟨q0, hq0, hq0s⟩ := push_run_clients Push.init rfl (newConn cfg).2
  exact (extra_runFrom ops (st := (newConn cfg).1) (ping_run_pf Ping.init (pf_newConn cfg)) hq0
    (fun hx => by rw [hq0s] at hx; cases hx)).1

/-- **push_refused**: after a PUSH_PROMISE that the client had ruled out (SETTINGS_ENABLE_PUSH = 0,
acknowledged) the connection is torn down: the monitor's Push machine (nothing but RST_STREAM
may follow) accepts every run — the model itself writes nothing at all any more. -/
theorem push_refused (cfg : Cfg) (ops : List Op) :
    ∃ q, Push.run Push.init (history (run cfg ops)) = .ok q := by
  unfold history run
  obtain ⟨q0, hq0, hq0s⟩ := push_run_clients Push.init rfl (newConn cfg).2
  exact (extra_runFrom ops (st := (newConn cfg).1) (ping_run_pf Ping.init (pf_newConn cfg)) hq0
    (fun hx => by rw [hq0s] at hx; cases hx)).2

def opsPing : List Op :=
  [.peer (.settings []), .peer .settingsAck, .peer (.ping false 7), .openStream 51 100 true, .peer (.ping false 8),
   .peer (.pushPromise 1 2), .peer (.ping false 9), .openStream 51 0 true]

/-- two PINGs answered; nothing after the PUSH_PROMISE, not even the answer to the third PING -/
example : (history (run exampleCfg opsPing)).filterMap (fun e => match e with
    | .c (.ping a d) => some (a, d) | _ => none) = [(true, 7), (true, 8)] := by decide
example : (run exampleCfg opsPing).1.closed = true := by decide
example : Monitor (history (run exampleCfg opsPing)) = true := by decide

/-! ### the round-4 findings: one counter-example per repair -/

/-- a response with Content-Length 10 that carries 5000 octets, read with a buffer of 8192 -/
def opsOverlong : List Op :=
  [.peer (.settings []), .openStream 51 0 true, .peer (.resp 1 false 200 (some 10)), .peer (.data 1 5000 0 false),
   .read 1 8192, .close 1]

/-- unchanged code (fixes/C06-5 off): 5000 octets of connection window are gone for good — neither
granted to the peer, nor waiting to be returned, nor in a response body; repaired: conserved -/
theorem overlong_response_credit_counterexample :
    let st := (run { exampleCfg with fixes := { Fixes.all with readCredit := false } } opsOverlong).1
    let st' := (run exampleCfg opsOverlong).1
    st.connIn.avail + st.connIn.unsent + sumBuffered st.streams = connInflowInit 0 - 5000 ∧
    st'.connIn.avail + st'.connIn.unsent + sumBuffered st'.streams = connInflowInit 0 ∧
    (history (run exampleCfg opsOverlong)).getLast? = some (.c (.windowUpdate 0 5000)) := by decide

/-- DATA before the response HEADERS (5000 octets): a stream error -/
def opsDiscard : List Op :=
  [.peer (.settings []), .openStream 51 0 true, .peer (.data 1 5000 0 false)]

def peerConnWin (h : List Event) : Int :=
  match Recv.run Recv.init h with
  | .ok r => r.connWin
  | .error _ => 0

/-- unchanged code (fixes/C06-6 off): the peer's window is 5000 octets below the client's, for
good; repaired: equal (the frame is taken from the window and credited back at once) -/
theorem discarded_data_credit_counterexample :
    let r := run { exampleCfg with fixes := { Fixes.all with dataCredit := false } } opsDiscard
    let r' := run exampleCfg opsDiscard
    r.1.closed = false ∧ peerConnWin r.2 = r.1.connIn.avail - 5000 ∧
    r'.1.closed = false ∧ peerConnWin r'.2 = r'.1.connIn.avail := by decide

/-- an upload with 20000 octets of trailers; the peer lowers MAX_FRAME_SIZE from 1 MiB to 16384
while the body is being written -/
def opsTrailers : List Op :=
  [.peer (.settings [(sMaxFrameSize, 1048576)]),
   .openReq { hdrLen := 60, bodyLen := 1000, known := false, trailer := some 20000 },
   .peer (.settings [(sMaxFrameSize, 16384)]), .feed 1 0, .write 1, .write 1]

/-- unchanged code (fixes/C06-7 off): a trailer HEADERS frame of 20000 octets for a peer whose
limit is 16384; repaired: HEADERS 16384 + CONTINUATION 3616 -/
theorem trailers_frame_size_counterexample :
    Monitor (history (run { exampleCfg with fixes := { Fixes.all with trailerFrame := false } } opsTrailers)) = false ∧
    (history (run { exampleCfg with fixes := { Fixes.all with trailerFrame := false } } opsTrailers)).getLast? =
      some (.c (.headers 1 20000 true true)) ∧
    Monitor (history (run exampleCfg opsTrailers)) = true ∧
    (history (run exampleCfg opsTrailers)).drop 7 =
      [.c (.data 1 1000 false), .c (.headers 1 16384 true false), .c (.continuation 1 3616 true)] := by decide

/-- MAX_CONCURRENT_STREAMS = 1; a request with declared trailers and no body, answered; the
next request -/
def opsTrailersNoBody : List Op :=
  [.peer (.settings [(sMaxConcurrentStreams, 1)]),
   .openReq { hdrLen := 64, bodyLen := 0, known := true, trailer := some 5 },
   .peer (.headers 1 true), .openStream 51 0 true]

/-- unchanged code (fixes/C06-8 off): the first stream is never closed by the client, which
forgets it and opens a second one above the peer's limit; repaired: END_STREAM on HEADERS -/
theorem trailers_without_body_counterexample :
    Monitor (history (run { exampleCfg with fixes := { Fixes.all with trailerNoBody := false } } opsTrailersNoBody)) = false ∧
    (history (run { exampleCfg with fixes := { Fixes.all with trailerNoBody := false } } opsTrailersNoBody)).filterMap
      (fun e => match e with | .c (.headers id _ es _) => some (id, es) | _ => none) = [(1, false), (3, true)] ∧
    Monitor (history (run exampleCfg opsTrailersNoBody)) = true := by decide

end Req.Props.C06
