import Req.Lemmas.C05H2Iff
import Req.Props.C05
/-!
C05 — error classes as CHARACTERISATIONS (both directions): the typed frame parsers of
`internal/http2/frame.go` accept a frame ⇔ RFC 9113 §6 accepts it, and reject it with class `c` ⇔
the RFC's reason for `c` holds. `Req.H2.Frame.Rfc` is the declarative side (arithmetic on length,
flags, stream id, Pad Length, INITIAL_WINDOW_SIZE, window increment).

* `parse_verdict`, `parse_accept_iff`, `parse_reject_iff` — all frame types at once
* `parse_error_classified_iff` — `parse_error_classified` (Req.Props.C05) as an iff per class
* `data_classes … continuation_classes`, `unknown_accepted` — the classes of each type spelled out:
  padding / priority length arithmetic, SETTINGS ranges, WINDOW_UPDATE zero increment,
  stream-id-zero rules; exclusive and exhaustive
* `readFrame_verdict` — the same through `ReadFrame` (header + payload on the wire)
-/
namespace Req.Props.C05
open Req.Proto Req.H2.Frame Req.H2.Frame.Rfc Req.Lemmas.C05.H2Iff

/-- **parse_verdict**: for every frame header and payload of the announced length the typed parser
(`typeFrameParser(t)`) returns a frame iff RFC 9113 §6 accepts the frame, and otherwise exactly the
error the RFC (with the reference's precedence) prescribes. -/
theorem parse_verdict (fh : FrameHeader) (p : Bytes) (hl : fh.length = p.length) :
    ofResult (parsePayload fh p) = verdict fh p :=
  Req.Lemmas.C05.H2Iff.parse_verdict fh p hl

theorem parse_accept_iff (fh : FrameHeader) (p : Bytes) (hl : fh.length = p.length) :
    (∃ f, parsePayload fh p = .ok f) ↔ verdict fh p = .accept := by
  rw [← parse_verdict fh p hl, ofResult_accept]

theorem parse_reject_iff (fh : FrameHeader) (p : Bytes) (hl : fh.length = p.length) (e : RErr) :
    parsePayload fh p = .error e ↔ verdict fh p = .reject e := by
  rw [← parse_verdict fh p hl, ofResult_reject]

example : verdict ⟨4, tWindowUpdate, 0, 3⟩ [128, 0, 0, 0] = .reject (.stream 3 errProtocol) := by decide
example : verdict ⟨4, tWindowUpdate, 0, 0⟩ [0, 0, 0, 0] = .reject (.conn errProtocol) := by decide
example : verdict ⟨4, tWindowUpdate, 0, 0⟩ [128, 0, 0, 1] = .accept := by decide
example : verdict ⟨3, tHeaders, 8 + 32, 1⟩ [0, 1, 2] = .reject .unexpectedEOF := by decide
example : verdict ⟨7, tHeaders, 8 + 32, 1⟩ [2, 0, 0, 0, 0, 9, 7] = .reject (.stream 1 errProtocol) := by decide
example : verdict ⟨8, tHeaders, 8 + 32, 1⟩ [2, 0, 0, 0, 0, 9, 0, 0] = .accept := by decide

/-! ### per frame type -/

section perType
variable (fh : FrameHeader) (p : Bytes)

attribute [local simp] errProtocol errFrameSize errFlowControl tData tHeaders tPriority tRSTStream
  tSettings tPushPromise tPing tGoAway tWindowUpdate tContinuation


/-- §6.1 DATA. Accepted ⇔ non-zero stream and, when PADDED, a Pad Length smaller than the payload
length. PROTOCOL_ERROR (connection) ⇔ stream 0, or padding not shorter than the payload.
Short read ⇔ PADDED frame without any octet. Nothing else. -/
theorem data_classes (ht : fh.type = tData) :
    ((∃ f, parsePayload fh p = .ok f) ↔ fh.streamID ≠ 0 ∧ (padded fh = true → padLen fh p < p.length)) ∧
    (parsePayload fh p = .error (.conn errProtocol) ↔
      fh.streamID = 0 ∨ (padded fh = true ∧ 0 < p.length ∧ p.length ≤ padLen fh p)) ∧
    (parsePayload fh p = .error .unexpectedEOF ↔ fh.streamID ≠ 0 ∧ padded fh = true ∧ p.length = 0) := by
  have hp : parsePayload fh p = parseData fh p := by simp [parsePayload, ht]
  have hv := data_verdict fh p
  rw [hp, acc hv, rej hv, rej hv]
  unfold Rfc.data connProtocol
  by_cases h0 : fh.streamID = 0 <;> by_cases hpd : padded fh = true <;>
    by_cases hz : p.length = 0 <;> by_cases hle : padLen fh p ≥ p.length <;>
    simp [h0, hpd, hz, hle] <;> omega

/-- §6.2 HEADERS. Accepted ⇔ non-zero stream, the fixed fields (Pad Length, priority) fit, and the
padding fits what remains. PROTOCOL_ERROR on the connection ⇔ stream 0; on the stream ⇔ padding
exceeds the remaining payload; short read ⇔ the fixed fields do not fit. -/
theorem headers_classes (ht : fh.type = tHeaders) :
    ((∃ f, parsePayload fh p = .ok f) ↔
      fh.streamID ≠ 0 ∧ fixedHeaders fh ≤ p.length ∧ padLen fh p ≤ p.length - fixedHeaders fh) ∧
    (parsePayload fh p = .error (.conn errProtocol) ↔ fh.streamID = 0) ∧
    (parsePayload fh p = .error .unexpectedEOF ↔ fh.streamID ≠ 0 ∧ p.length < fixedHeaders fh) ∧
    (parsePayload fh p = .error (.stream fh.streamID errProtocol) ↔
      fh.streamID ≠ 0 ∧ fixedHeaders fh ≤ p.length ∧ p.length - fixedHeaders fh < padLen fh p) := by
  have hp : parsePayload fh p = parseHeaders fh p := by simp [parsePayload, ht]
  have hv := headers_verdict fh p
  rw [hp, acc hv, rej hv, rej hv, rej hv]
  unfold Rfc.headers connProtocol
  by_cases h0 : fh.streamID = 0 <;> by_cases h1 : p.length < fixedHeaders fh <;>
    by_cases h2 : p.length - fixedHeaders fh < padLen fh p <;>
    simp [h0, h1, h2] <;> omega

/-- §6.3 PRIORITY. -/
theorem priority_classes (ht : fh.type = tPriority) :
    ((∃ f, parsePayload fh p = .ok f) ↔ fh.streamID ≠ 0 ∧ p.length = 5) ∧
    (parsePayload fh p = .error (.conn errProtocol) ↔ fh.streamID = 0) ∧
    (parsePayload fh p = .error (.conn errFrameSize) ↔ fh.streamID ≠ 0 ∧ p.length ≠ 5) := by
  have hp : parsePayload fh p = parsePriority fh p := by simp [parsePayload, ht]
  have hv := priority_verdict fh p
  rw [hp, acc hv, rej hv, rej hv]
  unfold Rfc.priority connProtocol connFrameSize
  by_cases h0 : fh.streamID = 0 <;> by_cases h1 : p.length = 5 <;> simp [h0, h1]

/-- §6.4 RST_STREAM. -/
theorem rstStream_classes (ht : fh.type = tRSTStream) :
    ((∃ f, parsePayload fh p = .ok f) ↔ p.length = 4 ∧ fh.streamID ≠ 0) ∧
    (parsePayload fh p = .error (.conn errFrameSize) ↔ p.length ≠ 4) ∧
    (parsePayload fh p = .error (.conn errProtocol) ↔ p.length = 4 ∧ fh.streamID = 0) := by
  have hp : parsePayload fh p = parseRSTStream fh p := by simp [parsePayload, ht]
  have hv := rstStream_verdict fh p
  rw [hp, acc hv, rej hv, rej hv]
  unfold Rfc.rstStream connProtocol connFrameSize
  by_cases h0 : fh.streamID = 0 <;> by_cases h1 : p.length = 4 <;> simp [h0, h1]

/-- §6.5 SETTINGS (value ranges: §6.5.2 INITIAL_WINDOW_SIZE ≤ 2^31 − 1). -/
theorem settings_classes (ht : fh.type = tSettings) (hl : fh.length = p.length) :
    ((∃ f, parsePayload fh p = .ok f) ↔
      (isAck fh = true → p.length = 0) ∧ fh.streamID = 0 ∧ p.length % 6 = 0 ∧
        initialWindowTooLarge p = false) ∧
    (parsePayload fh p = .error (.conn errFrameSize) ↔
      (isAck fh = true ∧ 0 < p.length) ∨ (fh.streamID = 0 ∧ p.length % 6 ≠ 0)) ∧
    (parsePayload fh p = .error (.conn errProtocol) ↔
      (isAck fh = true → p.length = 0) ∧ fh.streamID ≠ 0) ∧
    (parsePayload fh p = .error (.conn errFlowControl) ↔
      (isAck fh = true → p.length = 0) ∧ fh.streamID = 0 ∧ p.length % 6 = 0 ∧
        initialWindowTooLarge p = true) := by
  have hp : parsePayload fh p = parseSettings fh p := by simp [parsePayload, ht]
  have hv := settings_verdict fh p hl
  rw [hp, acc hv, rej hv, rej hv, rej hv]
  unfold Rfc.settings connProtocol connFrameSize
  have hpos : (p.length > 0) ↔ ¬ p.length = 0 := by omega
  simp only [hpos]
  by_cases ha : isAck fh = true <;> by_cases hz : p.length = 0 <;>
    by_cases h0 : fh.streamID = 0 <;> by_cases h6 : p.length % 6 = 0 <;>
    cases hw : initialWindowTooLarge p <;>
    simp [ha, hz, h0, h6] <;> (try omega)

/-- §6.6 PUSH_PROMISE. -/
theorem pushPromise_classes (ht : fh.type = tPushPromise) :
    ((∃ f, parsePayload fh p = .ok f) ↔
      fh.streamID ≠ 0 ∧ fixedPushPromise fh ≤ p.length ∧ padLen fh p ≤ p.length - fixedPushPromise fh) ∧
    (parsePayload fh p = .error (.conn errProtocol) ↔
      fh.streamID = 0 ∨ (fixedPushPromise fh ≤ p.length ∧ p.length - fixedPushPromise fh < padLen fh p)) ∧
    (parsePayload fh p = .error .unexpectedEOF ↔ fh.streamID ≠ 0 ∧ p.length < fixedPushPromise fh) := by
  have hp : parsePayload fh p = parsePushPromise fh p := by simp [parsePayload, ht]
  have hv := pushPromise_verdict fh p
  rw [hp, acc hv, rej hv, rej hv]
  unfold Rfc.pushPromise connProtocol
  by_cases h0 : fh.streamID = 0 <;> by_cases h1 : p.length < fixedPushPromise fh <;>
    by_cases h2 : p.length - fixedPushPromise fh < padLen fh p <;>
    simp [h0, h1, h2] <;> omega

/-- §6.7 PING. -/
theorem ping_classes (ht : fh.type = tPing) :
    ((∃ f, parsePayload fh p = .ok f) ↔ p.length = 8 ∧ fh.streamID = 0) ∧
    (parsePayload fh p = .error (.conn errFrameSize) ↔ p.length ≠ 8) ∧
    (parsePayload fh p = .error (.conn errProtocol) ↔ p.length = 8 ∧ fh.streamID ≠ 0) := by
  have hp : parsePayload fh p = parsePing fh p := by simp [parsePayload, ht]
  have hv := ping_verdict fh p
  rw [hp, acc hv, rej hv, rej hv]
  unfold Rfc.ping connProtocol connFrameSize
  by_cases h0 : fh.streamID = 0 <;> by_cases h1 : p.length = 8 <;> simp [h0, h1]

/-- §6.8 GOAWAY. -/
theorem goAway_classes (ht : fh.type = tGoAway) :
    ((∃ f, parsePayload fh p = .ok f) ↔ fh.streamID = 0 ∧ 8 ≤ p.length) ∧
    (parsePayload fh p = .error (.conn errProtocol) ↔ fh.streamID ≠ 0) ∧
    (parsePayload fh p = .error (.conn errFrameSize) ↔ fh.streamID = 0 ∧ p.length < 8) := by
  have hp : parsePayload fh p = parseGoAway fh p := by simp [parsePayload, ht]
  have hv := goAway_verdict fh p
  rw [hp, acc hv, rej hv, rej hv]
  unfold Rfc.goAway connProtocol connFrameSize
  by_cases h0 : fh.streamID = 0 <;> by_cases h1 : p.length < 8 <;> simp [h0, h1] <;> omega

/-- §6.9 WINDOW_UPDATE: a zero increment (reserved bit ignored) is a PROTOCOL_ERROR — of the
connection on stream 0, of the stream otherwise. -/
theorem windowUpdate_classes (ht : fh.type = tWindowUpdate) :
    ((∃ f, parsePayload fh p = .ok f) ↔ p.length = 4 ∧ word0 p % two31 ≠ 0) ∧
    (parsePayload fh p = .error (.conn errFrameSize) ↔ p.length ≠ 4) ∧
    (parsePayload fh p = .error (.conn errProtocol) ↔
      p.length = 4 ∧ word0 p % two31 = 0 ∧ fh.streamID = 0) ∧
    (parsePayload fh p = .error (.stream fh.streamID errProtocol) ↔
      p.length = 4 ∧ word0 p % two31 = 0 ∧ fh.streamID ≠ 0) := by
  have hp : parsePayload fh p = parseWindowUpdate fh p := by simp [parsePayload, ht]
  have hv := windowUpdate_verdict fh p
  rw [hp, acc hv, rej hv, rej hv, rej hv]
  unfold Rfc.windowUpdate connProtocol connFrameSize
  by_cases h0 : fh.streamID = 0 <;> by_cases h1 : p.length = 4 <;>
    by_cases h2 : word0 p % two31 = 0 <;> simp [h0, h1, h2]

/-- §6.10 CONTINUATION. -/
theorem continuation_classes (ht : fh.type = tContinuation) :
    ((∃ f, parsePayload fh p = .ok f) ↔ fh.streamID ≠ 0) ∧
    (parsePayload fh p = .error (.conn errProtocol) ↔ fh.streamID = 0) := by
  have hp : parsePayload fh p = parseContinuation fh p := by simp [parsePayload, ht]
  have hv := continuation_verdict fh p
  rw [hp, acc hv, rej hv]
  unfold Rfc.continuation connProtocol
  by_cases h0 : fh.streamID = 0 <;> simp [h0]

/-- §4.1: frames of unknown types are never an error of the frame layer. -/
theorem unknown_accepted (ht : 10 ≤ fh.type) : parsePayload fh p = .ok (.unknown fh p) := by
  unfold parsePayload
  have : fh.type ≠ tData ∧ fh.type ≠ tHeaders ∧ fh.type ≠ tPriority ∧ fh.type ≠ tRSTStream ∧
      fh.type ≠ tSettings ∧ fh.type ≠ tPushPromise ∧ fh.type ≠ tPing ∧ fh.type ≠ tGoAway ∧
      fh.type ≠ tWindowUpdate ∧ fh.type ≠ tContinuation := by
    refine ⟨?_, ?_, ?_, ?_, ?_, ?_, ?_, ?_, ?_, ?_⟩ <;> simp only [tData, tHeaders, tPriority,
      tRSTStream, tSettings, tPushPromise, tPing, tGoAway, tWindowUpdate, tContinuation] <;> omega
  simp [this]

end perType

/-- **parse_error_classified_iff**: `parse_error_classified` in both directions — an error value
is produced by a typed parser ⇔ it is the error RFC 9113 §6 prescribes for that frame; in
particular every error the spec prescribes is in `ErrClass`, and nothing outside the RFC's verdict
is ever returned. -/
theorem parse_error_classified_iff (fh : FrameHeader) (p : Bytes) (hl : fh.length = p.length) (e : RErr) :
    parsePayload fh p = .error e ↔ (verdict fh p = .reject e ∧ ErrClass fh e) := by
  constructor
  · intro h
    exact ⟨(parse_reject_iff fh p hl e).mp h, parse_error_classified fh p e h⟩
  · intro h
    exact (parse_reject_iff fh p hl e).mpr h.1

/-- **readFrame_verdict** (wire level): for a reader outside a header block that accepts the frame
size, `ReadFrame` on `header ++ payload ++ rest` fails with a PARSE error `e` ⇔ the RFC verdict on
that frame is `reject e` — for every frame type that cannot start or continue a header block
sequence error (the order automaton is `order_automaton`): here DATA … WINDOW_UPDATE and unknown
types outside a block. -/
theorem readFrame_verdict (r : Reader) (l t f s : Nat) (payload rest : Bytes) (e : RErr)
    (hl : l < two24) (ht : t < 256) (hf : f < 256) (hs : s < two31) (hp : payload.length = l)
    (hr : Ready r l 0) (htc : t ≠ tContinuation) :
    (readFrame r (headerBytes l t f s ++ (payload ++ rest))).1 = .error e ↔
      verdict ⟨l, t, f, s⟩ payload = .reject e := by
  have hh := frameHeader_roundtrip l t f s (payload ++ rest) hl ht hf hs
  unfold readFrame
  rw [hh]
  have h1 : ¬ l > r.maxReadSize := by have := hr.fits; omega
  have h2 : ¬ (payload ++ rest).length < l := by simp [hp]
  simp only [h1, h2, ↓reduceIte]
  have h3 : (payload ++ rest).take l = payload := by rw [← hp]; simp
  rw [h3]
  unfold afterPayload
  rw [← parse_reject_iff ⟨l, t, f, s⟩ payload hp.symm e]
  cases hq : parsePayload ⟨l, t, f, s⟩ payload with
  | error e' => simp
  | ok fr =>
    simp only [checkFrameOrder, hr.legal, Bool.false_eq_true, ↓reduceIte, hr.state]
    have : orderStep 0 ⟨l, t, f, s⟩ ≠ none := by
      unfold orderStep
      simp [htc]
      split <;> simp
    cases ho : orderStep 0 ⟨l, t, f, s⟩ with
    | none => exact absurd ho this
    | some v => simp

end Req.Props.C05
