import Req.H1.Response
import Req.C02.H1Msg
/-!
C02 — the HTTP/1.1 reader of theorem `h1_response_roundtrip_*` as ONE executable function:
`persistConn.readResponse` = C04's byte-exact head reader `Req.H1.parseFinalHead` (1xx loop,
`ReadMIMEHeader`, `readTransfer`), then the body automaton `Req.C02.H1Body` that the framing
verdict selects, over a `bufio.Reader` on a connection that delivers the bytes after the head
in the given segmentation, drained with reads of `k` bytes.

This is the function the lane `e2eh1` runs on the bytes the raw TCP peer wrote (driver lane
`c02h1full`); `Req.C02.parseResponse` (own head grammar) stays as a second opinion.
-/
namespace Req.C02
open Req.Proto

/-- Drop the first `n` bytes of a segmented stream, keeping the later segment boundaries. -/
def dropSegs : Nat → List Bytes → List Bytes
  | 0, segs => segs
  | _, [] => []
  | n + 1, s :: rest =>
    if s.length ≤ n + 1 then dropSegs (n + 1 - s.length) rest
    else s.drop (n + 1) :: rest

/-- `readTransfer`'s verdict as a body automaton (`none` = `http.NoBody`). -/
def framingOfH1 : Req.H1.RespFraming → Option Framing
  | .none => none
  | .length n => some (.length n)
  | .chunked => some .chunked
  | .untilClose => some .close

/-- The header map as a field list (key order of first insertion, values in wire order). -/
def flattenHeader (h : Req.H1.HeaderMap) : List (Bytes × Bytes) :=
  h.flatMap fun kv => kv.2.map fun v => (kv.1, v)

/-- Drain a body with reads of `k` bytes (`fuel` reads at most); the pieces are collected newest
first (appending to the front is O(1): the segmentation may be byte-wise). -/
def H1Body.drainR : Nat → Nat → H1Body → List Bytes → (List Bytes × Option IOErr) × H1Body
  | 0, _, bd, accR => ((accR, some .stuck), bd)
  | fuel + 1, k, bd, accR =>
    match bd.read k with
    | ((d, none), bd') => H1Body.drainR fuel k bd' (d :: accR)
    | ((d, some .eof), bd') => ((d :: accR, none), bd')
    | ((d, some e), bd') => ((d :: accR, some e), bd')

/-- What the caller observes for the connection content `segs` then `fin`. -/
def h1ReceiveView (isHead : Bool) (cap : Nat) (segs : List Bytes) (fin : NetEnd) (k : Nat) :
    Except H1Err View :=
  let w := segs.flatten
  match Req.H1.parseFinalHead 6 isHead w with
  | none => .error .unsupported          -- `readResponse` failed: which error is C04's subject
  | some (msg, r) =>
    match framingOfH1 msg.framing with
    | none =>
      .ok { status := msg.sl.code, fields := flattenHeader msg.header, trailer := [], body := [],
            bodyErr := none }
    | some f =>
      let bd := H1Body.new f (Bufio.new cap { segs := dropSegs (w.length - r.length) segs, fin := fin })
      let ((accR, e), bd') := H1Body.drainR (r.length + 2) k bd []
      .ok { status := msg.sl.code, fields := flattenHeader msg.header,
            trailer := (match bd'.trailer with | some t => t | none => []),
            body := piecesBytes accR, bodyErr := e }

end Req.C02
