import Req.C02.Bufio
/-!
C02 round 5 — the LINE reader under the HTTP/1.1 head reader, for lines of ANY length.

`textprotoReader.readLineSlice` (textproto_reader.go) accumulates what `readLine` hands out
until a piece arrives that is not a prefix.  `readLine` is one of two functions with the same
control flow:

* `bufio.Reader.ReadLine` (no response-header dump), and
* the closure `newTextprotoReader` installs when the response header is dumped
  (`ds.ShouldDump()`): `ReadSlice('\n')`; on `ErrBufferFull` hand out the full buffer as a
  prefix — but if its last byte is CR, put that byte back (`UnreadByte`) so that a CR LF that
  straddles two buffer fills is still recognised by the next call; otherwise strip LF / CR LF.

Both are `Bufio.readLine` here (the dump closure differs only by the dump calls).  The put-back
matters exactly for lines whose CR lands on the last byte of a full buffer: line length
`cap - 1 + k · cap` counted from a compacted buffer.
-/
namespace Req.C02
open Req.Proto

/-- Strip the line end the way `ReadLine` does: a final LF, and a CR before it. -/
def stripEOL (line : Bytes) : Bytes :=
  if line.getLast? = some 10 then
    let l := line.dropLast
    if l.getLast? = some 13 then l.dropLast else l
  else line

/-- One `readLine()`: `(piece, isPrefix, err)`.  `fuel` bounds the fills of `ReadSlice`
(`cap + 2` is always enough). -/
def Bufio.readLine (fuel : Nat) (b : Bufio) : (Bytes × Bool × Option IOErr) × Bufio :=
  match b.readSlice fuel 10 with
  | ((line, some .bufferFull), b') =>
    if line.getLast? = some 13 then
      -- `b.r--` / `UnreadByte`: the CR is the only buffered byte now
      ((line.dropLast, true, none), { b' with buf := [13] })
    else ((line, true, none), b')
  | ((line, err), b') =>
    if line.isEmpty then (([], false, err), b')
    else ((stripEOL line, false, none), b')

/-- `textprotoReader.readLineSlice(-1)` (the loop under `ReadLine()`; the size limit `lim` of
`ReadMIMEHeader` is C03/C04's subject).  Result: the line, or the error. -/
def Bufio.readLineSlice : Nat → Bytes → Bufio → (Option Bytes × Option IOErr) × Bufio
  | 0, _, b => ((none, some .stuck), b)
  | fuel + 1, acc, b =>
    match b.readLine (b.cap + 2) with
    | ((_, _, some e), b') => ((none, some e), b')
    | ((l, more, none), b') =>
      if more then Bufio.readLineSlice fuel (acc ++ l) b'
      else ((some (acc ++ l), none), b')

/-- `ReadLine()` called `n` times (the lines of a head), stopping at the first error. -/
def Bufio.readLinesAny : Nat → Nat → Bufio → List Bytes × Option IOErr × Bufio
  | 0, _, b => ([], none, b)
  | n + 1, fuel, b =>
    match b.readLineSlice fuel [] with
    | ((some l, _), b') =>
      let (ls, e, b'') := Bufio.readLinesAny n fuel b'
      (l :: ls, e, b'')
    | ((none, e), b') => ([], e, b')

end Req.C02
