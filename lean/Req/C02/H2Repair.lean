import Req.C02.H2Recv
/-!
C02 round 5, finding C02-3 (fixes/C02-3-h2-nobody-status-length-accounting.patch).

`handleResponse` sets `cs.bytesRemain = res.ContentLength` for every response whose HEADERS
frame leaves the stream open.  A 204 / 304 never has a body, whatever Content-Length it carries
(RFC 9110 §8.6: a 304 may carry the length of the representation); when the origin ends such a
stream with a second frame (an empty DATA frame, or the trailer HEADERS Go's h2 server sends
when the handler announced trailers) `transportResponseBody.Read` reports
`io.ErrUnexpectedEOF` ("fewer bytes than declared") and, with auto-read, the whole request
fails.  The repair: `cs.bytesRemain = -1` for a status that cannot have a body.

`Req.C02.H2Recv` is shared with C03, whose invariant ties `bytesRemain` to
`res.contentLength`; the shared definition is therefore left as the code is today and the
repaired behaviour is expressed here, as a step applied to the stream state once the head is
in (lane `h2recv` judges with it).
-/
namespace Req.C02
open Req.Proto

/-- The repaired `handleResponse`: no length accounting for a status that never has a body. -/
def H2Stream.lenRepair (s : H2Stream) : H2Stream :=
  match s.res with
  | some r =>
    if r.body == .piped && !bodyAllowedForStatusH2 r.status then { s with bytesRemain := none } else s
  | none => s

end Req.C02
