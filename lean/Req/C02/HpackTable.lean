/-!
C02 round 7 — the size bookkeeping of the HPACK decoder's dynamic table on an HTTP/2 client
connection (seed C02-r7-2).

`newClientConn` (internal/http2/transport.go) walks the caller's SETTINGS (`t.Settings`:
SetHTTP2SettingsFrame, Impersonate*), remembers the last HEADER_TABLE_SIZE (default 4096) and
builds the decoder with `hpack.NewDecoder(thatSize)`; the SAME list is then written to the origin
in the first SETTINGS frame.  `hpack.Decoder` keeps two numbers: `maxSize` (what the table may
hold now, changed by "dynamic table size update" instructions) and `allowedMaxSize` (the largest
value such an instruction may carry; anything above is a DecodingError, which the read loop turns
into the connection error COMPRESSION_ERROR — every response of the connection is lost).

Modelled: the two numbers, the entry sizes (newest first) with eviction, `NewDecoder`,
`SetMaxDynamicTableSize` (resizes, does not touch the allowed maximum),
`parseDynamicTableSizeUpdate` at the start of a header block, insertion of an entry, the settings
walk of `newClientConn` (a left fold, as the Go loop) and — separately, by recursion on the
frame's settings — what an origin that reads the SETTINGS frame is entitled to.
Not modelled: the HPACK wire encoding and the contents of the entries (trusted base).
-/
namespace Req.C02.HpackTable

/-- `hpack.dynamicTable`: sizes of the entries (newest first), the current limit and the limit a
size update may ask for. -/
structure DynTab where
  entries : List Nat
  maxSize : Nat
  allowedMax : Nat
  deriving Repr, DecidableEq

def total : List Nat → Nat
  | [] => 0
  | e :: r => e + total r

/-- `dynamicTable.evict`: the oldest entries go until the rest fits (= the longest newest-first
prefix that fits). -/
def keep (max : Nat) : List Nat → List Nat
  | [] => []
  | e :: r => if e ≤ max then e :: keep (max - e) r else []

/-- `hpack.NewDecoder(n, _)`. -/
def newDecoder (n : Nat) : DynTab := ⟨[], n, n⟩

/-- `dynamicTable.setMaxSize` (+ evict). -/
def DynTab.setMaxSize (d : DynTab) (v : Nat) : DynTab :=
  { d with maxSize := v, entries := keep v d.entries }

/-- `Decoder.SetMaxDynamicTableSize(v)`: the table is resized, `allowedMaxSize` stays. -/
def DynTab.setMaxDynamicTableSize (d : DynTab) (v : Nat) : DynTab := d.setMaxSize v

/-- `Decoder.parseDynamicTableSizeUpdate`; `first` = no field of this header block was decoded
yet.  `none` = DecodingError (COMPRESSION_ERROR for the connection). -/
def DynTab.sizeUpdate (d : DynTab) (first : Bool) (sz : Nat) : Option DynTab :=
  if !first && total d.entries > 0 then none
  else if sz > d.allowedMax then none
  else some (d.setMaxSize sz)

/-- `dynamicTable.add` (a literal with incremental indexing): add, then evict. -/
def DynTab.insert (d : DynTab) (e : Nat) : DynTab :=
  { d with entries := keep d.maxSize (e :: d.entries) }

/-- SETTINGS_HEADER_TABLE_SIZE. -/
def idHeaderTableSize : Nat := 1
def defaultTableSize : Nat := 4096

/-- The loop of `newClientConn` over `t.Settings` (id, value). -/
def announcedTableSize (settings : List (Nat × Nat)) : Nat :=
  settings.foldl (fun acc s => if s.1 = idHeaderTableSize then s.2 else acc) defaultTableSize

/-- The decoder `newClientConn` builds. -/
def clientDecoder (settings : List (Nat × Nat)) : DynTab := newDecoder (announcedTableSize settings)

/-- What the origin may use after reading the SETTINGS frame (RFC 9113 6.5: the values are
processed in the order they appear; unmentioned = the value before). -/
def peerLimit (cur : Nat) : List (Nat × Nat) → Nat
  | [] => cur
  | s :: r => peerLimit (if s.1 = idHeaderTableSize then s.2 else cur) r

/-- What arrives in header blocks, as far as the table is concerned. -/
inductive Op where
  | update (sz : Nat)   -- a size update at the start of a block
  | insert (e : Nat)    -- an indexed literal of that size
  deriving Repr, DecidableEq

def step (d : DynTab) : Op → Option DynTab
  | .update sz => d.sizeUpdate true sz
  | .insert e => some (d.insert e)

def run (d : DynTab) : List Op → Option DynTab
  | [] => some d
  | o :: r => match step d o with
    | none => none
    | some d' => run d' r

/-- The origin respects the limit it was given. -/
def compliant (limit : Nat) : List Op → Prop
  | [] => True
  | .update sz :: r => sz ≤ limit ∧ compliant limit r
  | .insert _ :: r => compliant limit r

/-- The seeded variant of `newClientConn` (C02-r7-2): default decoder, then
`SetMaxDynamicTableSize` per HEADER_TABLE_SIZE setting. -/
def clientDecoderResizeOnly (settings : List (Nat × Nat)) : DynTab :=
  settings.foldl (fun d s => if s.1 = idHeaderTableSize then d.setMaxDynamicTableSize s.2 else d)
    (newDecoder defaultTableSize)

end Req.C02.HpackTable
