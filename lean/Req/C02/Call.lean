import Req.C02.RespSM
/-!
C02 — the life of a `req.Response` over a MULTI-EXCHANGE call.

One `Request.Do` may consist of several HTTP exchanges:

* `http.Client.Do` follows redirects (the intermediate responses are closed by net/http and
  never reach `req.Response`),
* the digest middleware (`digest.go handleDigestAuthFunc`, installed at client level by
  `SetCommonDigestAuth` — then it runs inside `Client.roundTrip` after `parseResponseBody` and
  `handleDownload` — or at request level by `Request.SetDigestAuth` — then it runs in
  `Request.do` after `Client.roundTrip` returned) answers a 401 challenge by re-sending the
  request through `Transport.RoundTrip` and REPLACES `resp.Response` in place,
* `Request.do` retries (a fresh `Response` per attempt).

Modelled here: `request.go do` (retry loop, request-level response middleware),
`client.go roundTrip` (auto-read guard, restore, client-level response middleware),
`middleware.go parseResponseBody` (result / error slots) and `handleDownload`,
`digest.go handleDigestAuthFunc` (forget the 401, re-send, auto-read guard of its own, bind,
download).  The two copies of the "auto-read → bind → download" logic (`roundTrip` and the
digest middleware) are modelled SEPARATELY, as the code has them; that they agree is a theorem
(`Req.Props.C02Call.call_final_exchange`), not a definition.

The model follows the repaired behaviour of fixes/C02-2 (the download of a 401 that the digest
middleware is about to answer is left to that middleware, which saves the final answer).

Outside this model: a 401 without a usable challenge (C20), request bodies that cannot be
replayed (C20), unmarshal failures (C18), the retry interval / context cancellation (C08/C10).
-/
namespace Req.C02
open Req.Proto

/-- What the (scripted) transport answers to one request. `redirect`: a 3xx with a `Location`
that `http.Client` follows. -/
inductive Exch
  | terr                                   -- `RoundTrip` returns an error
  | resp (tag status : Nat) (redirect : Bool) (chunks : List Bytes) (fin : Fin)
deriving Repr, BEq, DecidableEq

inductive DigestAt | off | client | request
deriving Repr, BEq, DecidableEq

/-- Retry conditions of the lane: none added (default rule `err != nil`), a status rule
(`resp.Response != nil && StatusCode >= 500`, which REPLACES the default), or both added. -/
inductive RetryCond | dflt | status | either
deriving Repr, BEq, DecidableEq

structure CCfg where
  base : Cfg
  file : Bool              -- `SetOutputFile` (re-created by every download) vs `SetOutput(writer)`
  digest : DigestAt
  maxRetries : Nat         -- `SetRetryCount`; 0 = no retry
  cond : RetryCond
deriving Repr, BEq, DecidableEq

/-- The caller-visible part of a `req.Response` during / after a call. -/
structure CView where
  r : Resp
  tag : Nat                -- identifies the exchange `resp.Response` came from (a response header)
  hasResp : Bool           -- `resp.Response != nil`
  result : Option Bytes    -- `resp.result`: the bytes that were bound to the success target
  error : Option Bytes     -- `resp.error`
deriving Repr, BEq, DecidableEq

/-- `req.Response` during a call: the visible part, the bookkeeping flag of fixes/C02-2 and a
ghost. -/
structure CR where
  v : CView
  resent : Bool            -- `resp.digestResent`: this is the answer to a digest re-send
  src : Exch               -- ghost: the exchange that produced `resp.Response`
deriving Repr, BEq, DecidableEq

/-- `resp = &Response{Request: r}` + the outcome of `httpClient.Do` / `Transport.RoundTrip`. -/
def CView.ofExch : Exch → CView
  | .terr =>
    { r := { status := 0, err := some .transport, cache := none, body := none, out := none },
      tag := 0, hasResp := false, result := none, error := none }
  | .resp tag st _ cks fin =>
    { r := { status := st, err := none, cache := none, body := some (Body.transport cks fin), out := none },
      tag := tag, hasResp := true, result := none, error := none }

/-- `http.Client.Do`: redirects are followed, the intermediate responses never surface. An
exhausted script is a transport error. -/
def doExch : List Exch → Exch × List Exch
  | [] => (.terr, [])
  | .resp _ _ true _ _ :: rest => doExch rest
  | e :: rest => (e, rest)

/-- `resp.ToBytes(); resp.Body = io.NopCloser(bytes.NewReader(resp.body))`. -/
def autoReadStep (v : CView) : CView :=
  let (_, r) := v.r.toBytes
  { v with r := { r with body := some (Body.restored (match r.cache with | some b => b | none => [])) } }

def successState (st : Nat) : Bool := decide (199 < st) && decide (st < 300)

/-- `parseResponseBody`: unmarshal into the success / error target and fill the slot
(`wantsBind`: a target applies to the status; then the state is success or error). -/
def bindBody (base : Cfg) (v : CView) : CView :=
  if !v.hasResp || !wantsBind base v.r.status then v
  else
    let ((d, e), r') := v.r.toBytes
    match e with
    | .ok => if successState v.r.status then { v with r := r', result := some d }
             else { v with r := r', error := some d }
    | _ => { v with r := r' }

/-- `parseResponseBody` returns an error: the body could not be read (or `resp.Err` was set). -/
def bindFails (base : Cfg) (v : CView) : Bool :=
  v.hasResp && wantsBind base v.r.status && decide (v.r.toBytes.1.2 ≠ .ok)

/-- fixes/C02-2 `digestChallengePending`: a 401 that a configured digest middleware is going
to answer (the middleware's own guard) is not the response to save. -/
def awaitsDigest (cfg : CCfg) (c : CR) : Bool :=
  decide (cfg.digest ≠ .off) && c.v.r.err.isNone && c.v.hasResp && c.v.r.status == 401 && !c.resent

/-- What a writer holds so far (`none`: never written to). -/
def accBytes : Option Bytes → Bytes
  | some a => a
  | none => []

/-- `handleDownload` within a call: `acc` is what the output holds so far. A file is created
anew (truncated) by every download; a writer just receives more bytes. `skip`: the response
is a pending digest challenge. -/
def download (base : Cfg) (file skip : Bool) (v : CView) (acc : Option Bytes) : CView × Option Bytes :=
  if !v.hasResp || !base.save || skip then (v, acc)
  else
    let r' := handleDownload base v.r
    ({ v with r := r' },
     match r'.out with
     | none => acc          -- unreachable: `save` is on
     | some data => some (if file then data else accBytes acc ++ data))

/-- `Client.roundTrip` from `httpClient.Do` to (and including) the built-in response
middlewares `parseResponseBody`, `handleDownload`. -/
def roundTripTail (cfg : CCfg) (e : Exch) (acc : Option Bytes) : CR × Option Bytes :=
  let v0 := CView.ofExch e
  let v1 := if autoRead cfg.base v0.r then autoReadStep v0 else v0
  let v2 := bindBody cfg.base v1
  let (v3, acc') := download cfg.base cfg.file (awaitsDigest cfg { v := v2, resent := false, src := e }) v2 acc
  ({ v := v3, resent := false, src := e }, acc')

/-- The auto-read guard of the digest middleware (no `resp.Err == nil`: the middleware has
returned already if there was an error). -/
def digestAutoRead (base : Cfg) (v : CView) : Bool :=
  !base.clientDisable && !base.save && !base.reqDisable && decide (v.r.status > 199)

/-- `handleDigestAuthFunc`. Returns the new state and whether the middleware returned an
error. The re-send goes through `Transport.RoundTrip`: redirects are NOT followed. `none` =
the middleware did nothing (not a challenge it answers). -/
def digestStep (cfg : CCfg) (c : CR) (acc : Option Bytes) (script : List Exch) :
    Option ((CR × Option Bytes × List Exch) × Bool) :=
  if c.v.r.err.isSome || !c.v.hasResp || c.v.r.status != 401 then none
  else
    let (e, script') : Exch × List Exch :=
      match script with
      | [] => (.terr, [])
      | e :: rest => (e, rest)
    -- resp.body, resp.result, resp.error = nil, nil, nil; resp.digestResent = true;
    -- resp.Response, err = RoundTrip(&req)
    let v0 := CView.ofExch e
    match e with
    | .terr => some (({ v := v0, resent := true, src := e }, acc, script'), true)
    | .resp .. =>
      -- the error of the auto-read `resp.ToBytes()` is dropped here (it stays in `resp.Err`)
      let v1 := if digestAutoRead cfg.base v0 then autoReadStep v0 else v0
      let v2 := bindBody cfg.base v1
      let (v3, acc') := download cfg.base cfg.file false v2 acc      -- `digestResent`: not pending
      -- like `Client.roundTrip`, both built-in stages run; the last error is returned
      some (({ v := v3, resent := true, src := e }, acc', script'),
            bindFails cfg.base v1 || (v2.r.err.isNone && v3.r.err.isSome))

/-- Outcome of one pass of the loop of `Request.do`. -/
structure Pass where
  c : CR
  acc : Option Bytes
  script : List Exch
  stop : Bool        -- a REQUEST-level response middleware returned an error: `do` returns at once
  errLocal : Bool    -- `do`'s local `err != nil` (what the default retry rule looks at)
deriving Repr, BEq, DecidableEq

/-- One pass of the loop of `Request.do`: `Client.roundTrip` (with the client-level digest
middleware inside; `roundTrip` returns `err = resp.Err`) and the request-level response
middleware (its error becomes `err`; if it returns nil, `err` stays what `roundTrip` returned
even when the middleware left something in `resp.Err`). -/
def attempt (cfg : CCfg) (acc : Option Bytes) (script : List Exch) : Pass :=
  let (e, script1) := doExch script
  let (c, acc1) := roundTripTail cfg e acc
  match cfg.digest with
  | .off => { c := c, acc := acc1, script := script1, stop := false, errLocal := c.v.r.err.isSome }
  | .client =>
    match digestStep cfg c acc1 script1 with
    | none => { c := c, acc := acc1, script := script1, stop := false, errLocal := c.v.r.err.isSome }
    | some ((c', acc', script'), _) =>
      { c := c', acc := acc', script := script', stop := false, errLocal := c'.v.r.err.isSome }
  | .request =>
    match digestStep cfg c acc1 script1 with
    | none => { c := c, acc := acc1, script := script1, stop := false, errLocal := c.v.r.err.isSome }
    | some ((c', acc', script'), failed) =>
      { c := c', acc := acc', script := script', stop := failed, errLocal := failed }

def needRetry (cond : RetryCond) (p : Pass) : Bool :=
  match cond with
  | .dflt => p.errLocal
  | .status => p.c.v.hasResp && decide (p.c.v.r.status ≥ 500)
  | .either => p.errLocal || (p.c.v.hasResp && decide (p.c.v.r.status ≥ 500))

/-- `Request.do`: `left` = retries still allowed. -/
def callLoop (cfg : CCfg) : Nat → Option Bytes → List Exch → CR × Option Bytes × List Exch
  | 0, acc, script => let p := attempt cfg acc script; (p.c, p.acc, p.script)
  | left + 1, acc, script =>
    let p := attempt cfg acc script
    if p.stop || !needRetry cfg.cond p then (p.c, p.acc, p.script)
    else callLoop cfg left p.acc p.script

/-- A whole call: the final `Response`, the content of the output, the unused script. -/
def call (cfg : CCfg) (script : List Exch) : CR × Option Bytes × List Exch :=
  callLoop cfg cfg.maxRetries none script

/-- The reference: a call that consists of the single exchange `e` (no digest, no retry). -/
def single (cfg : CCfg) (e : Exch) : CR :=
  (roundTripTail { cfg with digest := .off } e none).1

end Req.C02
