import Req.Lemmas.C02H1Map
/-!
C02 round 5 — `Response.Trailer` as the Go MAP the caller sees (until now: the parsed field
list plus the announced keys).

* HTTP/1.1: `fixTrailer` (transfer.go) creates the map from the `Trailer` header — every
  announced key with a nil value — and `body.readTrailer` merges the received trailer section
  into it with `mergeSetHeader` (`dst[k] = vv` for every received key).
* HTTP/2: `handleResponse` creates the announced keys the same way, `copyTrailers` does
  `(*cs.resTrailer)[k] = vv` for every received key: the same merge.
* HTTP/3: `processTrailers` (headers.go) creates the announced keys; when the trailer HEADERS
  frame arrives `rsp.Trailer = hdr` REPLACES the map (conn.go).

`HeaderMap` is C04's association-list model of `http.Header` (`get`, `set`, `add`).
-/
namespace Req.C02
open Req.Proto Req.H1

/-- The map `fixTrailer` / `handleResponse` / `processTrailers` build from the announced keys:
`trailer[key] = nil` for each. -/
def declMap (keys : List Bytes) : HeaderMap := keys.foldl (fun m k => m.set k []) []

/-- `mergeSetHeader(&dst, src)` / the loop of `copyTrailers`: `dst[k] = vv` for every key of
`src` (a nil `dst` is the empty map here: lookups cannot tell them apart). -/
def mergeSet (dst src : HeaderMap) : HeaderMap := src.foldl (fun m e => m.set e.1 e.2) dst

/-- `Response.Trailer` over HTTP/1.1 and HTTP/2 once the body was read to its end:
announced keys, then the received trailer fields merged in. -/
def trailerMapMerged (decl : List Bytes) (recv : List (Bytes × Bytes)) : HeaderMap :=
  mergeSet (declMap decl) (hmapOf recv)

/-- `Response.Trailer` over HTTP/3: the announced keys until a trailer HEADERS frame arrives,
then exactly the received fields. -/
def trailerMapH3 (decl : List Bytes) : Option (List (Bytes × Bytes)) → HeaderMap
  | none => declMap decl
  | some recv => hmapOf recv

end Req.C02
