import Req.C02.Bufio
import Req.C02.Reader
import Req.Base.Ascii
/-!
C02 — the HTTP/3 receive path of one request stream, at message level
(internal/http3: `frameParser.ParseNext`, `requestStream.ReadResponse`,
`updateResponseFromHeaders`/`parseHeaders`, `stream.Read` with `bytesRemainingInFrame`,
`body.Read` with `remainingContentLength`, `hijackableBody`, trailers via
`connection.decodeTrailers`/`parseTrailers`).

The QUIC stream is a `Net`: the stream's bytes in an arbitrary segmentation, then FIN
(`io.EOF`) or a reset.  QPACK is external: the decoded field list of every HEADERS frame is a
side input (`fieldLists`), consumed in order; the model still parses the frame headers and
skips the encoded block on the byte stream.
-/
namespace Req.C02
open Req.Proto Req.Ascii

inductive H3Err
  | eof | reset | unexpectedEOF
  | frameUnexpected          -- SETTINGS / reserved frame type on a request stream
  | firstNotHeaders
  | headersTooLarge
  | dataAfterTrailers | headersAfterTrailers
  | tooMuchData              -- more DATA than the declared Content-Length
  | invalidFields            -- parseHeaders / parseTrailers rejected the field list
  | tooMany1xx
  | noFieldList              -- model input exhausted (harness error)
  | stuck
deriving Repr, BEq, DecidableEq

def NetEnd.toH3 : NetEnd → H3Err
  | .eof => .eof
  | .reset => .reset

/-- `byteReader.ReadByte`: one `Read` of one byte. -/
def Net.readByte (n : Net) : Except H3Err UInt8 × Net :=
  match n.read 1 with
  | (some (b :: _), n') => (.ok b, n')
  | (some [], n') => (.error .stuck, n')
  | (none, n') => (.error n.fin.toH3, n')

/-- Read `k` further bytes of a varint, big endian, onto `acc`. An error on any byte is
returned as it is (`io.EOF` in the middle of a varint stays `io.EOF`). -/
def Net.readVarintTail : Nat → Nat → Net → Except H3Err Nat × Net
  | 0, acc, n => (.ok acc, n)
  | k + 1, acc, n =>
    match n.readByte with
    | (.ok b, n') => Net.readVarintTail k (acc * 256 + b.toNat) n'
    | (.error e, n') => (.error e, n')

/-- `quicvarint.Read`. -/
def Net.readVarint (n : Net) : Except H3Err Nat × Net :=
  match n.readByte with
  | (.error e, n') => (.error e, n')
  | (.ok b, n') =>
    let l := 1 <<< (b.toNat / 64)
    Net.readVarintTail (l - 1) (b.toNat % 64) n'

/-- `io.ReadFull` / `io.CopyN` on the raw stream: `k` bytes. `acc` newest first. -/
def Net.readN : Nat → Nat → List Bytes → Net → (Bytes × Option H3Err) × Net
  | 0, _, acc, n => ((piecesOf acc, some .stuck), n)
  | fuel + 1, k, acc, n =>
    if k = 0 then ((piecesOf acc, none), n) else
    match n.read k with
    | (some d, n') => Net.readN fuel (k - d.length) (d :: acc) n'
    | (none, n') => ((piecesOf acc, some n.fin.toH3), n')
where piecesOf (acc : List Bytes) : Bytes := acc.reverse.flatten

def Net.size (n : Net) : Nat := (n.segs.map List.length).sum

inductive H3Frame
  | data (l : Nat)
  | headers (l : Nat)
  | settings
deriving Repr, BEq, DecidableEq

/-- `frameParser.ParseNext` (no unknownFrameHandler on request streams). -/
def parseNext : Nat → Net → Except H3Err H3Frame × Net
  | 0, n => (.error .stuck, n)
  | fuel + 1, n =>
    match n.readVarint with
    | (.error e, n1) => (.error e, n1)
    | (.ok t, n1) =>
      match n1.readVarint with
      | (.error e, n2) => (.error e, n2)
      | (.ok l, n2) =>
        if t = 0 then (.ok (.data l), n2)
        else if t = 1 then (.ok (.headers l), n2)
        else if t = 4 then (.ok .settings, n2)
        else if t = 2 ∨ t = 6 ∨ t = 8 ∨ t = 9 then (.error .frameUnexpected, n2)
        else
          -- skip: io.CopyN(io.Discard, qr, l); a short copy reports io.EOF
          match Net.readN (l + 1) l [] n2 with
          | ((_, none), n3) => parseNext fuel n3
          | ((_, some .reset), n3) => (.error .reset, n3)
          | ((_, some _), n3) => (.error .eof, n3)

abbrev Fields := List (Bytes × Bytes)

structure H3Stream where
  net : Net
  remInFrame : Nat
  parsedTrailer : Bool
  trailer : Option Fields
  fieldLists : List Fields
  maxHeaderBytes : Nat
deriving Repr, BEq, DecidableEq

def isPseudo (name : Bytes) : Bool := name.head? == some 58

/-- `parseTrailers` + `http.Header.Add`. -/
def h3ParseTrailers (fs : Fields) : Option Fields :=
  if fs.any (fun kv => isPseudo kv.1) then none
  else some (fs.map fun kv => (canonicalMIMEHeaderKey kv.1, kv.2))

/-- `io.ReadFull`'s error for a block of `l > 0` bytes of which `got` arrived. -/
def readFullErr (got : Nat) (e : H3Err) : H3Err :=
  if e == .eof ∧ got > 0 then .unexpectedEOF else e

/-- `connection.decodeTrailers` through `stream.parseTrailer`. -/
def H3Stream.parseTrailer (s : H3Stream) (l : Nat) : Option H3Err × H3Stream :=
  if l > s.maxHeaderBytes then (some .headersTooLarge, s) else
  match Net.readN (l + 1) l [] s.net with
  | ((got, some e), n') => (some (readFullErr got.length e), { s with net := n' })
  | ((_, none), n') =>
    match s.fieldLists with
    | [] => (some .noFieldList, { s with net := n' })
    | fs :: rest =>
      match h3ParseTrailers fs with
      | none => (some .invalidFields, { s with net := n', fieldLists := rest })
      | some t => (none, { s with net := n', fieldLists := rest, trailer := some t })

/-- `stream.Read(b)`, `len(b) = k`. -/
def H3Stream.read (s : H3Stream) (k : Nat) : (Bytes × Option H3Err) × H3Stream :=
  let go (s : H3Stream) : (Bytes × Option H3Err) × H3Stream :=
    match s.net.read (min k s.remInFrame) with
    | (some d, n') => ((d, none), { s with net := n', remInFrame := s.remInFrame - d.length })
    | (none, n') =>
      -- the stream ended: inside a DATA frame that is a truncation (repaired in /repo 5ecef9d)
      (([], some (if s.net.fin == .eof ∧ s.remInFrame > 0 then H3Err.unexpectedEOF else s.net.fin.toH3)),
       { s with net := n' })
  if s.remInFrame ≠ 0 then go s else
  match parseNext (s.net.size + 1) s.net with
  | (.error e, n') => (([], some e), { s with net := n' })
  | (.ok (.data l), n') =>
    if s.parsedTrailer then (([], some .dataAfterTrailers), { s with net := n' })
    else go { s with net := n', remInFrame := l }
  | (.ok (.headers l), n') =>
    if s.parsedTrailer then (([], some .headersAfterTrailers), { s with net := n' })
    else
      let (e, s') := ({ s with net := n', parsedTrailer := true } : H3Stream).parseTrailer l
      (([], e), s')
  | (.ok .settings, n') => (([], some .frameUnexpected), { s with net := n' })

/-- `body` (content-length accounting) inside `hijackableBody`. -/
structure H3Body where
  str : H3Stream
  hasCL : Bool
  remaining : Nat
deriving Repr, BEq, DecidableEq

def H3Body.violation (b : H3Body) : Bool :=
  b.hasCL && b.remaining == 0 && b.str.remInFrame > 0

/-- `body.Read` / `hijackableBody.Read`. -/
def H3Body.read (b : H3Body) (k : Nat) : (Bytes × Option H3Err) × H3Body :=
  if b.violation then (([], some .tooMuchData), b) else
  let k' := if b.hasCL then min k b.remaining else k
  let ((d, e), str') := b.str.read k'
  let b' := { b with str := str', remaining := b.remaining - d.length }
  if b'.violation then ((d, some .tooMuchData), b')
  -- the stream ended before the declared Content-Length was received (/repo 5ecef9d)
  else if e == some .eof ∧ b'.hasCL ∧ b'.remaining > 0 then ((d, some .unexpectedEOF), b')
  else ((d, e), b')

/-! ### response head -/

structure H3Head where
  status : Nat
  fields : Fields            -- canonical keys (http.Header.Add), wire order
  contentLength : Option Nat
  trailerKeys : List Bytes   -- announced by a Trailer field
deriving Repr, BEq, DecidableEq

def isCTL (c : UInt8) : Bool := c < 32 || c == 127
def validFieldValue (v : Bytes) : Bool := v.all fun c => !isCTL c || c == 32 || c == 9
def validFieldName (n : Bytes) : Bool := !n.isEmpty && n.all isTokenByte

def invalidH3Names : List Bytes :=
  [[99, 111, 110, 110, 101, 99, 116, 105, 111, 110] /- "connection" -/, [107, 101, 101, 112, 45, 97, 108, 105, 118, 101] /- "keep-alive" -/, [112, 114, 111, 120, 121, 45, 99, 111, 110, 110, 101, 99, 116, 105, 111, 110] /- "proxy-connection" -/,
   [116, 114, 97, 110, 115, 102, 101, 114, 45, 101, 110, 99, 111, 100, 105, 110, 103] /- "transfer-encoding" -/, [117, 112, 103, 114, 97, 100, 101] /- "upgrade" -/]

def natOfDigits : Bytes → Option Nat
  | [] => none
  | l => l.foldlM (fun acc c => if isDigit c then some (acc * 10 + (c.toNat - 48)) else none) 0

/-- Go's `strconv.Atoi` on a status value, restricted to what can be a status: optional
sign is accepted by Atoi, a negative or signed status is outside this model (`none`). -/
def parseStatus (v : Bytes) : Option Nat := natOfDigits v

/-- `parseHeaders(headers, isRequest=false)` + `updateResponseFromHeaders`. -/
def h3ParseHead (fs : Fields) : Option H3Head :=
  let rec go (fs : Fields) (sawRegular : Bool) (status : Option Bytes) (cl : Option Bytes)
      (acc : Fields) : Option (Option Bytes × Option Bytes × Fields) :=
    match fs with
    | [] => some (status, cl, acc.reverse)
    | (name, value) :: rest =>
      if name.any isUpper then none
      else if !validFieldValue value then none
      else if isPseudo name then
        if sawRegular then none
        else if name == [58, 115, 116, 97, 116, 117, 115] /- ":status" -/ then go rest sawRegular (some value) cl acc
        else none
      else if !validFieldName name then none
      else if invalidH3Names.contains name then none
      else if name == [116, 101] /- "te" -/ ∧ value != [116, 114, 97, 105, 108, 101, 114, 115] /- "trailers" -/ then none
      else if name == [99, 111, 110, 116, 101, 110, 116, 45, 108, 101, 110, 103, 116, 104] /- "content-length" -/ then
        match cl with
        | none => go rest true status (some value) acc
        | some c => if c == value then go rest true status cl acc else none
      else go rest true status cl ((canonicalMIMEHeaderKey name, value) :: acc)
  match go fs false none none [] with
  | none => none
  | some (status, cl, fields) =>
    let clRes : Option (Option Nat) :=
      match cl with
      | none => some none
      | some c => if c.isEmpty then some none else (natOfDigits c).map some
    match status, clRes with
    | some st, some cl =>
      if st.isEmpty then none else
      match parseStatus st with
      | none => none
      | some code =>
        let trKey := [84, 114, 97, 105, 108, 101, 114] /- "Trailer" -/
        let announced := (fields.filter (·.1 == trKey)).map (·.2)
        some { status := code, fields := fields.filter (·.1 != trKey), contentLength := cl,
               trailerKeys := announced }
    | _, _ => none

/-- `requestStream.ReadResponse` for one HEADERS frame. -/
def H3Stream.readResponse (s : H3Stream) : Except H3Err H3Head × H3Stream :=
  match parseNext (s.net.size + 1) s.net with
  | (.error e, n') => (.error e, { s with net := n' })
  | (.ok (.headers l), n') =>
    if l > s.maxHeaderBytes then (.error .headersTooLarge, { s with net := n' }) else
    match Net.readN (l + 1) l [] n' with
    | ((got, some e), n'') => (.error (readFullErr got.length e), { s with net := n'' })
    | ((_, none), n'') =>
      match s.fieldLists with
      | [] => (.error .noFieldList, { s with net := n'' })
      | fs :: rest =>
        match h3ParseHead fs with
        | none => (.error .invalidFields, { s with net := n'', fieldLists := rest })
        | some h => (.ok h, { s with net := n'', fieldLists := rest })
  | (.ok _, n') => (.error .firstNotHeaders, { s with net := n' })

/-- `doRequest`'s loop: skip up to five non-101 1xx responses. -/
def H3Stream.readFinalResponse : Nat → Nat → H3Stream → Except H3Err H3Head × H3Stream
  | 0, _, s => (.error .tooMany1xx, s)
  | fuel + 1, n1xx, s =>
    match s.readResponse with
    | (.error e, s') => (.error e, s')
    | (.ok h, s') =>
      if 100 ≤ h.status ∧ h.status ≤ 199 ∧ h.status ≠ 101 then
        if n1xx + 1 > 5 then (.error .tooMany1xx, s')
        else H3Stream.readFinalResponse fuel (n1xx + 1) s'
      else (.ok h, s')

/-- `newResponseBody` as `ReadResponse` arms it. A response to HEAD and a 1xx/204/304
response never has a body that could come up short: a Content-Length there describes the
representation (RFC 9110 §8.6), so no length accounting is armed (/repo d991601). -/
def H3Body.new (isHead : Bool) (h : H3Head) (s : H3Stream) : H3Body :=
  if isHead ∨ (100 ≤ h.status ∧ h.status ≤ 199) ∨ h.status = 204 ∨ h.status = 304 then
    { str := s, hasCL := false, remaining := 0 }
  else
    match h.contentLength with
    | some n => { str := s, hasCL := true, remaining := n }
    | none => { str := s, hasCL := false, remaining := 0 }

/-- Reads until the first error (incl. EOF). -/
def H3Body.runReads (b : H3Body) (ks : List Nat) : List (Bytes × Option H3Err) × H3Body :=
  _root_.Req.C02.runReads H3Body.read b ks

end Req.C02
