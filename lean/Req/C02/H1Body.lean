import Req.C02.Bufio
import Req.C02.Reader
import Req.Base.Ascii
/-!
C02 — the HTTP/1.1 body readers as incremental automata over `Bufio`:

* `io.LimitedReader` over the connection reader (declared `Content-Length`),
* `internal.chunkedReader` (internal/chunked.go),
* the connection reader itself (body ended by connection close),

each inside `transfer.go`'s `body` (`readLocked`: EOF handling, early-EOF detection,
trailer reading) — what `readTransfer` hands to `persistConn.readLoop`.
-/
namespace Req.C02
open Req.Proto

/-! ### chunkedReader -/

structure Chunked where
  n : Nat                   -- unread bytes in the current chunk
  err : Option IOErr        -- sticky cr.err
  checkEnd : Bool
deriving Repr, BEq, DecidableEq

def Chunked.init : Chunked := { n := 0, err := none, checkEnd := false }

def isASCIISpace (c : UInt8) : Bool := c == 32 || c == 9 || c == 10 || c == 13

def trimTrailingWhitespace (l : Bytes) : Bytes :=
  (l.reverse.dropWhile isASCIISpace).reverse

/-- `removeChunkExtension`: cut at the first ';'. -/
def removeChunkExtension (l : Bytes) : Bytes := l.takeWhile (· != 59)

def hexDigitVal (c : UInt8) : Option Nat :=
  if 48 ≤ c ∧ c ≤ 57 then some (c.toNat - 48)
  else if 97 ≤ c ∧ c ≤ 102 then some (c.toNat - 87)
  else if 65 ≤ c ∧ c ≤ 70 then some (c.toNat - 55)
  else none

/-- `parseHexUint` (after the repair of DESIGN §5 row 14: an empty size is an error; the
lanes never send one). `i` = index of the digit, `acc` = value so far. -/
def parseHexGo : Bytes → Nat → Nat → Except IOErr Nat
  | [], _, acc => .ok acc
  | c :: cs, i, acc =>
    match hexDigitVal c with
    | none => .error .invalidChunkLen
    | some d => if i = 16 then .error .chunkTooLarge else parseHexGo cs (i + 1) (acc * 16 + d)

def parseHexUint (v : Bytes) : Except IOErr Nat :=
  if v.isEmpty then .error .invalidChunkLen else parseHexGo v 0 0

def maxLineLength : Nat := 4096

/-- `readChunkLine` + `parseHexUint` = `beginChunk`. -/
def Chunked.beginChunk (cr : Chunked) (b : Bufio) : Chunked × Bufio :=
  match b.readSlice (b.cap + 2) 10 with
  | ((_, some e), b') =>
    let e' := if e == .eof then .unexpectedEOF else if e == .bufferFull then .lineTooLong else e
    ({ cr with err := some e' }, b')
  | ((p, none), b') =>
    if p.length ≥ maxLineLength then ({ cr with err := some .lineTooLong }, b') else
    match parseHexUint (removeChunkExtension (trimTrailingWhitespace p)) with
    | .error e => ({ cr with err := some e }, b')
    | .ok n => ({ cr with n := n, err := if n = 0 then some .eof else none }, b')

/-- `chunkHeaderAvailable`: a '\n' among the buffered bytes. -/
def chunkHeaderAvailable (b : Bufio) : Bool := (indexOf 10 b.buf).isSome

/-- The bytes a `Read` has copied so far, kept as the list of copied pieces, newest first
(so that appending a piece is O(1)). -/
def piecesBytes (accR : List Bytes) : Bytes := accR.reverse.flatten

/-- The `for cr.err == nil` loop of `chunkedReader.Read`; `k` = free space left in the
caller's buffer, `accR` = pieces already copied (Go's `n > 0` ⇔ `got > 0`, `got` = their
total length). -/
def Chunked.readLoop : Nat → Chunked → Bufio → Nat → Nat → List Bytes → (List Bytes × Chunked) × Bufio
  | 0, cr, b, _, _, accR => ((accR, { cr with err := some .stuck }), b)
  | fuel + 1, cr, b, k, got, accR =>
    if cr.err.isSome then ((accR, cr), b) else
    if cr.checkEnd then
      if got > 0 ∧ b.buffered < 2 then ((accR, cr), b) else
      match b.readFull 3 2 [] with
      | ((d, none), b') =>
        if d == [13, 10] then Chunked.readLoop fuel { cr with checkEnd := false } b' k got accR
        else ((accR, { cr with err := some .malformedChunk }), b')
      | ((_, some e), b') =>
        ((accR, { cr with err := some (if e == .eof then .unexpectedEOF else e) }), b')
    else if cr.n = 0 then
      if got > 0 ∧ !chunkHeaderAvailable b then ((accR, cr), b) else
      let (cr', b') := cr.beginChunk b
      Chunked.readLoop fuel cr' b' k got accR
    else if k = 0 then ((accR, cr), b)
    else
      match b.read (min k cr.n) with
      | ((d, e), b') =>
        let n' := cr.n - d.length
        let cr' : Chunked :=
          match e with
          | none => { cr with n := n', checkEnd := n' = 0 }
          | some .eof => { cr with n := n', err := some .unexpectedEOF }
          | some e => { cr with n := n', err := some e }
        Chunked.readLoop fuel cr' b' (k - d.length) (got + d.length) (d :: accR)

/-- Enough fuel for one `Read(p)`, `len(p) = k`: every data iteration copies at least one byte
into `p` (or ends the loop) and at most two framing iterations (chunk footer, chunk header)
run between two data iterations. -/
def Chunked.fuel (k : Nat) : Nat := 3 * k + 8

def Chunked.read (cr : Chunked) (b : Bufio) (k : Nat) : (Bytes × Option IOErr) × (Chunked × Bufio) :=
  let ((accR, cr'), b') := Chunked.readLoop (Chunked.fuel k) cr b k 0 []
  ((piecesBytes accR, cr'.err), (cr', b'))

/-! ### `transfer.go` `body` -/

/-- `body.src`. -/
inductive Src
  | limited (n : Nat)        -- io.LimitedReader{R: br, N: n}
  | chunked (cr : Chunked)
  | untilClose               -- br itself
deriving Repr, BEq, DecidableEq

abbrev Trailer := List (Bytes × Bytes)

structure H1Body where
  src : Src
  hdr : Bool                 -- b.hdr != nil : trailers still to be read (chunked only)
  sawEOF : Bool
  closed : Bool
  trailer : Option Trailer   -- what readTrailer merged into Response.Trailer
  br : Bufio
deriving Repr, BEq, DecidableEq

/-- `seeUpcomingDoubleCRLF`: Peek(4), Peek(5), … until the peeked bytes end in CRLFCRLF or
Peek fails (buffer full / connection ended). -/
def seeUpcomingDoubleCRLF : Nat → Nat → Bufio → Bool × Bufio
  | 0, _, b => (false, b)
  | fuel + 1, size, b =>
    match b.peek size with
    | ((p, e), b') =>
      if p.length ≥ 4 ∧ p.drop (p.length - 4) == [13, 10, 13, 10] then (true, b')
      else if e.isSome then (false, b')
      else seeUpcomingDoubleCRLF fuel (size + 1) b'

/-- Split at the first CRLF. -/
def cutCRLF : Bytes → Option (Bytes × Bytes)
  | [] => none
  | [_] => none
  | a :: b :: rest =>
    if a == 13 ∧ b == 10 then some ([], rest)
    else (cutCRLF (b :: rest)).map fun (l, r) => (a :: l, r)

def trimOWS (v : Bytes) : Bytes :=
  ((v.dropWhile fun c => c == 32 || c == 9).reverse.dropWhile fun c => c == 32 || c == 9).reverse

/-- A trailer line of the grammar the lanes generate: `token ":" OWS value OWS`. Anything
else is outside this model (`none`): folding, bare LF, invalid names are C04's subject. -/
def parseFieldLine (l : Bytes) : Option (Bytes × Bytes) :=
  let name := l.takeWhile (· != 58)
  if name.isEmpty ∨ name.length = l.length ∨ !name.all Req.Ascii.isTokenByte then none
  else
    let v := trimOWS (l.drop (name.length + 1))
    if v.all (fun c => (c ≥ 32 ∧ c != 127) ∨ c == 9) then
      some (Req.Ascii.canonicalMIMEHeaderKey name, v)
    else none

/-- `textproto.ReadMIMEHeader` on the simple grammar: lines up to the empty line.
Returns the fields and the number of bytes consumed. -/
def parseFieldBlock : Nat → Bytes → Option (Trailer × Nat)
  | 0, _ => none
  | fuel + 1, s =>
    match cutCRLF s with
    | none => none
    | some (l, rest) =>
      if l.isEmpty then some ([], 2)
      else
        match parseFieldLine l, parseFieldBlock fuel rest with
        | some kv, some (kvs, n) => some (kv :: kvs, l.length + 2 + n)
        | _, _ => none

/-- `body.readTrailer`. -/
def readTrailer (b : Bufio) : Except IOErr (Option Trailer) × Bufio :=
  match b.peek 2 with
  | ((p, e), b1) =>
    if p == [13, 10] then (.ok none, b1.discardBuffered 2)
    else if p.length < 2 then (.error .trailerEOF, b1)
    else match e with
    | some e => (.error e, b1)
    | none =>
      match seeUpcomingDoubleCRLF (b1.cap + 2) 4 b1 with
      | (false, b2) => (.error .longTrailer, b2)
      | (true, b2) =>
        -- the whole block is buffered now; ReadMIMEHeader consumes it from the buffer
        match parseFieldBlock (b2.buf.length + 1) b2.buf with
        | none => (.error .badTrailer, b2)
        | some (t, n) => (.ok (some t), b2.discardBuffered n)

/-- `body.readLocked(p)`, `len(p) = k`. -/
def H1Body.readLocked (bd : H1Body) (k : Nat) : (Bytes × Option IOErr) × H1Body :=
  if bd.sawEOF then (([], some .eof), bd) else
  match bd.src with
  | .limited n =>
    -- LimitedReader.Read
    let ((d, e), n', br') :=
      if n = 0 then ((([] : Bytes), some IOErr.eof), n, bd.br)
      else
        let ((d, e), br') := bd.br.read (min k n)
        ((d, e), n - d.length, br')
    let bd := { bd with src := .limited n', br := br' }
    match e with
    | some .eof =>
      let bd := { bd with sawEOF := true }
      if n' > 0 then ((d, some .unexpectedEOF), bd) else ((d, some .eof), bd)
    | some e => ((d, some e), bd)
    | none =>
      if d.length > 0 ∧ n' = 0 then ((d, some .eof), { bd with sawEOF := true })
      else ((d, none), bd)
  | .untilClose =>
    let ((d, e), br') := bd.br.read k
    let bd := { bd with br := br' }
    match e with
    | some .eof => ((d, some .eof), { bd with sawEOF := true })
    | e => ((d, e), bd)
  | .chunked cr =>
    let ((d, e), (cr', br')) := cr.read bd.br k
    let bd := { bd with src := .chunked cr', br := br' }
    match e with
    | some .eof =>
      if bd.hdr then
        match readTrailer bd.br with
        | (.ok t, br'') =>
          ((d, some .eof), { bd with sawEOF := true, hdr := false, br := br'',
                                       trailer := t })
        | (.error e, br'') =>
          ((d, some e), { bd with sawEOF := false, closed := true, hdr := false, br := br'' })
      else ((d, some .eof), { bd with sawEOF := true })
    | e => ((d, e), bd)

/-- `body.Read`. -/
def H1Body.read (bd : H1Body) (k : Nat) : (Bytes × Option IOErr) × H1Body :=
  if bd.closed then (([], some .readAfterClose), bd) else bd.readLocked k

/-- What `readTransfer` builds for a response with a body. -/
inductive Framing
  | length (n : Nat)   -- Content-Length: n, n > 0
  | chunked
  | close
deriving Repr, BEq, DecidableEq

def H1Body.new (f : Framing) (br : Bufio) : H1Body :=
  match f with
  | .length n => { src := .limited n, hdr := false, sawEOF := false, closed := false, trailer := none, br := br }
  | .chunked => { src := .chunked Chunked.init, hdr := true, sawEOF := false, closed := false, trailer := none, br := br }
  | .close => { src := .untilClose, hdr := false, sawEOF := false, closed := false, trailer := none, br := br }

/-- Apply a sequence of reads, stopping at the first one that reports an error (incl. EOF). -/
def H1Body.runReads (bd : H1Body) (ks : List Nat) : List (Bytes × Option IOErr) × H1Body :=
  _root_.Req.C02.runReads H1Body.read bd ks

end Req.C02
