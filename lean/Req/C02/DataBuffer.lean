import Req.Driver.Proto
/-!
C02 round 5 — `dataBuffer` (internal/http2/databuffer.go): the buffer behind the HTTP/2 body
pipe.  A list of fixed-size chunks taken from size-class pools, a read cursor `r` into the FIRST
chunk, a write cursor `w` into the LAST chunk, the number of buffered bytes `size`, and the hint
`expected` (bytes still announced by Content-Length) that only influences which size class the
next chunk comes from.

The chunks are modelled as the arrays they are: a chunk has its full capacity from the moment
it is allocated, whatever a recycled pool array happens to contain (`alloc` returns the array,
garbage included), and `Write` overwrites `chunk[w : w+n]`.  The allocator is a PARAMETER
(`alloc : Int → Bytes`, the array handed out for a wanted size); `goAlloc` is the one of
`getDataBufferChunk` (1/2/4/8/16 KiB classes, zero-filled).
-/
namespace Req.C02
open Req.Proto

structure DataBuffer where
  chunks : List Bytes
  r : Nat            -- next byte to read is chunks[0][r]
  w : Nat            -- next byte to write is chunks[len(chunks)-1][w]
  size : Nat         -- total buffered bytes
  expected : Int     -- at least this many bytes are expected in future writes (ignored if ≤ 0)
deriving Repr, BEq, DecidableEq

def DataBuffer.new (expected : Int) : DataBuffer :=
  { chunks := [], r := 0, w := 0, size := 0, expected := expected }

/-- Length of the last chunk (`none`: no chunk). -/
def lastLen : List Bytes → Option Nat
  | [] => none
  | [c] => some c.length
  | _ :: c :: rest => lastLen (c :: rest)

/-- Apply `f` to the last chunk. -/
def modifyLast (f : Bytes → Bytes) : List Bytes → List Bytes
  | [] => []
  | [c] => [f c]
  | c :: d :: rest => c :: modifyLast f (d :: rest)

/-- `copy(chunk[w:], p)`: the array after the copy. -/
def copyAt (w : Nat) (p : Bytes) (chunk : Bytes) : Bytes :=
  chunk.take w ++ p.take (chunk.length - w) ++ chunk.drop (w + min p.length (chunk.length - w))

/-- `lastChunkOrAlloc(want)`: afterwards the last chunk has room at `w`. -/
def DataBuffer.lastChunkOrAlloc (alloc : Int → Bytes) (b : DataBuffer) (want : Int) : DataBuffer :=
  match lastLen b.chunks with
  | some L => if b.w < L then b else { b with chunks := b.chunks ++ [alloc want], w := 0 }
  | none => { b with chunks := [alloc want], w := 0 }

/-- The loop of `Write(p)`.  `none` = the loop did not end within the fuel (an allocator that
hands out empty arrays would spin). -/
def DataBuffer.writeLoop (alloc : Int → Bytes) : Nat → Bytes → DataBuffer → Option DataBuffer
  | 0, p, b => if p.isEmpty then some b else none
  | fuel + 1, p, b =>
    if p.isEmpty then some b else
    let want : Int := if b.expected > (p.length : Int) then b.expected else (p.length : Int)
    let b1 := b.lastChunkOrAlloc alloc want
    match lastLen b1.chunks with
    | none => none
    | some L =>
      let n := min p.length (L - b1.w)
      let b2 := { b1 with chunks := modifyLast (copyAt b1.w p) b1.chunks, w := b1.w + n,
                          size := b1.size + n, expected := b1.expected - (n : Int) }
      DataBuffer.writeLoop alloc fuel (p.drop n) b2

/-- `Write(p)`: always `len(p), nil` in Go. -/
def DataBuffer.write (alloc : Int → Bytes) (b : DataBuffer) (p : Bytes) : Option DataBuffer :=
  DataBuffer.writeLoop alloc (p.length + 1) p b

/-- `bytesFromFirstChunk` for a non-empty chunk list. -/
def DataBuffer.bytesFromFirstChunk (b : DataBuffer) (c : Bytes) (rest : List Bytes) : Bytes :=
  if rest.isEmpty then (c.take b.w).drop b.r else c.drop b.r

/-- The loop of `Read(p)` with `len(p) = k`.  `none`: the code would index an empty chunk list
(panic) or spin. -/
def DataBuffer.readLoop : Nat → Nat → Bytes → DataBuffer → Option (Bytes × DataBuffer)
  | 0, k, acc, b => if k = 0 ∨ b.size = 0 then some (acc, b) else none
  | fuel + 1, k, acc, b =>
    if k = 0 ∨ b.size = 0 then some (acc, b) else
    match b.chunks with
    | [] => none
    | c :: rest =>
      let d := (b.bytesFromFirstChunk c rest).take k
      let n := d.length
      let b1 := { b with r := b.r + n, size := b.size - n }
      let b2 := if b1.r = c.length then { b1 with chunks := rest, r := 0 } else b1
      DataBuffer.readLoop fuel (k - n) (acc ++ d) b2

inductive DBRead
  | errEmpty                       -- errReadEmpty
  | broken                         -- panic / endless loop
  | ok (data : Bytes)
deriving Repr, BEq, DecidableEq

/-- `Read(p)`, `len(p) = k`. -/
def DataBuffer.read (b : DataBuffer) (k : Nat) : DBRead × DataBuffer :=
  if b.size = 0 then (.errEmpty, b) else
  match DataBuffer.readLoop (b.chunks.length + 1) k [] b with
  | some (d, b') => (.ok d, b')
  | none => (.broken, b)

/-- All chunks concatenated, the last one cut at `w`. -/
def contentsAux (w : Nat) : List Bytes → Bytes
  | [] => []
  | [c] => c.take w
  | c :: d :: rest => c ++ contentsAux w (d :: rest)

/-- What the buffer holds: the abstraction function. -/
def DataBuffer.contents (b : DataBuffer) : Bytes := (contentsAux b.w b.chunks).drop b.r

/-- The size classes of `getDataBufferChunk`. -/
def goChunkSize (want : Int) : Nat :=
  if want ≤ 1024 then 1024 else if want ≤ 2048 then 2048 else if want ≤ 4096 then 4096
  else if want ≤ 8192 then 8192 else 16384

def goAlloc (want : Int) : Bytes := List.replicate (goChunkSize want) 0

/-- Operation scripts. -/
inductive DOp
  | write (p : Bytes)
  | read (k : Nat)
deriving Repr, BEq, DecidableEq

/-- One observation per op: a write yields nothing, a read its result. -/
inductive DObs
  | wrote
  | writeBroken
  | got (r : DBRead)
deriving Repr, BEq, DecidableEq

def DataBuffer.step (alloc : Int → Bytes) (b : DataBuffer) : DOp → DObs × DataBuffer
  | .write p => match b.write alloc p with
    | some b' => (.wrote, b')
    | none => (.writeBroken, b)
  | .read k => let (r, b') := b.read k; (.got r, b')

def DataBuffer.run (alloc : Int → Bytes) : List DOp → DataBuffer → List DObs × DataBuffer
  | [], b => ([], b)
  | op :: ops, b =>
    let (o, b1) := b.step alloc op
    let (os, b2) := DataBuffer.run alloc ops b1
    (o :: os, b2)

/-- Bytes written by a script / handed out by its reads. -/
def writtenOf : List DOp → Bytes
  | [] => []
  | .write p :: ops => p ++ writtenOf ops
  | .read _ :: ops => writtenOf ops

def readOf : List DObs → Bytes
  | [] => []
  | .got (.ok d) :: os => d ++ readOf os
  | _ :: os => readOf os

end Req.C02
