import Req.C02.H3Recv
/-!
C02 — the HTTP/2 receive path of one client stream at message level
(internal/http2/transport.go: `clientConnReadLoop.processHeaders` / `handleResponse` (1xx,
Content-Length, HEAD, END_STREAM), `processTrailers`, `processData`, `endStream`,
`endStreamError`, `processResetStream`; `transportResponseBody.Read` with `bytesRemain`;
pipe.go `pipe` over databuffer.go `dataBuffer`).

Frames arrive already HPACK-decoded and validated by the framer (`MetaHeadersFrame`): HPACK
and the frame codec are C05's subject.  Flow-control accounting is C06's subject and is not
modelled (the lanes stay inside the windows).
-/
namespace Req.C02
open Req.Proto Req.Ascii

inductive H2Err
  | eof
  | unexpectedEOF            -- fewer bytes than declared, or missingBody
  | overDeclared             -- "server replied with more than declared Content-Length; truncated"
  | streamProto              -- StreamError{PROTOCOL} raised by the read loop
  | connProto                -- ConnectionError(PROTOCOL): the connection is torn down
  | rst                      -- RST_STREAM from the peer
  | closedBody               -- errClosedResponseBody (caller closed the body)
  | pipeWrite                -- write on closed / uninitialised pipe (DATA nobody will read)
  | goAwayRetry              -- errClientConnGotGoAway: stream above the GOAWAY's last-stream-id (retryable)
  | goAwayErr                -- "Transport received GOAWAY from server ErrCode:…": stream 1, GOAWAY with an error code
deriving Repr, BEq, DecidableEq

/-! ### pipe -/

structure Pipe where
  hasBuf : Bool              -- setBuffer was called (p.b != nil)
  buf : Bytes                -- contents of the `dataBuffer` as a flat FIFO (lane `h2databuf`)
  err : Option H2Err         -- CloseWithError: reported once the buffer is drained
  breakErr : Option H2Err    -- BreakWithError: reported immediately
  readFn : Bool              -- copyTrailers still to run
deriving Repr, BEq, DecidableEq

def Pipe.empty : Pipe := { hasBuf := false, buf := [], err := none, breakErr := none, readFn := false }

def Pipe.write (p : Pipe) (d : Bytes) : Except H2Err Pipe :=
  if p.err.isSome ∨ p.breakErr.isSome then .error .pipeWrite
  else if !p.hasBuf then .error .pipeWrite
  else .ok { p with buf := p.buf ++ d }

/-- `setBuffer`: no effect on a closed pipe. -/
def Pipe.setBuffer (p : Pipe) : Pipe :=
  if p.err.isSome ∨ p.breakErr.isSome then p else { p with hasBuf := true }

def Pipe.closeWithError (p : Pipe) (e : H2Err) (fn : Bool) : Pipe :=
  if p.err.isSome then p else { p with err := some e, readFn := fn }

def Pipe.breakWithError (p : Pipe) (e : H2Err) : Pipe :=
  if p.breakErr.isSome then p else { p with breakErr := some e, buf := [], hasBuf := false, readFn := false }

/-- Result of `pipe.Read`: `none` = the call blocks (nothing buffered, not closed). -/
def Pipe.read (p : Pipe) (k : Nat) : Option ((Bytes × Option H2Err × Bool) × Pipe) :=
  match p.breakErr with
  | some e => some (([], some e, false), p)
  | none =>
    if p.hasBuf ∧ p.buf.length > 0 then
      some ((p.buf.take k, none, false), { p with buf := p.buf.drop k })
    else match p.err with
      | some e => some (([], some e, p.readFn), { p with readFn := false, hasBuf := false })
      | none => none

/-! ### the stream -/

inductive H2BodyKind | noBody | missingBody | piped
deriving Repr, BEq, DecidableEq

structure H2Res where
  status : Nat
  fields : Fields            -- canonical keys, wire order, without Trailer
  declaredTrailers : List Bytes
  contentLength : Option Nat -- res.ContentLength (none = -1)
  body : H2BodyKind
deriving Repr, BEq, DecidableEq

structure H2Stream where
  isHead : Bool
  pastHeaders : Bool
  pastTrailers : Bool
  readClosed : Bool
  readAborted : Bool
  num1xx : Nat
  res : Option H2Res          -- set when respHeaderRecv is closed
  headErr : Option H2Err      -- RoundTrip fails with this (abort before the response head)
  pipe : Pipe
  bytesRemain : Option Nat
  readErr : Option H2Err
  trailer : Fields            -- cs.trailer
  resTrailer : Fields         -- values copied into Response.Trailer
  connDead : Bool
deriving Repr, BEq, DecidableEq

def H2Stream.init (isHead : Bool) : H2Stream :=
  { isHead := isHead, pastHeaders := false, pastTrailers := false, readClosed := false,
    readAborted := false, num1xx := 0, res := none, headErr := none, pipe := Pipe.empty,
    bytesRemain := none, readErr := none, trailer := [], resTrailer := [], connDead := false }

inductive H2Ev
  | headers (fields : Fields) (endStream : Bool)
  | data (payload : Bytes) (padded : Bool) (endStream : Bool)   -- `padded`: frame Length > 0 even if payload = []
  | rst
deriving Repr, BEq, DecidableEq

/-- `cs.abortStream(err)`: RoundTrip fails if the head was not delivered yet; the request
goroutine then closes the pipe with the error (data buffered before stays readable). -/
def H2Stream.abort (s : H2Stream) (e : H2Err) : H2Stream :=
  let s := if s.res.isNone ∧ s.headErr.isNone then { s with headErr := some e } else s
  { s with pipe := s.pipe.closeWithError e false }

/-- `endStreamError`. -/
def H2Stream.endStreamError (s : H2Stream) (e : H2Err) : H2Stream :=
  ({ s with readAborted := true } : H2Stream).abort e

/-- `endStream`. -/
def H2Stream.endStream (s : H2Stream) : H2Stream :=
  if s.readClosed then s
  else { s with readClosed := true, pipe := s.pipe.closeWithError .eof true }

/-- A connection error: `readLoop.cleanup` aborts every stream the peer has not closed. -/
def H2Stream.connError (s : H2Stream) : H2Stream :=
  let s := { s with connDead := true }
  if s.readClosed then s else s.abort .connProto

def bodyAllowedForStatusH2 (status : Nat) : Bool :=
  !((100 ≤ status ∧ status ≤ 199) ∨ status = 204 ∨ status = 304)

/-- `f.PseudoValue("status")`. -/
def h2StatusValue (fs : Fields) : Option Bytes :=
  ((fs.filter fun kv => kv.1 == [58, 115, 116, 97, 116, 117, 115] /- ":status" -/).head?).map (·.2)

/-- `f.RegularFields()` under `canonicalHeader`. -/
def h2Regular (fs : Fields) : Fields :=
  (fs.filter fun kv => !isPseudo kv.1).map fun kv => (canonicalMIMEHeaderKey kv.1, kv.2)

/-- `res.Header`: every regular field except `Trailer`, canonical names, wire order. -/
def h2Fields (fs : Fields) : Fields := (h2Regular fs).filter (·.1 != [84, 114, 97, 105, 108, 101, 114] /- "Trailer" -/)

def h2Declared (fs : Fields) : List Bytes := ((h2Regular fs).filter (·.1 == [84, 114, 97, 105, 108, 101, 114] /- "Trailer" -/)).map (·.2)

/-- `res.Header["Content-Length"]`. -/
def h2ContentLengths (fs : Fields) : List Bytes :=
  ((h2Fields fs).filter (·.1 == [67, 111, 110, 116, 101, 110, 116, 45, 76, 101, 110, 103, 116, 104] /- "Content-Length" -/)).map (·.2)

/-- `handleResponse`: `none` = 1xx skipped. -/
def H2Stream.handleResponse (s : H2Stream) (fs : Fields) (endStream : Bool) :
    Except H2Err (Option H2Res) × H2Stream :=
  match h2StatusValue fs with
  | none => (.error .streamProto, s)
  | some sv =>
    if sv.isEmpty then (.error .streamProto, s) else
    match natOfDigits sv with
    | none => (.error .streamProto, s)
    | some code =>
      let fields := h2Fields fs
      let declared := h2Declared fs
      if 100 ≤ code ∧ code ≤ 199 then
        if endStream then (.error .streamProto, s)
        else if s.num1xx + 1 > 5 then (.error .streamProto, { s with num1xx := s.num1xx + 1 })
        else (.ok none, { s with num1xx := s.num1xx + 1, pastHeaders := false })
      else
        let cl : Option Nat :=
          match h2ContentLengths fs with
          | [c] => natOfDigits c
          | [] => if endStream ∧ !s.isHead then some 0 else none
          | _ => none
        if s.isHead then
          (.ok (some { status := code, fields := fields, declaredTrailers := declared, contentLength := cl, body := .noBody }), s)
        else if endStream then
          let kind := match cl with
            | some n => if n > 0 ∧ bodyAllowedForStatusH2 code then H2BodyKind.missingBody else .noBody
            | none => .noBody
          (.ok (some { status := code, fields := fields, declaredTrailers := declared, contentLength := cl, body := kind }), s)
        else
          (.ok (some { status := code, fields := fields, declaredTrailers := declared, contentLength := cl, body := .piped }),
           { s with pipe := s.pipe.setBuffer, bytesRemain := cl })

/-- `processTrailers`. `none` = connection error. -/
def H2Stream.processTrailers (s : H2Stream) (fs : Fields) (endStream : Bool) : H2Stream :=
  if s.pastTrailers then s.connError
  else
    let s := { s with pastTrailers := true }
    if !endStream then s.connError
    else if fs.any (fun kv => isPseudo kv.1) then s.connError
    else ({ s with trailer := fs.map fun kv => (canonicalMIMEHeaderKey kv.1, kv.2) } : H2Stream).endStream

/-- `processHeaders`. -/
def H2Stream.processHeaders (s : H2Stream) (fs : Fields) (endStream : Bool) : H2Stream :=
  if s.readAborted ∨ s.connDead then s
  else if s.readClosed then s.endStreamError .streamProto
  else if s.pastHeaders then s.processTrailers fs endStream
  else
    let s := { s with pastHeaders := true }
    match s.handleResponse fs endStream with
    | (.error e, s') => s'.endStreamError e
    | (.ok none, s') => s'
    | (.ok (some res), s') =>
      let s'' := { s' with res := some res }
      if endStream then s''.endStream else s''

/-- `processData`. -/
def H2Stream.processData (s : H2Stream) (payload : Bytes) (padded : Bool) (endStream : Bool) : H2Stream :=
  if s.readAborted ∨ s.connDead then s
  else if s.readClosed then s.endStreamError .streamProto
  else if !s.pastHeaders then s.endStreamError .streamProto
  else
    let lenPos := payload.length > 0 ∨ padded
    if lenPos ∧ s.isHead ∧ payload.length > 0 then s.endStreamError .streamProto
    else
      let r : Except H2Err H2Stream :=
        if payload.length > 0 then
          match s.pipe.write payload with
          | .ok p => .ok { s with pipe := p }
          | .error e => .error e
        else .ok s
      match r with
      | .error e => s.endStreamError e
      | .ok s' => if endStream then s'.endStream else s'

def H2Stream.processRst (s : H2Stream) : H2Stream :=
  if s.readAborted ∨ s.connDead then s
  else (s.abort .rst)

def H2Stream.event (s : H2Stream) : H2Ev → H2Stream
  | .headers fs es => s.processHeaders fs es
  | .data p pad es => s.processData p pad es
  | .rst => s.processRst

/-- `transportResponseBody.Read(p)`, `len(p) = k`; `none` = the call blocks. -/
def H2Stream.read (s : H2Stream) (k : Nat) : Option ((Bytes × Option H2Err) × H2Stream) :=
  match s.readErr with
  | some e => some (([], some e), s)
  | none =>
    match s.pipe.read k with
    | none => none
    | some ((d, e, ranFn), p') =>
      let s := { s with pipe := p' }
      -- readFn = copyTrailers
      let s := if ranFn then { s with resTrailer := s.trailer } else s
      match s.bytesRemain with
      | some rem =>
        if d.length > rem then
          let e' := match e with | none => some H2Err.overDeclared | some e => some e
          let s' := if e.isNone then s.abort .overDeclared else s
          some ((d.take rem, e'), { s' with readErr := e' })
        else
          let s := { s with bytesRemain := some (rem - d.length) }
          if e == some .eof ∧ rem - d.length > 0 then
            some ((d, some .unexpectedEOF), { s with readErr := some .unexpectedEOF })
          else some ((d, e), s)
      | none => some ((d, e), s)

/-- Body reads for the non-piped bodies. -/
def H2BodyKind.readFixed : H2BodyKind → Option H2Err
  | .noBody => some .eof
  | .missingBody => some .unexpectedEOF
  | .piped => none

/-- Interleaving of peer frames and caller reads. -/
inductive H2Op
  | ev (e : H2Ev)
  | read (k : Nat)
deriving Repr, BEq, DecidableEq

/-- One observation per `read` op: `none` = the read would block at that point (the caller
waits; the model skips it). -/
def H2Stream.runOps (s : H2Stream) : List H2Op → List (Option (Bytes × Option H2Err)) × H2Stream
  | [] => ([], s)
  | .ev e :: ops => (s.event e).runOps ops
  | .read k :: ops =>
    match s.read k with
    | none => let (os, s') := s.runOps ops; (none :: os, s')
    | some (o, s') => let (os, s'') := s'.runOps ops; (some o :: os, s'')

/-- Drain with reads of the given sizes until the first error; a read that would block ends
the run (used after all frames were delivered). -/
def H2Stream.runReads (s : H2Stream) : List Nat → List (Bytes × Option H2Err) × H2Stream
  | [] => ([], s)
  | k :: ks =>
    match s.read k with
    | none => ([], s)
    | some ((d, e), s') =>
      match e with
      | some _ => ([(d, e)], s')
      | none => let (rs, s'') := s'.runReads ks; ((d, e) :: rs, s'')

end Req.C02
