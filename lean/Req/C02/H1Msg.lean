import Req.C02.H1Body
/-!
C02 — what the HTTP/1.1 client hands to the caller for a response byte stream, at message
level: `persistConn.readResponse` (1xx loop) → `_readResponse` (status line, field block) →
`readTransfer` (framing decision) → body reader automaton of `Req.C02.H1Body`.

The status line / field block reader here covers the grammar the C02 lanes generate
(`token ":" OWS value OWS CRLF`, no folding, CRLF line ends); the byte-exact reader for
arbitrary and malformed input is C04's model.  Everything outside this grammar is reported as
`unsupported`, never guessed.
-/
namespace Req.C02
open Req.Proto Req.Ascii

inductive H1Err
  | truncatedHead            -- connection ended inside status line / field block
  | unsupported              -- outside the grammar of this model
  | tooMany1xx
  | badContentLength
  | unsupportedTE
  | body (e : IOErr)         -- the body reader reported e
deriving Repr, BEq, DecidableEq

structure Head where
  minor : Nat
  status : Nat
  fields : List (Bytes × Bytes)    -- canonical key, trimmed value, wire order
deriving Repr, BEq, DecidableEq

def digitsToNat : Bytes → Option Nat
  | [] => none
  | l => l.foldlM (fun acc c => if isDigit c then some (acc * 10 + (c.toNat - 48)) else none) 0

/-- `HTTP/1.x SP* code [SP reason]` -/
def parseStatusLine (l : Bytes) : Option (Nat × Nat) :=
  let proto := l.takeWhile (· != 32)
  if proto.length = l.length then none else
  let rest := (l.drop (proto.length + 1)).dropWhile (· == 32)
  let code := rest.takeWhile (· != 32)
  let minor :=
    if proto == [72, 84, 84, 80, 47, 49, 46, 49] then some 1
    else if proto == [72, 84, 84, 80, 47, 49, 46, 48] then some 0
    else none
  match minor, (if code.length = 3 then digitsToNat code else none) with
  | some m, some c => some (m, c)
  | _, _ => none

/-- Status line + field block. Returns the head and the unread rest. -/
def parseHead (w : Bytes) : Except H1Err (Head × Bytes) :=
  match cutCRLF w with
  | none => .error .truncatedHead
  | some (l, rest) =>
    match parseStatusLine l with
    | none => .error .unsupported
    | some (minor, status) =>
      match parseFieldBlock (rest.length + 1) rest with
      | none => .error .unsupported   -- a line outside the grammar, or no empty line
      | some (fs, n) => .ok ({ minor := minor, status := status, fields := fs }, rest.drop n)

def fieldValues (fs : List (Bytes × Bytes)) (k : Bytes) : List Bytes :=
  (fs.filter fun kv => kv.1 == k).map (·.2)

def keyTE : Bytes := [84, 114, 97, 110, 115, 102, 101, 114, 45, 69, 110, 99, 111, 100, 105, 110, 103]
def keyCL : Bytes := [67, 111, 110, 116, 101, 110, 116, 45, 76, 101, 110, 103, 116, 104]
def valChunked : Bytes := [99, 104, 117, 110, 107, 101, 100]

def bodyAllowedForStatus (status : Nat) : Bool :=
  !((100 ≤ status ∧ status ≤ 199) ∨ status = 204 ∨ status = 304)

/-- `readTransfer`'s choice of body reader (`none` = `http.NoBody`). -/
def chooseFraming (isHead : Bool) (h : Head) : Except H1Err (Option Framing) :=
  let te := fieldValues h.fields keyTE
  let teRes : Except H1Err Bool :=
    if te.isEmpty ∨ h.minor = 0 then .ok false
    else match te with
      | [v] => if equalFold v valChunked then .ok true else .error .unsupportedTE
      | _ => .error .unsupportedTE
  match teRes with
  | .error e => .error e
  | .ok chunked =>
    let cls := fieldValues h.fields keyCL
    let clRes : Except H1Err (Option Nat) :=
      match cls with
      | [] => .ok none
      | c :: more =>
        if more.all (· == c) then
          match digitsToNat c with
          | some n => .ok (some n)
          | none => .error .badContentLength
        else .error .badContentLength
    match clRes with
    | .error e => .error e
    | .ok cl =>
      if isHead ∨ !bodyAllowedForStatus h.status then .ok none
      else if chunked then .ok (some .chunked)
      else match cl with
        | some 0 => .ok none
        | some n => .ok (some (.length n))
        | none => .ok (some .close)

/-- What the caller can observe of one response. -/
structure View where
  status : Nat
  fields : List (Bytes × Bytes)
  trailer : List (Bytes × Bytes)
  body : Bytes
  bodyErr : Option IOErr        -- `none` = the body ended with io.EOF
deriving Repr, BEq, DecidableEq

/-- Drain a body with reads of `k` bytes (`fuel` reads at most). -/
def H1Body.drain : Nat → Nat → H1Body → Bytes → (Bytes × Option IOErr) × H1Body
  | 0, _, bd, acc => ((acc, some .stuck), bd)
  | fuel + 1, k, bd, acc =>
    match bd.read k with
    | ((d, none), bd') => H1Body.drain fuel k bd' (acc ++ d)
    | ((d, some .eof), bd') => ((acc ++ d, none), bd')
    | ((d, some e), bd') => ((acc ++ d, some e), bd')

/-- `readResponse`: skip up to five non-101 1xx responses, then read the final one.
The stream is `w` followed by `fin`. -/
def parseResponse (isHead : Bool) (fin : NetEnd) : Nat → Nat → Bytes → Except H1Err View
  | 0, _, _ => .error .tooMany1xx
  | fuel + 1, n1xx, w =>
    match parseHead w with
    | .error e => .error e
    | .ok (h, rest) =>
      if 100 ≤ h.status ∧ h.status ≤ 199 ∧ h.status ≠ 101 then
        if n1xx + 1 > 5 then .error .tooMany1xx
        else parseResponse isHead fin fuel (n1xx + 1) rest
      else
        match chooseFraming isHead h with
        | .error e => .error e
        | .ok none =>
          .ok { status := h.status, fields := h.fields, trailer := [], body := [], bodyErr := none }
        | .ok (some f) =>
          let bd := H1Body.new f (Bufio.new 4096 { segs := [rest], fin := fin })
          let ((data, e), bd') := H1Body.drain (rest.length + 2) 65536 bd []
          .ok { status := h.status, fields := h.fields,
                trailer := (match bd'.trailer with | some t => t | none => []),
                body := data, bodyErr := e }

def parseResponseTop (isHead : Bool) (fin : NetEnd) (w : Bytes) : Except H1Err View :=
  parseResponse isHead fin 7 0 w

end Req.C02
