import Req.Driver.Proto
import Req.C02.Reader
/-!
C02 — caller-side state machine of `req.Response` (response.go, client.go `roundTrip`
auto-read guard, middleware.go `handleDownload`).

The transport body is an `io.ReadCloser` that hands out its bytes in some segmentation
(`chunks`) and then ends with `io.EOF` or with an error.  The caller-side machine is
`Response{Err, body (cache), Response.Body}` plus the output writer of `SetOutput` /
`SetOutputFile`.  Observation operations: `ToBytes`/`ToString`, `Bytes`/`String`,
`Body.Read(n)`, `io.ReadAll(Body)`, `Body.Close()`.
-/
namespace Req.C02
open Req.Proto

/-- How a body stream ends after its bytes. -/
inductive Fin | eof | fail
deriving Repr, BEq, DecidableEq

/-- Result class of one `Read` / of `ToBytes`. -/
inductive RErr | ok | eof | fail | closed
  | transport      -- `RoundTrip` itself failed: there is no response (multi-exchange calls, `Call.lean`)
deriving Repr, BEq, DecidableEq

/-- Go's error convention: `ok` is the nil error. -/
def RErr.toOpt : RErr → Option RErr
  | .ok => none
  | e => some e

def Fin.toErr : Fin → RErr
  | .eof => .eof
  | .fail => .fail

/-- An `io.ReadCloser`. `nop = true` is `io.NopCloser(bytes.NewReader(b))` (Close is a
no-op); otherwise it is the transport's body: after `Close` every `Read` fails. -/
structure Body where
  chunks : List Bytes
  fin : Fin
  closed : Bool
  nop : Bool
deriving Repr, BEq, DecidableEq

/-- `Read(p)` with `len(p) = n`: at most one segment boundary is crossed per call.
An empty segment models a `(0, nil)` read. -/
def Body.read (b : Body) (n : Nat) : (Bytes × RErr) × Body :=
  if b.closed then (([], .closed), b) else
  match b.chunks with
  | [] => (([], b.fin.toErr), b)
  | c :: cs =>
    if c.length ≤ n then ((c, .ok), { b with chunks := cs })
    else ((c.take n, .ok), { b with chunks := c.drop n :: cs })

def Body.close (b : Body) : Body := if b.nop then b else { b with closed := true }

/-- `io.ReadAll` / `io.Copy` (the sizes they read with do not matter: `Body.readLoop_all`
in Props/C02): everything up to the end, and the end error (`eof` is reported as success by
both Go functions). -/
def Body.readAll (b : Body) : (Bytes × RErr) × Body :=
  if b.closed then (([], .closed), b) else
  ((b.chunks.flatten, b.fin.toErr), { b with chunks := [] })

/-- `io.NopCloser(bytes.NewReader(bs))`. -/
def Body.restored (bs : Bytes) : Body :=
  { chunks := if bs.isEmpty then [] else [bs], fin := .eof, closed := false, nop := true }

/-- The transport body as RoundTrip returns it. -/
def Body.transport (chunks : List Bytes) (fin : Fin) : Body :=
  { chunks := chunks, fin := fin, closed := false, nop := false }

/-- `req.Response` as far as body observation goes. -/
structure Resp where
  status : Nat
  err : Option RErr          -- `r.Err`
  cache : Option Bytes       -- `r.body` (`none` = nil slice)
  body : Option Body         -- `r.Response.Body` (`none` = nil)
  out : Option Bytes         -- bytes written to the SetOutput writer / output file
deriving Repr, BEq, DecidableEq

/-- `Response.ToBytes` (response.go:234). Returns the bytes and the error class. -/
def Resp.toBytes (r : Resp) : (Bytes × RErr) × Resp :=
  match r.err with
  | some e => (([], e), r)
  | none =>
    match r.cache with
    | some c => ((c, .ok), r)
    | none =>
      match r.body with
      | none => (([], .ok), r)          -- `return []byte{}, nil`; nothing cached
      | some b =>
        let ((data, e), b') := b.readAll
        let b'' := b'.close
        match e with
        | .eof | .ok => ((data, .ok), { r with cache := some data, body := some b'' })
        | e => ((data, e), { r with cache := some data, body := some b'', err := some e })

structure Cfg where
  clientDisable : Bool       -- Client.DisableAutoReadResponse
  reqDisable : Bool          -- Request.DisableAutoReadResponse
  save : Bool                -- Request.SetOutput / SetOutputFile
  result : Bool              -- Request.SetSuccessResult (a result object to unmarshal into)
  errResult : Bool := false  -- Request.SetErrorResult / Client.SetCommonErrorResult
deriving Repr, BEq, DecidableEq

/-- client.go:1740 auto-read guard. -/
def autoRead (cfg : Cfg) (r : Resp) : Bool :=
  r.err.isNone && !cfg.clientDisable && !cfg.save && !cfg.reqDisable && decide (r.status > 199)

/-- middleware.go `handleDownload`: copy cached bytes or the live Body to the writer. -/
def handleDownload (cfg : Cfg) (r : Resp) : Resp :=
  if !cfg.save then r else
  match r.cache with
  | some c => { r with out := some c }
  | none =>
    match r.body with
    | none => { r with out := some [] }     -- unreachable: http.Client never returns a nil Body
    | some b =>
      let ((data, e), b') := b.readAll
      let r' := { r with out := some data, body := some b'.close }
      match e with
      | .eof | .ok => r'
      | e => { r' with err := some e }

/-- Does `parseResponseBody` unmarshal a response of this status?  In the success state
(200..299, `defaultResultStateChecker`) with a success-result object unless the status is 204;
in the error state (≥ 400) with an error-result object. -/
def wantsBind (cfg : Cfg) (st : Nat) : Bool :=
  (cfg.result && decide (199 < st) && decide (st < 300) && decide (st ≠ 204)) ||
  (cfg.errResult && decide (399 < st))

/-- middleware.go `parseResponseBody` with a result object set for the response's state: it
unmarshals, i.e. calls `ToBytes`. Whether the bytes unmarshal is outside this model (the
lanes use bodies / unmarshal functions that do). -/
def parseResponseBody (cfg : Cfg) (r : Resp) : Resp :=
  if wantsBind cfg r.status then r.toBytes.2 else r

/-- `Client.roundTrip` after `httpClient.Do` succeeded: auto-read + restore, then the
response middlewares `parseResponseBody` and `handleDownload`. -/
def afterRoundTrip (cfg : Cfg) (status : Nat) (tb : Body) : Resp :=
  let r0 : Resp := { status := status, err := none, cache := none, body := some tb, out := none }
  let r1 :=
    if autoRead cfg r0 then
      let (_, r) := r0.toBytes
      -- `bytes.NewReader(resp.body)`: a nil slice is the empty reader
      { r with body := some (Body.restored (match r.cache with | some c => c | none => [])) }
    else r0
  handleDownload cfg (parseResponseBody cfg r1)

inductive Op
  | toBytes | toString | bytes | string
  | read (n : Nat) | readAll | close
deriving Repr, BEq, DecidableEq

/-- What one op shows the caller. -/
inductive Obs
  | data (bs : Bytes) (e : RErr)      -- ToBytes / ToString / Read / ReadAll
  | cached (c : Option Bytes)          -- Bytes()  (nil vs bytes)
  | str (bs : Bytes)                   -- String()
  | unit
deriving Repr, BEq, DecidableEq

def Resp.step (r : Resp) : Op → Obs × Resp
  | .toBytes | .toString =>
    let ((d, e), r') := r.toBytes
    -- on error ToBytes returns (nil, err) only when the error was there before the read
    (.data d e, r')
  | .bytes => (.cached r.cache, r)
  | .string => (.str (match r.cache with | some c => c | none => []), r)   -- string(nil) = ""
  | .read n =>
    match r.body with
    | none => (.unit, r)
    | some b => let ((d, e), b') := b.read n; (.data d e, { r with body := some b' })
  | .readAll =>
    match r.body with
    | none => (.unit, r)
    | some b =>
      let ((d, e), b') := b.readAll
      (.data d (if e == .eof then .ok else e), { r with body := some b' })
  | .close =>
    match r.body with
    | none => (.unit, r)
    | some b => (.unit, { r with body := some b.close })

/-- Apply an op sequence; the trace pairs every op with what it showed the caller. -/
def Resp.run (r : Resp) : List Op → List (Op × Obs) × Resp
  | [] => ([], r)
  | op :: ops =>
    let (o, r') := r.step op
    let (os, r'') := r'.run ops
    ((op, o) :: os, r'')

/-- `Body.read` in the `Option` error convention of `runReads` (`none` = nil error). -/
def Body.readO (b : Body) (k : Nat) : (Bytes × Option RErr) × Body :=
  let ((d, e), b') := b.read k
  ((d, e.toOpt), b')

end Req.C02
