import Req.Driver.Proto
/-! C02 — running a caller's sequence of `Read(p)` calls against a pull reader. -/
namespace Req.C02
open Req.Proto

/-- Apply reads of the given sizes until the first one that reports an error (incl. EOF).
Returns every read's result. -/
def runReads {σ ε : Type} (read : σ → Nat → (Bytes × Option ε) × σ) (s : σ) :
    List Nat → List (Bytes × Option ε) × σ
  | [] => ([], s)
  | k :: ks =>
    match read s k with
    | ((d, none), s') =>
      let (rs, s'') := runReads read s' ks
      ((d, none) :: rs, s'')
    | ((d, some e), s') => ([(d, some e)], s')

/-- The bytes a run handed to the caller. -/
def outBytes {ε : Type} (rs : List (Bytes × Option ε)) : Bytes := (rs.map (·.1)).flatten

/-- The error of the last read (`none` = the caller stopped before any error). -/
def lastErr {ε : Type} (rs : List (Bytes × Option ε)) : Option ε :=
  match rs.getLast? with
  | some (_, e) => e
  | none => none

end Req.C02
