import Req.Driver.Proto
/-!
C02 — the byte source of the HTTP/1.1 body readers: a network connection that delivers the
wire bytes in an arbitrary segmentation (`Net`), wrapped in Go's `bufio.Reader`
(`persistConn.br`, size `Transport.readBufferSize()` = 4096 by default).

Only the operations the body readers use are modelled: `Read`, `Peek`, `ReadSlice`,
`Discard`, `Buffered`, and `io.ReadFull`.  One underlying `Read` returns at most one network
segment (or the part of it that fits).
-/
namespace Req.C02
open Req.Proto

/-- How the connection ends after the last segment: FIN (`io.EOF`) or an error (RST). -/
inductive NetEnd | eof | reset
deriving Repr, BEq, DecidableEq

structure Net where
  segs : List Bytes
  fin : NetEnd
deriving Repr, BEq, DecidableEq

/-- One `conn.Read(p)` with `len(p) = k > 0`: at most one segment; empty segments do not
exist on a real connection and are skipped. -/
def Net.readSegs : List Bytes → Nat → Option Bytes × List Bytes
  | [], _ => (none, [])
  | s :: rest, k =>
    if s.isEmpty then Net.readSegs rest k
    else if s.length ≤ k then (some s, rest)
    else (some (s.take k), s.drop k :: rest)

/-- Result: `some data` (non-empty, no error) or `none` = the end error `net.fin`. -/
def Net.read (n : Net) (k : Nat) : Option Bytes × Net :=
  let (d, segs') := Net.readSegs n.segs k
  (d, { n with segs := segs' })

/-- Errors a reader can report. -/
inductive IOErr
  | eof | reset | unexpectedEOF | bufferFull
  | malformedChunk | lineTooLong | invalidChunkLen | chunkTooLarge
  | trailerEOF | longTrailer | badTrailer | readAfterClose | stuck
deriving Repr, BEq, DecidableEq

def NetEnd.toErr : NetEnd → IOErr
  | .eof => .eof
  | .reset => .reset

structure Bufio where
  cap : Nat
  buf : Bytes               -- b.buf[b.r:b.w]
  err : Option IOErr        -- b.err (returned and cleared by readErr)
  net : Net
deriving Repr, BEq, DecidableEq

def Bufio.new (cap : Nat) (net : Net) : Bufio := { cap := cap, buf := [], err := none, net := net }

def Bufio.buffered (b : Bufio) : Nat := b.buf.length

/-- `fill`: slide, then ONE underlying read into the free space (callers guarantee
`buffered < cap`). -/
def Bufio.fill (b : Bufio) : Bufio :=
  match b.net.read (b.cap - b.buf.length) with
  | (some d, net') => { b with buf := b.buf ++ d, net := net' }
  | (none, net') => { b with err := some b.net.fin.toErr, net := net' }

/-- `Read(p)`, `len(p) = k`. Result: bytes and `none` = nil error. -/
def Bufio.read (b : Bufio) (k : Nat) : (Bytes × Option IOErr) × Bufio :=
  if k = 0 then
    if b.buf.length > 0 then (([], none), b) else (([], b.err), { b with err := none })
  else if b.buf.isEmpty then
    match b.err with
    | some e => (([], some e), { b with err := none })
    | none =>
      if k ≥ b.cap then
        -- large read, empty buffer: read directly into p
        match b.net.read k with
        | (some d, net') => ((d, none), { b with net := net' })
        | (none, net') => (([], some b.net.fin.toErr), { b with net := net' })
      else
        match b.net.read b.cap with
        | (some d, net') => ((d.take k, none), { b with buf := d.drop k, net := net' })
        | (none, net') => (([], some b.net.fin.toErr), { b with net := net' })
  else ((b.buf.take k, none), { b with buf := b.buf.drop k })

/-- The loop of `Peek`: `for buffered < n && buffered < cap && err == nil { fill() }`. -/
def Bufio.fillUntil : Nat → Nat → Bufio → Bufio
  | 0, _, b => b
  | fuel + 1, n, b =>
    if b.buf.length < n ∧ b.buf.length < b.cap ∧ b.err.isNone then Bufio.fillUntil fuel n b.fill
    else b

/-- `Peek(n)`. -/
def Bufio.peek (b : Bufio) (n : Nat) : (Bytes × Option IOErr) × Bufio :=
  let b := Bufio.fillUntil (n + 1) n b
  if n > b.cap then ((b.buf, some .bufferFull), b)
  else if b.buf.length < n then
    match b.err with
    | some e => ((b.buf, some e), { b with err := none })
    | none => ((b.buf, some .bufferFull), b)
  else ((b.buf.take n, none), b)

/-- `Discard(n)` for `n ≤ buffered` (the only use: after a successful `Peek(n)`). -/
def Bufio.discardBuffered (b : Bufio) (n : Nat) : Bufio := { b with buf := b.buf.drop n }

def indexOf (c : UInt8) : Bytes → Option Nat
  | [] => none
  | x :: xs => if x == c then some 0 else (indexOf c xs).map (· + 1)

/-- `ReadSlice(delim)`. -/
def Bufio.readSlice : Nat → UInt8 → Bufio → (Bytes × Option IOErr) × Bufio
  | 0, _, b => (([], some .stuck), b)
  | fuel + 1, delim, b =>
    match indexOf delim b.buf with
    | some i => ((b.buf.take (i + 1), none), { b with buf := b.buf.drop (i + 1) })
    | none =>
      match b.err with
      | some e => ((b.buf, some e), { b with buf := [], err := none })
      | none =>
        if b.buf.length ≥ b.cap then ((b.buf, some .bufferFull), { b with buf := [] })
        else Bufio.readSlice fuel delim b.fill

/-- `io.ReadFull(b, buf[:n])` = `io.ReadAtLeast`: `Read` until `n` bytes or an error;
`EOF` after at least one byte becomes `ErrUnexpectedEOF`. -/
def Bufio.readFull : Nat → Nat → Bytes → Bufio → (Bytes × Option IOErr) × Bufio
  | 0, _, acc, b => ((acc, some .stuck), b)
  | fuel + 1, n, acc, b =>
    if acc.length ≥ n then ((acc, none), b) else
    match b.read (n - acc.length) with
    | ((d, none), b') => Bufio.readFull fuel n (acc ++ d) b'
    | ((d, some e), b') =>
      let acc' := acc ++ d
      if acc'.length ≥ n then ((acc', none), b')
      else if acc'.length > 0 ∧ e == .eof then ((acc', some .unexpectedEOF), b')
      else ((acc', some e), b')

/-- The unread wire: what is buffered plus what the connection will still deliver. -/
def Bufio.rem (b : Bufio) : Bytes := b.buf ++ b.net.segs.flatten

end Req.C02
