import Req.C02.H2Recv
/-!
C02 round 6 — **connection-level frames between the frames of a response**
(internal/http2/transport.go: `clientConnReadLoop.processGoAway`, `ClientConn.setGoAway`,
`processPing`, `processSettings`, `processWindowUpdate` on stream 0, the `default:` arm of
`readLoop.run` for extension frames).

`Req.C02.H2Recv` is ONE stream.  Here is the connection around it: the stream table
`cc.streams` (a Go map: stream id ↦ `clientStream`, modelled as a function), the merged
`cc.goAway`, and the read loop dispatching a frame either to the stream it names or to the
connection.

`setGoAway(f)`: remember the frame (an earlier error code that is not NO_ERROR sticks), then for
every stream in the table: `streamID <= f.LastStreamID` — the server says it received this
stream and will finish it: **left alone**; otherwise `abortStreamLocked` with
`errClientConnGotGoAway` (= "retry me on another connection"), or, for stream 1 after a GOAWAY
with an error code, with the non-retryable "Transport received GOAWAY from server ErrCode".
An abort is what `H2Stream.abort` models: `RoundTrip` fails if the head was not delivered yet;
otherwise the request goroutine closes the body pipe with the error (bytes buffered before stay
readable) and forgets the stream, so later frames of the stream are not delivered.

PING, PING ack, SETTINGS, WINDOW_UPDATE on stream 0 and unknown extension frames touch no
stream (flow-control credit is C06's, not modelled here).
-/
namespace Req.C02
open Req.Proto

/-- `cc.goAway` after the merge of `setGoAway`. -/
structure GoAway where
  last : Nat
  code : Nat                 -- 0 = NO_ERROR
deriving Repr, BEq, DecidableEq

structure H2Conn where
  streams : Nat → Option H2Stream     -- cc.streams
  goAway : Option GoAway

/-- "Merge the previous and current GoAway error frames": an earlier error code sticks. -/
def mergeGoAwayCode (old : Option GoAway) (code : Nat) : Nat :=
  match old with
  | some o => if o.code != 0 then o.code else code
  | none => code

/-- Which error a stream above last-stream-id is aborted with. -/
def goAwayAbortErr (id code : Nat) : H2Err :=
  if id = 1 ∧ code ≠ 0 then .goAwayErr else .goAwayRetry

/-- `ClientConn.setGoAway`. -/
def H2Conn.setGoAway (c : H2Conn) (last code : Nat) : H2Conn :=
  let code' := mergeGoAwayCode c.goAway code
  { streams := fun id =>
      match c.streams id with
      | none => none
      | some s => if id ≤ last then some s else some (s.abort (goAwayAbortErr id code')),
    goAway := some { last := last, code := code' } }

/-- Frames the read loop may find between the frames of a response. -/
inductive CEv
  | frame (id : Nat) (e : H2Ev)      -- HEADERS / DATA / RST_STREAM on stream `id`
  | goAway (last code : Nat)
  | neutral (kind : Nat)             -- PING, PING ack, SETTINGS, WINDOW_UPDATE(0), extension frame
deriving Repr, BEq, DecidableEq

def H2Conn.set (c : H2Conn) (id : Nat) (s : H2Stream) : H2Conn :=
  { c with streams := fun j => if j = id then some s else c.streams j }

/-- One frame through `readLoop.run`'s dispatch. A frame for a stream that is not in the table
(finished and forgotten) is dropped. -/
def H2Conn.event (c : H2Conn) : CEv → H2Conn
  | .frame id e =>
    match c.streams id with
    | some s => c.set id (s.event e)
    | none => c
  | .goAway last code => c.setGoAway last code
  | .neutral _ => c

/-- A connection whose only open stream is `id`. -/
def H2Conn.single (id : Nat) (s : H2Stream) : H2Conn :=
  { streams := fun j => if j = id then some s else none, goAway := none }

/-- Frames arriving on the connection interleaved with the caller's reads on the body of
stream `sid`. -/
inductive COp
  | ev (e : CEv)
  | read (k : Nat)
deriving Repr, BEq, DecidableEq

/-- One observation per `read` (as `H2Stream.runOps`). -/
def H2Conn.runOps (sid : Nat) (c : H2Conn) : List COp → List (Option (Bytes × Option H2Err)) × H2Conn
  | [] => ([], c)
  | .ev e :: ops => (c.event e).runOps sid ops
  | .read k :: ops =>
    match c.streams sid with
    | none => c.runOps sid ops
    | some s =>
      match s.read k with
      | none => let (os, c') := c.runOps sid ops; (none :: os, c')
      | some (o, s') => let (os, c'') := (c.set sid s').runOps sid ops; (some o :: os, c'')

/-- What stream `sid` sees of the connection's traffic once everything that does not concern it
is taken away. -/
def eraseOps (sid : Nat) : List COp → List H2Op
  | [] => []
  | .ev (.frame id e) :: ops => if id = sid then .ev e :: eraseOps sid ops else eraseOps sid ops
  | .ev _ :: ops => eraseOps sid ops
  | .read k :: ops => .read k :: eraseOps sid ops

/-- Every GOAWAY among the ops names a last-stream-id that is not below `sid`. -/
def KeepsStream (sid : Nat) : List COp → Prop
  | [] => True
  | .ev (.goAway last _) :: ops => sid ≤ last ∧ KeepsStream sid ops
  | _ :: ops => KeepsStream sid ops

end Req.C02
