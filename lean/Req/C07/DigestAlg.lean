import Req.Client.DigestAuth
/-!
C07 (round 5) — the two uses of the `algorithm` token of a Digest challenge.

digest.go looks the token up twice: `selectQop` (called by `parseChallenge` for every Digest
challenge of the list and again by `credentials.authorize`) only asks WHETHER `hashFuncs` has the
key; `credentials.h` (called by `resp()` / `authorize()` for HA1, HA2, the response and the user
hash) takes `hashFuncs[c.algorithm]` and CALLS the constructor. A key that the first look-up accepts
and the second does not find yields a nil function value: calling it panics in the caller's
goroutine — with a token chosen by the server.

The model keeps the two look-ups apart (`Tables`): `accepts` is the test of `selectQop`, `hashOf`
the map access of `credentials.h`; a nil constructor is the explicit value `Use.panic`. For the code
as it is both are the same exact-match table (`real`); the theorems in `Props/C07Seq.lean` say for
which pairs of look-ups `panic` is unreachable for every `WWW-Authenticate` text.
-/
namespace Req.C07.DigestAlg
open Req.Proto Req.Ascii Req.Digest

structure Tables where
  /-- `_, ok := hashFuncs[algorithm]` (or whatever test `selectQop` applies) -/
  accepts : Bytes → Bool
  /-- `hashFuncs[c.algorithm]` in `credentials.h`; `none` = the nil constructor -/
  hashOf : Bytes → Option Alg

/-- the table argument of C20's `DigestAuth` model, which only tests membership -/
def asAlgOf (T : Tables) : Bytes → Option Alg := fun a => if T.accepts a then some .md5 else none

inductive Use where
  | panic                          -- a nil hash constructor is called
  | err (e : Err)
  | ok (alg : Alg) (qop : Bytes)
  deriving DecidableEq, Repr

/-- `credentials.authorize` up to the first call of `c.h` -/
def authorizeUse (T : Tables) (c : Challenge) : Use :=
  match Req.DigestAuth.selectQop (asAlgOf T) c.algorithm c.qop with
  | .error e => .err e
  | .ok qop =>
    match T.hashOf c.algorithm with
    | none => .panic
    | some a => .ok a qop

/-- `createDigestAuth` on the joined `WWW-Authenticate` value -/
def answer (T : Tables) (input : Bytes) : Use :=
  if input.isEmpty then .err .badChallenge
  else
    match Req.DigestAuth.parseChallenge (asAlgOf T) input with
    | .error e => .err e
    | .ok c => authorizeUse T c

/-- the code as it is: one exact-match table for both -/
def real : Tables := ⟨fun a => (algOf a).isSome, algOf⟩

/-- a look-up that folds case in the test only (what a "tolerant" `selectQop` would be) -/
def foldAccept : Tables := ⟨fun a => hashTable.any (fun p => equalFold a p.1), algOf⟩

/-- length of the lower-case hex digest (`response=`), what the lane can see of the constructor -/
def hexLen : Alg → Nat
  | .md5 => 32
  | .sha256 => 64
  | .sha512_256 => 64
  | .sha512 => 128

def renderErr : Err → String
  | .badChallenge => "bad"
  | .charset => "charset"
  | .algNotSupported => "alg"
  | .qopNotSupported => "qop"
  | _ => "other-error"

def render : Use → String
  | .panic => "panic"
  | .err e => renderErr e
  | .ok a qop => "ok " ++ toString (hexLen a) ++ " " ++ (if qop.isEmpty then "-" else String.ofList (qop.map (fun b => Char.ofNat b.toNat)))

end Req.C07.DigestAlg
