import Req.H3.Frame
/-!
C07 — the HTTP/3 response-header byte budget.

`requestStream.ReadResponse` (internal/http3/http_stream.go:222–250): parse the next frame (frames
of unknown and push-related types are skipped WITHOUT being buffered, `io.CopyN(io.Discard, …)`),
insist on HEADERS, compare the DECLARED length with `maxHeaderBytes` BEFORE `make([]byte,
hf.Length)`, then `io.ReadFull`. The trailer path (`connection.decodeTrailers`, conn.go:128) makes
the same comparison. `parseSettingsFrame` refuses payloads above 8 KiB before allocating.

`alloc` is the size of the buffer the code allocates for the frame payload (0 when it refuses or
fails earlier). The declared length is a 62-bit varint chosen by the server; only the comparison
stands between it and `make`.
-/
namespace Req.C07.H3Budget
open Req.Proto Req.H3.Frame

inductive Outcome where
  | block (payload rest : Bytes)     -- the header block was read completely
  | tooLarge (declared : Nat)        -- "HEADERS frame too large"
  | truncated                        -- io.ReadFull failed: stream ended inside the block
  | notHeaders                       -- "expected first frame to be a HEADERS frame"
  | frameError                       -- ParseNext failed (EOF, reserved type, bad SETTINGS)
  deriving DecidableEq, Repr

structure Res where
  out : Outcome
  alloc : Nat
  rest : Bytes          -- what is left unread on the stream
  deriving DecidableEq, Repr

/-- `maxHeaderBytes()` (client.go:139): non-positive = the 10 MiB default -/
def maxHeaderBytes (configured : Int) : Nat :=
  if configured ≤ 0 then 10485760 else configured.toNat

/-- the frame-level part of `ReadResponse` on a stream that delivers `input` and then ends -/
def readHead (max : Nat) (input : Bytes) : Res :=
  match parseNext (input.length + 1) input with
  | (.error _, rest) => ⟨.frameError, 0, rest⟩
  | (.ok (.headers l), rest) =>
    if l > max then ⟨.tooLarge l, 0, rest⟩
    else if rest.length < l then ⟨.truncated, l, []⟩
    else ⟨.block (rest.take l) (rest.drop l), l, rest.drop l⟩
  | (.ok (.settings _), rest) => ⟨.notHeaders, 0, rest⟩
  | (.ok (.data _), rest) => ⟨.notHeaders, 0, rest⟩

/-- class as the lane observes it: which error code the stream / connection is closed with
(`frame-error`: H3_FRAME_ERROR on the stream — a parse failure or a block above the limit;
`truncated`: H3_REQUEST_INCOMPLETE; `not-headers`: H3_FRAME_UNEXPECTED on the connection), how many
bytes were taken from the stream and how large the payload buffer was. -/
def render (input : Bytes) (r : Res) : String :=
  (match r.out with
   | .block _ _ => "block"
   | .tooLarge _ => "frame-error"
   | .truncated => "truncated"
   | .notHeaders => "not-headers"
   | .frameError => "frame-error") ++
  " consumed=" ++ toString (input.length - r.rest.length) ++ " alloc=" ++ toString r.alloc

end Req.C07.H3Budget
