/-!
C07 (round 6) — the HTTP/2 per-stream receive buffer: how much memory a response can make the
client hold, whatever length the server ANNOUNCES.

Code: `internal/http2/databuffer.go` — `dataBuffer{chunks, r, w, size, expected}`,
`getDataBufferChunk(size)` (five size classes 1, 2, 4, 8, 16 KiB; everything above the largest class
gets the largest class), `Write` (`for len(p) > 0 { want := max(len(p), expected); chunk :=
lastChunkOrAlloc(want); n := copy(chunk[w:], p); … }`), `Read` (`for len(p) > 0 && size > 0 { … if r ==
len(chunks[0]) { put; pop; r = 0 } }`). `expected` is the response's `Content-Length`
(transport.go:2654 `setBuffer(&dataBuffer{expected: res.ContentLength})`): a number the SERVER chooses,
of any size, sign and truthfulness.

The model works on chunk capacities (the bytes themselves do not matter for the budget). One event is
one iteration of one of the two loops, so the theorems quantify over every interleaving of partial
writes and partial reads — more than the call sequences the code can produce.
-/
namespace Req.C07.DataBuf

/-- the largest size class of `dataChunkPools` -/
def maxChunk : Nat := 16384

/-- `len(getDataBufferChunk(size))` -/
def chunkClass (want : Int) : Nat :=
  if want ≤ 1024 then 1024
  else if want ≤ 2048 then 2048
  else if want ≤ 4096 then 4096
  else if want ≤ 8192 then 8192
  else 16384

def total : List Nat → Nat
  | [] => 0
  | c :: r => c + total r

def lastCap : List Nat → Nat
  | [] => 0
  | [c] => c
  | _ :: c :: r => lastCap (c :: r)

structure Buf where
  chunks : List Nat := []   -- capacities, oldest first
  r : Nat := 0
  w : Nat := 0
  size : Nat := 0
  expected : Int := 0
  recv : Nat := 0           -- ghost: bytes ever written into the buffer
  deriving Repr, DecidableEq

/-- bytes of memory the buffer holds -/
def Buf.held (b : Buf) : Nat := total b.chunks

/-- `lastChunkOrAlloc(want)`: the buffer with a last chunk that has room -/
def Buf.ensure (b : Buf) (want : Int) : Buf :=
  if b.chunks ≠ [] ∧ b.w < lastCap b.chunks then b
  else { b with chunks := b.chunks ++ [chunkClass want], w := 0 }

/-- one iteration of the loop of `Write` with `n = len(p) > 0` bytes still to copy: the buffer and
the number of bytes copied -/
def Buf.writeStep (b : Buf) (n : Nat) : Buf × Nat :=
  let want : Int := if b.expected > (n : Int) then b.expected else (n : Int)
  let b1 := b.ensure want
  let k := min (lastCap b1.chunks - b1.w) n
  ({ b1 with w := b1.w + k, size := b1.size + k, expected := b1.expected - (k : Int), recv := b1.recv + k }, k)

/-- `Write(p)` with `len(p) = n`; fuel `n` suffices because every iteration copies at least one byte -/
def Buf.write : Nat → Buf → Nat → Buf
  | 0, b, _ => b
  | _, b, 0 => b
  | fuel + 1, b, n + 1 =>
    let (b', k) := b.writeStep (n + 1)
    Buf.write fuel b' (n + 1 - k)

/-- one iteration of the loop of `Read` with `n = len(p) > 0` and `size > 0` -/
def Buf.readStep (b : Buf) (n : Nat) : Buf × Nat :=
  match b.chunks with
  | [] => (b, 0)
  | c :: rest =>
    let avail := if rest = [] then b.w - b.r else c - b.r
    let k := min avail n
    let r' := b.r + k
    if r' = c then ({ b with chunks := rest, r := 0, size := b.size - k }, k)
    else ({ b with r := r', size := b.size - k }, k)

/-- `Read(p)` with `len(p) = n` -/
def Buf.read : Nat → Buf → Nat → Buf
  | 0, b, _ => b
  | fuel + 1, b, n =>
    if n = 0 ∨ b.size = 0 then b
    else
      let (b', k) := b.readStep n
      Buf.read fuel b' (n - k)

inductive Ev where
  | wstep (n : Nat)   -- one iteration of Write's loop, n > 0 bytes left
  | rstep (n : Nat)   -- one iteration of Read's loop, n > 0 bytes wanted
  deriving Repr, DecidableEq

def step (b : Buf) : Ev → Buf
  | .wstep n => if n = 0 then b else (b.writeStep n).1
  | .rstep n => if n = 0 ∨ b.size = 0 then b else (b.readStep n).1

def run (b : Buf) (es : List Ev) : Buf := es.foldl step b

/-- rendering for the differential lane: capacities, r, w, size -/
def render (b : Buf) : String :=
  (if b.chunks.isEmpty then "-" else ",".intercalate (b.chunks.map toString)) ++
  " r=" ++ toString b.r ++ " size=" ++ toString b.size

end Req.C07.DataBuf
