import Req.Base.Ascii
/-!
C07 — table look-ups indexed by a server-chosen byte.

`textproto_reader.go` keeps `isTokenTable` as a `[127]bool` (one entry short of ASCII, as upstream
net/textproto) and `validHeaderFieldByte(b)` guards the index with `int(b) < len(isTokenTable)`.
`validHeaderValueByte` uses a 128-bit mask built from constants and tests `c >= 0x80` first.
Here the table is a list of 127 entries, an out-of-range index is the explicit value `none`
(= Go's index-out-of-range panic), and the guard is part of the model; the theorems in
`Req.Props.C07Total` say the guarded look-up has a value for EVERY byte and equals the RFC 7230
token predicate used everywhere else in the model.
-/
namespace Req.C07.Token
open Req.Ascii

def tableLen : Nat := 127

/-- `isTokenTable` -/
def table : List Bool := (List.range tableLen).map fun n => isTokenByte (UInt8.ofNat n)

/-- `isTokenTable[b]`: `none` = index out of range (a run-time panic in Go) -/
def index (b : UInt8) : Option Bool := table[b.toNat]?

/-- `validHeaderFieldByte`: the guard `int(b) < len(isTokenTable)` comes first -/
def validHeaderFieldByte (b : UInt8) : Option Bool :=
  if b.toNat < tableLen then index b else some false

/-- `validHeaderValueByte` (textproto_reader.go:441): `c >= 0x80` short-cuts, otherwise a bit test
in a 128-bit mask (two uint64 words; the shift amount is `c & 63`, never out of range). -/
def validHeaderValueByte (c : UInt8) : Bool :=
  128 ≤ c || c == 9 || (32 ≤ c && c ≤ 126)

end Req.C07.Token
