import Req.Driver.Proto
/-!
C07 — the HTTP/1.1 response-header byte budget (`MaxResponseHeaderBytes`).

Code: `persistConn.Read` (transport.go:2543–2556) is the reader underneath the connection's
`bufio.Reader` (`pc.br`, size `B` = `readBufferSize()`, 4 KiB by default). It hands the socket a
slice truncated to `pc.readLimit`, subtracts what the socket returned, and fails once the limit is
used up. `readLoop` sets `readLimit = maxHeaderResponseSize()` before each response head
(:2702) and to `maxInt64` once the head is accepted (:2736); `readResponse` sets it again after
every non-terminal 1xx head (:2921), of which at most five are allowed (:2918).

The model is a step function over the events an arbitrary peer / scheduler can cause:

* `net want avail` — `bufio` calls `pc.Read` with `want` bytes of free buffer space while the
  socket has `avail` bytes ready: `min want (min limit avail)` bytes move into the buffer;
* `parse k` — the head parser takes `k` buffered bytes into the response head it is building;
* `endHead interim` — the blank line was parsed: a non-terminal 1xx head is dropped, counted, and
  the limit is set again; any other head is final.

`held` is what the library keeps in memory for the head: the bytes parsed into it plus the bytes
sitting in the read buffer.
-/
namespace Req.C07.H1Budget

inductive Ev where
  | net (want avail : Nat)
  | parse (k : Nat)
  | endHead (interim : Bool)
  deriving DecidableEq, Repr

inductive Phase where
  | head                 -- reading a response head
  | accepted             -- a final head was returned (`readLimit = maxInt64` from here on)
  | exhausted            -- "server response headers exceeded N bytes; aborted"
  | tooMany1xx           -- "too many 1xx informational responses"
  deriving DecidableEq, Repr

structure St where
  L : Nat                -- maxHeaderResponseSize()
  B : Nat                -- size of pc.br
  limit : Nat            -- pc.readLimit (header phase)
  pulled : Nat := 0      -- bytes taken from the socket since the limit was last set
  total : Nat := 0       -- bytes taken from the socket since the response started
  buffered : Nat := 0    -- pc.br.Buffered()
  carry : Nat := 0       -- bytes that were already buffered when the limit was last set
  headSize : Nat := 0    -- bytes parsed into the current head
  num1xx : Nat := 0
  phase : Phase := .head
  deriving DecidableEq, Repr

/-- state at the top of `readLoop`'s `for alive` body: `buffered0` bytes may be left in the buffer
from the body phase of the previous exchange (read-ahead; at most `B`). -/
def init (L B buffered0 : Nat) : St :=
  { L := L, B := B, limit := L, buffered := min buffered0 B, carry := min buffered0 B }

def max1xx : Nat := 5

/-- `persistConn.Read` as seen by `bufio.Reader.fill`: how many bytes arrive (`none` = the
"read limit exhausted" error). `want` is clipped to the free buffer space. -/
def readN (s : St) (want avail : Nat) : Option Nat :=
  if s.limit = 0 then none
  else some (min (min want (s.B - s.buffered)) (min s.limit avail))

def step (s : St) : Ev → St
  | .net want avail =>
    if s.phase != .head then s
    else match readN s want avail with
      | none => { s with phase := .exhausted }
      | some n => { s with limit := s.limit - n, pulled := s.pulled + n, total := s.total + n,
                           buffered := s.buffered + n }
  | .parse k =>
    if s.phase != .head then s
    else
      let k' := min k s.buffered
      { s with buffered := s.buffered - k', headSize := s.headSize + k' }
  | .endHead interim =>
    if s.phase != .head then s
    else if interim then
      if s.num1xx + 1 > max1xx then { s with phase := .tooMany1xx }
      else { s with num1xx := s.num1xx + 1, limit := s.L, pulled := 0, carry := s.buffered, headSize := 0 }
    else { s with phase := .accepted }

def run (s : St) (evs : List Ev) : St := evs.foldl step s

/-- bytes the library holds for the head being read -/
def held (s : St) : Nat := s.headSize + s.buffered

/-! ### `pc.Read` alone (the lane replays the real call sequence through this) -/

/-- one call `pc.Read(p)` with `len(p) = want` when the socket would return `avail` bytes for an
unbounded slice: result and new limit. `none` = the exhausted error (limit unchanged). -/
def pcRead (limit want avail : Nat) : Option (Nat × Nat) :=
  if limit = 0 then none
  else let n := min (min want limit) avail; some (n, limit - n)

end Req.C07.H1Budget
