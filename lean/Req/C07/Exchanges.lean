/-!
C07 (round 6) — how many requests ONE call can put on the wire when the server answers EVERY request
with something that asks for another one.

Three nested loops of the client can be kept going by the server's answers:

* the retry loop of `Request.do` (request.go:700–745): another attempt while the retry condition holds
  and `RetryAttempt < MaxRetries`;
* inside one attempt the redirect loop of the HTTP client (`MaxRedirectPolicy(k)`, redirect.go:16:
  the policy refuses when `len(via) >= k`, i.e. at most `max k 1` requests per chain);
* after the chain the digest middleware (`handleDigestAuthFunc`, digest.go:39): a 401 with an answerable
  challenge is answered by ONE authorized request sent through `client.GetTransport().RoundTrip` — no
  redirect following, and the answer to it is not examined again (C20 `answered_once`).

The server is an arbitrary function from the index of the request (counted per call) to the kind of
answer; the model returns the number of requests and the kind of the last answer.
-/
namespace Req.C07.Exchanges

inductive Ans where
  | ok          -- a final answer nobody reacts to
  | redirect    -- 3xx with a Location the client follows
  | challenge   -- 401 with an answerable Digest challenge (fresh nonce, stale=true or not)
  | again       -- an answer for which the caller's retry condition holds (e.g. 503)
  | stopped     -- (result only) the redirect policy refused to go on
  deriving DecidableEq, Repr

structure Cfg where
  maxRedirects : Nat := 10
  maxRetries : Nat := 0
  digest : Bool := false
  deriving DecidableEq, Repr

/-- one redirect chain starting with request number `i`; `left` = redirects the policy still allows.
Returns the number of the next request and the last answer. -/
def chain (srv : Nat → Ans) : Nat → Nat → Nat × Ans
  | 0, i => (i + 1, if srv i = .redirect then .stopped else srv i)
  | left + 1, i => if srv i = .redirect then chain srv left (i + 1) else (i + 1, srv i)

/-- one attempt: the chain, then at most one authorized re-send -/
def attempt (srv : Nat → Ans) (c : Cfg) (i : Nat) : Nat × Ans :=
  let (j, a) := chain srv (c.maxRedirects - 1) i
  if c.digest ∧ a = .challenge then (j + 1, srv j) else (j, a)

/-- the retry loop: `left` = retries still allowed -/
def attempts (srv : Nat → Ans) (c : Cfg) : Nat → Nat → Nat × Ans
  | 0, i => attempt srv c i
  | left + 1, i =>
    let (j, a) := attempt srv c i
    if a = .again then attempts srv c left j else (j, a)

/-- requests of one call and its last answer -/
def call (srv : Nat → Ans) (c : Cfg) : Nat × Ans := attempts srv c c.maxRetries 0

/-- the bound: `(retries + 1) × (max redirects 1 + digest)` -/
def bound (c : Cfg) : Nat := (c.maxRetries + 1) * ((c.maxRedirects - 1) + 1 + (if c.digest then 1 else 0))

def Ans.ofChar : Char → Option Ans
  | 'O' => some .ok | 'R' => some .redirect | 'C' => some .challenge | 'A' => some .again | _ => none

def Ans.name : Ans → String
  | .ok => "ok" | .redirect => "redirect" | .challenge => "challenge" | .again => "again" | .stopped => "stopped"

/-- a scripted server: the pattern repeated for ever -/
def cyclic (p : List Ans) (i : Nat) : Ans := (p[i % p.length]?).getD .ok

end Req.C07.Exchanges
