import Req.C07.H1Budget
/-!
C07 (round 5) — the HTTP/1.1 response-header budget over a SEQUENCE of responses on one kept-alive
connection.

`persistConn.readLoop` (transport.go:2702–2852) is one `for alive { … }` loop per connection. The
FIRST statement of the loop body sets `pc.readLimit = pc.maxHeaderResponseSize()` (:2704); the body
phase runs with `readLimit = maxInt64` (:2738). The loop goes round in two ways: the `continue` of
the body-less path (:2781 — HEAD, 204, 304, `Content-Length: 0`, 1xx-terminated) and the fall
through after the caller drained the body (:2850). Both arrive at :2704, so the head of EVERY
response on the connection — whatever preceded it — is read under a fresh limit.

Two models:

* event level (`CEv`, `cstep`, `crun`): the head-phase events of `H1Budget` plus the body-phase
  events (`bodyNet`: `pc.Read` with no limit fills the buffer; `bodyTake`: the body reader consumes
  buffered bytes) and `next` (the loop goes round; `viaContinue` says by which of the two paths —
  the model, like the code, does the same thing on both);
* response level (`Resp`, `verdict`, `connRun`): what the caller of the i-th request on the
  connection gets, as a function of the sizes of the heads the peer sends (lane `h1connseq` compares
  this with the real client over a raw TCP peer).
-/
namespace Req.C07.H1Conn
open Req.C07.H1Budget

/-! ### event level -/

inductive CEv where
  | head (e : Ev)                     -- an event of the head phase
  | bodyNet (want avail : Nat)        -- `pc.Read` in the body phase (`readLimit = maxInt64`)
  | bodyTake (k : Nat)                -- the body reader takes `k` buffered bytes
  | next (viaContinue : Bool)         -- `readLoop` goes round (`continue` at :2781 / end of body at :2852)
  deriving DecidableEq, Repr

/-- the top of the loop body: a fresh limit, whatever is buffered is carried over -/
def rearm (s : St) : St :=
  { L := s.L, B := s.B, limit := s.L, buffered := s.buffered, carry := s.buffered }

def cstep (s : St) : CEv → St
  | .head e => step s e
  | .bodyNet want avail =>
    if s.phase != .accepted then s
    else { s with buffered := s.buffered + min (min want (s.B - s.buffered)) avail }
  | .bodyTake k =>
    if s.phase != .accepted then s
    else { s with buffered := s.buffered - min k s.buffered }
  | .next _ =>
    -- exhausted / tooMany1xx: `readLoop` has returned, the connection is gone
    if s.phase != .accepted then s else rearm s

def crun (s : St) (evs : List CEv) : St := evs.foldl cstep s

/-- number of responses accepted so far is not part of the state; the events since the last `next`
are what the budget is about -/
def inHead (s : St) : Bool := s.phase == .head

/-! ### a canonical schedule for one head (refinement of the response level by the event level) -/

/-- one head of exactly `S` bytes delivered to a state with an empty buffer by a peer that sends the
head and then waits (so nothing but head bytes is available): `bufio` fills when its buffer is
empty, the parser takes what is buffered, the blank line ends the head. `fuel` bounds the number of
events (two per socket read). -/
def feed : Nat → St → Nat → St
  | 0, s, _ => s
  | fuel + 1, s, S =>
    if s.phase != .head then s
    else if S ≤ s.headSize then step s (.endHead false)
    else if s.buffered = 0 then feed fuel (step s (.net s.B (S - s.headSize))) S
    else feed fuel (step s (.parse (S - s.headSize))) S

/-! ### response level -/

/-- one response as the peer sends it: the sizes (status line .. blank line) of the non-terminal
1xx heads in front of it and of the final head, whether a body follows, whether it closes. -/
structure Resp where
  interim : List Nat
  final : Nat
  bodiless : Bool
  close : Bool
  deriving DecidableEq, Repr

inductive Out where
  | ok                   -- the final head was accepted
  | tooLarge (pulled : Nat)  -- "server response headers exceeded N bytes; aborted" after `pulled` bytes of that head
  | tooMany              -- "too many 1xx informational responses"
  deriving DecidableEq, Repr

/-- the loop of `readResponse` over the heads the peer sends; `n` = interim heads counted so far.
The number in `tooLarge` is what was taken from the socket for the response when that is determined
(the refused head is the first of the response: exactly `L`), else 0. -/
def verdictGo (L final : Nat) : Nat → List Nat → Out
  | n, [] => if final > L then .tooLarge (if n = 0 then L else 0) else .ok
  | n, h :: rest =>
    if h > L then .tooLarge (if n = 0 then L else 0)
    else if n + 1 > max1xx then .tooMany
    else verdictGo L final (n + 1) rest

/-- `readResponse` on a connection with nothing buffered (`carry = 0`: the peer sends a response
after it has read the request): every head is read under a fresh limit `L`; a head longer than `L`
uses the limit up (exactly `L` bytes are taken from the socket for it); the sixth interim head is
one too many. -/
def verdict (L : Nat) (r : Resp) : Out := verdictGo L r.final 0 r.interim

/-- connection life: index of the connection the i-th response travels on. An error closes the
connection; so does `Connection: close`. The next request dials a new one. -/
def connRun (L : Nat) : Nat → List Resp → List (Out × Nat)
  | _, [] => []
  | c, r :: rest =>
    let o := verdict L r
    let c' := if o == .ok && !r.close then c else c + 1
    (o, c) :: connRun L c' rest

def renderOut : Out × Nat → String
  | (.ok, c) => "ok@" ++ toString c
  | (.tooLarge p, c) => "big@" ++ toString c ++ "/" ++ toString p
  | (.tooMany, c) => "many@" ++ toString c

end Req.C07.H1Conn
