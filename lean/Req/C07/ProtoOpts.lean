import Req.Driver.Proto
/-!
C07 — life cycle of the protocol options of `Transport` (transport.go:515–612, 760–799) and the
three places where a RESPONSE or a request reaches state those setters create or destroy:

* `RoundTrip` (roundtrip.go:29): `resp.ProtoMajor != 3 && t.altSvcJar != nil &&
  t.forceHttpVersion == "" && scheme == "https"` and a non-empty `Alt-Svc` header →
  `handleAltSvc`, which reads `t.altSvcJar`, then WRITES `t.pendingAltSvcs[addr]` (a write to a
  nil map panics) and starts `handlePendingAltSvc`, which calls `t.t3.AddConn` (nil receiver →
  nil dereference in a background goroutine);
* `roundTrip` (transport.go:960): `forceHttpVersion == h3` → `t.t3.RoundTrip(req)`;
* `checkAltSvc` (transport.go:864): `altSvcJar != nil` → reads `pendingAltSvcs` (a read of a nil
  map is fine) and the jar.

The state is the nil-ness of the three fields plus the forced version. Every setter is modelled as
the code does it, including the "Go version not supported" early return of `EnableHTTP3`
(`supported = false`) and `Clone` (copies `forceHttpVersion`, re-enables HTTP/3 iff `t3 != nil`).
Using a nil field is the explicit outcome `Use.panic`.
-/
namespace Req.C07.ProtoOpts

inductive Ver where
  | none | h1 | h2 | h3
  deriving DecidableEq, Repr

structure St where
  jar : Bool := false       -- t.altSvcJar != nil
  pending : Bool := false   -- t.pendingAltSvcs != nil
  t3 : Bool := false        -- t.t3 != nil
  force : Ver := .none      -- t.forceHttpVersion
  deriving DecidableEq, Repr

inductive Op where
  | enableH3 | disableH3 | forceH1 | forceH2 | forceH3 | unforce | clone
  deriving DecidableEq, Repr

/-- `Transport.EnableHTTP3` (`supported`: the Go-version test passes). -/
def enableH3 (supported : Bool) (s : St) : St :=
  if s.t3 then s
  else if !supported then s
  else { s with jar := true, pending := true, t3 := true }

/-- `Transport.DisableHTTP3` -/
def disableH3 (s : St) : St :=
  { jar := false, pending := false, t3 := false, force := if s.force = .h3 then .none else s.force }

/-- `Transport.Clone` (the part that concerns these fields): a fresh transport with the forced
version copied and HTTP/3 enabled again iff the original has a `t3`. -/
def clone (supported : Bool) (s : St) : St :=
  let tt : St := { force := s.force }
  if s.t3 then enableH3 supported tt else tt

def step (supported : Bool) (s : St) : Op → St
  | .enableH3 => enableH3 supported s
  | .disableH3 => disableH3 s
  | .forceH1 => { s with force := .h1 }
  | .forceH2 => { s with force := .h2 }
  | .forceH3 =>
    let s' := enableH3 supported s
    if s'.t3 then { s' with force := .h3 } else s'
  | .unforce => { s with force := .none }
  | .clone => clone supported s

def run (supported : Bool) (s : St) (ops : List Op) : St := ops.foldl (step supported) s

/-- What touching the state does. -/
inductive Use where
  | skip          -- the guarded code is not reached
  | ok            -- reached, every field it uses is non-nil
  | panic         -- reached with a nil field (nil map write / nil receiver)
  deriving DecidableEq, Repr

/-- `RoundTrip`'s Alt-Svc branch for a response that carries an Alt-Svc header with at least one
usable `h3` entry (`https`: request scheme; `respH3`: the response came over HTTP/3). -/
def onAltSvc (s : St) (https respH3 : Bool) : Use :=
  if respH3 || !s.jar || s.force != .none || !https then .skip
  else if !s.pending then .panic           -- t.pendingAltSvcs[addr] = pas on a nil map
  else if !s.t3 then .panic                -- go handlePendingAltSvc → t.t3.AddConn
  else .ok

/-- `roundTrip`'s forced-version dispatch. -/
def onForced (s : St) : Use :=
  match s.force with
  | .h3 => if s.t3 then .ok else .panic    -- t.t3.RoundTrip on a nil receiver
  | .none => .skip
  | _ => .ok

/-- The invariant the setters maintain. -/
def Inv (s : St) : Prop :=
  s.pending = s.jar ∧ s.t3 = s.jar ∧ (s.force = .h3 → s.t3 = true)

/-! ### line protocol -/

def opOfString : String → Option Op
  | "E" => some .enableH3
  | "D" => some .disableH3
  | "1" => some .forceH1
  | "2" => some .forceH2
  | "3" => some .forceH3
  | "U" => some .unforce
  | "C" => some .clone
  | _ => none

def verString : Ver → String
  | .none => "-"
  | .h1 => "1"
  | .h2 => "2"
  | .h3 => "3"

def useString : Use → String
  | .skip => "skip"
  | .ok => "ok"
  | .panic => "panic"

def b01 (b : Bool) : String := if b then "1" else "0"

def render (s : St) : String :=
  "jar=" ++ b01 s.jar ++ " pending=" ++ b01 s.pending ++ " t3=" ++ b01 s.t3 ++ " force=" ++ verString s.force

end Req.C07.ProtoOpts
