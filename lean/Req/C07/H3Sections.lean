import Req.C07.H3Budget
/-!
C07 (round 5) — the HTTP/3 header budget over ALL the field sections of one response: any number
of informational (1xx) sections, the final section, the DATA frames and the trailer section.

Code: `SingleDestinationRoundTripper.doRequest` (internal/http3/client.go:313–343) calls
`requestStream.ReadResponse` (http_stream.go:214–250; model `H3Budget.readHead`) until the status is
not a non-terminal 1xx — at most five of those, the sixth is an error. The caller then drains the
body: `stream.Read` (http_stream.go:73–122) parses frames; DATA payloads are handed through, a
HEADERS frame is the trailer section (`connection.decodeTrailers`, conn.go:128–148: the DECLARED
length is compared with `maxHeaderBytes` before `make([]byte, l)`), a second HEADERS frame or a DATA
frame after the trailers is an error, so is any other known frame.

Every section is compared with the WHOLE limit: nothing is carried from one section to the next, so
there is no subtraction that could wrap (see `Props/C07Seq.lean`, `u64_unguarded_budget_wraps`, for
what an unsigned `limit - used` does once `used > limit`).

The QPACK decoder is external: the status of each successfully read header block is an input
(`statuses`, one per block, in order — the lane passes the statuses it encoded); a block for which
no status is given counts as undecodable.
-/
namespace Req.C07.H3Sections
open Req.Proto Req.H3.Frame Req.C07.H3Budget

inductive Class where
  | ok              -- final head accepted, body (and trailers) read to the end of the stream
  | headError       -- `ReadResponse` failed (frame error, too large, truncated, not HEADERS, undecodable)
  | tooMany1xx      -- "too many 1xx informational responses"
  | bodyError       -- the body reader failed (truncated DATA, frame after trailers, unexpected frame, truncated trailers)
  | trailerTooLarge -- "HEADERS frame too large" for the trailer section: nothing allocated
  deriving DecidableEq, Repr

structure Res where
  cls : Class
  allocs : List Nat        -- every header-block buffer allocated, in order
  rest : Bytes             -- what is left unread on the stream
  deriving DecidableEq, Repr

def max1xx : Nat := 5

def isInterim (status : Nat) : Bool := 100 ≤ status && status ≤ 199 && status != 101

/-- the body phase: `stream.Read` called until it returns an error (`io.EOF` = `ok`). `fuel` bounds
the number of frames (each takes at least two bytes). -/
def body (max : Nat) : Nat → Bool → List Nat → Bytes → Res
  | 0, _, allocs, input => ⟨.bodyError, allocs, input⟩
  | fuel + 1, parsedTrailer, allocs, input =>
    match parseNext (input.length + 1) input with
    | (.error .eof, rest) => ⟨.ok, allocs, rest⟩
    | (.error _, rest) => ⟨.bodyError, allocs, rest⟩
    | (.ok (.data l), rest) =>
      if parsedTrailer then ⟨.bodyError, allocs, rest⟩
      else if rest.length < l then ⟨.bodyError, allocs, []⟩
      else body max fuel parsedTrailer allocs (rest.drop l)
    | (.ok (.headers l), rest) =>
      if parsedTrailer then ⟨.bodyError, allocs, rest⟩
      else if l > max then ⟨.trailerTooLarge, allocs, rest⟩
      else if rest.length < l then ⟨.bodyError, allocs ++ [l], []⟩
      else body max fuel true (allocs ++ [l]) (rest.drop l)
    | (.ok (.settings _), rest) => ⟨.bodyError, allocs, rest⟩

/-- `ReadResponse` did not deliver a decoded head: what was allocated on the way is recorded -/
def headFail (allocs : List Nat) (r : H3Budget.Res) : Res :=
  ⟨.headError, if r.alloc = 0 then allocs else allocs ++ [r.alloc], r.rest⟩

def isBlock : Outcome → Bool
  | .block _ _ => true
  | _ => false

/-- the interim loop of `doRequest` followed by the body phase -/
def heads (max : Nat) : List Nat → Nat → List Nat → Bytes → Res
  | [], _, allocs, input => headFail allocs (readHead max input)
  | st :: sts, n, allocs, input =>
    let r := readHead max input
    if !isBlock r.out then headFail allocs r
    else if isInterim st then
      if n + 1 > max1xx then ⟨.tooMany1xx, allocs ++ [r.alloc], r.rest⟩
      else heads max sts (n + 1) (allocs ++ [r.alloc]) r.rest
    else body max (r.rest.length + 1) false (allocs ++ [r.alloc]) r.rest

/-- a whole exchange on one request stream -/
def readResponse (max : Nat) (statuses : List Nat) (input : Bytes) : Res :=
  heads max statuses 0 [] input

def className : Class → String
  | .ok => "ok"
  | .headError => "head-error"
  | .tooMany1xx => "too-many-1xx"
  | .bodyError => "body-error"
  | .trailerTooLarge => "trailer-too-large"

def render (input : Bytes) (r : Res) : String :=
  className r.cls ++ " allocs=" ++
    (if r.allocs.isEmpty then "-" else ",".intercalate (r.allocs.map toString)) ++
    " consumed=" ++ toString (input.length - r.rest.length)

end Req.C07.H3Sections
