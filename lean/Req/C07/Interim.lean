import Req.Driver.Proto
/-!
C07 — the interim-response loops. The same hand-rolled loop exists three times:

* HTTP/1.1 `persistConn.readResponse` (transport.go:2895–2931): `for { _readResponse …; if
  is1xxNonTerminal { num1xx++; if num1xx > 5 { error }; readLimit reset; continue }; break }`
  (101 is terminal);
* HTTP/2 `clientConnReadLoop.handleResponse` (internal/http2/transport.go:2583–2606): every status
  100–199 (101 included) counts, `cs.num1xx > 5` is an error, a 1xx with END_STREAM is an error;
* HTTP/3 `SingleDestinationRoundTripper.doRequest` (internal/http3/client.go:295–325): as HTTP/1.1.

The input is the sequence of response heads the server sends, reduced to what the loop looks at:
the status code and (HTTP/2) whether the HEADERS frame ended the stream. The model is structurally
recursive on that sequence with an explicit counter; `Outcome.needMore` says the peer stopped
sending before a final head (the real code then blocks in the next read until the connection
ends or the caller's timeout fires — that is a read, not a spin).
-/
namespace Req.C07.Interim

inductive Proto where
  | h1 | h2 | h3
  deriving DecidableEq, Repr

structure Head where
  code : Nat
  endStream : Bool := false
  deriving DecidableEq, Repr

inductive Outcome where
  | final (code : Nat) (skipped : Nat)   -- the head returned to the caller, after `skipped` interim heads
  | tooMany                              -- "too many 1xx informational responses"
  | endStream1xx                         -- HTTP/2: "1xx informational response with END_STREAM flag"
  | needMore (skipped : Nat)             -- the sequence ended before a final head
  deriving DecidableEq, Repr

def max1xx : Nat := 5

/-- is this head skipped by the loop of protocol `p` -/
def isInterim (p : Proto) (h : Head) : Bool :=
  100 ≤ h.code && h.code ≤ 199 && (p == .h2 || h.code != 101)

/-- the loop; `n` = `num1xx` so far -/
def loop (p : Proto) : Nat → List Head → Outcome
  | n, [] => .needMore n
  | n, h :: rest =>
    if isInterim p h then
      if p == .h2 && h.endStream then .endStream1xx
      else if n + 1 > max1xx then .tooMany
      else loop p (n + 1) rest
    else .final h.code n

def run (p : Proto) (hs : List Head) : Outcome := loop p 0 hs

/-- number of heads the loop consumed before it returned -/
def consumed (p : Proto) : Nat → List Head → Nat
  | _, [] => 0
  | n, h :: rest =>
    if isInterim p h then
      if p == .h2 && h.endStream then 1
      else if n + 1 > max1xx then 1
      else 1 + consumed p (n + 1) rest
    else 1

def render : Outcome → String
  | .final c k => "final " ++ toString c ++ " " ++ toString k
  | .tooMany => "too-many"
  | .endStream1xx => "endstream-1xx"
  | .needMore k => "need-more " ++ toString k

end Req.C07.Interim
