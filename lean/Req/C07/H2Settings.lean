import Req.H2.WriteBlock
/-!
C07 (round 5) — what the HTTP/2 client keeps of a peer's SETTINGS values, and why the writers that
use them terminate.

Code: `clientConnReadLoop.processSettingsNoWrite` (internal/http2/transport.go:3006–3075), called
for every non-ACK SETTINGS frame; `ForeachSetting` stops at the first error:

* SETTINGS_MAX_FRAME_SIZE (5): outside `[2^14, 2^24-1]` → connection error PROTOCOL_ERROR, else
  `cc.maxFrameSize = val`;
* SETTINGS_INITIAL_WINDOW_SIZE (4): above `2^31-1` → FLOW_CONTROL_ERROR;
* SETTINGS_MAX_CONCURRENT_STREAMS (3), SETTINGS_MAX_HEADER_LIST_SIZE (6): any value is stored;
* SETTINGS_HEADER_TABLE_SIZE (1, since /repo dc5e1a5): any value is handed to the HPACK encoder
  (`SetMaxDynamicTableSize`; it changes how the next block is encoded, not whether — the lane
  measures the block the peer receives);
* every other identifier (0, 2, 8, unknown) is ignored.

`cc.maxFrameSize` is the chunk size of `ClientConn.writeHeaders` (`for len(hdrs) > 0 { chunk :=
hdrs[:max] … }`, model `H2.Frame.chunks` / `fragments`) and of the request-body writer: a value of 0
makes those loops write empty frames for ever (the caller never gets an answer), a value below 5
with a header priority makes the slice bound negative (panic). The range check is the only thing
between a server-chosen 32-bit number and those loops.
-/
namespace Req.C07.H2Settings
open Req.Proto

inductive Verdict where
  | accept
  | protocolError      -- ConnectionError(ErrCodeProtocol)
  | flowControlError   -- ConnectionError(ErrCodeFlowControl)
  deriving DecidableEq, Repr

def minFrameSize : Nat := 16384
def maxFrameSizeLimit : Nat := 16777215

/-- the `switch s.ID` of `processSettingsNoWrite` as a verdict on one setting -/
def settingVerdict (id val : Nat) : Verdict :=
  if id = 5 then (if val < minFrameSize ∨ val > maxFrameSizeLimit then .protocolError else .accept)
  else if id = 4 then (if val > 2147483647 then .flowControlError else .accept)
  else .accept

/-- the peer-controlled values the connection keeps -/
structure Peer where
  maxFrameSize : Nat := 16384
  initialWindow : Nat := 65535
  maxConcurrent : Nat := 1000
  maxHeaderList : Option Nat := none
  deriving DecidableEq, Repr

def applySetting (p : Peer) (id val : Nat) : Except Verdict Peer :=
  match settingVerdict id val with
  | .accept =>
    .ok (if id = 5 then { p with maxFrameSize := val }
         else if id = 4 then { p with initialWindow := val }
         else if id = 3 then { p with maxConcurrent := val }
         else if id = 6 then { p with maxHeaderList := some val }
         else p)
  | v => .error v

/-- one SETTINGS frame (`ForeachSetting` stops at the first error) -/
def applyFrame : Peer → List (Nat × Nat) → Except Verdict Peer
  | p, [] => .ok p
  | p, (id, val) :: rest =>
    match applySetting p id val with
    | .ok p' => applyFrame p' rest
    | .error v => .error v

/-- a sequence of SETTINGS frames on one connection -/
def applyFrames : Peer → List (List (Nat × Nat)) → Except Verdict Peer
  | p, [] => .ok p
  | p, f :: rest =>
    match applyFrame p f with
    | .ok p' => applyFrames p' rest
    | .error v => .error v

/-- what a caller observes of a connection whose first SETTINGS frame is `f` and that then serves a
request with a header block of `blockLen` bytes (no header priority): an error (the connection is
torn down with that code) or a response, the first HEADERS frame of the request carrying
`min blockLen maxFrameSize` bytes. (MAX_CONCURRENT_STREAMS has no part in this: a connection that
cannot take another stream is passed over for a new one, and the client speaks before it has seen
the peer's SETTINGS; a limit of 0 is oracle-judged in the lane.) -/
def callOutcome (f : List (Nat × Nat)) (blockLen : Nat) : String :=
  match applyFrame {} f with
  | .error .protocolError => "conn-error 1"
  | .error .flowControlError => "conn-error 3"
  | .error .accept => "bad-op"
  | .ok p => "response first=" ++ toString (min blockLen p.maxFrameSize)

end Req.C07.H2Settings
