/-!
C01, round 7 — `Expect: 100-continue` on HTTP/1.1: what ends the write loop's wait before the body
(`persistConn.writeLoop` waits on `continueCh`; transport.go) and what that means for the bytes on
the connection.

* the `ExpectContinueTimeout` timer fires            → the body is written;
* `readResponse` reads `100 Continue`                → `continueCh <- struct{}{}`: the body is written;
* `readResponse` reads a FINAL status first          →
    `if resp.Close || rc.treq.Request.Close { close(continueCh) /* no body; the connection will
     close */ } else { continueCh <- struct{}{} /* send the body */ }`.

A connection goes back to the idle pool only when neither side asked to close it
(`readLoop`: `alive = !resp.Close && !rc.treq.Request.Close && …`).
-/
namespace Req.H1.Expect

abbrev Bytes := List UInt8

/-- what ended the wait on `continueCh` -/
inductive Wake where
  | timer
  | continue100
  /-- a final (non-1xx) status arrived first; `respClose`: it carries `Connection: close` -/
  | final (respClose : Bool)
deriving Repr, DecidableEq

/-- does the write loop write the body? (`reqClose` = `Request.Close`) -/
def sendsBody (reqClose : Bool) : Wake → Bool
  | .timer => true
  | .continue100 => true
  | .final respClose => !(respClose || reqClose)

/-- may the connection carry another request after an exchange whose final response said
`respClose`? -/
def reusable (reqClose respClose : Bool) : Bool := !(respClose || reqClose)

/-- everything the client puts on ONE connection: the head of the request, its body as framed by
the head (`framed`) when the write loop sends it, and — when the connection is reused — the bytes
of the next request. `respClose` is the final response's `Connection: close`. -/
def connBytes (reqClose respClose : Bool) (w : Wake) (head framed next : Bytes) : Bytes :=
  head ++ (if sendsBody reqClose w then framed else []) ++ (if reusable reqClose respClose then next else [])

/-- an origin that has read the head reads the `n` bytes the head announced as the request's
content; what is left is where it looks for the next request. -/
def originSplit (n : Nat) (afterHead : Bytes) : Bytes × Bytes := (afterHead.take n, afterHead.drop n)

end Req.H1.Expect
