import Req.Base.Ascii
/-!
Line reading as the HTTP/1.1 response reader of /repo does it.

`textprotoReader.readLineSlice(-1)` over `bufio.Reader.ReadLine` (textproto_reader.go:82):
the bytes up to the first LF, minus the LF and ONE CR right before it.  When the stream ends
before an LF the non-empty remainder is returned as a line (no CR stripping: `ReadLine` only
strips when the last byte is LF); an empty remainder is `io.EOF`.

The concatenation of `isPrefix` fragments makes the result independent of the read-buffer size
`B`, with one exception that never changes an accept/reject verdict: an unterminated final
line whose length is an exact multiple of `B` is reported as EOF instead of as a line
(bufio reports `isPrefix` and the next call hits EOF).  Every caller of `readLine` in this
model rejects in both situations (a header block needs a terminated blank line after it), and
the comparison with the code is by verdict, so the model keeps the `B`-free reading.

The stream argument of every function is "these bytes, then end of input".
-/
namespace Req.H1
open Req.Proto

abbrev LF : UInt8 := 10
abbrev CR : UInt8 := 13
abbrev SP : UInt8 := 32
abbrev HT : UInt8 := 9

/-- Split at the first LF: `(before, after)`; `none` when there is no LF. -/
def splitLF : Bytes → Option (Bytes × Bytes)
  | [] => none
  | c :: cs =>
    if c = LF then some ([], cs)
    else match splitLF cs with
      | some (a, b) => some (c :: a, b)
      | none => none

/-- Drop one trailing CR (`drop = 2` in `bufio.Reader.ReadLine`). -/
def stripCR : Bytes → Bytes
  | [] => []
  | [c] => if c = CR then [] else [c]
  | c :: d :: cs => c :: stripCR (d :: cs)

/-- One line and the remaining stream; `none` = `io.EOF`. -/
def readLine (s : Bytes) : Option (Bytes × Bytes) :=
  match s with
  | [] => none
  | _ :: _ =>
    match splitLF s with
    | some (a, rest) => some (stripCR a, rest)
    | none => some (s, [])

def isOWS (c : UInt8) : Bool := c = SP || c = HT

/-- `trim` of textproto_reader.go:107 — spaces and tabs off both ends. -/
def trimOWS (s : Bytes) : Bytes :=
  ((s.dropWhile isOWS).reverse.dropWhile isOWS).reverse

/-- `textproto.isASCIISpace`. -/
def isASCIISpace (c : UInt8) : Bool := c = SP || c = HT || c = LF || c = CR

/-- `textproto.TrimString`. -/
def trimString (s : Bytes) : Bytes :=
  ((s.dropWhile isASCIISpace).reverse.dropWhile isASCIISpace).reverse

/-- Cut at the first occurrence of byte `b` (`strings.Cut` / `bytes.Cut` with a 1-byte sep). -/
def cutByte (b : UInt8) : Bytes → Option (Bytes × Bytes)
  | [] => none
  | c :: cs =>
    if c = b then some ([], cs)
    else match cutByte b cs with
      | some (x, y) => some (c :: x, y)
      | none => none

/-- Split on every occurrence of `b` (`strings.Split(s, ",")`): always at least one piece. -/
def splitOnByte (b : UInt8) : Bytes → List Bytes
  | [] => [[]]
  | c :: cs =>
    match splitOnByte b cs with
    | [] => [[c]]          -- unreachable: the result is never empty
    | p :: ps => if c = b then [] :: p :: ps else (c :: p) :: ps

end Req.H1
