import Req.H1.RequestWrite
/-!
C01 — the validation `Transport.roundTrip` (transport.go) applies to an `*http.Request` before any
connection is used, followed by `persistConn.writeRequest` (`serializeH1`):

* `validateHeaders(req.Header)` — every name a token, every value free of control bytes
  (`httpguts.ValidHeaderFieldName/Value`),
* `req.Method != "" && !validMethod(req.Method)`,
* `req.URL.Host == ""`.

(`validateHeaders(req.Trailer)` is vacuous: req's client never sets a trailer. The transport's own
extra headers — `Accept-Encoding: gzip` … — are added later and are not validated.)
-/
namespace Req.H1
open Req.Proto Req.Validate Req.HeaderSort

inductive SendErr where
  | invalidHeader
  | invalidMethod
  | noHost
  | write (e : WErr)
deriving Repr, DecidableEq

/-- the header map as `validateHeaders` sees it -/
def headerPairs (h : Hdr) : List (Bytes × List Bytes) := h.map fun kv => (kv.key, kv.values)

/-- the checks of `Transport.roundTrip`, in the order of the code. -/
def roundTripChecks (r : WReq) : Except SendErr Unit :=
  if !headersValid (headerPairs r.header) then .error .invalidHeader
  else if !r.method.isEmpty && !validMethod r.method then .error .invalidMethod
  else if r.url.host.isEmpty then .error .noHost
  else .ok ()

/-- `Transport.roundTrip` + `persistConn.writeRequest` on a fresh HTTP/1.1 connection: the bytes
put on the wire, or the error the call returns. -/
def sendH1 (r : WReq) : Except SendErr Bytes :=
  match roundTripChecks r with
  | .error e => .error e
  | .ok () =>
    match serializeH1 r with
    | .error e => .error (.write e)
    | .ok w => .ok w

end Req.H1
