import Req.Driver.Proto
/-!
Model of the line reader under the HTTP/1.1 response-head parser.

* `Rd` — the abstract state of a `bufio.Reader` of size `B` over a scripted `io.Reader`:
  the unread buffered bytes `b.buf[b.r:b.w]`, the pending error `b.err`, and the rest of the
  script (one `Chunk` per successful `Read` result; a chunk larger than the free space is handed
  out in pieces, an error attached to a chunk is delivered with its last piece, an exhausted
  script answers `(0, io.EOF)` for ever).
* `fill`, `readSlice` ('\n' delimiter), `readLine`, `readByte`, `unreadByte`: Go 1.23.5
  `bufio.(*Reader).fill/ReadSlice/ReadLine/ReadByte/UnreadByte`.
* `dumpReadLineOld`: the closure installed by `newTextprotoReader` when response-header dump is
  on, as it stands in textproto_reader.go:46-67 of the pinned tree (swallows `ErrBufferFull`,
  never reports `isPrefix`).
* `dumpReadLine`: the same closure after fixes/C13-1 (handles `ErrBufferFull` exactly like
  `bufio.ReadLine`, dumps what it consumed).
* `readLineSlice`: `(*textprotoReader).readLineSlice(lim)` — the accumulation loop — generic in
  the `readLine` it is given.
* `skipSpace`: `(*textprotoReader).skipSpace` (ReadByte/UnreadByte loop) with the bytes it ate.

`bufio.NewReaderSize` enforces `B ≥ 16`; the model functions are total for every `B`, the
theorems state the bound where they need it. Not modelled: an underlying reader that itself
returns `bufio.ErrBufferFull`, negative read counts.
-/
namespace Req.H1.BufLine
open Req.Proto

/-- Errors of the underlying reader. -/
inductive SrcErr
  | eof
  | other (code : Nat)
  deriving DecidableEq, Repr

/-- Errors `ReadSlice` & co. can return. `stuck` marks exhausted recursion fuel; it is proved
unreachable (`readSlice_not_stuck`), it is not a Go behaviour. -/
inductive RErr
  | src (e : SrcErr)
  | noProgress
  | bufferFull
  | tooLarge
  | stuck
  deriving DecidableEq, Repr

/-- Go's `(value, error)` result. -/
inductive Res (α : Type) where
  | ok (a : α)
  | error (e : RErr)
  deriving DecidableEq, Repr

structure Chunk where
  data : Bytes
  err : Option SrcErr := none
  deriving DecidableEq, Repr

structure Rd where
  buf : Bytes
  err : Option RErr
  src : List Chunk
  deriving DecidableEq, Repr

/-- Fresh reader over a script. -/
def Rd.ofSrc (src : List Chunk) : Rd := ⟨[], none, src⟩

def srcBytes : List Chunk → Bytes
  | [] => []
  | c :: cs => c.data ++ srcBytes cs

/-- Every byte not yet handed to a caller. -/
def Rd.bytes (st : Rd) : Bytes := st.buf ++ srcBytes st.src

/-- One `Read(p)` with `len(p) = cap`. -/
def srcRead (cap : Nat) : List Chunk → Bytes × Option SrcErr × List Chunk
  | [] => ([], some .eof, [])
  | c :: rest =>
    if c.data.length ≤ cap then (c.data, c.err, rest)
    else (c.data.take cap, none, { c with data := c.data.drop cap } :: rest)

/-- `fill`'s read loop (`maxConsecutiveEmptyReads` tries). Caller guarantees free space. -/
def fillLoop (B : Nat) : Nat → Rd → Rd
  | 0, st => { st with err := some .noProgress }
  | i + 1, st =>
    match srcRead (B - st.buf.length) st.src with
    | (d, some e, src') => { buf := st.buf ++ d, err := some (.src e), src := src' }
    | (d, none, src') =>
      if d.length > 0 then { buf := st.buf ++ d, err := st.err, src := src' }
      else fillLoop B i { buf := st.buf ++ d, err := st.err, src := src' }

def fill (B : Nat) (st : Rd) : Rd := fillLoop B 100 st

/-- Split after the first '\n'. -/
def cutNL : Bytes → Option (Bytes × Bytes)
  | [] => none
  | c :: cs =>
    if c = 10 then some ([c], cs)
    else match cutNL cs with
      | some (l, r) => some (c :: l, r)
      | none => none

structure SliceRes where
  line : Bytes
  err : Option RErr
  deriving DecidableEq, Repr

def readSliceLoop (B : Nat) : Nat → Rd → SliceRes × Rd
  | 0, st => (⟨[], some .stuck⟩, st)
  | f + 1, st =>
    match cutNL st.buf with
    | some (line, rest) => (⟨line, none⟩, { st with buf := rest })
    | none =>
      match st.err with
      | some e => (⟨st.buf, some e⟩, { st with buf := [], err := none })
      | none =>
        if B ≤ st.buf.length then (⟨st.buf, some .bufferFull⟩, { st with buf := [] })
        else readSliceLoop B f (fill B st)

/-- `ReadSlice('\n')`. At most `B` fills can add a byte before the buffer is full. -/
def readSlice (B : Nat) (st : Rd) : SliceRes × Rd := readSliceLoop B (B + 2) st

structure LineRes where
  line : Bytes
  isPrefix : Bool
  err : Option RErr
  deriving DecidableEq, Repr

def lastIs (c : UInt8) (l : Bytes) : Bool := l.getLast? == some c

/-- Drop a final "\n" or "\r\n". -/
def dropEOL (line : Bytes) : Bytes :=
  if lastIs 10 line then
    (if lastIs 13 line.dropLast then line.dropLast.dropLast else line.dropLast)
  else line

/-- `bufio.(*Reader).ReadLine`. -/
def readLine (B : Nat) (st : Rd) : LineRes × Rd :=
  match readSlice B st with
  | (r, st1) =>
    if r.err = some .bufferFull then
      if lastIs 13 r.line then
        -- "\r\n" may straddle the buffer: put the '\r' back (b.r--), drop it from the line
        (⟨r.line.dropLast, true, none⟩, { st1 with buf := 13 :: st1.buf })
      else (⟨r.line, true, none⟩, st1)
    else if r.line = [] then (⟨[], false, r.err⟩, st1)
    else (⟨dropEOL r.line, false, none⟩, st1)

/-- A `readLine` together with what it hands to `Dumpers.DumpResponseHeader`. -/
abbrev LineFn := Rd → LineRes × Rd × Bytes

def plainReadLine (B : Nat) : LineFn := fun st =>
  match readLine B st with
  | (r, st1) => (r, st1, [])

/-- The dumping closure as it is in the pinned tree: `err = nil` unconditionally, `isPrefix`
never set, the whole slice dumped. -/
def dumpReadLineOld (B : Nat) : LineFn := fun st =>
  match readSlice B st with
  | (r, st1) =>
    if r.line = [] then (⟨[], false, r.err⟩, st1, [])
    else (⟨dropEOL r.line, false, none⟩, st1, r.line)

/-- The dumping closure after fixes/C13-1. -/
def dumpReadLine (B : Nat) : LineFn := fun st =>
  match readSlice B st with
  | (r, st1) =>
    if r.err = some .bufferFull then
      if lastIs 13 r.line then
        (⟨r.line.dropLast, true, none⟩, { st1 with buf := 13 :: st1.buf }, r.line.dropLast)
      else (⟨r.line, true, none⟩, st1, r.line)
    else if r.line = [] then (⟨[], false, r.err⟩, st1, [])
    else (⟨dropEOL r.line, false, none⟩, st1, r.line)

/-- `lim >= 0 && len(line)+len(l) > lim`. -/
def overLimit (lim : Option Nat) (n : Nat) : Bool :=
  match lim with
  | some l => l < n
  | none => false

structure SliceLineRes where
  res : Res Bytes
  st : Rd
  dumped : Bytes

def readLineSliceLoop (rl : LineFn) (lim : Option Nat) : Nat → Bytes → Bytes → Rd → SliceLineRes
  | 0, _, d, st => ⟨.error .stuck, st, d⟩
  | f + 1, acc, d, st =>
    match rl st with
    | (r, st1, d1) =>
      match r.err with
      | some e => ⟨.error e, st1, d ++ d1⟩
      | none =>
        if overLimit lim (acc.length + r.line.length) then ⟨.error .tooLarge, st1, d ++ d1⟩
        else if r.isPrefix then readLineSliceLoop rl lim f (acc ++ r.line) (d ++ d1) st1
        else ⟨.ok (acc ++ r.line), st1, d ++ d1⟩

/-- `readLineSlice(lim)`; every `isPrefix` round consumes at least `B-1 ≥ 1` bytes. -/
def readLineSlice (rl : LineFn) (lim : Option Nat) (st : Rd) : SliceLineRes :=
  readLineSliceLoop rl lim (st.bytes.length + 2) [] [] st

/-- `ReadByte`: `none` = an error was returned (and cleared). -/
def readByteLoop (B : Nat) : Nat → Rd → Res UInt8 × Rd
  | 0, st => (.error .stuck, st)
  | f + 1, st =>
    match st.buf with
    | c :: rest => (.ok c, { st with buf := rest })
    | [] =>
      match st.err with
      | some e => (.error e, { st with err := none })
      | none => readByteLoop B f (fill B st)

def readByte (B : Nat) (st : Rd) : Res UInt8 × Rd := readByteLoop B 2 st

def isSpTab (c : UInt8) : Bool := c = 32 || c = 9

/-- `skipSpace`: eats SP/TAB through ReadByte, un-reads the first other byte; returns the
eaten bytes (Go returns their number). -/
def skipSpaceLoop (B : Nat) : Nat → Bytes → Rd → Bytes × Rd
  | 0, acc, st => (acc, st)
  | f + 1, acc, st =>
    match readByte B st with
    | (.error _, st1) => (acc, st1)
    | (.ok c, st1) =>
      if isSpTab c then skipSpaceLoop B f (acc ++ [c]) st1
      else (acc, { st1 with buf := c :: st1.buf })

def skipSpace (B : Nat) (st : Rd) : Bytes × Rd := skipSpaceLoop B (st.bytes.length + 1) [] st

/-- Any parser written on top of the text reader: it may call `readLine` (the replaceable
closure), look at the reader (`Peek`, `Buffered`), change it without consuming (`Peek`'s fill),
or eat bytes directly (`skipSpace`'s ReadByte loop) — `ReadLine`, `readContinuedLineSlice`,
`ReadMIMEHeader`, `upcomingHeaderKeys` are all of this shape. -/
inductive Prog (α : Type) where
  | ret (a : α)
  | line (k : LineRes → Prog α)
  | look (k : Rd → Prog α)
  | upd (f : Rd → Rd) (k : Prog α)
  | eat (f : Rd → Bytes × Rd) (k : Bytes → Prog α)

/-- Run a parser with a given `readLine`; `dumpEaten` = the directly eaten bytes are handed to
the dumper too (fixes/C13-2). -/
def Prog.run {α : Type} (rl : LineFn) (dumpEaten : Bool) : Prog α → Rd → Bytes → α × Rd × Bytes
  | .ret a, st, d => (a, st, d)
  | .line k, st, d =>
    match rl st with
    | (r, st1, d1) => (k r).run rl dumpEaten st1 (d ++ d1)
  | .look k, st, d => (k st).run rl dumpEaten st d
  | .upd f k, st, d => k.run rl dumpEaten (f st) d
  | .eat f k, st, d =>
    match f st with
    | (e, st1) => (k e).run rl dumpEaten st1 (if dumpEaten then d ++ e else d)

/-- A parser is *accounted* when its direct state changes do not consume and its direct eating
returns exactly what it removed. -/
def Prog.Accounted {α : Type} : Prog α → Prop
  | .ret _ => True
  | .line k => ∀ r, (k r).Accounted
  | .look k => ∀ st, (k st).Accounted
  | .upd f k => (∀ st, (f st).bytes = st.bytes) ∧ k.Accounted
  | .eat f k => (∀ st, (f st).1 ++ (f st).2.bytes = st.bytes) ∧ ∀ e, (k e).Accounted

end Req.H1.BufLine
