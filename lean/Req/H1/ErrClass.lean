import Req.H1.Response
/-!
Error KINDS of the HTTP/1.1 response reader, as a conservative extension of
`Req.H1.Response`: the same readers, returning a small canonical error class instead of a bare
rejection.  Erasing the class gives back `parseResponse` (`Req.Props.C04Err`).

| class | Go errors (fork: transport.go / textproto_reader.go / transfer.go / internal/chunked.go; reference: net/http, net/textproto, net/http/internal of go1.23.5) |
|---|---|
| `eof` | `io.ErrUnexpectedEOF` (status line, header block, declared length, chunk line, chunk data, CRLF after chunk data), `errTrailerEOF` |
| `statusLine` | "malformed HTTP response", "malformed HTTP status code", "malformed HTTP version" |
| `header` | `textproto.ProtocolError` "malformed MIME header …" (no colon on the first line, bad key, invalid value byte, initial line starting with a blank) — head and trailer |
| `transferEncoding` | "unsupported transfer encoding", "too many transfer encodings" |
| `contentLength` | "bad Content-Length", "invalid empty Content-Length", "http: message cannot contain multiple Content-Length headers" |
| `trailerKey` | "bad trailer key" |
| `chunk` | "malformed chunked encoding", "empty hex number for chunk length", "invalid byte in chunk length", "http chunk length too large", "chunked encoding contains too much non-data" |
| `tooLong` | `ErrLineTooLong` "header line too long" (chunk-size line), "http: suspiciously long trailer after chunked body", "message too large" (an initial blank-led line of more than 80 bytes) |

The class depends on the read-buffer size `B` in one more place than the verdict does: an
unterminated final line whose fragments fill the buffer exactly is reported by
`bufio.Reader.ReadLine` as `io.EOF` (class `eof`) instead of as a line (whose content would then
be judged: `statusLine`/`header`).  `untermEOF` reproduces the fragment walk, including the CR
that `ReadLine` puts back when it is the last byte of a full buffer.
-/
namespace Req.H1
open Req.Proto Req.Ascii

inductive ErrClass where
  | eof | statusLine | header | transferEncoding | contentLength | trailerKey | chunk | tooLong
deriving Repr, BEq, DecidableEq

/-- `readLineSlice` over `bufio.Reader.ReadLine` on an UNTERMINATED remainder `s` (no LF):
does it end in `io.EOF` (true) or return `s` as a line (false)?  Full fragments of `B` bytes
(`B - 1` when the last one is a CR, which is put back) are taken while at least `B` bytes
remain; `io.EOF` iff nothing is left then. -/
def untermEOF (B : Nat) : Nat → Bytes → Bool
  | 0, _ => true
  | fuel + 1, s =>
    if s.isEmpty then true
    else if s.length < B then false
    else if B ≤ 1 then false                 -- not a bufio size (minimum 16); keeps the walk total
    else if (s.drop (B - 1)).head? == some CR then untermEOF B fuel (s.drop (B - 1))
    else untermEOF B fuel (s.drop B)

/-- `readLineSlice(-1)`: as `readLine`, except for the unterminated-remainder corner. -/
def readLineB (B : Nat) (s : Bytes) : Option (Bytes × Bytes) :=
  match s with
  | [] => none
  | _ :: _ =>
    match splitLF s with
    | some (a, rest) => some (stripCR a, rest)
    | none => if untermEOF B (s.length + 1) s then none else some (s, [])

/-- `readCont` over `readLineB`. -/
def readContB (B : Nat) : Nat → Bytes → Bytes → Bytes × Bytes
  | 0, acc, s => (acc, s)
  | fuel + 1, acc, s =>
    let n := countOWS s
    if n = 0 then (acc, s)
    else
      match readLineB B (s.drop n) with
      | none => (acc ++ [SP], [])
      | some (l, rest) => readContB B fuel (acc ++ [SP] ++ trimOWS l) rest

/-- `mimeLoop` with classes. -/
def mimeLoopE (B : Nat) : Nat → HeaderMap → Bytes → Except ErrClass (HeaderMap × Bytes)
  | 0, _, _ => .error .eof
  | fuel + 1, m, s =>
    match readLineB B s with
    | none => .error .eof
    | some (l, rest) =>
      if l.isEmpty then .ok (m, rest)
      else if !(l.contains 58) then .error .header
      else
        let (kv, rest') := readContB B (rest.length + 1) (trimOWS l) rest
        match addHeaderLine m kv with
        | none => .error .header
        | some m' => mimeLoopE B fuel m' rest'

/-- The "first line cannot start with a leading space" exit of `readMIMEHeader`:
`readLineSlice(80)` fails with "message too large" when the line has more than 80 bytes, with
`io.EOF` in the unterminated-remainder corner, else the protocol error is returned. -/
def initialBlankClass (B : Nat) (s : Bytes) : ErrClass :=
  match splitLF s with
  | some (a, _) => if (stripCR a).length > 80 then .tooLong else .header
  | none =>
    if s.length > 80 then .tooLong
    else if untermEOF B (s.length + 1) s then .eof
    else .header

def readMIMEHeaderE (B : Nat) (s : Bytes) : Except ErrClass (HeaderMap × Bytes) :=
  match s with
  | c :: _ => if isOWS c then .error (initialBlankClass B s) else mimeLoopE B (s.length + 1) [] s
  | [] => .error .eof

/-- Which step of `readTransfer` fails (meaningful when it does). -/
def readTransferClass (isHead : Bool) (sl : StatusLine) (h0 : HeaderMap) : ErrClass :=
  let (_, h1) := shouldClose sl.major sl.minor h0
  let (maj, mi) := if sl.major = 0 ∧ sl.minor = 0 then (1, 1) else (sl.major, sl.minor)
  match parseTransferEncoding maj mi h1 with
  | none => .transferEncoding
  | some (chunked, h2) =>
    match fixLength sl.code isHead h2 chunked with
    | none => .contentLength
    | some (_, h3) =>
      match fixTrailer h3 chunked with
      | none => .trailerKey
      | some _ => .contentLength           -- the HEAD re-parse of Content-Length (never fails after fixLength)

def parseHeadE (B : Nat) (isHead : Bool) (s : Bytes) : Except ErrClass (Msg × Bytes) :=
  match readLineB B s with
  | none => .error .eof
  | some (line, r) =>
    match parseStatusLine line with
    | none => .error .statusLine
    | some sl =>
      match readMIMEHeaderE B r with
      | .error e => .error e
      | .ok (h, r') =>
        match readTransfer isHead sl (fixPragmaCacheControl h) with
        | none => .error (readTransferClass isHead sl (fixPragmaCacheControl h))
        | some m => .ok (m, r')

/-! ### body -/

/-- `chunkLoop` with classes. -/
def chunkLoopE : Nat → Nat → Int → Bytes → Bytes × Except ErrClass Bytes
  | 0, _, _, _ => ([], .error .eof)
  | fuel + 1, B, ex, s =>
    match readChunkLine B s with
    | none =>
      -- `ReadSlice`: no LF within the first `B` bytes → ErrBufferFull → ErrLineTooLong; stream
      -- ends first → ErrUnexpectedEOF; a line of 4096 bytes or more → ErrLineTooLong
      ([], .error (match splitLF s with
        | none => if B ≤ s.length then .tooLong else .eof
        | some _ => .tooLong))
    | some (line, r) =>
      match parseHexUint (chunkSizeField line) with
      | none => ([], .error .chunk)
      | some n =>
        let ex1 : Int := max (wrap64 (ex + (line.length : Int) + 2 - (16 + 2 * (n : Int)))) 0
        if n = 0 then ([], .ok r)
        else if ex1 > 16 * 1024 then ([], .error .chunk)
        else if r.length < n then (r, .error .eof)
        else
          match r.drop n with
          | 13 :: 10 :: r3 =>
            let (d, e) := chunkLoopE fuel B ex1 r3
            (r.take n ++ d, e)
          | _ => (r.take n, .error (if (r.drop n).length < 2 then .eof else .chunk))

def decodeChunkedE (B : Nat) (s : Bytes) : Bytes × Except ErrClass Bytes :=
  chunkLoopE (s.length + 1) B 0 s

/-- `readTrailer` with classes; the trailer block is read by the standard library's
`textproto.Reader.ReadMIMEHeader` over the same `bufio.Reader`. -/
def readTrailerE (B : Nat) (decl : HeaderMap) (s : Bytes) : Except ErrClass (HeaderMap × Bytes) :=
  match s with
  | 13 :: 10 :: r => .ok (decl, r)
  | _ =>
    if s.length < 2 then .error .eof
    else if !hasDCRLF (s.take B) then .error .tooLong
    else match readMIMEHeaderE B s with
      | .error e => .error e
      | .ok (hdr, r) => .ok (mergeTrailer decl hdr, r)

/-- `readBody` with the class of the error that ended it (`none` = `io.EOF`). -/
def readBodyE (B : Nat) (m : Msg) (s : Bytes) : BodyRes × Option ErrClass :=
  let decl := declMap m.trailerDecl
  match m.framing with
  | .none => (⟨[], true, decl, s⟩, none)
  | .length n =>
    if n ≤ s.length then (⟨s.take n, true, decl, s.drop n⟩, none)
    else (⟨s, false, decl, []⟩, some .eof)
  | .untilClose => (⟨s, true, decl, []⟩, none)
  | .chunked =>
    match decodeChunkedE B s with
    | (d, .error c) => (⟨d, false, decl, []⟩, some c)
    | (d, .ok r) =>
      match readTrailerE B decl r with
      | .error c => (⟨d, false, decl, []⟩, some c)
      | .ok (tr, rest) => (⟨d, true, tr, rest⟩, none)

inductive OutcomeE where
  | reject (c : ErrClass)
  | resp (m : Msg) (b : BodyRes) (bodyErr : Option ErrClass)
deriving Repr, BEq, DecidableEq

def parseResponseE (isHead : Bool) (B : Nat) (s : Bytes) : OutcomeE :=
  match parseHeadE B isHead s with
  | .error c => .reject c
  | .ok (m, r) => let (b, e) := readBodyE B m r; .resp m b e

/-- Forget the classes. -/
def OutcomeE.erase : OutcomeE → Outcome
  | .reject _ => .reject
  | .resp m b _ => .resp m b

end Req.H1
