import Req.H1.RequestWrite
/-!
A small, strict, independent HTTP/1.1 ORIGIN: `parseRequestH1 : Bytes → Option (View × rest)`.
It reads ONE request from the front of a byte stream — request line, header lines (name, value
with optional white space removed, in wire order), and a body framed by Content-Length or by
chunked transfer coding — and returns what is left of the stream. It is written from RFC 9112,
not from the client code; `Props/C01.lean: h1_fidelity` relates it to `serializeH1`.

Strictness: every line ends in CR LF, a bare CR is an error, a field line needs a non-empty name
and a colon, Transfer-Encoding must be exactly `chunked` and excludes Content-Length, at most one
Content-Length, chunk sizes are hex digits only, no trailers.
-/
namespace Req.H1.Origin
open Req.Proto Req.Ascii Req.BStr

structure View where
  method : Bytes
  target : Bytes
  /-- header fields in wire order, values without surrounding optional white space -/
  fields : List (Bytes × Bytes)
  body : Bytes
deriving DecidableEq, Repr

def isOWS (b : UInt8) : Bool := b == 32 || b == 9

def trimOWSLeft : Bytes → Bytes
  | [] => []
  | c :: t => if isOWS c then trimOWSLeft t else c :: t

/-- field value with leading and trailing SP / HTAB removed (RFC 9110 §5.5). -/
def trimOWS (v : Bytes) : Bytes := (trimOWSLeft (trimOWSLeft v).reverse).reverse

/-- read up to the first CR LF: `(line, rest)`; `cur` is the reversed line so far. -/
def readLine : Bytes → Bytes → Option (Bytes × Bytes)
  | [], _ => none
  | c :: t, cur =>
    if c == 13 then
      match t with
      | d :: rest => if d == 10 then some (cur.reverse, rest) else none
      | [] => none
    else readLine t (c :: cur)

/-- `method SP target SP HTTP/1.1` -/
def parseRequestLine (l : Bytes) : Option (Bytes × Bytes) :=
  match cut 32 l with
  | (m, r1, true) =>
    match cut 32 r1 with
    | (t, ver, true) => if ver == sHTTP11 && !m.isEmpty && !t.isEmpty then some (m, t) else none
    | (_, _, false) => none
  | (_, _, false) => none

/-- `name ":" OWS value OWS` -/
def parseFieldLine (l : Bytes) : Option (Bytes × Bytes) :=
  match cut 58 l with
  | (name, v, true) => if name.isEmpty then none else some (name, trimOWS v)
  | (_, _, false) => none

/-- the header block: field lines up to the empty line. -/
def parseHeaders : Bytes → Bytes → List (Bytes × Bytes) → Option (List (Bytes × Bytes) × Bytes)
  | [], _, _ => none
  | c :: t, cur, acc =>
    if c == 13 then
      match t with
      | d :: rest =>
        if d == 10 then
          if cur.isEmpty then some (acc.reverse, rest)
          else
            match parseFieldLine cur.reverse with
            | some f => parseHeaders rest [] (f :: acc)
            | none => none
        else none
      | [] => none
    else parseHeaders t (c :: cur) acc

/-- positional number parsing, most significant digit first. -/
def parseBaseAux (val : UInt8 → Option Nat) (base : Nat) (acc : Nat) : Bytes → Option Nat
  | [] => some acc
  | c :: t =>
    match val c with
    | some d => parseBaseAux val base (acc * base + d) t
    | none => none

def decVal (c : UInt8) : Option Nat := if 48 ≤ c && c ≤ 57 then some (c.toNat - 48) else none

def hexVal (c : UInt8) : Option Nat :=
  if 48 ≤ c && c ≤ 57 then some (c.toNat - 48)
  else if 97 ≤ c && c ≤ 102 then some (c.toNat - 87)
  else if 65 ≤ c && c ≤ 70 then some (c.toNat - 55)
  else none

/-- `1*DIGIT` -/
def parseDec (s : Bytes) : Option Nat := if s.isEmpty then none else parseBaseAux decVal 10 0 s

/-- `1*HEXDIG` -/
def parseHex (s : Bytes) : Option Nat := if s.isEmpty then none else parseBaseAux hexVal 16 0 s

inductive Frame
  | none
  | length (n : Nat)
  | chunked
  | bad
deriving DecidableEq, Repr

def sTE : Bytes := lower Req.H1.sTransferEncoding
def sCL : Bytes := lower Req.H1.sContentLength

def teValues (fields : List (Bytes × Bytes)) : List Bytes :=
  fields.filterMap fun f => if lower f.1 == sTE then some f.2 else none

def clValues (fields : List (Bytes × Bytes)) : List Bytes :=
  fields.filterMap fun f => if lower f.1 == sCL then some f.2 else none

/-- message body framing (RFC 9112 §6), strict. -/
def framingOf (fields : List (Bytes × Bytes)) : Frame :=
  match teValues fields, clValues fields with
  | [], [] => .none
  | [], [v] =>
    match parseDec v with
    | some n => .length n
    | none => .bad
  | [te], [] => if te == Req.H1.sChunked then .chunked else .bad
  | _, _ => .bad

/-- chunked body: `(body, rest)`; `fuel` bounds the number of chunks. -/
def readChunks : Nat → Bytes → Option (Bytes × Bytes)
  | 0, _ => none
  | fuel + 1, s =>
    match readLine s [] with
    | none => none
    | some (szLine, rest) =>
      match parseHex szLine with
      | none => none
      | some n =>
        if n == 0 then
          match rest with
          | a :: b :: rest' => if a == 13 && b == 10 then some ([], rest') else none
          | _ => none
        else if rest.length < n then none
        else
          match rest.drop n with
          | a :: b :: rest' =>
            if a == 13 && b == 10 then
              match readChunks fuel rest' with
              | some (body, r) => some (rest.take n ++ body, r)
              | none => none
            else none
          | _ => none

def decodeBody (fr : Frame) (s : Bytes) : Option (Bytes × Bytes) :=
  match fr with
  | .bad => none
  | .none => some ([], s)
  | .length n => if s.length < n then none else some (s.take n, s.drop n)
  | .chunked => readChunks (s.length + 1) s

/-- read one request from the front of the stream. -/
def parseRequestH1 (s : Bytes) : Option (View × Bytes) :=
  match readLine s [] with
  | none => none
  | some (line, r1) =>
    match parseRequestLine line with
    | none => none
    | some (m, t) =>
      match parseHeaders r1 [] [] with
      | none => none
      | some (fields, r2) =>
        match decodeBody (framingOf fields) r2 with
        | none => none
        | some (body, rest) => some (⟨m, t, fields, body⟩, rest)

end Req.H1.Origin
