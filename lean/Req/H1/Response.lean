import Req.H1.Transfer
import Req.H1.Chunked
/-!
Whole-stream reading of one HTTP/1.1 response, as `persistConn._readResponse`
(transport.go:2467) followed by reading `resp.Body` to its end (`body.readLocked`,
transfer.go:770; `body.readTrailer` :840; `seeUpcomingDoubleCRLF` :823) does it.

`parseResponse isHead B s`: the connection delivers exactly the bytes `s` and then ends
(EOF / reset).  So truncation is expressible: a cut at offset `k` is `parseResponse … (s.take k)`.
`B` is the read-buffer size.  The request method matters only through `isHead`
(`noResponseBodyExpected`).

Also the keep-alive decision of `persistConn.readLoop` (transport.go:2727–2822).
-/
namespace Req.H1
open Req.Proto Req.Ascii

/-- `bytes.HasSuffix(buf, "\r\n\r\n")` for some prefix `buf` of the argument. -/
def hasDCRLF : Bytes → Bool
  | [] => false
  | c :: cs => (c :: cs).take 4 == [CR, LF, CR, LF] || hasDCRLF cs

/-- `mergeSetHeader(&resp.Trailer, hdr)`; a nil `Trailer` is the empty list. -/
def mergeTrailer (decl : HeaderMap) (hdr : HeaderMap) : HeaderMap :=
  if decl.isEmpty then hdr else hdr.foldl (fun d kv => d.set kv.1 kv.2) decl

/-- `body.readTrailer` after the chunked reader returned EOF: the final `resp.Trailer` and
the rest of the stream; `none` = error (returned from `Body.Read`). -/
def readTrailer (B : Nat) (decl : HeaderMap) (s : Bytes) : Option (HeaderMap × Bytes) :=
  match s with
  | 13 :: 10 :: r => some (decl, r)
  | _ =>
    if s.length < 2 then none                       -- errTrailerEOF
    else if !hasDCRLF (s.take B) then none          -- suspiciously long trailer
    else match readMIMEHeader s with
      | none => none
      | some (hdr, r) => some (mergeTrailer decl hdr, r)

/-- Result of reading the body until `Read` returns `io.EOF` (`ok`) or another error. -/
structure BodyRes where
  data : Bytes            -- every byte `Read` handed out, in order
  ok : Bool               -- ended with io.EOF (true) or with an error (false)
  trailer : HeaderMap     -- final `resp.Trailer`
  rest : Bytes            -- unread bytes of the stream (meaningful when `ok`)
deriving Repr, BEq, DecidableEq

def declMap (keys : List Bytes) : HeaderMap := keys.map fun k => (k, [])

def readBody (B : Nat) (m : Msg) (s : Bytes) : BodyRes :=
  let decl := declMap m.trailerDecl
  match m.framing with
  | .none => ⟨[], true, decl, s⟩
  | .length n =>
    if n ≤ s.length then ⟨s.take n, true, decl, s.drop n⟩
    else ⟨s, false, decl, []⟩                        -- io.ErrUnexpectedEOF
  | .untilClose => ⟨s, true, decl, []⟩
  | .chunked =>
    match decodeChunked B s with
    | (d, none) => ⟨d, false, decl, []⟩
    | (d, some r) =>
      match readTrailer B decl r with
      | none => ⟨d, false, decl, []⟩
      | some (tr, rest) => ⟨d, true, tr, rest⟩

/-- Status line + header block + framing decision; the message and the stream after the
blank line.  `none` = `_readResponse` returned an error. -/
def parseHead (isHead : Bool) (s : Bytes) : Option (Msg × Bytes) :=
  match readLine s with
  | none => none
  | some (line, r) =>
    match parseStatusLine line with
    | none => none
    | some sl =>
      match readMIMEHeader r with
      | none => none
      | some (h, r') =>
        match readTransfer isHead sl (fixPragmaCacheControl h) with
        | none => none
        | some m => some (m, r')

inductive Outcome where
  | reject                              -- the call returns an error, no response
  | resp (m : Msg) (b : BodyRes)
deriving Repr, BEq, DecidableEq

def parseResponse (isHead : Bool) (B : Nat) (s : Bytes) : Outcome :=
  match parseHead isHead s with
  | none => .reject
  | some (m, r) => .resp m (readBody B m r)

/-- A response with a complete body (what a caller may treat as success). -/
def Outcome.isSuccess : Outcome → Bool
  | .reject => false
  | .resp _ b => b.ok

/-! ### keep-alive decision of `readLoop` -/

/-- What `readLoop` knows when it decides whether the connection goes back to the idle pool. -/
structure ReuseEnv where
  reqClose : Bool        -- `rc.treq.Request.Close`
  isHead : Bool          -- request method is HEAD
  bodyWritable : Bool    -- 101 Switching Protocols hand-off
  sawEOF : Bool          -- `pc.sawEOF`: the conn's Read has returned io.EOF
  wroteRequest : Bool    -- `pc.wroteRequest()`
  poolAccepts : Bool     -- `tryPutIdleConn` succeeded
  bodyEOF : Bool         -- the caller read the body to io.EOF (false: error or early Close)

/-- `alive` after one response (transport.go:2727–2822). -/
def mayReuse (m : Msg) (e : ReuseEnv) : Bool :=
  let alive := !(m.close || e.reqClose || m.sl.code ≤ 199 || e.bodyWritable)
  let hasBody := !e.isHead && m.contentLength != 0
  if !hasBody || e.bodyWritable then
    alive && !e.sawEOF && e.wroteRequest && e.poolAccepts
  else
    alive && e.bodyEOF && !e.sawEOF && e.wroteRequest && e.poolAccepts

/-- What `readLoop` does with the connection after one exchange: a call error ends the loop
(`pc.close`), otherwise `mayReuse` with `bodyEOF` only if the body really ended in io.EOF. -/
def connReusable (o : Outcome) (e : ReuseEnv) : Bool :=
  match o with
  | .reject => false
  | .resp m b => mayReuse m { e with bodyEOF := e.bodyEOF && b.ok }

/-! ### informational responses (`persistConn.readResponse`, transport.go:2874) -/

/-- Heads are read until one is not a non-terminal 1xx (101 is terminal); at most 5 are
skipped (`max1xxResponses`), so `fuel = 6` on entry. `none` = error. -/
def parseFinalHead : Nat → Bool → Bytes → Option (Msg × Bytes)
  | 0, _, _ => none                                   -- too many 1xx informational responses
  | fuel + 1, isHead, s =>
    match parseHead isHead s with
    | none => none
    | some (m, r) =>
      if 100 ≤ m.sl.code ∧ m.sl.code ≤ 199 ∧ m.sl.code ≠ 101 then parseFinalHead fuel isHead r
      else some (m, r)

/-- The response a round trip returns for the stream `s` (then end of input). -/
def parseFinal (isHead : Bool) (B : Nat) (s : Bytes) : Outcome :=
  match parseFinalHead 6 isHead s with
  | none => .reject
  | some (m, r) => .resp m (readBody B m r)

end Req.H1
