import Req.H1.BufAlias
import Req.H1.ErrClass
/-!
`readMIMEHeader`'s `for` loop (textproto_reader.go:277) over the explicit-array reader of
`Req.H1.BufAlias`: `kv, err := readContinuedLineSlice(…, mustHaveFieldNameColon)`; `len(kv) == 0`
ends the block (with `err`); then the key/value checks and the map update (`addHeaderLine`).
`Req.Props.C04Whole.head_incremental_is_whole_stream` proves it equal to the whole-stream
`mimeLoopE`; the `alias` lane ties it to the real `ReadMIMEHeader` under segmentation (`c04amime`).
-/
namespace Req.H1.BufAlias
open Req.Proto Req.H1

def amimeLoop (B : Nat) : Nat → HeaderMap → ARd → Except ErrClass (HeaderMap × ARd)
  | 0, _, _ => .error .eof
  | f + 1, m, a =>
    match areadContinued B 1 (fun l => l.contains 58) a with
    | (.err _, _) => .error .eof
    | (.invalid, _) => .error .header
    | (.ok kv, a1) =>
      if kv.isEmpty then .ok (m, a1)
      else
        match addHeaderLine m kv with
        | none => .error .header
        | some m' => amimeLoop B f m' a1

/-- `Peek(1)` (`upcomingHeaderKeys` and the initial-blank check of `readMIMEHeader`): one `fill`
when nothing is buffered and no error is pending; a short peek returns (and clears) the error. -/
def apeek1 (B : Nat) (a : ARd) : ARd :=
  let a1 := if a.rd.buf.length < 1 ∧ 0 < B ∧ a.rd.err = none then afill B a else a
  if a1.rd.buf.length < 1 then clearErr a1 else a1

/-- `persistConn._readResponse` (transport.go:2467) up to the body over the aliasing reader: status
line (`ReadLine` copies it), `ReadMIMEHeader` (`Peek(1)`s, then the loop), `fixPragmaCacheControl`,
`readTransfer`.  `none` = the header block starts with a blank: `readMIMEHeader`'s initial-line
exit (`readLineSlice(80)`), which is not modelled on this reader (whole-stream: `initialBlankClass`). -/
def aparseHead (B : Nat) (isHead : Bool) (a : ARd) : Option (Except ErrClass (Msg × ARd)) :=
  match areadLineSlice B a with
  | (.error _, _) => some (.error .eof)
  | (.ok ln, a1) =>
    match parseStatusLine (a1.get ln) with
    | none => some (.error .statusLine)
    | some sl =>
      let a2 := apeek1 B a1
      if (a2.rd.buf.head?.map isOWS) == some true then none
      else
        match amimeLoop B (a2.rd.bytes.length + 1) [] a2 with
        | .error e => some (.error e)
        | .ok (h, a3) =>
          match readTransfer isHead sl (fixPragmaCacheControl h) with
          | none => some (.error (readTransferClass isHead sl (fixPragmaCacheControl h)))
          | some m => some (.ok (m, a3))

end Req.H1.BufAlias
