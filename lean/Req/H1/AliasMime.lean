import Req.H1.BufAlias
import Req.H1.ErrClass
/-!
`readMIMEHeader`'s `for` loop (textproto_reader.go:277) over the explicit-array reader of
`Req.H1.BufAlias`: `kv, err := readContinuedLineSlice(…, mustHaveFieldNameColon)`; `len(kv) == 0`
ends the block (with `err`); then the key/value checks and the map update (`addHeaderLine`).
`Req.Props.C04Whole.head_incremental_is_whole_stream` proves it equal to the whole-stream
`mimeLoopE`; the `alias` lane ties it to the real `ReadMIMEHeader` under segmentation (`c04amime`).
-/
namespace Req.H1.BufAlias
open Req.Proto Req.H1

def amimeLoop (B : Nat) : Nat → HeaderMap → ARd → Except ErrClass (HeaderMap × ARd)
  | 0, _, _ => .error .eof
  | f + 1, m, a =>
    match areadContinued B 1 (fun l => l.contains 58) a with
    | (.err _, _) => .error .eof
    | (.invalid, _) => .error .header
    | (.ok kv, a1) =>
      if kv.isEmpty then .ok (m, a1)
      else
        match addHeaderLine m kv with
        | none => .error .header
        | some m' => amimeLoop B f m' a1

end Req.H1.BufAlias
