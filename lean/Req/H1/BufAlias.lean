import Req.H1.BufLine
import Req.H1.LineSplit
/-!
`bufio.Reader` with its buffer ARRAY made explicit, and `readContinuedLineSlice`
(textproto_reader.go:124) on top of it with lines as VIEWS into that array.

`Req.H1.BufLine.Rd` keeps only the unread bytes `b.buf[b.r:b.w]` — enough for what a reader
returns by value.  `bufio.Reader.ReadSlice`/`ReadLine` do not return values: they return a slice
of `b.buf`, valid "until the next read".  Here the whole array is kept:

    b.buf = pre ++ rd.buf ++ post        (b.r = |pre|, b.w = |pre| + |rd.buf|)

* consuming moves bytes from `rd.buf` to `pre` (the array does not change);
* `fill` slides `b.buf[b.r:b.w]` to the front (`copy(b.buf, b.buf[b.r:b.w])`) and writes what the
  connection delivers behind it — the old `pre`, and whatever a view pointed at there, is
  overwritten;
* a `View` is `(offset, length)`; `deref` reads the array AS IT IS NOW.

`areadContinued B g` is `readContinuedLineSlice` with the guard `r.R.Buffered() > g` in front of
its `Peek(2)` fast path; the code has `g = 1` (with two bytes buffered `Peek(2)` does not fill).
`Req.Props.C04Alias` proves that for `g = 1` every view is read before anything refills the
array — the function computes what the value-semantics reader `readContinuedV` computes — and
shows by example that `g = 0` does not (a segment ending one byte into the next header line makes
`Peek(2)` refill while the line just read still aliases the array).
-/
namespace Req.H1.BufAlias
open Req.Proto Req.H1 Req.H1.BufLine

structure ARd where
  rd : Rd
  pre : Bytes
  post : Bytes
  deriving DecidableEq, Repr

/-- The array `b.buf`. -/
def ARd.arr (a : ARd) : Bytes := a.pre ++ a.rd.buf ++ a.post

/-- `bufio.NewReaderSize(src, B)`. -/
def ARd.init (B : Nat) (src : List Chunk) : ARd := ⟨Rd.ofSrc src, [], List.replicate B 0⟩

structure View where
  off : Nat
  len : Nat
  deriving DecidableEq, Repr

/-- What a slice of `b.buf` holds now. -/
def ARd.deref (a : ARd) (v : View) : Bytes := (a.arr.drop v.off).take v.len

/-- `b.r += k`. -/
def consume (k : Nat) (a : ARd) : ARd :=
  { a with pre := a.pre ++ a.rd.buf.take k, rd := { a.rd with buf := a.rd.buf.drop k } }

def clearErr (a : ARd) : ARd := { a with rd := { a.rd with err := none } }

/-- `b.fill()`: slide, then the read loop of `BufLine.fill` writing at `b.buf[b.w:]`.  The new
array is the new unread bytes followed by what was at those positions before — after the slide. -/
def afill (B : Nat) (a : ARd) : ARd :=
  let rd' := fill B a.rd
  let slid := a.rd.buf ++ a.arr.drop a.rd.buf.length
  { rd := rd', pre := [], post := slid.drop rd'.buf.length }

/-- `ReadSlice('\n')`: the line is a view. -/
def areadSliceLoop (B : Nat) : Nat → ARd → (View × Option RErr) × ARd
  | 0, a => ((⟨a.pre.length, 0⟩, some .stuck), a)
  | f + 1, a =>
    match cutNL a.rd.buf with
    | some (line, _) => ((⟨a.pre.length, line.length⟩, none), consume line.length a)
    | none =>
      match a.rd.err with
      | some e =>
        ((⟨a.pre.length, a.rd.buf.length⟩, some e), clearErr (consume a.rd.buf.length a))
      | none =>
        if B ≤ a.rd.buf.length then
          ((⟨a.pre.length, a.rd.buf.length⟩, some .bufferFull), consume a.rd.buf.length a)
        else areadSliceLoop B f (afill B a)

def areadSlice (B : Nat) (a : ARd) : (View × Option RErr) × ARd := areadSliceLoop B (B + 2) a

/-- `b.r--` (ReadLine putting back the '\r' of a straddling "\r\n"): the array is not written. -/
def unreadRaw (a : ARd) : ARd :=
  { a with pre := a.pre.dropLast,
           rd := { a.rd with buf := (a.pre.getLast?.getD 0) :: a.rd.buf } }

/-- `UnreadByte` after a `ReadByte` that returned `c`: `b.r--; b.buf[b.r] = c`. -/
def unreadByte (c : UInt8) (a : ARd) : ARd :=
  { a with pre := a.pre.dropLast, rd := { a.rd with buf := c :: a.rd.buf } }

/-- Length of a line without its "\n" / "\r\n". -/
def eolLen (line : Bytes) : Nat :=
  if lastIs 10 line then (if lastIs 13 line.dropLast then line.length - 2 else line.length - 1)
  else line.length

structure ALine where
  v : View
  isPrefix : Bool
  err : Option RErr
  deriving DecidableEq, Repr

/-- `bufio.(*Reader).ReadLine`. -/
def areadLine (B : Nat) (a : ARd) : ALine × ARd :=
  match areadSlice B a with
  | ((v, e), a1) =>
    if e = some .bufferFull then
      if lastIs 13 (a1.deref v) then (⟨⟨v.off, v.len - 1⟩, true, none⟩, unreadRaw a1)
      else (⟨v, true, none⟩, a1)
    else if v.len = 0 then (⟨v, false, e⟩, a1)
    else (⟨⟨v.off, eolLen (a1.deref v)⟩, false, none⟩, a1)

/-- A `[]byte` in the text reader's hands: a slice of `b.buf`, or memory of its own. -/
inductive Line
  | view (v : View)
  | owned (b : Bytes)
  deriving DecidableEq, Repr

def ARd.get (a : ARd) : Line → Bytes
  | .view v => a.deref v
  | .owned b => b

/-- `readLineSlice(-1)`: "avoid the copy if the first call produced a full line", otherwise
`append(line, l...)` copies the fragment at once. -/
def areadLineSliceLoop (B : Nat) : Nat → Option Bytes → ARd → Res Line × ARd
  | 0, _, a => (.error .stuck, a)
  | f + 1, acc, a =>
    match areadLine B a with
    | (r, a1) =>
      match r.err with
      | some e => (.error e, a1)
      | none =>
        match acc, r.isPrefix with
        | none, false => (.ok (.view r.v), a1)
        | _, true => areadLineSliceLoop B f (some (acc.getD [] ++ a1.deref r.v)) a1
        | some l, false => (.ok (.owned (l ++ a1.deref r.v)), a1)

def areadLineSlice (B : Nat) (a : ARd) : Res Line × ARd :=
  areadLineSliceLoop B (a.rd.bytes.length + 2) none a

def areadByteLoop (B : Nat) : Nat → ARd → Res UInt8 × ARd
  | 0, a => (.error .stuck, a)
  | f + 1, a =>
    match a.rd.buf with
    | c :: _ => (.ok c, consume 1 a)
    | [] =>
      match a.rd.err with
      | some e => (.error e, clearErr a)
      | none => areadByteLoop B f (afill B a)

def areadByte (B : Nat) (a : ARd) : Res UInt8 × ARd := areadByteLoop B 2 a

def askipSpaceLoop (B : Nat) : Nat → Bytes → ARd → Bytes × ARd
  | 0, acc, a => (acc, a)
  | f + 1, acc, a =>
    match areadByte B a with
    | (.error _, a1) => (acc, a1)
    | (.ok c, a1) =>
      if isSpTab c then askipSpaceLoop B f (acc ++ [c]) a1
      else (acc, unreadByte c a1)

def askipSpace (B : Nat) (a : ARd) : Bytes × ARd := askipSpaceLoop B (a.rd.bytes.length + 1) [] a

/-- `Peek(2)`: fills while fewer than 2 bytes are buffered, the buffer is not full and no error is
pending; a short peek returns (and clears) the pending error. -/
def apeekLoop (B : Nat) : Nat → ARd → ARd
  | 0, a => a
  | f + 1, a =>
    if a.rd.buf.length < 2 ∧ a.rd.buf.length < B ∧ a.rd.err = none then apeekLoop B f (afill B a)
    else a

def apeek2 (B : Nat) (a : ARd) : ARd :=
  let a1 := apeekLoop B 3 a
  if a1.rd.buf.length < 2 then clearErr a1 else a1

def isASCIILetter (c : UInt8) : Bool := (97 ≤ (c ||| 32)) && ((c ||| 32) ≤ 122)

/-- The fast-path test on the peeked bytes. -/
def peekOK : Bytes → Bool
  | [] => false
  | [c] => isASCIILetter c || c == 10
  | c :: d :: _ => isASCIILetter c || c == 10 || (c == 13 && d == 10)

inductive ContRes
  | ok (line : Bytes)
  | err (e : RErr)
  | invalid
  deriving DecidableEq, Repr

/-- The `for r.skipSpace() > 0` loop; `acc` is `r.buf` (memory of its own). -/
def acontLoop (B : Nat) : Nat → Bytes → ARd → ContRes × ARd
  | 0, acc, a => (.ok acc, a)
  | f + 1, acc, a =>
    match askipSpace B a with
    | (sk, a1) =>
      if sk.isEmpty then (.ok acc, a1)
      else
        match areadLineSlice B a1 with
        | (.error _, a2) => (.ok (acc ++ [32]), a2)
        | (.ok ln, a2) => acontLoop B f (acc ++ [32] ++ trimOWS (a2.get ln)) a2

/-- `readContinuedLineSlice(math.MaxInt64, valid)` with the guard `Buffered() > g`; the result is
what the returned slice holds when the function returns. -/
def areadContinued (B g : Nat) (valid : Bytes → Bool) (a : ARd) : ContRes × ARd :=
  match areadLineSlice B a with
  | (.error e, a1) => (.err e, a1)
  | (.ok ln, a1) =>
    if (a1.get ln).isEmpty then (.ok [], a1)
    else if !valid (a1.get ln) then (.invalid, a1)
    else
      let guard := decide (a1.rd.buf.length > g)
      let a2 := if guard then apeek2 B a1 else a1
      if guard && peekOK (a2.rd.buf.take 2) then (.ok (trimOWS (a2.get ln)), a2)
      else acontLoop B (a2.rd.bytes.length + 1) (trimOWS (a2.get ln)) a2

/-! ### the same reader with value semantics (no array) -/

def contLoopV (B : Nat) : Nat → Bytes → Rd → ContRes × Rd
  | 0, acc, st => (.ok acc, st)
  | f + 1, acc, st =>
    match skipSpace B st with
    | (sk, st1) =>
      if sk.isEmpty then (.ok acc, st1)
      else
        match readLineSlice (plainReadLine B) none st1 with
        | ⟨.error _, st2, _⟩ => (.ok (acc ++ [32]), st2)
        | ⟨.ok l, st2, _⟩ => contLoopV B f (acc ++ [32] ++ trimOWS l) st2

def readContinuedV (B : Nat) (valid : Bytes → Bool) (st : Rd) : ContRes × Rd :=
  match readLineSlice (plainReadLine B) none st with
  | ⟨.error e, st1, _⟩ => (.err e, st1)
  | ⟨.ok l, st1, _⟩ =>
    if l.isEmpty then (.ok [], st1)
    else if !valid l then (.invalid, st1)
    else if decide (st1.buf.length > 1) && peekOK (st1.buf.take 2) then (.ok (trimOWS l), st1)
    else contLoopV B (st1.bytes.length + 1) (trimOWS l) st1

/-- The header-block loop as far as line reading goes: continued lines until the blank line or
the first error (`readMIMEHeader`'s `for` loop with `valid = mustHaveFieldNameColon`). -/
def aheadLines (B g : Nat) (valid : Bytes → Bool) : Nat → ARd → List Bytes × ContRes × ARd
  | 0, a => ([], .err .stuck, a)
  | f + 1, a =>
    match areadContinued B g valid a with
    | (.ok l, a1) =>
      if l.isEmpty then ([], .ok [], a1)
      else
        match aheadLines B g valid f a1 with
        | (ls, e, a2) => (l :: ls, e, a2)
    | (r, a1) => ([], r, a1)

end Req.H1.BufAlias
