import Req.H1.Mime
/-!
The chunked reader of internal/chunked.go (`chunkedReader.Read` :69, `beginChunk` :46,
`readChunkLine` :137, `trimTrailingWhitespace`, `removeChunkExtension`, `parseHexUint` :244)
and the writer (`chunkedWriter.Write`/`Close`), as whole-stream functions.

REPAIRED behaviour (fixes/C04-1-chunked-upstream-checks.patch, = Go 1.23.5's
net/http/internal): an empty chunk-size line is an error, and chunk overhead is accounted
(`excess`, error above 16 KiB).  `parseHexUintLenient` is the function as it stands in the
unpatched fork (empty ⇒ 0).

Arithmetic: `excess` is an `int64` in Go and `cr.excess -= 16 + (2 * int64(cr.n))` wraps for
chunk sizes of 2^62 and more (found by the chunk lane: size `7ffff9ffffffffff` makes the counter
jump above the limit and the reader fails with "too much non-data" before delivering a byte of
that chunk).  `wrap64` reproduces the two's-complement result.

`B` is the size of the connection's `bufio.Reader` (`Transport.ReadBufferSize`, default 4096):
`ReadSlice('\n')` fails with `ErrBufferFull` when the size line (LF included) is longer.
-/
namespace Req.H1
open Req.Proto Req.Ascii

def hexVal? (c : UInt8) : Option Nat :=
  if 48 ≤ c ∧ c ≤ 57 then some (c.toNat - 48)
  else if 97 ≤ c ∧ c ≤ 102 then some (c.toNat - 87)
  else if 65 ≤ c ∧ c ≤ 70 then some (c.toNat - 55)
  else none

def parseHexAcc : Nat → Bytes → Option Nat
  | n, [] => some n
  | n, c :: cs =>
    match hexVal? c with
    | none => none
    | some d => parseHexAcc (n * 16 + d) cs

/-- `parseHexUint` with the upstream empty-string check. -/
def parseHexUint (v : Bytes) : Option Nat :=
  if v.isEmpty then none
  else if v.length > 16 then none
  else parseHexAcc 0 v

/-- `parseHexUint` of the unpatched fork: the empty string parses as 0. -/
def parseHexUintLenient (v : Bytes) : Option Nat :=
  if v.length > 16 then none else parseHexAcc 0 v

/-- Two's-complement `int64` value of an integer. -/
def wrap64 (z : Int) : Int := (z + 2 ^ 63) % 2 ^ 64 - 2 ^ 63

def maxLineLength : Nat := 4096

/-- `readChunkLine` up to the trimming: the line INCLUDING its LF, and the rest. -/
def readChunkLine (B : Nat) (s : Bytes) : Option (Bytes × Bytes) :=
  match splitLF s with
  | none => none                      -- io.ErrUnexpectedEOF or ErrLineTooLong (buffer full)
  | some (a, rest) =>
    if a.length + 1 ≤ B ∧ a.length + 1 < maxLineLength then some (a ++ [LF], rest)
    else none                         -- ErrLineTooLong

def trimTrailingWS (b : Bytes) : Bytes := (b.reverse.dropWhile isASCIISpace).reverse

/-- Size field of a chunk line: trailing whitespace off, extension (from the first `;`) off. -/
def chunkSizeField (line : Bytes) : Bytes :=
  let l := trimTrailingWS line
  match cutByte 59 l with
  | some (x, _) => x
  | none => l

/-- The `Read` loop run to its end: bytes delivered, and `some rest` when the last-chunk line
was reached (the reader returned `io.EOF`; `rest` starts at the trailer section), `none` when
it ended in an error. `ex` is `cr.excess`. -/
def chunkLoop : Nat → Nat → Int → Bytes → Bytes × Option Bytes
  | 0, _, _, _ => ([], none)
  | fuel + 1, B, ex, s =>
    match readChunkLine B s with
    | none => ([], none)
    | some (line, r) =>
      match parseHexUint (chunkSizeField line) with
      | none => ([], none)
      | some n =>
        let ex1 : Int := max (wrap64 (ex + (line.length : Int) + 2 - (16 + 2 * (n : Int)))) 0
        if n = 0 then ([], some r)                   -- io.EOF wins over the excess error
        else if ex1 > 16 * 1024 then ([], none)      -- too much non-data
        else if r.length < n then (r, none)          -- stream ends inside the chunk
        else
          match r.drop n with
          | 13 :: 10 :: r3 =>
            let (d, e) := chunkLoop fuel B ex1 r3
            (r.take n ++ d, e)
          | _ => (r.take n, none)                    -- missing / malformed CRLF after data

def decodeChunked (B : Nat) (s : Bytes) : Bytes × Option Bytes :=
  chunkLoop (s.length + 1) B 0 s

/-! ### writer -/

def hexDigitByte (d : Nat) : UInt8 := if d < 10 then UInt8.ofNat (48 + d) else UInt8.ofNat (87 + d)

/-- Lower-case hex digits of `n`, most significant first, built on `acc`; `fuel` bounds the
number of digits. -/
def toHexAcc : Nat → Nat → Bytes → Bytes
  | 0, _, acc => acc
  | fuel + 1, n, acc =>
    if n < 16 then hexDigitByte n :: acc
    else toHexAcc fuel (n / 16) (hexDigitByte (n % 16) :: acc)

/-- `fmt.Sprintf("%x", n)`. -/
def toHex (n : Nat) : Bytes := toHexAcc (n + 1) n []

/-- `chunkedWriter.Write(data)`: nothing for empty data. -/
def encodeChunk (d : Bytes) : Bytes :=
  if d.isEmpty then [] else toHex d.length ++ [CR, LF] ++ d ++ [CR, LF]

/-- Writes of `chunks`, then `Close` (`0\r\n`); the caller adds trailers and the final CRLF. -/
def encodeChunked (chunks : List Bytes) : Bytes :=
  chunks.flatMap encodeChunk ++ [48, CR, LF]

end Req.H1
