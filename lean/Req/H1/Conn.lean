import Req.H1.Response
/-!
The persistent-connection read loop at message-sequence level: `persistConn.readLoop`
(transport.go:2667) with `persistConn.readResponse` (:2889), `isProtocolSwitch` (http.go:39),
the unsolicited-bytes check `readLoopPeekFailLocked` (:2853) and the part of
`Transport.roundTrip` that picks an idle connection or dials and re-sends a replayable request
when a REUSED connection dies before the first response byte (`shouldRetryRequest`).

Three layers.

* `exchange B q s` — ONE request `q` is outstanding, `s` is everything the connection still
  delivers: the response handed to the caller (up to five non-101 1xx heads skipped, 101
  terminal, a protocol switch hands the rest of the connection to the caller), what the caller
  reads of the body (all of it, `k` bytes then `Close`, `Close` at once), and — iff the loop
  puts the connection back into the idle pool — the unread rest of the stream.
* `connSequence B reqs s` — the requests `reqs` are answered one after the other from ONE byte
  stream, each next request being outstanding when the previous exchange ends (bytes may
  arrive at any time as long as a request is outstanding).
* `connTimed B reqs segs` — the same with arrival times: `segs[j]` is what the peer sends once
  request `j` has been written.  Go's Transport never pipelines, so whatever is left unread when
  an exchange ends arrived while NO request was outstanding: the loop's next `Peek(1)` returns
  with `numExpectedResponses == 0` and `readLoopPeekFailLocked` closes the connection.  (In the
  real code this is a race between the read loop — a handful of instructions — and the caller
  issuing its next request; the model takes the read loop to win, as the lanes observe.)
* `transportRun B reqs scripts` — the Transport level: requests in sequence, an idle
  connection is reused, otherwise the next scripted connection is dialled; the number of dials
  is part of the answer.

A stream argument means "these bytes, then end of input": an exchange whose message is
incomplete in its segment is an error here; in the real client it is an error when the peer
closes, a stall (caller's timeout) when the peer keeps the connection open.
-/
namespace Req.H1
open Req.Proto Req.Ascii

def kUpgrade : Bytes := [85,112,103,114,97,100,101]
def vUpgradeLower : Bytes := [117,112,103,114,97,100,101]

/-- How the caller treats `resp.Body`. -/
inductive Consume where
  | full                -- reads until `io.EOF` or an error, then `Close`
  | part (k : Nat)      -- reads `k` bytes (`io.ReadFull`; `k = 0`: none) and calls `Close`
deriving Repr, BEq, DecidableEq

/-- One request as far as the reader of its response is concerned. -/
structure ConnReq where
  isHead : Bool         -- method HEAD (`noResponseBodyExpected`)
  reqClose : Bool       -- `Request.Close`
  expect100 : Bool      -- `Expect: 100-continue` with a body (`continueCh != nil`)
  consume : Consume
deriving Repr, BEq, DecidableEq

inductive BodyEnd where
  | eof                 -- `Read` returned `io.EOF`
  | err                 -- `Read` returned another error
  | closed              -- the caller closed the body before its end
  | raw                 -- protocol switch: the body IS the connection
deriving Repr, BEq, DecidableEq

/-- What the caller of `RoundTrip` observes for one request. -/
inductive Delivery where
  | fail                                             -- `RoundTrip` returned an error
  | resp (m : Msg) (seen : Bytes) (e : BodyEnd) (trailer : HeaderMap)
deriving Repr, BEq, DecidableEq

/-- `isProtocolSwitch(resp)`: 101 with a non-empty first `Upgrade` value and the token
`upgrade` in `Connection` (read AFTER `shouldClose` may have deleted `Connection`). -/
def isProtocolSwitch (m : Msg) : Bool :=
  m.sl.code == 101 &&
  (match m.header.get kUpgrade with
   | some (v :: _) => !v.isEmpty
   | _ => false) &&
  valuesContainToken (match m.header.get kConnection with | some vs => vs | none => []) vUpgradeLower

/-- Does the caller reach the end of the body (`bodyEOFSignal` sees `io.EOF`/an error)?
`part k` stops early iff `k = 0` or the body has more than `k` bytes. -/
def Consume.readsAll (c : Consume) (dataLen : Nat) : Bool :=
  match c with
  | .full => true
  | .part k => !(k == 0 || k < dataLen)

def Consume.taken (c : Consume) (data : Bytes) : Bytes :=
  match c with
  | .full => data
  | .part k => data.take k

/-- One iteration of `readLoop` with request `q` outstanding and `s` left on the connection.
Second component: `some rest` iff the connection went back to the idle pool (`rest` = the
bytes of `s` not consumed by this exchange), `none` iff the loop ended (connection closed or
owned by the caller). -/
def exchange (B : Nat) (q : ConnReq) (s : Bytes) : Delivery × Option Bytes :=
  match parseFinalHead 6 q.isHead s with
  | none => (.fail, none)
  | some (m, r) =>
    if isProtocolSwitch m then (.resp m r .raw [], none)
    else
      let b := readBody B m r
      let all := q.consume.readsAll b.data.length
      let env : ReuseEnv := ⟨q.reqClose, q.isHead, false, false, true, true, all⟩
      let d : Delivery :=
        if all then .resp m b.data (if b.ok then .eof else .err) b.trailer
        else .resp m (q.consume.taken b.data) .closed (declMap m.trailerDecl)
      (d, if connReusable (.resp m b) env then some b.rest else none)

/-- Requests answered one after the other from ONE stream (see the header comment). -/
def connSequence (B : Nat) : List ConnReq → Bytes → List Delivery
  | [], _ => []
  | q :: qs, s =>
    match exchange B q s with
    | (d, none) => [d]
    | (d, some r) => d :: connSequence B qs r

/-- The same with arrival times: `segs[j]` arrives once request `j` has been written; bytes
left over when an exchange ends are unsolicited and end the connection. -/
def connTimed (B : Nat) : List ConnReq → List Bytes → List Delivery
  | [], _ => []
  | _ :: _, [] => []                          -- nothing arrives any more: no answer on this connection
  | q :: qs, seg :: segs =>
    match exchange B q seg with
    | (d, some []) => d :: connTimed B qs segs
    | (d, _) => [d]

/-! ### Transport level -/

/-- What a scripted peer does on one connection. -/
structure ConnScript where
  segs : List Bytes     -- `segs[j]`: sent once the j-th request on this connection was written
  eof : Bool            -- after the last segment: close (true) or keep the connection open
deriving Repr, BEq, DecidableEq

/-- Request `q` on a connection with `segs` still to come.  `none`: not a single byte arrives
in answer.  Otherwise the delivery and, iff the connection is idle and usable afterwards, its
remaining segments (a connection the peer has closed behind the last message is found closed
by the loop's next `Peek`: `errServerClosedIdle`). -/
def serveOn (B : Nat) (q : ConnReq) (segs : List Bytes) (eof : Bool) :
    Option (Delivery × Option (List Bytes)) :=
  match segs with
  | [] => none
  | seg :: rest =>
    if seg.isEmpty then none
    else
      match exchange B q seg with
      | (d, some []) => some (d, if rest.isEmpty && eof then none else some rest)
      | (d, _) => some (d, none)

/-- The Transport between two requests: the idle connection, if any (its remaining segments
and `eof` flag), the scripted connections not yet dialled, the number of dials so far. -/
structure TState where
  cur : Option (List Bytes × Bool)
  scripts : List ConnScript
  dials : Nat
deriving Repr, BEq, DecidableEq

/-- Dial the next scripted connection and send `q` on it.  On a fresh connection there is no
retry: if not a single byte arrives the request fails. -/
def dialAndServe (B : Nat) (q : ConnReq) (st : TState) : Delivery × TState :=
  match st.scripts with
  | [] => (.fail, { st with cur := none })
  | sc :: scs =>
    match serveOn B q sc.segs sc.eof with
    | none => (.fail, ⟨none, scs, st.dials + 1⟩)
    | some (d, next) => (d, ⟨next.map fun r => (r, sc.eof), scs, st.dials + 1⟩)

/-- One request through the Transport: an idle connection is reused; a reused connection that
yields no byte because the peer closed it is replaced by a fresh dial and the (replayable)
request is sent again (`shouldRetryRequest`); when the peer just stays silent the request
fails (the caller's timeout). -/
def transportStep (B : Nat) (q : ConnReq) (st : TState) : Delivery × TState :=
  match st.cur with
  | none => dialAndServe B q st
  | some (segs, eof) =>
    match serveOn B q segs eof with
    | some (d, next) => (d, { st with cur := next.map fun r => (r, eof) })
    | none =>
      if eof then dialAndServe B q { st with cur := none }
      else (.fail, { st with cur := none })

/-- Requests in sequence through the Transport: the deliveries and the number of dials. -/
def transportRun (B : Nat) : List ConnReq → TState → List Delivery × Nat
  | [], st => ([], st.dials)
  | q :: qs, st =>
    let r := transportStep B q st
    let rest := transportRun B qs r.2
    (r.1 :: rest.1, rest.2)

end Req.H1
