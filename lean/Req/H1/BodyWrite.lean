import Req.H1.RequestWrite
import Req.H2.BodyWrite
/-!
C01 (round 5) — reader-level model of the HTTP/1.1 request-body path of transfer.go:

* `newTransferWriter` + `outgoingLength` + `shouldSendChunkedRequestBody` + `probeRequestBody`
  (`plan`): which framing a body gets, as a function of the method, the declared `ContentLength`
  and what the FIRST one-byte `Read` of the body returns (the probe of GET / HEAD / DELETE / …
  requests of unknown length: `(0, io.EOF)` drops the body, a byte is put back in front with
  `io.MultiReader`, whose `WriteTo` hands that byte to the writer as a `Write` of its own);
* `transferWriter.writeBody` + `doBodyCopy` (`writeBody`): `io.CopyBuffer` into the chunked
  writer (one chunk per `Read` that returned bytes, `0\r\n` + `\r\n` only when the copy ended with
  `io.EOF`), into the connection as it is (`ContentLength == -1` without chunking: CONNECT), or —
  known length — `io.CopyBuffer(w, io.LimitReader(body, ContentLength))` FOLLOWED by
  `io.CopyBuffer(io.Discard, body)` and the comparison of the two counts with `ContentLength`.

`RequestWrite.lean` (`framing`, `bodyBytes`) describes the same code for a body given as its bytes
(an honest reader); this file carries EVERY reader behaviour — the `Reader` script type shared with
the HTTP/2 and HTTP/3 body models (`Req.H2.BodyWrite.Reader`: bytes, sizes of the successive reads
incl. zero-length reads, ending `(0,EOF)` / `(n,EOF)` / `(0,err)` / `(n,err)`; a reader that is
longer or shorter than the declared length is that script with `data.length ≠ cl`).
`Props/C01BodyH1.lean` proves the refinement (`h1_reader_refines_serialize`).

What differs from the HTTP/2 / HTTP/3 loops and is modelled as the code does it: `io.CopyBuffer`
writes the bytes of a `Read` BEFORE it looks at the error, so bytes that come together with a
non-EOF error are on the wire (`cancelingReader` / `writeRequestBody` drop them).
-/
namespace Req.H1.BodyWrite
open Req.Proto Req.H1
open Req.H2.BodyWrite (Reader RErr Ending)

/-- how a copy loop ends -/
inductive CopyEnd where
  /-- the source reported `io.EOF` (for a `LimitedReader`: the limit is used up) -/
  | eof
  /-- the source reported another error -/
  | fail
  deriving DecidableEq, Repr, Inhabited

/-- the buffer a `Read` of the source gets: `LimitedReader.Read` shortens it to its budget -/
def capOf (buf : Nat) : Option Nat → Nat
  | some n => min buf n
  | none => buf

/-- `io.CopyBuffer(dst, src, buf)`, `dst` without `ReadFrom`, `src = body` (`limit = none`) or
`io.LimitReader(body, n)` (`limit = some n`): the `Write` calls, how the loop ended, the body
reader afterwards. A `LimitedReader` whose budget is 0 returns `io.EOF` WITHOUT touching the
body; otherwise it shortens the buffer to the budget. -/
def ioCopy (buf : Nat) : Nat → Option Nat → Reader → List Bytes × CopyEnd × Reader
  | 0, _, r => ([], .fail, r)
  | fuel + 1, limit, r =>
    if limit = some 0 then ([], .eof, r)
    else
      let (chunk, e, r1) := r.read (capOf buf limit)
      let ws := if chunk.isEmpty then [] else [chunk]
      match e with
      | .none =>
        let (ws', o, r') := ioCopy buf fuel (limit.map (· - chunk.length)) r1
        (ws ++ ws', o, r')
      | .eof => (ws, .eof, r1)
      | .fail => (ws, .fail, r1)

/-- enough iterations for every reader -/
def fuelFor (r : Reader) : Nat := Req.H2.BodyWrite.fuelFor r

/-- the framing `newTransferWriter` settles on -/
inductive Mode where
  /-- `t.Body == nil`: nothing is written -/
  | noBody
  /-- `Transfer-Encoding: chunked` -/
  | chunked
  /-- `ContentLength == -1`, not chunked (CONNECT): bytes until EOF -/
  | identity
  /-- `ContentLength = n > 0` -/
  | known (n : Nat)
  deriving DecidableEq, Repr, Inhabited

structure Plan where
  mode : Mode
  /-- the probed byte `io.MultiReader` puts back in front of the body (empty = no probe / no byte) -/
  pre : Bytes
  /-- the body reader as `writeBody` finds it -/
  reader : Reader
  deriving Repr, Inhabited

/-- `newTransferWriter` for a request of unknown length (`outgoingLength = -1`) with a non-nil body -/
def planUnknown (method : Bytes) (r : Reader) : Plan :=
  let m := methodOrGet method
  if m == sCONNECT then ⟨.identity, [], r⟩
  else if methodUsuallyLacksBody m then
    let (c, e, r1) := r.read 1
    if c.isEmpty && e == RErr.eof then ⟨.noBody, [], r1⟩ else ⟨.chunked, c, r1⟩
  else ⟨.chunked, [], r⟩

/-- `newTransferWriter` for a request with a non-nil body; `cl = none` (or `some 0`) is a
`ContentLength` of 0 or below (unknown), `some n` a positive declared length. -/
def plan (method : Bytes) (cl : Option Nat) (r : Reader) : Plan :=
  match cl with
  | some (n + 1) => ⟨.known (n + 1), [], r⟩
  | _ => planUnknown method r

inductive Outcome where
  /-- `writeBody` returned nil -/
  | ok
  /-- the body reader's own error -/
  | readError
  /-- "http: ContentLength=%d with Body length %d" -/
  | bodyLength
  deriving DecidableEq, Repr, Inhabited

/-- the `Write` calls `io.CopyBuffer` makes for the (possibly probed) body: `multiReader.WriteTo`
copies the put-back byte first, then the rest. -/
def copyAll (buf : Nat) (p : Plan) (limit : Option Nat) : List Bytes × CopyEnd × Reader :=
  let c := ioCopy buf (fuelFor p.reader) limit p.reader
  ((if p.pre.isEmpty then [] else [p.pre]) ++ c.1, c.2.1, c.2.2)

/-- the budget of the copy: `io.LimitReader(body, ContentLength)` for a known length -/
def limitOf : Mode → Option Nat
  | .known n => some n
  | _ => none

/-- how `writeBody` ends after the copy (`ws`: what was written, `o`: how the copy ended, `r1`: the
body reader afterwards). Known length: a failed copy returns at once; otherwise
`io.CopyBuffer(io.Discard, body, buf)` (`discard.ReadFrom`, 8 KiB buffers) drains the reader and the
two counts are compared with `ContentLength`. -/
def outcomeOf (mode : Mode) (ws : List Bytes) (o : CopyEnd) (r1 : Reader) : Outcome :=
  match mode with
  | .known n =>
    if o = .fail then .readError
    else
      let d := ioCopy 8192 (fuelFor r1) none r1
      if d.2.1 = .fail then .readError
      else if ws.flatten.length + d.1.flatten.length = n then .ok else .bodyLength
  | _ => if o = .eof then .ok else .readError

/-- the body payload pieces handed to the framing layer (chunk writer / connection) and how
`writeBody` ends -/
def pieces (buf : Nat) (p : Plan) : List Bytes × Outcome :=
  if p.mode = .noBody then ([], .ok)
  else
    let c := copyAll buf p (limitOf p.mode)
    (c.1, outcomeOf p.mode c.1 c.2.1 c.2.2)

/-- every byte `writeBody` writes to the connection (after the head) -/
def writeBody (buf : Nat) (p : Plan) : Bytes × Outcome :=
  let (ws, o) := pieces buf p
  match p.mode with
  | .chunked => (ws.flatMap chunk ++ (if o = .ok then [48, 13, 10] ++ crlf else []), o)
  | _ => (ws.flatten, o)

end Req.H1.BodyWrite
