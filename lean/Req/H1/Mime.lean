import Req.H1.LineSplit
/-!
MIME header block reader: `textprotoReader.readMIMEHeader` (textproto_reader.go:231) with
`readContinuedLineSlice` (:124), `skipSpace` (:179), `mustHaveFieldNameColon` (:321),
`canonicalMIMEHeaderKey` (:380), `validHeaderValueByte` (:441).  The same function models the
standard library's `net/textproto.Reader.ReadMIMEHeader`, which the fork calls for trailers
(transfer.go:866) — the two are the same code (checked by the reference lane).

Not modelled: `upcomingHeaderKeys` (an allocation hint), the `maxMemory`/`maxHeaders` limits
(both `math.MaxInt64` on this path), the `Buffered() > 1` peek shortcut (returns exactly what
the general path returns).
-/
namespace Req.H1
open Req.Proto Req.Ascii

/-- A Go `http.Header`: key ↦ values.  Kept as an association list in order of first
insertion; keys are unique (invariant of `add`/`set`).  Go's map order is not observable
through the property (output is compared sorted by key). -/
abbrev HeaderMap := List (Bytes × List Bytes)

namespace HeaderMap

def get (m : HeaderMap) (k : Bytes) : Option (List Bytes) := m.lookup k

def has (m : HeaderMap) (k : Bytes) : Bool := (m.lookup k).isSome

def del (m : HeaderMap) (k : Bytes) : HeaderMap := m.filter fun p => p.1 != k

/-- `m[k] = append(m[k], v)`. -/
def add : HeaderMap → Bytes → Bytes → HeaderMap
  | [], k, v => [(k, [v])]
  | (k', vs) :: m, k, v => if k' == k then (k', vs ++ [v]) :: m else (k', vs) :: add m k v

/-- `m[k] = vs`. -/
def set : HeaderMap → Bytes → List Bytes → HeaderMap
  | [], k, vs => [(k, vs)]
  | (k', vs') :: m, k, vs => if k' == k then (k', vs) :: m else (k', vs') :: set m k vs

end HeaderMap

/-- `validHeaderValueByte`: HTAB, SP, VCHAR (0x21–0x7E), obs-text (≥ 0x80). -/
def validHeaderValueByte (c : UInt8) : Bool :=
  c = HT || (32 ≤ c && c ≤ 126) || 128 ≤ c

/-- The reader's `canonicalMIMEHeaderKey(a) (string, ok)`; `none` = `ok == false`.
Empty keys and keys with a byte that is neither a token byte nor a space are refused; a key
containing a space is accepted unchanged; otherwise it is canonicalised. -/
def canonKeyRead (a : Bytes) : Option Bytes :=
  if a.isEmpty then none
  else if a.any (fun c => !isTokenByte c && c != SP) then none
  else if a.any (fun c => c == SP) then some a
  else some (canonGo true a)

/-- Number of leading spaces/tabs (`skipSpace`). -/
def countOWS : Bytes → Nat
  | [] => 0
  | c :: cs => if isOWS c then countOWS cs + 1 else 0

/-- Continuation lines of `readContinuedLineSlice` (the `for r.skipSpace() > 0` loop).
`acc` is `r.buf`; returns the joined line and the remaining stream.  A read error on a
continuation line ends the loop without an error (`break`), the error resurfaces on the next
line read. -/
def readCont : Nat → Bytes → Bytes → Bytes × Bytes
  | 0, acc, s => (acc, s)
  | fuel + 1, acc, s =>
    let n := countOWS s
    if n = 0 then (acc, s)
    else
      match readLine (s.drop n) with
      | none => (acc ++ [SP], [])
      | some (l, rest) => readCont fuel (acc ++ [SP] ++ trimOWS l) rest

/-- One `Key: value` line into the map (the body of the `for` loop of `readMIMEHeader` after
the line has been read); `none` = "malformed MIME header line". -/
def addHeaderLine (m : HeaderMap) (kv : Bytes) : Option HeaderMap :=
  match cutByte 58 kv with
  | none => none
  | some (k, v) =>
    match canonKeyRead k with
    | none => none
    | some key =>
      if v.all validHeaderValueByte then some (m.add key (v.dropWhile isOWS)) else none

/-- The `for` loop of `readMIMEHeader`: returns the map and the stream after the blank line. -/
def mimeLoop : Nat → HeaderMap → Bytes → Option (HeaderMap × Bytes)
  | 0, _, _ => none
  | fuel + 1, m, s =>
    match readLine s with
    | none => none                                   -- io.EOF
    | some (l, rest) =>
      if l.isEmpty then some (m, rest)               -- blank line: end of block
      else if !(l.contains 58) then none             -- mustHaveFieldNameColon
      else
        let (kv, rest') := readCont (rest.length + 1) (trimOWS l) rest
        match addHeaderLine m kv with
        | none => none
        | some m' => mimeLoop fuel m' rest'

/-- `ReadMIMEHeader`: the first line must not start with a space or tab. -/
def readMIMEHeader (s : Bytes) : Option (HeaderMap × Bytes) :=
  match s with
  | c :: _ => if isOWS c then none else mimeLoop (s.length + 1) [] s
  | [] => none

end Req.H1
