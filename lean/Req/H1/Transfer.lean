import Req.H1.Mime
/-!
Status line (`persistConn._readResponse`, transport.go:2467), `fixPragmaCacheControl` (:2456)
and the framing decision of `readTransfer` (transfer.go:450): `shouldClose` (:683),
`parseTransferEncoding` (:566), `fixLength` (:596), `parseContentLength` (:981),
`fixTrailer` (:702), `bodyAllowedForStatus` (:437).
-/
namespace Req.H1
open Req.Proto Req.Ascii

/-! ### byte-string constants (ASCII) -/
def kTransferEncoding : Bytes := [84,114,97,110,115,102,101,114,45,69,110,99,111,100,105,110,103]
def kContentLength : Bytes := [67,111,110,116,101,110,116,45,76,101,110,103,116,104]
def kConnection : Bytes := [67,111,110,110,101,99,116,105,111,110]
def kTrailer : Bytes := [84,114,97,105,108,101,114]
def kPragma : Bytes := [80,114,97,103,109,97]
def kCacheControl : Bytes := [67,97,99,104,101,45,67,111,110,116,114,111,108]
def vNoCache : Bytes := [110,111,45,99,97,99,104,101]
def vChunked : Bytes := [99,104,117,110,107,101,100]
def vClose : Bytes := [99,108,111,115,101]
def vKeepAlive : Bytes := [107,101,101,112,45,97,108,105,118,101]
def vHTTPSlash : Bytes := [72,84,84,80,47]

/-! ### status line -/

/-- Decimal value of a digit string; `none` if empty or a non-digit occurs. -/
def parseDigits : Bytes → Option Nat
  | [] => none
  | cs => if cs.all isDigit then some (cs.foldl (fun n c => n * 10 + (c.toNat - 48)) 0) else none

/-- `strconv.Atoi` on a short string (fast path): optional sign, then digits. -/
def atoi (s : Bytes) : Option Int :=
  match s with
  | [] => none
  | c :: cs =>
    if c = 45 then (parseDigits cs).map fun n => -(n : Int)
    else if c = 43 then (parseDigits cs).map fun n => (n : Int)
    else (parseDigits s).map fun n => (n : Int)

/-- `http.ParseHTTPVersion`: `HTTP/X.Y` with single decimal digits. -/
def parseHTTPVersion (v : Bytes) : Option (Nat × Nat) :=
  match v with
  | [72, 84, 84, 80, 47, a, 46, b] =>
    if isDigit a && isDigit b then some (a.toNat - 48, b.toNat - 48) else none
  | _ => none

structure StatusLine where
  proto : Bytes
  status : Bytes      -- `resp.Status`: everything after the first run of spaces
  code : Nat
  major : Nat
  minor : Nat
deriving Repr, BEq, DecidableEq

/-- First line of the response.  `none` = one of the three "malformed HTTP …" errors. -/
def parseStatusLine (line : Bytes) : Option StatusLine :=
  match cutByte SP line with
  | none => none                                        -- malformed HTTP response
  | some (proto, st) =>
    let status := st.dropWhile (fun c => c == SP)
    let codeS := match cutByte SP status with
      | some (c, _) => c
      | none => status
    if codeS.length ≠ 3 then none                       -- malformed HTTP status code
    else match atoi codeS with
      | none => none
      | some n =>
        if n < 0 then none
        else match parseHTTPVersion proto with
          | none => none                                -- malformed HTTP version
          | some (maj, mi) => some ⟨proto, status, n.toNat, maj, mi⟩

/-! ### header helpers -/

/-- `httpguts.HeaderValuesContainsToken(values, token)` for a lower-case ASCII `token`. -/
def valuesContainToken (vs : List Bytes) (token : Bytes) : Bool :=
  vs.any fun v => (splitOnByte 44 v).any fun p => lower (trimOWS p) == token

/-- `fixPragmaCacheControl`. -/
def fixPragmaCacheControl (h : HeaderMap) : HeaderMap :=
  match h.get kPragma with
  | some (v :: _) =>
    if v == vNoCache && !h.has kCacheControl then h.set kCacheControl [vNoCache] else h
  | _ => h

/-- `shouldClose(major, minor, header, removeCloseHeader = true)`: verdict and header. -/
def shouldClose (major minor : Nat) (h : HeaderMap) : Bool × HeaderMap :=
  if major < 1 then (true, h)
  else
    let conv := match h.get kConnection with | some vs => vs | none => []
    let hasClose := valuesContainToken conv vClose
    if major = 1 ∧ minor = 0 then (hasClose || !valuesContainToken conv vKeepAlive, h)
    else if hasClose then (true, h.del kConnection)
    else (false, h)

/-- `parseTransferEncoding`: `none` = unsupportedTEError; else (Chunked, header). -/
def parseTransferEncoding (major minor : Nat) (h : HeaderMap) : Option (Bool × HeaderMap) :=
  match h.get kTransferEncoding with
  | none => some (false, h)
  | some raw =>
    let h' := h.del kTransferEncoding
    if !(major > 1 || (major = 1 && minor ≥ 1)) then some (false, h')
    else match raw with
      | [v] => if lower v == vChunked then some (true, h') else none
      | _ => none

/-- `parseContentLength` on the first value: `none` = error; digits only, below 2^63. -/
def parseContentLength1 (v : Bytes) : Option Nat :=
  match parseDigits (trimString v) with
  | none => none
  | some n => if n < 2 ^ 63 then some n else none

def bodyAllowedForStatus (code : Nat) : Bool :=
  !((100 ≤ code && code ≤ 199) || code = 204 || code = 304)

/-- `fixLength(isResponse = true, …)`: `none` = error; else (realLength, header) with
`realLength = -1` for "not declared". -/
def fixLength (code : Nat) (isHead : Bool) (h : HeaderMap) (chunked : Bool) :
    Option (Int × HeaderMap) :=
  let cls := match h.get kContentLength with | some vs => vs | none => []
  -- several Content-Length values must agree after trimming; they are collapsed to one
  let dedup : Option (List Bytes × HeaderMap) :=
    match cls with
    | first :: _ :: _ =>
      let f := trimString first
      if cls.all (fun c => trimString c == f) then
        some ([f], (h.del kContentLength).add kContentLength f)
      else none
    | _ => some (cls, h)
  match dedup with
  | none => none
  | some (cls, h) =>
    let parsed : Option (Option Nat) :=
      match cls with
      | [] => some none
      | v :: _ => (parseContentLength1 v).map some
    match parsed with
    | none => none
    | some n? =>
      if isHead then some (0, h)
      else if code / 100 = 1 then some (0, h)
      else if code = 204 ∨ code = 304 then some (0, h)
      else if chunked then some (-1, h.del kContentLength)
      else match n? with
        | some n => some ((n : Int), h)
        | none => some (-1, h.del kContentLength)

/-- `foreachHeaderElement`. -/
def headerElements (v : Bytes) : List Bytes :=
  let v := trimString v
  if v.isEmpty then []
  else if !(v.contains 44) then [v]
  else ((splitOnByte 44 v).map trimString).filter fun f => !f.isEmpty

/-- `fixTrailer`: `none` = "bad trailer key"; else (declared trailer keys, header).  An empty
key list stands for a nil `Trailer`. -/
def fixTrailer (h : HeaderMap) (chunked : Bool) : Option (List Bytes × HeaderMap) :=
  match h.get kTrailer with
  | none => some ([], h)
  | some vv =>
    if !chunked then some ([], h)
    else
      let keys := (vv.flatMap headerElements).map canonicalMIMEHeaderKey
      if keys.any (fun k => k == kTransferEncoding || k == kTrailer || k == kContentLength) then none
      else some (keys.eraseDups, h.del kTrailer)

/-! ### the framing decision -/

inductive RespFraming where
  | none                 -- `NoBody`
  | length (n : Nat)     -- `io.LimitReader(r, n)`, n > 0
  | chunked              -- `internal.NewChunkedReader(r)` + trailer
  | untilClose           -- the connection's reader itself
deriving Repr, BEq, DecidableEq

/-- What `readTransfer` leaves in the `http.Response`. -/
structure Msg where
  sl : StatusLine
  header : HeaderMap
  contentLength : Int     -- `resp.ContentLength`
  teChunked : Bool        -- `resp.TransferEncoding == ["chunked"]`
  close : Bool            -- `resp.Close`
  trailerDecl : List Bytes  -- keys of `resp.Trailer` before the body is read
  framing : RespFraming
deriving Repr, BEq, DecidableEq

/-- `readTransfer` for a response to a request whose method is HEAD (`isHead`) or not. -/
def readTransfer (isHead : Bool) (sl : StatusLine) (h0 : HeaderMap) : Option Msg :=
  let (close0, h1) := shouldClose sl.major sl.minor h0
  -- "Default to HTTP/1.1"
  let (maj, mi) := if sl.major = 0 ∧ sl.minor = 0 then (1, 1) else (sl.major, sl.minor)
  match parseTransferEncoding maj mi h1 with
  | none => none
  | some (chunked, h2) =>
    match fixLength sl.code isHead h2 chunked with
    | none => none
    | some (realLength, h3) =>
      let cl? : Option Int :=
        if isHead then
          match h3.get kContentLength with
          | some (v :: _) => (parseContentLength1 v).map fun n => (n : Int)
          | _ => some (-1)
        else some realLength
      match cl? with
      | none => none
      | some cl =>
        match fixTrailer h3 chunked with
        | none => none
        | some (tr, h4) =>
          let close := close0 || (realLength = -1 && !chunked && bodyAllowedForStatus sl.code)
          let framing : RespFraming :=
            if chunked then
              (if isHead || !bodyAllowedForStatus sl.code then RespFraming.none else RespFraming.chunked)
            else if realLength = 0 then RespFraming.none
            else if realLength > 0 then RespFraming.length realLength.toNat
            else if close then RespFraming.untilClose
            else RespFraming.none
          some ⟨sl, h4, cl, chunked, close, tr, framing⟩

end Req.H1
