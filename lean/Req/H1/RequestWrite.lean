import Req.Client.Url
import Req.Client.Validate
import Req.Client.HeaderSort
/-!
Model of the exact bytes `persistConn.writeRequest` (transport.go) + `transferWriter`
(transfer.go) + `headerWriteSubset` (header.go) + `chunkedWriter` (internal/chunked.go) put on an
HTTP/1.1 connection for one `*http.Request`.

The header map and the extra-header map are association lists in Go's map ITERATION order (the
order only matters in header-order mode, see `Props/C16.lean: wire_set`). The chunk boundaries of
a chunked body are the sizes of the `Write` calls the body copy makes (`reads`).
-/
namespace Req.H1
open Req.Proto Req.Ascii Req.BStr Req.Url Req.Validate Req.HeaderSort

abbrev Hdr := List KV

def hdrGet? (h : Hdr) (k : Bytes) : Option (List Bytes) := (h.find? (·.key == k)).map (·.values)

/-- `headerGet` / `Header.Get` for a canonical key: first value or "". -/
def hdrFirst (h : Hdr) (k : Bytes) : Bytes :=
  match hdrGet? h k with
  | some (v :: _) => v
  | _ => []

def sHost : Bytes := [72, 111, 115, 116]
def sUserAgent : Bytes := [85, 115, 101, 114, 45, 65, 103, 101, 110, 116]
def sContentLength : Bytes := [67, 111, 110, 116, 101, 110, 116, 45, 76, 101, 110, 103, 116, 104]
def sTransferEncoding : Bytes :=
  [84, 114, 97, 110, 115, 102, 101, 114, 45, 69, 110, 99, 111, 100, 105, 110, 103]
def sTrailer : Bytes := [84, 114, 97, 105, 108, 101, 114]
def sConnection : Bytes := [67, 111, 110, 110, 101, 99, 116, 105, 111, 110]
def sClose : Bytes := [99, 108, 111, 115, 101]
def sChunked : Bytes := [99, 104, 117, 110, 107, 101, 100]
def sGET : Bytes := [71, 69, 84]
def sCONNECT : Bytes := [67, 79, 78, 78, 69, 67, 84]
def sHTTP11 : Bytes := [72, 84, 84, 80, 47, 49, 46, 49]
/-- `__header_order__` -/
def headerOrderKey : Bytes :=
  [95, 95, 104, 101, 97, 100, 101, 114, 95, 111, 114, 100, 101, 114, 95, 95]
/-- `__pseudo_header_order__` -/
def pseudoHeaderOrderKey : Bytes :=
  [95, 95, 112, 115, 101, 117, 100, 111, 95, 104, 101, 97, 100, 101, 114, 95, 111, 114, 100,
   101, 114, 95, 95]
/-- `header.DefaultUserAgent` = "req/v3 (https://github.com/imroc/req)" -/
def defaultUserAgent : Bytes :=
  [114, 101, 113, 47, 118, 51, 32, 40, 104, 116, 116, 112, 115, 58, 47, 47, 103, 105, 116, 104,
   117, 98, 46, 99, 111, 109, 47, 105, 109, 114, 111, 99, 47, 114, 101, 113, 41]

/-- root package `reqWriteExcludeHeader` (http_request.go): exact-key lookup. -/
def reqWriteExcludeHeader : List Bytes :=
  [sHost, sUserAgent, sContentLength, sTransferEncoding, sTrailer, headerOrderKey,
   pseudoHeaderOrderKey]

def crlf : Bytes := [13, 10]

structure WReq where
  method : Bytes
  url : Url
  /-- `r.Host` ("" = use URL.Host) -/
  host : Bytes := []
  header : Hdr := []
  /-- `r.ContentLength` -/
  contentLength : Int := 0
  /-- `r.Body != nil && r.Body != NoBody` -/
  hasBody : Bool := false
  /-- every byte the body reader yields before EOF -/
  body : Bytes := []
  /-- sizes of the successive non-final reads of the body copy (chunk boundaries when chunked);
  whatever remains is one last read -/
  reads : List Nat := []
  close : Bool := false
  /-- `transportRequest.extra` in iteration order -/
  extra : Hdr := []
  usingProxy : Bool := false
deriving Repr

inductive WErr
  | nonAsciiHost        -- idna / Punycode: outside the model
  | invalidHostProxy
  | ctlInURI
  | contentLengthNilBody
  | bodyLength
deriving Repr, DecidableEq

def methodOrGet (m : Bytes) : Bytes := if m.isEmpty then sGET else m

/-- `requestMethodUsuallyLacksBody` -/
def methodUsuallyLacksBody (m : Bytes) : Bool :=
  m == sGET || m == [72, 69, 65, 68] || m == [68, 69, 76, 69, 84, 69] ||
  m == [79, 80, 84, 73, 79, 78, 83] || m == [80, 82, 79, 80, 70, 73, 78, 68] ||
  m == [83, 69, 65, 82, 67, 72]

def isPostPutPatch (m : Bytes) : Bool :=
  m == [80, 79, 83, 84] || m == [80, 85, 84] || m == [80, 65, 84, 67, 72]

/-- the sanitized framing triple of `newTransferWriter`. -/
structure Framing where
  /-- body is actually sent (`t.Body != nil` after probing) -/
  sendBody : Bool
  chunked : Bool
  /-- `t.ContentLength` (-1 unknown) -/
  cl : Int
deriving Repr, DecidableEq

/-- `newTransferWriter` (+ `outgoingLength`, `shouldSendChunkedRequestBody`, `probeRequestBody` on an
in-memory body; `r.TransferEncoding` and `r.Trailer` are never set by req's client). -/
def framing (r : WReq) : Except WErr Framing :=
  if r.contentLength != 0 && !r.hasBody then .error .contentLengthNilBody
  else
    let m := methodOrGet r.method
    let cl0 : Int := if !r.hasBody then 0 else if r.contentLength != 0 then r.contentLength else -1
    if cl0 < 0 then
      if m == sCONNECT then .ok ⟨true, false, cl0⟩
      else if methodUsuallyLacksBody m then
        -- probe one byte
        if r.body.isEmpty then .ok ⟨false, false, 0⟩ else .ok ⟨true, true, -1⟩
      else .ok ⟨true, true, -1⟩
    else .ok ⟨r.hasBody, false, cl0⟩

/-- `transferWriter.shouldSendContentLength` (TransferEncoding is nil or ["chunked"]). -/
def shouldSendContentLength (m : Bytes) (f : Framing) : Bool :=
  if f.chunked then false
  else if f.cl > 0 then true
  else if f.cl < 0 then false
  else isPostPutPatch m

/-- `transferWriter.writeHeader`. -/
def framingFields (r : WReq) (f : Framing) : Hdr :=
  let m := methodOrGet r.method
  (if r.close && !hasToken (hdrFirst r.header sConnection) sClose then [⟨sConnection, [sClose]⟩] else [])
  ++ (if shouldSendContentLength m f then [⟨sContentLength, [natToDec f.cl.toNat]⟩]
      else if f.chunked then [⟨sTransferEncoding, [sChunked]⟩] else [])

/-- `headerWriteSubset`: exclusion by exact key, invalid names dropped, values sanitised; sorted by
key unless in header-order mode. -/
def writeSubset (h : Hdr) (exclude : List Bytes) (orderMode : Bool) : Hdr :=
  let kept := h.filter fun kv => !exclude.contains kv.key
  let ordered := if orderMode then kept else isortBy (fun a b => le a.key b.key) kept
  (ordered.filter fun kv => validHeaderFieldName kv.key).map fun kv =>
    ⟨kv.key, kv.values.map sanitizeValue⟩

/-- target host after `PunycodeHostPort` / `ValidHostHeader` / `removeZone`. -/
def wireHost (r : WReq) : Except WErr Bytes :=
  let host := if r.host.isEmpty then r.url.host else r.host
  if !isASCII host then .error .nonAsciiHost
  else if !validHostHeader host then
    if r.usingProxy then .error .invalidHostProxy else .ok []
  else .ok (removeZone host)

def requestTarget (r : WReq) (host : Bytes) : Bytes :=
  let ruri := requestURI r.url
  if r.usingProxy && !r.url.scheme.isEmpty && r.url.opaq.isEmpty then
    r.url.scheme ++ [58, 47, 47] ++ host ++ ruri
  else if r.method == sCONNECT && r.url.path.isEmpty then
    if !r.url.opaq.isEmpty then r.url.opaq else host
  else ruri

def orderList (h : Hdr) : List Bytes := (hdrGet? h headerOrderKey).getD []

/-- The header fields in wire order, one entry per key (each value becomes its own line). -/
def h1Fields (r : WReq) (host : Bytes) (f : Framing) : Hdr :=
  let order := orderList r.header
  let orderMode := !order.isEmpty
  let ua := if (hdrGet? r.header sUserAgent).isSome then hdrFirst r.header sUserAgent
            else defaultUserAgent
  let collected : Hdr :=
    [⟨sHost, [host]⟩]
    ++ (if ua.isEmpty then [] else [⟨sUserAgent, [ua]⟩])
    ++ framingFields r f
    ++ writeSubset r.header reqWriteExcludeHeader orderMode
    ++ writeSubset r.extra [] orderMode
  if orderMode then sortKeyValues collected order else collected

/-- the header lines written for a list of key/value groups: one `(name, value)` per value. -/
def linesOf (h : Hdr) : List (Bytes × Bytes) := h.flatMap fun kv => kv.values.map fun v => (kv.key, v)

def renderLine (l : Bytes × Bytes) : Bytes := l.1 ++ [58, 32] ++ l.2 ++ crlf

def renderLines (ls : List (Bytes × Bytes)) : Bytes := ls.flatMap renderLine

def renderField (kv : KV) : Bytes :=
  kv.values.flatMap fun v => kv.key ++ [58, 32] ++ v ++ crlf

def renderFields (h : Hdr) : Bytes := h.flatMap renderField

/-- `chunkedWriter.Write` for one write of `n > 0` bytes. -/
def chunk (data : Bytes) : Bytes := natToHex data.length ++ crlf ++ data ++ crlf

/-- split `body` at the given read sizes (zero-length reads write nothing); the remainder is the
last piece. Every piece is non-empty and the pieces concatenate to `body`. -/
def splitReads (b : Bytes) : List Nat → List Bytes
  | [] => if b.isEmpty then [] else [b]
  | n :: ns =>
    if b.isEmpty then []
    else if n == 0 then splitReads b ns
    else b.take n :: splitReads (b.drop n) ns

def chunkedBody (body : Bytes) (reads : List Nat) : Bytes :=
  (splitReads body reads).flatMap chunk ++ [48, 13, 10] ++ crlf

/-- `transferWriter.writeBody`. -/
def bodyBytes (r : WReq) (f : Framing) : Except WErr Bytes :=
  if !f.sendBody then .ok []
  else if f.chunked then .ok (chunkedBody r.body r.reads)
  else if f.cl == -1 then .ok r.body
  else if f.cl != r.body.length then .error .bodyLength
  else .ok r.body

def requestLine (r : WReq) (target : Bytes) : Bytes :=
  methodOrGet r.method ++ [32] ++ target ++ [32] ++ sHTTP11 ++ crlf

/-- All bytes `writeRequest` writes for `r`, or the error it returns. -/
def serializeH1 (r : WReq) : Except WErr Bytes := do
  let host ← wireHost r
  let target := requestTarget r host
  if containsCTL target then throw .ctlInURI
  let f ← framing r
  let body ← bodyBytes r f
  return requestLine r target ++ renderFields (h1Fields r host f) ++ crlf ++ body

end Req.H1
