import Req.H1.RequestWrite
/-!
The HTTP/1.1 request writer AS A SEQUENCE OF WRITES through the connection's `bufio.Writer`,
with the dump call sites: which `Write` goes through which dump wrapper, where the writer is
flushed, and where the request body is asked for its next piece.

Go (pinned tree + fixes/C13-6):
* `persistConn.writeRequest` (transport.go): request line, one `Fprintf` per header line and the
  blank line go through `dump.WrapRequestHeaderWriter` (one wrapper per dumper with
  `RequestHeader()`); flush of the RAW writer when the transfer writer asks for it
  (`FlushHeaders`) or before a 100-continue wait;
* `transferWriter.writeBody` (transfer.go):
  - chunked: `chunkedWriter.Write` writes `<hex len>\r\n`, the data and `\r\n` straight to the
    raw writer and — the raw writer being the connection's `*bufio.Writer`, tested on the RAW
    writer, not on the dump wrapper — flushes after every chunk (`FlushAfterChunkWriter`); the
    dump wrapper sits AROUND the chunked writer (`WrapRequestBodyWriteCloser`): it sees the data
    of each chunk, never the chunk-size line; `Close` writes `0\r\n` raw; the final `\r\n` (and
    trailers) go through `WrapRequestBodyWriter`, so these two framing bytes are dumped;
  - unknown length without chunking (CONNECT): every write through the body wrapper, followed
    by a flush of the raw writer (`bufioFlushWriter`);
  - known length: with a body dumper `io.CopyBuffer` takes the Read/Write loop through the
    wrapper; without one it takes `bufio.(*Writer).ReadFrom` (reads into the free buffer space,
    flushes when the buffer is full).
* `bufio.(*Writer).Write/Flush` over an underlying writer that accepts `limit` more bytes and
  then fails (`none` = never fails): sticky error, large-write bypass of an empty buffer.

The body is given as the list of pieces its successive `Read` calls returned (`[]` for a read
that returned no data, e.g. the final `0, io.EOF`).
-/
namespace Req.H1.DumpWrite
open Req.Proto Req.H1 Req.Ascii Req.BStr Req.Url Req.Validate Req.HeaderSort

/-! ### bufio.Writer over a wire that may fail -/

/-- State of the connection's buffered writer. `wire`: every byte the underlying writer has
accepted so far; `buf`: buffered, not yet handed over; `limit`: how many more bytes the
underlying writer accepts before it reports an error (`none`: never); `err`: `b.err != nil`. -/
structure BufW where
  wire : Bytes := []
  buf : Bytes := []
  limit : Option Nat := none
  err : Bool := false
  deriving DecidableEq, Repr

/-- One `Write` on the underlying writer: accepts what the limit allows. -/
def BufW.under (s : BufW) (p : Bytes) : BufW × Nat :=
  match s.limit with
  | none => ({ s with wire := s.wire ++ p }, p.length)
  | some l =>
    if p.length ≤ l then ({ s with wire := s.wire ++ p, limit := some (l - p.length) }, p.length)
    else ({ s with wire := s.wire ++ p.take l, limit := some 0, err := true }, l)

/-- `bufio.(*Writer).Flush`: what the underlying writer did not take stays buffered. -/
def BufW.flush (s : BufW) : BufW :=
  if s.err then s
  else if s.buf.isEmpty then s
  else
    let r := ({ s with buf := [] } : BufW).under s.buf
    { r.1 with buf := s.buf.drop r.2 }

/-- `bufio.(*Writer).Write(p)` for a buffer of `B` bytes; returns the new state and the number of
bytes accepted (`nn`). The loop of the Go code runs at most twice: fill + flush, then either the
rest fits or it bypasses the (now empty) buffer. -/
def BufW.write (B : Nat) (s : BufW) (p : Bytes) : BufW × Nat :=
  if s.err then (s, 0)
  else if p.length ≤ B - s.buf.length then ({ s with buf := s.buf ++ p }, p.length)
  else if s.buf.isEmpty then s.under p
  else
    let k := B - s.buf.length
    let s1 := ({ s with buf := s.buf ++ p.take k } : BufW).flush
    if s1.err then (s1, k)
    else
      let rest := p.drop k
      if rest.length ≤ B - s1.buf.length then ({ s1 with buf := s1.buf ++ rest }, p.length)
      else
        let r := s1.under rest
        (r.1, k + r.2)

/-! ### the write program -/

/-- Which dump wrapper chain a write passes. -/
inductive Tag
  | hdr    -- `WrapRequestHeaderWriter`
  | body   -- `WrapRequestBodyWriter` / `WrapRequestBodyWriteCloser`
  | raw    -- straight to the raw writer (chunk framing)
  deriving DecidableEq, Repr

inductive Op
  | write (data : Bytes) (tag : Tag)
  | flush
  | flushIfFull      -- `bufio.ReadFrom`: `if b.Available() == 0 { b.Flush() }`
  | read             -- the request body's `Read` is called here
  deriving DecidableEq, Repr

/-- Everything observable after (a prefix of) the program. `dumpH` / `dumpB`: the bytes every
dumper with `RequestHeader()` / `RequestBody()` has been handed (`p[:n]` of each wrapped write,
concatenated); `pending`: for every body `Read`, how many bytes produced so far were still
withheld in the buffer at that moment. -/
structure St where
  w : BufW := {}
  dumpH : Bytes := []
  dumpB : Bytes := []
  /-- bytes the buffered writer accepted, in order (specification variable) -/
  accepted : Bytes := []
  pending : List Nat := []
  deriving DecidableEq, Repr

def St.dump (s : St) : Tag → Bytes
  | .hdr => s.dumpH
  | .body => s.dumpB
  | .raw => []

def step (B : Nat) (s : St) : Op → St
  | .write d t =>
    let (w1, a) := s.w.write B d
    let got := d.take a
    { s with w := w1, accepted := s.accepted ++ got,
             dumpH := if t = .hdr then s.dumpH ++ got else s.dumpH,
             dumpB := if t = .body then s.dumpB ++ got else s.dumpB }
  | .flush => { s with w := s.w.flush }
  | .flushIfFull => if s.w.buf.length ≥ B then { s with w := s.w.flush } else s
  | .read => { s with pending := s.pending ++ [s.w.buf.length] }

def run (B : Nat) (s : St) (ops : List Op) : St := ops.foldl (step B) s

/-- Request side of the dump: which copy path `io.CopyBuffer` takes depends on whether a body
dump wrapper sits on the writer. -/
structure Mode where
  /-- some dumper has `RequestHeader()` on: the head is written through header wrappers -/
  hdrDump : Bool := false
  /-- some dumper has `RequestBody()` on: the body is written through body wrappers -/
  bodyDump : Bool := false
  /-- `transferWriter.FlushHeaders` (body is not a known in-memory reader) or a 100-continue wait -/
  flushHeaders : Bool := false
  /-- the body's last `Read` returned an error other than `io.EOF`: the copy stops there, no
  terminating chunk is written -/
  bodyFails : Bool := false
  /-- model the tree before fixes/C13-6 (only used to recognise the known finding) -/
  connectOld : Bool := false
  deriving DecidableEq, Repr

def Mode.htag (md : Mode) : Tag := if md.hdrDump then .hdr else .raw
def Mode.btag (md : Mode) : Tag := if md.bodyDump then .body else .raw

def headOps (t : Tag) (line : Bytes) (fields : Hdr) : List Op :=
  .write line t :: (linesOf fields).map (fun l => .write (renderLine l) t) ++ [.write crlf t]

/-- `chunkedWriter.Write(p)` behind the body dump wrapper, on the connection's `bufio.Writer`. -/
def chunkOps (t : Tag) (p : Bytes) : List Op :=
  if p.isEmpty then []
  else [.write (Req.BStr.natToHex p.length ++ crlf) .raw, .write p t, .write crlf .raw, .flush]

/-- Does the stack promise that every body write leaves at once? chunked (Go issue 6574) and
CONNECT with a body of unknown length (`bufioFlushWriter`). -/
def streams (m : Bytes) (f : Framing) : Bool := f.chunked || (f.cl == -1 && methodOrGet m == sCONNECT)

/-- `bufioFlushWriter`: flush after the write. Before fixes/C13-6 the type test looked at the
dump-wrapped writer, so with a body dumper nothing was flushed (`connectOld`). -/
def connectFlush (m : Bytes) (md : Mode) : Bool :=
  methodOrGet m == sCONNECT && !(md.connectOld && md.bodyDump)

def bodyOps (m : Bytes) (f : Framing) (md : Mode) (pieces : List Bytes) : List Op :=
  if !f.sendBody then []
  else if f.chunked then
    pieces.flatMap (fun p => .read :: chunkOps md.btag p) ++
      (if md.bodyFails then [] else [.write [48, 13, 10] .raw, .write crlf md.btag])
  else if f.cl == -1 then
    pieces.flatMap fun p =>
      .read :: (if p.isEmpty then [] else
        .write p md.btag :: (if connectFlush m md then [.flush] else []))
  else if md.bodyDump then
    pieces.flatMap fun p => .read :: (if p.isEmpty then [] else [.write p .body])
  else
    pieces.flatMap (fun p => [.flushIfFull, .read, .write p .raw]) ++
      (if md.bodyFails then [] else [.flushIfFull])

/-- The whole program of `writeRequest` for a request whose head is `line`, `fields`. -/
def program (m : Bytes) (line : Bytes) (fields : Hdr) (f : Framing) (md : Mode) (pieces : List Bytes) :
    List Op :=
  headOps md.htag line fields ++ (if md.flushHeaders then [.flush] else []) ++ bodyOps m f md pieces

/-- the connection's buffered writer before the request: empty, wire accepting `limit` bytes. -/
def St.init (limit : Option Nat) : St := { w := { limit := limit } }

/-- `writeRequest` on request `r` whose body reader returned `pieces`, buffer size `B`, wire
accepting `limit` bytes; `none` = refused before the first write (same errors as
`serializeH1`). The final `Flush` of `writeLoop` is NOT included (`St.w.buf` is what it would
still have to send). -/
def writeRequest (B : Nat) (limit : Option Nat) (r : WReq) (md : Mode) (pieces : List Bytes) :
    Except WErr St := do
  let host ← wireHost r
  let target := requestTarget r host
  if containsCTL target then throw .ctlInURI
  let f ← framing r
  return run B (St.init limit)
    (program r.method (requestLine r target) (h1Fields r host f) f md pieces)

/-- `shouldSendChunkedRequestBody` probes the body (reads one byte ahead) when the length is
unknown and the method usually has no body. -/
def probes (r : WReq) : Bool :=
  r.hasBody && r.contentLength ≤ 0 && methodUsuallyLacksBody (methodOrGet r.method)

/-- `transferWriter.FlushHeaders` as `newTransferWriter` sets it (after the probe): a body will
be sent and it is not one of the standard in-memory readers — a probed body is a
`io.MultiReader`, hence never in-memory. -/
def flushHeadersOf (r : WReq) (f : Framing) (inMemory : Bool) : Bool :=
  f.sendBody && (!inMemory || probes r)

/-- cut `body` into the pieces of the given read sizes (what is left over was never read). -/
def cutPieces (body : Bytes) : List Nat → List Bytes
  | [] => []
  | n :: ns => body.take n :: cutPieces (body.drop n) ns

/-- the head bytes of the wire model. -/
def headBytes (line : Bytes) (fields : Hdr) : Bytes := line ++ renderFields fields ++ crlf

/-- what a body dumper must hold: the body data; after a chunked body the final CRLF passes
through the wrapper as well. -/
def bodyDumpBytes (f : Framing) (pieces : List Bytes) : Bytes :=
  if !f.sendBody then [] else pieces.flatten ++ (if f.chunked then crlf else [])

/-- the body as framed on the wire (pieces = the reads of the body). -/
def bodyWire (f : Framing) (pieces : List Bytes) : Bytes :=
  if !f.sendBody then []
  else if f.chunked then (pieces.filter (!·.isEmpty)).flatMap chunk ++ [48, 13, 10] ++ crlf
  else pieces.flatten

end Req.H1.DumpWrite
