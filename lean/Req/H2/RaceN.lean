import Req.H2.Race
/-!
C06, round 5 — several SETTINGS frames inside one race window.

`Req.H2.Race.writeRaced id vals` lets ONE SETTINGS frame be processed and acknowledged between
"a DATA frame of stream `id` is sized (cc.mu)" and "the frame is written (cc.wmu)". The body
writer can be off the CPU for longer than that: `writeRacedN id frames` lets the read loop process
and acknowledge any number of SETTINGS frames in that window (each `processSettings` takes and
releases both locks), stopping when one of them tears the connection down; `openRacedN r vals more`
does the same between the admission of a request and the write of its header block. Everything else is
the two-phase machine (`NOp.r`).
-/
namespace Req.H2.Race
open Req.H2 Req.H2.Flow Req.H2.Conn

/-- the read loop processes and acknowledges a sequence of SETTINGS frames -/
def settingsSeq (st : State) : List (List (Nat × Nat)) → State × List Event
  | [] => (st, [])
  | vals :: rest =>
    if st.closed then (st, [])
    else
      let (st1, evs) := settingsEvents st vals
      let (st2, evs2) := settingsSeq st1 rest
      (st2, evs ++ evs2)

inductive NOp where
  | r (op : ROp)
  /-- a DATA frame of stream `id` is sized (cc.mu), the read loop processes and acknowledges the
  SETTINGS frames `frames` one after the other, then the frame is written (cc.wmu) -/
  | writeRacedN (id : Nat) (frames : List (List (Nat × Nat)))
  /-- a request is admitted and its stream created (cc.mu), the read loop processes and
  acknowledges `vals` and then `more`, one after the other, then the header block is written -/
  | openRacedN (r : Req) (vals : List (Nat × Nat)) (more : List (List (Nat × Nat)))
  deriving DecidableEq, Repr, Inhabited

def NOp.ok : NOp → Prop
  | .r op => op.ok
  | .writeRacedN _ _ => True
  | .openRacedN q _ _ => 0 < q.hdrLen

def nstep (st : State) : NOp → State × List Event
  | .r op => rstep st op
  | .writeRacedN id frames =>
    if st.closed then (st, [])
    else match findStream st.streams id with
      | none => (st, [])
      | some s =>
        match writeStep st.connOut st.maxFrameSize s with
        | none => (st, [])
        | some (c, s', f) =>
          let st1 := settle { st with connOut := c } s'
          if st1.closed then (st1, [Event.c f])
          else
            let (st2, evs) := settingsSeq st1 frames
            (st2, evs ++ (if st2.closed then [] else [Event.c f]))

  | .openRacedN q vals more =>
    if st.closed then (st, [])
    else if st.pendingOpen.isSome || !canTake st || !decide (liveCount st.streams < st.maxConcurrent) then (st, [])
    else
      let (st1, evs) := settingsSeq st (vals :: more)
      if st1.closed then (st1, evs)
      else
        let (st2, fs) := doOpen st1 q
        (st2, evs ++ fs.map Event.c)

def nrunFrom (st : State) (hist : List Event) : List NOp → State × List Event
  | [] => (st, hist)
  | op :: ops =>
    let (st', evs) := nstep st op
    nrunFrom st' (hist ++ evs) ops

def nrun (cfg : Cfg) (ops : List NOp) : State × List Event :=
  let (st, fs) := newConn cfg
  nrunFrom st (fs.map Event.c) ops

end Req.H2.Race
