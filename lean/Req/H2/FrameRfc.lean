import Req.H2.Frame
/-!
RFC 9113 §4.1, §6.1–§6.10 as a DECLARATIVE verdict on a received frame `(header, payload)`:
accept, or reject with the error the section prescribes. Everything is stated as arithmetic on the
payload length, the flags, the stream identifier and — where the RFC looks inside — the Pad Length
octet, the SETTINGS_INITIAL_WINDOW_SIZE value and the window increment. Nothing here follows the
parser's control flow (no `readByte`, no list patterns); where two rules are violated at once the
precedence is the one the reference implementation (x/net/http2, which the fork must match) uses,
and it is written out as such.

`Req.Props.C05.parse_verdict` proves that the typed parsers of `internal/http2/frame.go` return
exactly this verdict; the per-type corollaries in `Req.Props.C05Iff` spell the classes out.
-/
namespace Req.H2.Frame.Rfc
open Req.Proto Req.H2.Frame

inductive Verdict where
  | accept
  | reject (e : RErr)
  deriving DecidableEq, Repr

def padded (fh : FrameHeader) : Bool := hasFlag fh.flags flagPadded
def hasPrio (fh : FrameHeader) : Bool := hasFlag fh.flags flagPriority
def isAck (fh : FrameHeader) : Bool := hasFlag fh.flags flagAck

/-- the Pad Length octet (first octet of the payload) of a PADDED frame, else 0. -/
def padLen (fh : FrameHeader) (p : Bytes) : Nat := if padded fh then (p.headD 0).toNat else 0

/-- the big-endian 32-bit word at the start of the payload. -/
def word0 (p : Bytes) : Nat := rd32 (p.getD 0 0) (p.getD 1 0) (p.getD 2 0) (p.getD 3 0)

/-- octets in front of the data / header block fragment: Pad Length (when PADDED), then the
5 priority octets (HEADERS with PRIORITY) or the 4 octets of the promised stream id. -/
def fixedHeaders (fh : FrameHeader) : Nat := b2n (padded fh) 1 + b2n (hasPrio fh) 5
def fixedPushPromise (fh : FrameHeader) : Nat := b2n (padded fh) 1 + 4

/-- §6.5.2: the value of SETTINGS_INITIAL_WINDOW_SIZE (first occurrence, as the reference reads it)
exceeds 2^31 − 1. -/
def initialWindowTooLarge (p : Bytes) : Bool :=
  match settingsValue (decodeSettings p) 4 with
  | some v => decide (v > 2147483647)
  | none => false

def connProtocol : Verdict := .reject (.conn errProtocol)
def connFrameSize : Verdict := .reject (.conn errFrameSize)

/-- §6.1 DATA: stream 0 → PROTOCOL_ERROR; padding that is not shorter than the payload →
PROTOCOL_ERROR; (a PADDED frame with no octet at all has no Pad Length field: short read). -/
def data (fh : FrameHeader) (p : Bytes) : Verdict :=
  if fh.streamID = 0 then connProtocol
  else if padded fh ∧ p.length = 0 then .reject .unexpectedEOF
  else if padded fh ∧ padLen fh p ≥ p.length then connProtocol
  else .accept

/-- §6.2 HEADERS: stream 0 → PROTOCOL_ERROR (connection); the fixed fields must fit; padding longer
than what remains → PROTOCOL_ERROR (stream error in the reference). -/
def headers (fh : FrameHeader) (p : Bytes) : Verdict :=
  if fh.streamID = 0 then connProtocol
  else if p.length < fixedHeaders fh then .reject .unexpectedEOF
  else if p.length - fixedHeaders fh < padLen fh p then .reject (.stream fh.streamID errProtocol)
  else .accept

/-- §6.3 PRIORITY: stream 0 → PROTOCOL_ERROR; length other than 5 → FRAME_SIZE_ERROR. -/
def priority (fh : FrameHeader) (p : Bytes) : Verdict :=
  if fh.streamID = 0 then connProtocol
  else if p.length ≠ 5 then connFrameSize
  else .accept

/-- §6.4 RST_STREAM: length other than 4 → FRAME_SIZE_ERROR; stream 0 → PROTOCOL_ERROR. -/
def rstStream (fh : FrameHeader) (p : Bytes) : Verdict :=
  if p.length ≠ 4 then connFrameSize
  else if fh.streamID = 0 then connProtocol
  else .accept

/-- §6.5 SETTINGS: ACK with a payload → FRAME_SIZE_ERROR; stream other than 0 → PROTOCOL_ERROR;
length not a multiple of 6 → FRAME_SIZE_ERROR; §6.5.2 INITIAL_WINDOW_SIZE above 2^31−1 →
FLOW_CONTROL_ERROR. -/
def settings (fh : FrameHeader) (p : Bytes) : Verdict :=
  if isAck fh ∧ p.length > 0 then connFrameSize
  else if fh.streamID ≠ 0 then connProtocol
  else if p.length % 6 ≠ 0 then connFrameSize
  else if initialWindowTooLarge p then .reject (.conn errFlowControl)
  else .accept

/-- §6.6 PUSH_PROMISE: stream 0 → PROTOCOL_ERROR; fixed fields must fit; padding longer than what
remains → PROTOCOL_ERROR. -/
def pushPromise (fh : FrameHeader) (p : Bytes) : Verdict :=
  if fh.streamID = 0 then connProtocol
  else if p.length < fixedPushPromise fh then .reject .unexpectedEOF
  else if p.length - fixedPushPromise fh < padLen fh p then connProtocol
  else .accept

/-- §6.7 PING: length other than 8 → FRAME_SIZE_ERROR; stream other than 0 → PROTOCOL_ERROR. -/
def ping (fh : FrameHeader) (p : Bytes) : Verdict :=
  if p.length ≠ 8 then connFrameSize
  else if fh.streamID ≠ 0 then connProtocol
  else .accept

/-- §6.8 GOAWAY: stream other than 0 → PROTOCOL_ERROR; shorter than 8 → FRAME_SIZE_ERROR. -/
def goAway (fh : FrameHeader) (p : Bytes) : Verdict :=
  if fh.streamID ≠ 0 then connProtocol
  else if p.length < 8 then connFrameSize
  else .accept

/-- §6.9 WINDOW_UPDATE: length other than 4 → FRAME_SIZE_ERROR; an increment of 0 (reserved bit
ignored) → PROTOCOL_ERROR, on the connection for stream 0, on the stream otherwise. -/
def windowUpdate (fh : FrameHeader) (p : Bytes) : Verdict :=
  if p.length ≠ 4 then connFrameSize
  else if word0 p % two31 = 0 then
    if fh.streamID = 0 then connProtocol else .reject (.stream fh.streamID errProtocol)
  else .accept

/-- §6.10 CONTINUATION: stream 0 → PROTOCOL_ERROR. -/
def continuation (fh : FrameHeader) (_p : Bytes) : Verdict :=
  if fh.streamID = 0 then connProtocol else .accept

/-- §4.1: "Implementations MUST ignore and discard frames of unknown types" — accepted as is. -/
def verdict (fh : FrameHeader) (p : Bytes) : Verdict :=
  if fh.type = tData then data fh p
  else if fh.type = tHeaders then headers fh p
  else if fh.type = tPriority then priority fh p
  else if fh.type = tRSTStream then rstStream fh p
  else if fh.type = tSettings then settings fh p
  else if fh.type = tPushPromise then pushPromise fh p
  else if fh.type = tPing then ping fh p
  else if fh.type = tGoAway then goAway fh p
  else if fh.type = tWindowUpdate then windowUpdate fh p
  else if fh.type = tContinuation then continuation fh p
  else .accept

/-- the verdict a parser result stands for -/
def ofResult : Except RErr Frame → Verdict
  | .ok _ => .accept
  | .error e => .reject e

end Req.H2.Frame.Rfc
