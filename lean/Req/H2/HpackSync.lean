import Req.Base.BStr
/-!
C16 round 7: header compression is STATEFUL per connection. An abstract model of the part of HPACK
that matters for "the header set of every request arrives": both ends keep a dynamic table (newest
entry first); the encoder sends a field that is in its table as an index and any other field as a
literal which both ends insert. (Static table, Huffman coding, eviction and table-size updates are
not modelled — they do not change the argument: the decoder replays the encoder's table operations
only for the blocks it is given.)

A connection carries a sequence of requests; each may be given up before its header block is
encoded, or WHILE it is encoded (`clientStream.encodeAndWriteHeaders`: the block goes through
`cc.henc` under `cc.wmu`, trace hooks and dumpers run in between). The writer's discipline is a
parameter: `writeAlways = true` is the code (once a block went through the encoder it is written),
`false` is "look again after encoding and drop the block" (seed C16-r7-3).
-/
namespace Req.HpackSync
open Req.Proto

abbrev Field := Bytes × Bytes
abbrev Table := List Field

/-- one representation in a header block -/
inductive Rep where
  | indexed (i : Nat)
  | literal (f : Field)
deriving DecidableEq, Repr

def find (f : Field) : Table → Option Nat
  | [] => none
  | g :: t => if g = f then some 0 else (find f t).map (· + 1)

def nth : Table → Nat → Option Field
  | [], _ => none
  | g :: _, 0 => some g
  | _ :: t, i + 1 => nth t i

/-- the encoder: index if the table has the field, else literal with incremental indexing -/
def encodeField (t : Table) (f : Field) : Rep × Table :=
  match find f t with
  | some i => (.indexed i, t)
  | none => (.literal f, f :: t)

def encodeBlock : Table → List Field → List Rep × Table
  | t, [] => ([], t)
  | t, f :: fs =>
    ((encodeField t f).1 :: (encodeBlock (encodeField t f).2 fs).1,
      (encodeBlock (encodeField t f).2 fs).2)

/-- the decoder; `none` = COMPRESSION_ERROR (an index the table does not have) -/
def decodeBlock : Table → List Rep → Option (List Field × Table)
  | t, [] => some ([], t)
  | t, .indexed i :: rs =>
    match nth t i with
    | none => none
    | some f => (decodeBlock t rs).map fun (fs, t') => (f :: fs, t')
  | t, .literal f :: rs => (decodeBlock (f :: t) rs).map fun (fs, t') => (f :: fs, t')

/-- when a request is given up relative to the header write -/
inductive GiveUp where
  | no
  | beforeEncoding
  | whileEncoding
deriving DecidableEq, Repr

/-- what the peer gets to see of one request -/
inductive Seen where
  | nothing
  | fields (fs : List Field)
  | compressionError
deriving DecidableEq, Repr

structure Conn where
  client : Table
  peer : Table

/-- one request on the connection -/
def step (writeAlways : Bool) (c : Conn) (r : List Field × GiveUp) : Conn × Seen :=
  match r.2 with
  | .beforeEncoding => (c, .nothing)
  | g =>
    if g = .whileEncoding && !writeAlways then (⟨(encodeBlock c.client r.1).2, c.peer⟩, .nothing)
    else match decodeBlock c.peer (encodeBlock c.client r.1).1 with
      | none => (⟨(encodeBlock c.client r.1).2, c.peer⟩, .compressionError)
      | some (fs, p') => (⟨(encodeBlock c.client r.1).2, p'⟩, .fields fs)

def run (writeAlways : Bool) : Conn → List (List Field × GiveUp) → Conn × List Seen
  | c, [] => (c, [])
  | c, r :: rs =>
    ((run writeAlways (step writeAlways c r).1 rs).1,
      (step writeAlways c r).2 :: (run writeAlways (step writeAlways c r).1 rs).2)

/-- what the property asks the peer to see -/
def expected (r : List Field × GiveUp) : Seen :=
  if r.2 = .beforeEncoding then .nothing else .fields r.1

end Req.HpackSync
