import Req.H2.Flow
/-!
C06 — model of one HTTP/2 `ClientConn` of `internal/http2/transport.go`: what the client
emits (frames) as a function of what the caller does (open a request, feed / write its body,
cancel, read / close the response body) and of what the peer sends (SETTINGS, SETTINGS ack,
WINDOW_UPDATE, RST_STREAM, GOAWAY, response HEADERS, DATA).

Every operation is one critical section of the real code under `cc.mu` / `cc.wmu` together with
the frame write that follows it, so an operation list is an interleaving of the real goroutines
at that granularity (see notes/C06.md for the two places where the real code releases the lock
between the decision and the write).

The model carries a `Fixes` vector: `Fixes.all` is the behaviour of the code with the
repairs of `fixes/C06-*.patch` applied; switching one off gives the behaviour of the unchanged
code for that defect, which is what the counter-example theorems and the lanes' classification
of known findings use.

Round 4 added: PING (acknowledged), PUSH_PROMISE (connection error), informational (1xx)
responses, HEAD requests, response Content-Length (`bytesRemain`, the over-long response),
request trailers, DATA frames that are dropped with a stream error (connection-level
accounting), and the wake-up table for SETTINGS_MAX_CONCURRENT_STREAMS.
-/
namespace Req.H2.Conn
open Req.H2 Req.H2.Flow

/-! ## Configuration (the caller's fingerprint) -/

structure Fixes where
  /-- the caller's SETTINGS_MAX_FRAME_SIZE does not seed `cc.maxFrameSize` (the peer's limit) -/
  maxFrame : Bool
  /-- stream receive windows start at the advertised SETTINGS_INITIAL_WINDOW_SIZE -/
  streamInflow : Bool
  /-- PRIORITY frames seed `nextStreamID` so that ids stay odd and increasing -/
  prioIds : Bool
  /-- the 5 priority bytes of a HEADERS frame count against the peer's MAX_FRAME_SIZE -/
  hdrPrio : Bool
  /-- C06-5: a `Read` that hits "response longer than its Content-Length" still returns the
  connection-level credit of the bytes it took out of the pipe -/
  readCredit : Bool := true
  /-- C06-6: a DATA frame dropped with a stream error (after END_STREAM, before HEADERS, on a
  HEAD response) is accounted for at connection level -/
  dataCredit : Bool := true
  /-- C06-7: request trailers are split with the MAX_FRAME_SIZE in force when they are written -/
  trailerFrame : Bool := true
  /-- C06-8: a request without a body announces no trailers and ends its stream on HEADERS -/
  trailerNoBody : Bool := true
  /-- C06-9: processing SETTINGS_MAX_CONCURRENT_STREAMS broadcasts on `cc.cond` -/
  mcsWake : Bool := true
  deriving DecidableEq, Repr, Inhabited

def Fixes.all : Fixes := { maxFrame := true, streamInflow := true, prioIds := true, hdrPrio := true }
def Fixes.legacy : Fixes :=
  { maxFrame := false, streamInflow := false, prioIds := false, hdrPrio := false, readCredit := false,
    dataCredit := false, trailerFrame := false, trailerNoBody := false, mcsWake := false }

structure Cfg where
  /-- `Transport.Settings` as (id, value) pairs; empty = defaults -/
  settings : List (Nat × Nat)
  /-- `Transport.ConnectionFlow` -/
  connFlow : Nat
  /-- stream ids of `Transport.PriorityFrames` -/
  prio : List Nat
  /-- `Transport.HeaderPriority` is not the zero value -/
  hdrPrio : Bool
  /-- `Transport.maxHeaderListSize()` (0 = do not advertise) -/
  maxHeaderList : Nat
  /-- `Transport.StrictMaxConcurrentStreams` -/
  strict : Bool
  fixes : Fixes
  deriving DecidableEq, Repr, Inhabited

/-- SETTINGS identifiers (RFC 9113 section 6.5.2). -/
def sHeaderTableSize : Nat := 1
def sEnablePush : Nat := 2
def sMaxConcurrentStreams : Nat := 3
def sInitialWindowSize : Nat := 4
def sMaxFrameSize : Nat := 5
def sMaxHeaderListSize : Nat := 6

/-- last value given for a setting id in a SETTINGS list (later entries win). -/
def lastSetting (l : List (Nat × Nat)) (id : Nat) : Option Nat :=
  l.foldl (fun acc p => if p.1 = id then some p.2 else acc) none

/-! ## Facts of `newClientConn` / `addStreamLocked` (bridged to the source in Bridge/C06.lean) -/

def transportDefaultConnFlow : Int := 1073741824
def transportDefaultStreamFlow : Int := 4194304
def initialMaxConcurrentStreams : Nat := 100
def defaultMaxConcurrentStreams : Nat := 1000
def initialWindowSize : Nat := 65535
def defaultMaxFrameSize : Nat := 16384

/-- the SETTINGS frame of the connection preface -/
def initialSettings (cfg : Cfg) : List (Nat × Nat) :=
  if cfg.settings.isEmpty then
    [(sEnablePush, 0), (sInitialWindowSize, 4194304)] ++
      (if cfg.maxHeaderList = 0 then [] else [(sMaxHeaderListSize, cfg.maxHeaderList)])
  else cfg.settings

/-- `cc.maxFrameSize` after `newClientConn` -/
def maxFrameSize0 (cfg : Cfg) : Nat :=
  if cfg.fixes.maxFrame then defaultMaxFrameSize
  else match lastSetting cfg.settings sMaxFrameSize with
    | some v => v
    | none => defaultMaxFrameSize

/-- the increment of the initial connection-level WINDOW_UPDATE -/
def connFlowAdvertised (connectionFlow : Int) : Int :=
  if connectionFlow < 1 then transportDefaultConnFlow else connectionFlow

/-- the argument of `cc.inflow.init` -/
def connInflowInit (connectionFlow : Int) : Int :=
  wrap32 (wrap32 (connFlowAdvertised connectionFlow) + 65535)

/-- the argument of `cs.inflow.init` in `addStreamLocked` -/
def streamInflow0 (cfg : Cfg) : Int :=
  if cfg.fixes.streamInflow then
    match lastSetting cfg.settings sInitialWindowSize with
    | some v => wrap32 v
    | none => transportDefaultStreamFlow
  else transportDefaultStreamFlow

/-- loop body of `for _, p := range t.PriorityFrames` on `cc.nextStreamID`, unchanged code -/
def prioSeedLegacy (_nextStreamID streamID : Int) : Int := wrapU32 (streamID + 2)

/-- the same with `fixes/C06-3`: skip past the named stream as before, but stay odd -/
def prioSeedFixed (_nextStreamID streamID : Int) : Int :=
  let next := wrapU32 (streamID + 2)
  if next % 2 = 0 then wrapU32 (next + 1) else next

def prioSeed (fx : Fixes) : Int → Int → Int :=
  if fx.prioIds then prioSeedFixed else prioSeedLegacy

/-- `cc.nextStreamID` after `newClientConn` -/
def nextStreamID0 (cfg : Cfg) : Nat :=
  (cfg.prio.foldl (fun (nx : Int) (id : Nat) => prioSeed cfg.fixes nx (id : Int)) 1).toNat

/-- `frameScratchBufferLen`: `cl` = declared content length or -1 -/
def scratchLen (cl maxFrameSize : Int) : Int :=
  let n := if maxFrameSize > 524288 then 524288 else maxFrameSize
  let n := if cl ≠ -1 ∧ cl + 1 < n then cl + 1 else n
  if n < 1 then 1 else n

/-- bytes taken by `awaitFlowControl` when `a = available() > 0` -/
def awaitTake (a maxBytes maxFrameSize : Int) : Int :=
  let take := if a > maxBytes then maxBytes else a
  if take > maxFrameSize then maxFrameSize else take

/-! ## Frames and operations -/

/-- frames written by the client -/
inductive Frame where
  | settings (vals : List (Nat × Nat))
  | settingsAck
  | windowUpdate (id : Nat) (inc : Int)
  | priority (id : Nat)
  /-- `len` = payload length (block fragment + 5 when a priority is attached) -/
  | headers (id len : Nat) (endStream endHeaders : Bool)
  | continuation (id len : Nat) (endHeaders : Bool)
  | data (id len : Nat) (endStream : Bool)
  | rst (id : Nat)
  /-- PING; `data` = the 8 opaque octets as a number -/
  | ping (ack : Bool) (data : Nat)
  deriving DecidableEq, Repr, Inhabited

/-- frames sent by the peer -/
inductive PFrame where
  | settings (vals : List (Nat × Nat))
  | settingsAck
  | windowUpdate (id inc : Nat)
  | rst (id code : Nat)
  | goaway (last : Nat)
  /-- a HEADERS frame (header block complete): `status` = the `:status` pseudo-header
  (0 = none: a trailer block; 100..199 = informational; anything else = the final response),
  `cl` = the value of a single well-formed Content-Length field -/
  | resp (id : Nat) (endStream : Bool) (status : Nat) (cl : Option Nat)
  /-- DATA with `len` bytes of data and `pad` bytes of padding overhead (pad length octet
  included; 0 = not padded) -/
  | data (id len pad : Nat) (endStream : Bool)
  | ping (ack : Bool) (data : Nat)
  /-- PUSH_PROMISE on stream `id` promising stream `promised` -/
  | pushPromise (id promised : Nat)
  deriving DecidableEq, Repr, Inhabited

/-- response HEADERS with status 200 and no Content-Length -/
@[match_pattern] def PFrame.headers (id : Nat) (endStream : Bool) : PFrame := .resp id endStream 200 none
/-- a trailer block -/
@[match_pattern] def PFrame.trailers (id : Nat) (endStream : Bool) : PFrame := .resp id endStream 0 none

/-- what the caller asks for: header block of `hdrLen` bytes, request body of `bodyLen` bytes
with a declared content length (`known`) or without, method HEAD or not, and `Request.Trailer`
(`none` = nil; `some n` = at least one key declared, the values encode to `n` bytes when the
upload ends) -/
structure Req where
  hdrLen : Nat
  bodyLen : Nat
  known : Bool
  head : Bool := false
  trailer : Option Nat := none
  deriving DecidableEq, Repr, Inhabited

inductive Op where
  /-- `RoundTrip` -/
  | openReq (r : Req)
  /-- the request body's `Read` hands the writer its next chunk: `n` bytes (0 = as much as the
  scratch buffer holds) -/
  | feed (id n : Nat)
  /-- one `awaitFlowControl` + DATA write of the stream's body writer -/
  | write (id : Nat)
  /-- the caller cancels the request -/
  | cancel (id : Nat)
  /-- `Response.Body.Read` with a buffer of `n` bytes -/
  | read (id n : Nat)
  /-- `Response.Body.Close` -/
  | close (id : Nat)
  /-- a `cc.cond.Broadcast()` with no other effect (any wake-up of the goroutines sleeping on
  `cc.cond`, spurious ones included): a `RoundTrip` waiting for a stream slot looks again -/
  | wake
  | peer (f : PFrame)
  deriving DecidableEq, Repr, Inhabited

/-- `RoundTrip` of a request that is neither HEAD nor carries trailers -/
@[match_pattern] def Op.openStream (hdrLen bodyLen : Nat) (known : Bool) : Op :=
  .openReq { hdrLen := hdrLen, bodyLen := bodyLen, known := known }

/-! ## State -/

structure Stream where
  id : Nat
  /-- still in `cc.streams` -/
  live : Bool
  /-- `cs.flow.n` -/
  out : Int
  known : Bool
  /-- request body bytes not yet handed to the writer -/
  bodyRemain : Nat
  /-- bytes in the scratch buffer not yet written -/
  chunk : Nat
  scratch : Nat
  /-- END_STREAM sent -/
  sentEnd : Bool
  inflow : Inflow
  gotHeaders : Bool
  /-- the response had END_STREAM on its HEADERS: `res.Body = noBody` -/
  noBody : Bool
  /-- bytes in `cs.bufPipe` -/
  buffered : Nat
  peerEnd : Bool
  /-- `Body.Close` was called (pipe broken) -/
  broken : Bool
  /-- `cs.isHead` -/
  head : Bool := false
  /-- `Request.Trailer` of a request with a body (see `Req.trailer`) -/
  trailer : Option Nat := none
  /-- the `maxFrameSize` local of `writeRequestBody`: `cc.maxFrameSize` when the upload began -/
  upMaxFrame : Nat := 16384
  /-- `cs.bytesRemain` (`none` = -1: no Content-Length) -/
  bytesRemain : Option Nat := none
  /-- `cs.readErr != nil` -/
  readErr : Bool := false
  /-- `cs.num1xx` -/
  num1xx : Nat := 0
  deriving DecidableEq, Repr, Inhabited

structure State where
  cfg : Cfg
  closed : Bool
  /-- a Go `panic` was reached (flow.go) -/
  panicked : Bool
  goAway : Bool
  doNotReuse : Bool
  /-- `cc.flow.n` -/
  connOut : Int
  connIn : Inflow
  maxFrameSize : Nat
  maxConcurrent : Nat
  initialWindowSize : Nat
  nextStreamID : Nat
  seenSettings : Bool
  wantSettingsAck : Bool
  /-- a `RoundTrip` blocked in `awaitOpenSlotForStreamLocked` (strict mode only) -/
  pendingOpen : Option Req
  streams : List Stream
  deriving DecidableEq, Repr, Inhabited

/-- `newClientConn`: initial state and the frames of the connection preface. -/
def newConn (cfg : Cfg) : State × List Frame :=
  ({ cfg := cfg, closed := false, panicked := false, goAway := false, doNotReuse := false,
     connOut := 65535,
     connIn := ⟨connInflowInit cfg.connFlow, 0⟩,
     maxFrameSize := maxFrameSize0 cfg,
     maxConcurrent := initialMaxConcurrentStreams,
     initialWindowSize := initialWindowSize,
     nextStreamID := nextStreamID0 cfg,
     seenSettings := false, wantSettingsAck := true, pendingOpen := none, streams := [] },
   [Frame.settings (initialSettings cfg),
    Frame.windowUpdate 0 (connFlowAdvertised cfg.connFlow)] ++
    -- `WritePriority` refuses stream 0 and ids above 2^31-1 (nothing is written)
    (cfg.prio.filter fun id => id ≠ 0 ∧ id < 2147483648).map Frame.priority)

/-! ## Helpers -/

def liveCount (l : List Stream) : Nat := (l.filter (·.live)).length

def findStream (l : List Stream) (id : Nat) : Option Stream := l.find? (·.id = id)

def setStream (l : List Stream) (s : Stream) : List Stream :=
  l.map fun t => if t.id = s.id then s else t

/-- `writeHeaders`: split a header block of `len` bytes into HEADERS + CONTINUATION. `fuel`
bounds the loop (the Go loop does not terminate for a frame size of 0). -/
def headerFrames (fuel : Nat) (id len : Nat) (endStream : Bool) (maxFrame : Nat) (prio fixPrio : Bool)
    (first : Bool) : List Frame :=
  match fuel with
  | 0 => []
  | fuel + 1 =>
    if len = 0 then []
    else
      let limit := if first ∧ prio ∧ fixPrio then maxFrame - 5 else maxFrame
      let chunk := if len > limit then limit else len
      let rest := len - chunk
      let f := if first then Frame.headers id (chunk + (if prio then 5 else 0)) endStream (rest = 0)
               else Frame.continuation id chunk (rest = 0)
      f :: headerFrames fuel id rest endStream maxFrame prio fixPrio false

/-- the stream leaves `cc.streams` (`forgetStreamID`); the connection closes when it was
marked not reusable and this was its last stream. -/
def forget (st : State) (s : Stream) : State :=
  let streams := setStream st.streams { s with live := false }
  let st := { st with streams := streams }
  if (st.goAway ∨ st.doNotReuse) ∧ liveCount streams = 0 then { st with closed := true } else st

/-- the request ends abnormally (`cleanupWriteRequest` with an error): RST_STREAM unless the
error came from the peer's own RST_STREAM or the stream is already closed on both sides. -/
def terminate (st : State) (s : Stream) (fromPeer : Bool) : State × List Frame :=
  let fs := if fromPeer ∨ (s.sentEnd ∧ s.peerEnd) then [] else [Frame.rst s.id]
  (forget st s, fs)

/-- after an update of stream `s`: store it and forget it when both sides are done. -/
def settle (st : State) (s : Stream) : State :=
  if s.live ∧ s.sentEnd ∧ s.peerEnd then forget st s
  else { st with streams := setStream st.streams s }

def panicState (st : State) : State × List Frame := ({ st with panicked := true, closed := true }, [])
def connError (st : State) : State × List Frame := ({ st with closed := true }, [])

def wuFrame (id : Nat) (inc : Int) : List Frame := if inc > 0 then [Frame.windowUpdate id inc] else []

/-! ## Client operations -/

/-- can a new request be started (`idleStateLocked`, non-strict reading of the limit) -/
def canTake (st : State) : Bool :=
  !st.goAway && !st.closed && !st.doNotReuse &&
  (st.cfg.strict || decide (liveCount st.streams + 1 ≤ st.maxConcurrent)) &&
  decide ((st.nextStreamID : Int) + (if st.pendingOpen.isSome then 2 else 0) < 2147483647)

/-- `cs.flow.add(int32(cc.initialWindowSize))` on a fresh stream (window 0). The addition
cannot fail for a legal SETTINGS_INITIAL_WINDOW_SIZE (`streamOut0_eq`); the Go code ignores the
result, so a failure would leave the window at 0. -/
def streamOut0 (iw : Nat) : Int := (addWindow 0 (wrap32 iw)).getD 0

/-- END_STREAM on the request's HEADERS frame: `endStream := !hasBody && !hasTrailers` in
`encodeAndWriteHeaders`; with C06-8 a request without a body has no trailers -/
def endOnHeaders (fx : Fixes) (hasBody : Bool) (trailer : Option Nat) : Bool :=
  !hasBody && (trailer.isNone || fx.trailerNoBody)

/-- `addStreamLocked` + `encodeAndWriteHeaders` + the start of `writeRequestBody`.
`writeRequest` sets `cs.sentEndStream` for every request without a body — also when the
HEADERS frame did not carry END_STREAM (unchanged code, request with declared trailers). -/
def doOpen (st : State) (r : Req) : State × List Frame :=
  let id := st.nextStreamID
  let hasBody := !(r.known && r.bodyLen == 0)
  let cl : Int := if r.known then r.bodyLen else -1
  let s : Stream :=
    { id := id, live := true,
      out := streamOut0 st.initialWindowSize,
      known := r.known, bodyRemain := r.bodyLen, chunk := 0,
      scratch := (scratchLen cl st.maxFrameSize).toNat,
      sentEnd := !hasBody,
      inflow := ⟨streamInflow0 st.cfg, 0⟩,
      gotHeaders := false, noBody := false, buffered := 0, peerEnd := false, broken := false,
      head := r.head, trailer := if hasBody then r.trailer else none,
      upMaxFrame := st.maxFrameSize }
  let fs := headerFrames (r.hdrLen + 1) id r.hdrLen (endOnHeaders st.cfg.fixes hasBody r.trailer)
    st.maxFrameSize st.cfg.hdrPrio st.cfg.fixes.hdrPrio true
  ({ st with nextStreamID := id + 2, streams := st.streams ++ [s] }, fs)

def openStream (st : State) (r : Req) : State × List Frame :=
  if st.pendingOpen.isSome then (st, [])             -- the lane never does this (reqHeaderMu)
  else if !canTake st then (st, [])                  -- errClientConnUnusable
  else if liveCount st.streams < st.maxConcurrent then doOpen st r
  else ({ st with pendingOpen := some r }, [])       -- wait for a slot

/-- a blocked `RoundTrip` proceeds as soon as a slot is free (or fails when the connection
became unusable). -/
def resumePending (st : State) : State × List Frame :=
  match st.pendingOpen with
  | none => (st, [])
  | some r =>
    let st0 := { st with pendingOpen := none }
    if st.closed then (st0, [])
    else if !canTake st0 then (st0, [])
    else if liveCount st.streams < st.maxConcurrent then doOpen st0 r
    else (st, [])

def feed (st : State) (id n : Nat) : State × List Frame :=
  match findStream st.streams id with
  | none => (st, [])
  | some s =>
    if s.live ∧ ¬ s.sentEnd ∧ s.chunk = 0 ∧ s.bodyRemain > 0 then
      let room := if s.scratch < s.bodyRemain then s.scratch else s.bodyRemain
      let c := if n = 0 ∨ n > room then room else n
      ({ st with streams := setStream st.streams { s with chunk := c, bodyRemain := s.bodyRemain - c } }, [])
    else (st, [])

/-- one iteration of the body writer: `awaitFlowControl` then `WriteData`; `none` when the
writer is blocked (no window, nothing to write, or finished). -/
def available (connOut out : Int) : Int := if connOut < out then connOut else out

/-- the DATA frame written when the stream has window and a non-empty scratch buffer -/
def dataStep (connOut : Int) (maxFrame : Nat) (s : Stream) : Int × Stream × Frame :=
  let take := awaitTake (available connOut s.out) s.chunk maxFrame
  let chunk' := s.chunk - take.toNat
  let last := decide (chunk' = 0) && decide (s.bodyRemain = 0) && s.known && s.trailer.isNone
  (connOut - take, { s with out := s.out - take, chunk := chunk', sentEnd := last },
   Frame.data s.id take.toNat last)

/-- after the last body byte: is an empty DATA frame with END_STREAM still to be written? (body
of unknown length without trailers; declared trailers that encode to nothing) -/
def endOwed (s : Stream) : Bool :=
  match s.trailer with
  | none => !s.known
  | some n => n == 0

def writeStep (connOut : Int) (maxFrame : Nat) (s : Stream) : Option (Int × Stream × Frame) :=
  if !s.live || s.sentEnd then none
  else if s.chunk = 0 then
    -- the body is written and END_STREAM is still owed: an empty DATA frame, unless there are
    -- trailers to send (`trailerStep`)
    if s.bodyRemain = 0 ∧ endOwed s then
      some (connOut, { s with sentEnd := true }, Frame.data s.id 0 true)
    else none
  else if available connOut s.out ≤ 0 then none
  else some (dataStep connOut maxFrame s)

/-- the end of `writeRequestBody` for a request with trailers: HEADERS (+ CONTINUATION) with
END_STREAM, split by `writeHeaders` with the frame size of the `maxFrameSize` local — read
again under `cc.wmu` with C06-7, else the value from the beginning of the upload. -/
def trailerStep (st : State) (s : Stream) : Option (Stream × List Frame) :=
  match s.trailer with
  | none => none
  | some n =>
    if s.live ∧ ¬ s.sentEnd ∧ s.chunk = 0 ∧ s.bodyRemain = 0 ∧ 0 < n then
      let mf := if st.cfg.fixes.trailerFrame then st.maxFrameSize else s.upMaxFrame
      some ({ s with sentEnd := true },
            headerFrames (n + 1) s.id n true mf st.cfg.hdrPrio st.cfg.fixes.hdrPrio true)
    else none

def write (st : State) (id : Nat) : State × List Frame :=
  match findStream st.streams id with
  | none => (st, [])
  | some s =>
    match trailerStep st s with
    | some (s', fs) => (settle st s', fs)
    | none =>
      match writeStep st.connOut st.maxFrameSize s with
      | none => (st, [])
      | some (c, s', f) => (settle { st with connOut := c } s', [f])

def cancel (st : State) (id : Nat) : State × List Frame :=
  match findStream st.streams id with
  | none => (st, [])
  | some s => if s.live then terminate st s false else (st, [])

/-- `k` bytes leave the pipe: credit at connection and stream level -/
def readCore (st : State) (s : Stream) (k : Nat) : State × List Frame :=
  match Inflow.add st.connIn k with
  | .panic => panicState st
  | .ok (ci, connAdd) =>
    match Inflow.add s.inflow k with
    | .panic => panicState st
    | .ok (si, streamAdd) =>
      ({ st with connIn := ci,
                 streams := setStream st.streams { s with inflow := si, buffered := s.buffered - k } },
       wuFrame 0 connAdd ++ wuFrame s.id streamAdd)

/-- `Body.Close` on a stream that may still be in `cc.streams` -/
def closeStream (st : State) (s s' : Stream) : State × List Frame :=
  if s.live then terminate st s' false
  else ({ st with streams := setStream st.streams s' }, [])

/-- return `n` bytes of connection-level credit after `r` (frames of `r` are written by another
goroutine; the rendering sorts them by stream) -/
def creditConn (r : State × List Frame) (n : Nat) : State × List Frame :=
  if n > 0 then
    match Inflow.add r.1.connIn n with
    | .panic => ({ r.1 with panicked := true, closed := true }, r.2)
    | .ok (ci, connAdd) => ({ r.1 with connIn := ci }, r.2 ++ wuFrame 0 connAdd)
  else r

/-- `Read` took `k` bytes out of the pipe, more than the declared Content-Length had left: the
caller gets the declared rest and an error, the stream is aborted (`cs.abortStream`), later
`Read`s fail at once. Unchanged code: returns before the flow-control code — the `k` bytes are
never credited at connection level; C06-5: they are. Nothing is credited at stream level (the
stream is over). -/
def readOverlong (st : State) (s : Stream) (k : Nat) : State × List Frame :=
  let r := closeStream st s { s with buffered := s.buffered - k, readErr := true }
  if st.cfg.fixes.readCredit then creditConn r k else r

/-- `k` bytes come out of the pipe: the `cs.bytesRemain` bookkeeping of `Read` -/
def readK (st : State) (s : Stream) (k : Nat) : State × List Frame :=
  match s.bytesRemain with
  | none => readCore st s k
  | some rem =>
    if k > rem then readOverlong st s k
    else readCore st { s with bytesRemain := some (rem - k) } k

def read (st : State) (id n : Nat) : State × List Frame :=
  match findStream st.streams id with
  | none => (st, [])
  | some s =>
    if s.gotHeaders ∧ ¬ s.noBody ∧ ¬ s.broken ∧ ¬ s.readErr ∧ s.buffered > 0 ∧ n > 0 then
      readK st s (if n < s.buffered then n else s.buffered)
    else (st, [])

def close (st : State) (id : Nat) : State × List Frame :=
  match findStream st.streams id with
  | none => (st, [])
  | some s =>
    if s.gotHeaders ∧ ¬ s.noBody ∧ ¬ s.broken then
      creditConn (closeStream st s { s with broken := true, buffered := 0 }) s.buffered
    else (st, [])

/-! ## Peer events -/

/-- effect of a SETTINGS_INITIAL_WINDOW_SIZE change on one stream: `cs.flow.add(delta)` for the
streams in `cc.streams`; the result of the addition is ignored by the Go code -/
def deltaStream (delta : Int) (s : Stream) : Stream :=
  if s.live then
    match addWindow s.out delta with
    | some w => { s with out := w }
    | none => s
  else s

/-- `processSettingsNoWrite` on one setting; `none` = connection error. -/
def applySetting (st : State) (seenMax : Bool) (p : Nat × Nat) : Option (State × Bool) :=
  if p.1 = sMaxFrameSize then
    -- RFC 9113 section 6.5.2: outside [2^14, 2^24) is a connection error (PROTOCOL_ERROR)
    if p.2 < 16384 ∨ p.2 > 16777215 then none
    else some ({ st with maxFrameSize := p.2 }, seenMax)
  else if p.1 = sMaxConcurrentStreams then some ({ st with maxConcurrent := p.2 }, true)
  else if p.1 = sInitialWindowSize then
    if p.2 > 2147483647 then none
    else
      some ({ st with streams := st.streams.map (deltaStream ((p.2 : Int) - (st.initialWindowSize : Int))),
                      initialWindowSize := p.2 }, seenMax)
  else some (st, seenMax)

def applySettings (st : State) (seenMax : Bool) : List (Nat × Nat) → Option (State × Bool)
  | [] => some (st, seenMax)
  | p :: ps =>
    match applySetting st seenMax p with
    | none => none
    | some (st', sm) => applySettings st' sm ps

def peerSettings (st : State) (vals : List (Nat × Nat)) : State × List Frame :=
  match applySettings st false vals with
  | none => connError st
  | some (st1, seenMax) =>
    let st2 :=
      if st1.seenSettings then st1
      else { st1 with seenSettings := true,
                      maxConcurrent := if seenMax then st1.maxConcurrent else defaultMaxConcurrentStreams }
    (st2, [Frame.settingsAck])

def peerSettingsAck (st : State) : State × List Frame :=
  if st.wantSettingsAck then ({ st with wantSettingsAck := false }, []) else connError st

def peerWindowUpdate (st : State) (id inc : Nat) : State × List Frame :=
  if id = 0 then
    if inc = 0 then connError st
    else match addWindow st.connOut inc with
      | some w => ({ st with connOut := w }, [])
      | none => connError st
  else
    match findStream st.streams id with
    | none => (st, [])
    | some s =>
      if !s.live then (st, [])
      else if inc = 0 then terminate st s false
      else match addWindow s.out inc with
        | some w => ({ st with streams := setStream st.streams { s with out := w } }, [])
        | none => terminate st s false

def peerRst (st : State) (id code : Nat) : State × List Frame :=
  match findStream st.streams id with
  | none => (st, [])
  | some s =>
    if !s.live then (st, [])
    else terminate { st with doNotReuse := st.doNotReuse || decide (code = 1) } s true

/-- abort every live stream above `last` (each writes its own RST_STREAM). -/
def abortAbove (last : Nat) : List Nat → State → State × List Frame
  | [], st => (st, [])
  | id :: rest, st =>
    match findStream st.streams id with
    | none => abortAbove last rest st
    | some s =>
      if s.live ∧ s.id > last then
        let (st1, f1) := terminate st s false
        let (st2, f2) := abortAbove last rest st1
        (st2, f1 ++ f2)
      else abortAbove last rest st

def peerGoAway (st : State) (last : Nat) : State × List Frame :=
  abortAbove last (st.streams.map (·.id)) { st with goAway := true }

/-- `bodyAllowedForStatus` (http2.go): a 1xx, 204 or 304 response never has a body -/
def bodyAllowedForStatus (status : Nat) : Bool :=
  !((decide (100 ≤ status) && decide (status ≤ 199)) || status == 204 || status == 304)

/-- `processHeaders` / `handleResponse` / `processTrailers`. Before the final response:
a block without `:status` is a stream error, an informational response is skipped (stream error
when it carries END_STREAM or is the sixth one), anything else is the final response — its body
is `noBody` when the stream ended or the request was HEAD, else `cs.bytesRemain` is the declared
Content-Length — unless the status never has a body (204, 304: `cs.bytesRemain = -1` since /repo
5224b93, no Content-Length accounting; DATA on such a response is read like any other). After the final response every HEADERS frame is a trailer block: connection
error unless it has END_STREAM and no pseudo-header. -/
def peerResp (st : State) (id : Nat) (endStream : Bool) (status : Nat) (cl : Option Nat) :
    State × List Frame :=
  match findStream st.streams id with
  | none => (st, [])
  | some s =>
    if !s.live then (st, [])
    else if s.peerEnd then terminate st s false
    else if !s.gotHeaders then
      if status = 0 then terminate st s false
      else if 100 ≤ status ∧ status ≤ 199 then
        if endStream ∨ 5 ≤ s.num1xx then terminate st s false
        else ({ st with streams := setStream st.streams { s with num1xx := s.num1xx + 1 } }, [])
      else
        (settle st { s with gotHeaders := true, noBody := endStream || s.head, peerEnd := endStream,
                            bytesRemain := if endStream || s.head || !bodyAllowedForStatus status then none else cl }, [])
    else if status ≠ 0 ∨ !endStream then connError st
    else (settle st { s with peerEnd := true }, [])

/-- a DATA frame of `flen` flow-controlled bytes that is dropped with a stream error
(`endStreamError`: DATA after END_STREAM, before the response HEADERS, on a HEAD response).
Unchanged code: no flow-control bookkeeping at all (the peer's and the client's connection
windows drift apart by `flen`); C06-6: taken from the connection window and handed straight
back, as for DATA on a forgotten stream. -/
def discardData (st : State) (s : Stream) (flen : Int) : State × List Frame :=
  let r := terminate st s false
  if st.cfg.fixes.dataCredit ∧ flen > 0 then
    let (ci, ok) := Inflow.take st.connIn flen
    match Inflow.add ci flen with
    | .panic => panicState st
    | .ok (ci', connAdd) =>
      if !ok then connError st
      else ({ r.1 with connIn := ci' }, r.2 ++ wuFrame 0 connAdd)
  else r

def peerData (st : State) (id len pad : Nat) (endStream : Bool) : State × List Frame :=
  let flen : Int := (len + pad : Nat)
  match (findStream st.streams id).filter (·.live) with
  | none =>
    if id ≥ st.nextStreamID then connError st
    else if flen > 0 then
      let (ci, ok) := Inflow.take st.connIn flen
      match Inflow.add ci flen with
      | .panic => panicState st
      | .ok (ci', connAdd) =>
        if !ok then connError st
        else ({ st with connIn := ci' }, wuFrame 0 connAdd)
    else (st, [])
  | some s =>
    if s.peerEnd ∨ ¬ s.gotHeaders ∨ (s.head ∧ 0 < len) then discardData st s flen
    else if flen > 0 then
      let (ci, si, ok) := takeInflows st.connIn s.inflow flen
      if !ok then connError st
      else
        match Inflow.add ci pad with
        | .panic => panicState st
        | .ok (ci', sendConn) =>
          match Inflow.add si pad with
          | .panic => panicState st
          | .ok (si', sendStream) =>
            let s' := { s with inflow := si', buffered := s.buffered + len, peerEnd := endStream }
            (settle { st with connIn := ci' } s', wuFrame 0 sendConn ++ wuFrame id sendStream)
    else (settle st { s with peerEnd := endStream }, [])

/-- `processPing`: a PING is answered with the same octets; an acknowledgement wakes whoever
called `ClientConn.Ping` (not a frame matter). -/
def peerPing (st : State) (ack : Bool) (data : Nat) : State × List Frame :=
  if ack then (st, []) else (st, [Frame.ping true data])

/-- `processPushPromise`: always a connection error (server push is never accepted). -/
def peerPushPromise (st : State) : State × List Frame := connError st

def peer (st : State) : PFrame → State × List Frame
  | .settings vals => peerSettings st vals
  | .settingsAck => peerSettingsAck st
  | .windowUpdate id inc => peerWindowUpdate st id inc
  | .rst id code => peerRst st id code
  | .goaway last => peerGoAway st last
  | .resp id e status cl => peerResp st id e status cl
  | .data id len pad e => peerData st id len pad e
  | .ping ack data => peerPing st ack data
  | .pushPromise _ _ => peerPushPromise st

/-! ## Well-formed operations

What the theorems assume about the environment: a request always has a non-empty header
block (`encodeHeaders` emits at least the pseudo-header fields) and a WINDOW_UPDATE increment is
a 31-bit number (the frame parser masks the reserved bit). Nothing is assumed about the peer's
SETTINGS: a SETTINGS_MAX_FRAME_SIZE outside the range RFC 9113 section 6.5.2 allows is rejected
by `processSettingsNoWrite` (since C07's repair) and by `applySetting`. -/

/-- a caller fingerprint that advertises legal values: SETTINGS_INITIAL_WINDOW_SIZE and the
connection window (65535 + the initial WINDOW_UPDATE) do not exceed 2^31-1 -/
def Cfg.ok (cfg : Cfg) : Prop :=
  (∀ v, lastSetting cfg.settings sInitialWindowSize = some v → v ≤ 2147483647) ∧
  connFlowAdvertised cfg.connFlow + 65535 ≤ 2147483647

def PFrame.ok : PFrame → Prop
  | .windowUpdate _ inc => inc ≤ 2147483647
  | _ => True

def Op.ok : Op → Prop
  | .openReq r => 0 < r.hdrLen
  | .peer f => f.ok
  | _ => True

/-! ## The machine -/

def apply (st : State) : Op → State × List Frame
  | .openReq r => openStream st r
  | .feed id n => feed st id n
  | .write id => write st id
  | .cancel id => cancel st id
  | .read id n => read st id n
  | .close id => close st id
  | .wake => (st, [])
  | .peer f => peer st f

/-- the Go functions that sleep on `cc.cond` (bridged to the source: Bridge/C06 `cond_waiters`):
graceful shutdown, the parked `RoundTrip` (`State.pendingOpen`), the body writers (`write`) -/
def condWaiters : List String :=
  ["ClientConn.Shutdown", "ClientConn.awaitOpenSlotForStreamLocked", "clientStream.awaitFlowControl"]

/-- the Go functions behind the table `wakes` / the wake-up condition of `step`, each of which
must reach a `cc.cond.Broadcast()` (bridged to the source: Bridge/C06 `wake_sites_broadcast`):
a stream leaves `cc.streams` (`liveCount` drops); a stream is aborted — cancel, `Body.Close`,
reset, stream error, GOAWAY; the upload is stopped; WINDOW_UPDATE; SETTINGS; the connection is
torn down (`st1.closed`) -/
def wakeSites : List String :=
  ["ClientConn.forgetStreamID", "clientStream.abortStreamLocked", "clientStream.abortRequestBodyWrite",
   "clientConnReadLoop.processWindowUpdate", "clientConnReadLoop.processSettingsNoWrite",
   "clientConnReadLoop.cleanup"]

/-- does the operation end with a `cc.cond.Broadcast()` (which is what lets a `RoundTrip`
blocked in `awaitOpenSlotForStreamLocked` look again)? A stream was forgotten or aborted, a
WINDOW_UPDATE was applied, or SETTINGS_INITIAL_WINDOW_SIZE was processed. (Unchanged code: a
SETTINGS frame that only raises the stream limit does not wake the waiter.) -/
def wakes (st st1 : State) (op : Op) : Bool :=
  match op with
  | .peer (.windowUpdate id _) =>
    id == 0 || (match findStream st.streams id with | some s => s.live | none => false)
  | .peer (.settings vals) =>
    -- SETTINGS_INITIAL_WINDOW_SIZE processed; with C06-9 also: the stream limit went up
    -- (SETTINGS_MAX_CONCURRENT_STREAMS raised, or the first SETTINGS frame replacing the initial
    -- 100 by the default 1000)
    vals.any (·.1 == sInitialWindowSize) ||
    (st.cfg.fixes.mcsWake && decide (st.maxConcurrent < st1.maxConcurrent))
  | .wake => true
  -- `transportResponseBody.Close` calls `abortStream` (which broadcasts) even when the stream
  -- has long left `cc.streams`
  | .close id =>
    (match findStream st.streams id with | some s => s.gotHeaders && !s.noBody | none => false) ||
    decide (liveCount st1.streams < liveCount st.streams)
  | _ => decide (liveCount st1.streams < liveCount st.streams)

/-- one operation; a closed connection does nothing any more. -/
def step (st : State) (op : Op) : State × List Frame :=
  if st.closed then (st, [])
  else
    let (st1, fs1) := apply st op
    -- (the read loop's `cleanup` broadcasts when the connection is torn down)
    if wakes st st1 op || decide (liveCount st1.streams < liveCount st.streams) || st1.closed then
      let (st2, fs2) := resumePending st1
      (st2, fs1 ++ fs2)
    else (st1, fs1)

/-- what the strict peer sees: its own frames and the client's, in order. -/
inductive Event where
  | c (f : Frame)
  | p (f : PFrame)
  deriving DecidableEq, Repr, Inhabited

def opEvents (op : Op) (fs : List Frame) : List Event :=
  (match op with | .peer f => [Event.p f] | _ => []) ++ fs.map Event.c

def runFrom (st : State) (hist : List Event) : List Op → State × List Event
  | [] => (st, hist)
  | op :: ops =>
    let (st', fs) := step st op
    runFrom st' (hist ++ (if st.closed then [] else opEvents op fs)) ops

/-- run an operation list on a fresh connection; the history starts with the preface frames. -/
def run (cfg : Cfg) (ops : List Op) : State × List Event :=
  let (st, fs) := newConn cfg
  runFrom st (fs.map Event.c) ops

def history (r : State × List Event) : List Event := r.2

/-! ## Pumped execution (what the deterministic script lane observes)

After every scripted operation the body writers run until they block; that is a particular
operation list of the machine above (`write` operations inserted), see `pump_is_run`. -/

def pumpStream (fuel : Nat) (st : State) (id : Nat) : State × List Frame :=
  match fuel with
  | 0 => (st, [])
  | fuel + 1 =>
    let (st1, fs1) := step st (.write id)
    if fs1.isEmpty then (st1, [])
    else
      let (st2, fs2) := pumpStream fuel st1 id
      (st2, fs1 ++ fs2)

/-- enough iterations to empty the scratch buffer of stream `id` (each DATA frame takes ≥ 1 byte) -/
def pumpFuel (st : State) (id : Nat) : Nat :=
  match findStream st.streams id with
  | some s => s.chunk + 2
  | none => 0

def pumpAll (st : State) : List Nat → State × List Frame
  | [] => (st, [])
  | id :: ids =>
    let (st1, fs1) := pumpStream (pumpFuel st id) st id
    let (st2, fs2) := pumpAll st1 ids
    (st2, fs1 ++ fs2)

/-- a scripted operation as the script lane drives it: the operation, then a wake-up of
whoever sleeps on `cc.cond` (the lane broadcasts itself after every operation, so that which
operations happen to broadcast does not decide in which step a waiting `RoundTrip` goes ahead),
then the pump. A `RoundTrip` that was waiting for a slot can also start during the pump (a
finished upload frees the slot): its stream is pumped in a second pass (streams are only ever
appended). -/
def scriptStep (st : State) (op : Op) : State × List Frame :=
  let (st0, fs0) := step st op
  let (st1, fs1) := step st0 .wake
  let (st2, fs2) := pumpAll st1 (st1.streams.map (·.id))
  let (st3, fs3) := pumpAll st2 ((st2.streams.drop st1.streams.length).map (·.id))
  (st3, fs0 ++ fs1 ++ fs2 ++ fs3)

def scriptRun (st : State) : List Op → List (List Frame × Bool × Bool)
  | [] => []
  | op :: ops =>
    let (st', fs) := scriptStep st op
    (fs, st'.closed && !st.closed, st'.panicked && !st.panicked) :: scriptRun st' ops

end Req.H2.Conn
