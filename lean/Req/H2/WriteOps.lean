import Req.H2.FrameSpec
/-!
All `Framer.Write*` entry points of `internal/http2/frame.go` as ONE type of write operations, so
that statements can quantify over "every writer entry point": the bytes written (`WOp.write`), the
argument domain on which the writer succeeds and the reader gives the arguments back (`WOp.Wf` — the
decidable `Wf…` predicates of `FrameSpec`), the frame a reader must return (`WOp.frame`) and the
four things a frame consists of on the wire (`WOp.typ/flags/sid/payload`).
-/
namespace Req.H2.Frame
open Req.Proto

inductive WOp where
  | data (sid : Nat) (endStream : Bool) (data : Bytes) (pad : Option Bytes)
  | headers (p : HeadersParam)
  | priority (sid : Nat) (p : Priority)
  | rstStream (sid code : Nat)
  | settings (ss : List (Nat × Nat))
  | settingsAck
  | pushPromise (p : PushPromiseParam)
  | ping (ack : Bool) (data : Bytes)
  | goAway (maxSid code : Nat) (debug : Bytes)
  | windowUpdate (sid incr : Nat)
  | continuation (sid : Nat) (endHeaders : Bool) (frag : Bytes)
  | raw (t fl sid : Nat) (payload : Bytes)
  deriving DecidableEq, Repr

/-- the writer call (`AllowIllegalWrites` off). -/
def WOp.write : WOp → Except WErr Bytes
  | .data sid es d pad => writeData false sid es d pad
  | .headers p => writeHeaders false p
  | .priority sid p => writePriority false sid p
  | .rstStream sid c => writeRSTStream false sid c
  | .settings ss => writeSettings ss
  | .settingsAck => writeSettingsAck
  | .pushPromise p => writePushPromise false p
  | .ping ack d => writePing ack d
  | .goAway m c d => writeGoAway m c d
  | .windowUpdate sid i => writeWindowUpdate false sid i
  | .continuation sid eh f => writeContinuation false sid eh f
  | .raw t fl sid p => writeRawFrame t fl sid p

/-- the arguments a writer accepts AND a reader returns unchanged (Go's fixed-width integer
types, valid stream ids, frame size below 2^24, and the value rules the reader enforces). The
last-stream-id of GOAWAY is written masked to 31 bits: the canonical argument is the masked one. -/
def WOp.Wf : WOp → Prop
  | .data sid _ d pad => WfData sid d pad
  | .headers p => WfHeaders p
  | .priority sid p => ValidSid sid ∧ WfPriority p
  | .rstStream sid c => ValidSid sid ∧ c < 4294967296
  | .settings ss => WfSettings ss
  | .settingsAck => True
  | .pushPromise p => WfPushPromise p
  | .ping _ d => d.length = 8
  | .goAway m c d => m < two31 ∧ c < 4294967296 ∧ 8 + d.length < two24
  | .windowUpdate sid i => sid < two31 ∧ 1 ≤ i ∧ i ≤ 2147483647
  | .continuation sid _ f => ValidSid sid ∧ f.length < two24
  | .raw t fl sid p => 10 ≤ t ∧ t < 256 ∧ fl < 256 ∧ sid < two31 ∧ p.length < two24

def WOp.typ : WOp → Nat
  | .data .. => tData | .headers _ => tHeaders | .priority .. => tPriority
  | .rstStream .. => tRSTStream | .settings _ => tSettings | .settingsAck => tSettings
  | .pushPromise _ => tPushPromise | .ping .. => tPing | .goAway .. => tGoAway
  | .windowUpdate .. => tWindowUpdate | .continuation .. => tContinuation | .raw t _ _ _ => t

def WOp.flags : WOp → Nat
  | .data _ es _ pad => b2n es flagEndStream + b2n pad.isSome flagPadded
  | .headers p => headersFlags p
  | .settingsAck => flagAck
  | .pushPromise p => pushPromiseFlags p
  | .ping ack _ => b2n ack flagAck
  | .continuation _ eh _ => b2n eh flagEndHeaders
  | .raw _ fl _ _ => fl
  | _ => 0

def WOp.sid : WOp → Nat
  | .data sid .. => sid | .headers p => p.streamID | .priority sid _ => sid
  | .rstStream sid _ => sid | .pushPromise p => p.streamID | .windowUpdate sid _ => sid
  | .continuation sid .. => sid | .raw _ _ sid _ => sid
  | _ => 0

def WOp.payload : WOp → Bytes
  | .data _ _ d pad => (if pad.isSome then [u8 (pad.getD []).length] else []) ++ d ++ pad.getD []
  | .headers p => headersPayload p
  | .priority _ p => prioBytes p
  | .rstStream _ c => be32 c
  | .settings ss => encodeSettings ss
  | .settingsAck => []
  | .pushPromise p => pushPromisePayload p
  | .ping _ d => d
  | .goAway m c d => be32 (m % two31) ++ be32 c ++ d
  | .windowUpdate _ i => be32 i
  | .continuation _ _ f => f
  | .raw _ _ _ p => p

/-- the frame `ReadFrame` must return for the operation. -/
def WOp.frame (a : WOp) : Frame :=
  let h : FrameHeader := ⟨a.payload.length, a.typ, a.flags, a.sid⟩
  match a with
  | .data _ _ d _ => .data h d
  | .headers p => .headers h p.priority p.blockFragment
  | .priority _ p => .priority h p
  | .rstStream _ c => .rstStream h c
  | .settings ss => .settings h ss
  | .settingsAck => .settings h []
  | .pushPromise p => .pushPromise h p.promiseID p.blockFragment
  | .ping _ d => .ping h d
  | .goAway m c d => .goAway h (m % two31) c d
  | .windowUpdate _ i => .windowUpdate h i
  | .continuation _ _ f => .continuation h f
  | .raw _ _ _ p => .unknown h p

/-- the header-block state a reader must be in to accept the frame (0 = outside a block). -/
def WOp.inBlock : WOp → Nat
  | .continuation sid .. => sid
  | _ => 0

/-- … and the state it is left in. -/
def WOp.leaves : WOp → Nat
  | .headers p => if p.endHeaders then 0 else p.streamID
  | .continuation sid eh _ => if eh then 0 else sid
  | _ => 0

end Req.H2.Frame
