import Req.Driver.Proto
/-!
The HPACK primitives of RFC 7541 as `golang.org/x/net/http2/hpack` (the codec under the fork's
HTTP/2 header path; external code) implements them:

* §5.1 integer representation with an N-bit prefix: `encodeInt` = `appendVarInt` (the type bits of
  the first octet are the argument `hi`), `readInt` = `readVarInt` including its two error
  results — `errNeedMore` (input ends inside the integer) and `errVarintOverflow` (the shift
  reaches 63: at most 9 continuation octets);
* §5.2 string literals with H = 0 (raw octets): `encodeString` / `decodeString`; a Huffman-coded
  string (H = 1) is reported as `huffman` — Huffman coding is not modelled;
* §6.2.2 / §6.2.3 literal header field with a NEW name (name index 0), without indexing (0x00) and
  never indexed (0x10): `encodeBlock` / `decodeBlock`. Every other representation (indexed field,
  incremental indexing, dynamic table size update, indexed name) gets an explicit error
  constructor: the dynamic table is not modelled.

`uint64` arithmetic is exact on this domain: `readVarInt` accumulates at most
`255 + Σ_{j<9} 127·2^(7j) < 2^64`.
-/
namespace Req.H2.Hpack
open Req.Proto

def u8 (x : Nat) : UInt8 := UInt8.ofNat (x % 256)

/-- the continuation octets: 7-bit groups, least significant first, bit 7 set on all but the last
(`for ; i >= 128; i >>= 7 { … 0x80|(i&0x7f) }; byte(i)`). `fuel ≥ i` is always enough. -/
def groups : Nat → Nat → Bytes
  | 0, i => [u8 i]
  | fuel + 1, i => if i ≥ 128 then u8 (128 + i % 128) :: groups fuel (i / 128) else [u8 i]

/-- `appendVarInt(nil, n, i)` with the high bits `hi` (a multiple of `2^n`) or-ed into the first
octet. -/
def encodeInt (n hi i : Nat) : Bytes :=
  let k := 2 ^ n - 1
  if i < k then [u8 (hi + i)] else u8 (hi + k) :: groups (i - k) (i - k)

inductive IntErr where
  | needMore
  | overflow
  deriving DecidableEq, Repr

/-- the loop of `readVarInt` after a saturated prefix: accumulated value, shift, remaining input. -/
def decodeCont : Nat → Nat → Bytes → Except IntErr (Nat × Bytes)
  | _, _, [] => .error .needMore
  | i, m, b :: p =>
    let i' := i + (b.toNat % 128) * 2 ^ m
    if b.toNat / 128 = 0 then .ok (i', p)
    else if m + 7 ≥ 63 then .error .overflow
    else decodeCont i' (m + 7) p

/-- `readVarInt(n, p)`: the value and the unread rest. -/
def readInt (n : Nat) : Bytes → Except IntErr (Nat × Bytes)
  | [] => .error .needMore
  | b0 :: p =>
    let i := b0.toNat % 2 ^ n
    if i < 2 ^ n - 1 then .ok (i, p) else decodeCont i 0 p

/-! ### string literals (H = 0) -/

def encodeString (s : Bytes) : Bytes := encodeInt 7 0 s.length ++ s

inductive Err where
  | needMore          -- block ends inside a representation ("truncated headers")
  | overflow          -- errVarintOverflow
  | huffman           -- H = 1: not modelled
  | indexedField      -- §6.1
  | incrementalIndex  -- §6.2.1
  | tableSizeUpdate   -- §6.3
  | indexedName       -- literal with a name index ≠ 0
  deriving DecidableEq, Repr

def liftInt : Except IntErr (Nat × Bytes) → Except Err (Nat × Bytes)
  | .ok r => .ok r
  | .error .needMore => .error .needMore
  | .error .overflow => .error .overflow

def decodeString (b : Bytes) : Except Err (Bytes × Bytes) :=
  match b with
  | [] => .error .needMore
  | b0 :: _ =>
    if b0.toNat / 128 = 1 then .error .huffman
    else match liftInt (readInt 7 b) with
      | .error e => .error e
      | .ok (len, p) => if p.length < len then .error .needMore else .ok (p.take len, p.drop len)

/-! ### literal header fields with a new name -/

structure Field where
  /-- "never indexed" (§6.2.3, `HeaderField.Sensitive`) -/
  never : Bool
  name : Bytes
  value : Bytes
  deriving DecidableEq, Repr

def encodeField (f : Field) : Bytes :=
  (if f.never then (16 : UInt8) else 0) :: (encodeString f.name ++ encodeString f.value)

def encodeBlock (fs : List Field) : Bytes := (fs.map encodeField).flatten

def decodeField (b : Bytes) : Except Err (Field × Bytes) :=
  match b with
  | [] => .error .needMore
  | b0 :: p =>
    if b0.toNat ≥ 128 then .error .indexedField
    else if b0.toNat ≥ 64 then .error .incrementalIndex
    else if b0.toNat ≥ 32 then .error .tableSizeUpdate
    else if b0.toNat % 16 ≠ 0 then .error .indexedName
    else match decodeString p with
      | .error e => .error e
      | .ok (name, p1) =>
        match decodeString p1 with
        | .error e => .error e
        | .ok (value, p2) => .ok (⟨decide (b0.toNat / 16 = 1), name, value⟩, p2)

/-- `Decoder.DecodeFull` restricted to the modelled representations (`fuel` ≥ length). -/
def decodeLoop : Nat → Bytes → Except Err (List Field)
  | 0, _ => .ok []
  | fuel + 1, b =>
    if b.isEmpty then .ok [] else
    match decodeField b with
    | .error e => .error e
    | .ok (f, rest) =>
      match decodeLoop fuel rest with
      | .error e => .error e
      | .ok fs => .ok (f :: fs)

def decodeBlock (b : Bytes) : Except Err (List Field) := decodeLoop (b.length + 1) b

end Req.H2.Hpack
