import Req.H2.Fields
/-!
Extension of the shared field-list model `Req.H2.Fields` (C01/C16) by the two inputs of
`ClientConn.encodeHeaders` (internal/http2/transport.go) and `requestWriter.encodeHeaders`
(internal/http3/request_writer.go) that model does not carry:

* the `trailers` argument (`commaSeparatedTrailers(req)`): a `trailer` field announced FIRST among
  the regular fields (before the header map), subject to the header-order sort like any other;
* HTTP/3 Extended CONNECT (RFC 9220): `isExtendedConnectRequest` = method CONNECT with a `Proto`
  that is neither empty nor "HTTP/1.1"; then `:path`/`:scheme` are sent although the method is
  CONNECT, followed by `:protocol`. HTTP/2's `encodeHeaders` has no such branch.

Everything else is `Req.H2.Fields` unchanged (`fieldsX_conservative`: without the two inputs the
extended model IS the shared model), so the C01/C16 theorems keep talking about the same function.

Both Go functions run `enumerateHeaders` twice (size-counting pass, writing pass); inside, the
pseudo-header pass and the regular pass share the variables `kvs`/`sort`/`writeHeader`: the regular
pass starts from `kvs = nil`. The model makes that explicit: `pseudoKVsX` and `regularKVsX` are two
independent lists, concatenated.
-/
namespace Req.H2
open Req.Proto Req.Ascii Req.BStr Req.Url Req.Validate Req.HeaderSort Req.H1

structure XReq where
  base : FReq
  /-- `req.Proto` (HTTP/3 only: Extended CONNECT) -/
  proto : Bytes := []
  /-- the `trailers` argument: comma-separated canonical trailer keys, "" = none announced -/
  trailers : Bytes := []
deriving Repr

def sProtocol : Bytes := [58, 112, 114, 111, 116, 111, 99, 111, 108]
def sTrailerL : Bytes := [116, 114, 97, 105, 108, 101, 114]

/-- `isExtendedConnectRequest` (HTTP/3 writer only). -/
def isExtendedConnect (fl : Flavor) (x : XReq) : Bool :=
  fl == .h3 && x.base.method == sCONNECT && !x.proto.isEmpty && x.proto != sHTTP11

/-- the `:path` computation of a request that sends one. -/
def computedPath (r : FReq) (host : Bytes) : Except FErr Bytes :=
  let p := requestURI r.url
  if validPseudoPath p then .ok p
  else
    let p' := trimPrefix p (r.url.scheme ++ [58, 47, 47] ++ host)
    if validPseudoPath p' then .ok p' else .error .invalidPath

def fieldPathX (fl : Flavor) (x : XReq) (host : Bytes) : Except FErr Bytes :=
  if isExtendedConnect fl x then computedPath x.base host else fieldPath x.base host

/-- the pseudo header groups in default (collection) order. -/
def basePseudoX (fl : Flavor) (x : XReq) (host path : Bytes) : List KV :=
  if isExtendedConnect fl x then
    [⟨sAuthority, [host]⟩, ⟨sMethod, [x.base.method]⟩, ⟨sPath, [path]⟩,
     ⟨sScheme, [x.base.url.scheme]⟩, ⟨sProtocol, [x.proto]⟩]
  else basePseudo fl x.base host path

/-- the names of the pseudo-header fields the request must carry (RFC 9113 §8.3.1, RFC 9114
§4.3.1, RFC 9220): plain CONNECT has `:authority` and `:method` only; Extended CONNECT adds
`:protocol` to the usual four. -/
def pseudoNames (fl : Flavor) (x : XReq) : List Bytes :=
  if isExtendedConnect fl x then [sAuthority, sMethod, sPath, sScheme, sProtocol]
  else if x.base.method == sCONNECT then [sAuthority, sMethod]
  else [sAuthority, sMethod, sPath, sScheme]

def pseudoKVsX (fl : Flavor) (x : XReq) (host path : Bytes) : List KV :=
  let porder := pseudoOrderList x.base.header
  if porder.isEmpty then basePseudoX fl x host path
  else sortKeyValues (basePseudoX fl x host path) porder

/-- the regular groups in collection order: `trailer`, then what `baseRegular` collects. -/
def baseRegularX (fl : Flavor) (x : XReq) : List KV :=
  (if x.trailers.isEmpty then [] else [⟨sTrailerL, [x.trailers]⟩]) ++ baseRegular fl x.base

def regularKVsX (fl : Flavor) (x : XReq) : List KV :=
  let order := orderList x.base.header
  if order.isEmpty then baseRegularX fl x else sortKeyValues (baseRegularX fl x) order

/-- The ordered `(name, value)` list handed to HPACK / QPACK. -/
def fieldsX (fl : Flavor) (x : XReq) : Except FErr (List (Bytes × Bytes)) :=
  match fieldHost x.base with
  | .error e => .error e
  | .ok host =>
    match fieldPathX fl x host with
    | .error e => .error e
    | .ok path =>
      if !headersValid (x.base.header.map fun kv => (kv.key, kv.values)) then .error .invalidHeader
      else
        let out := wireOf (pseudoKVsX fl x host path ++ regularKVsX fl x)
        match x.base.maxHeaderList with
        | some lim => if headerListSize out > lim then .error .headerListTooLarge else .ok out
        | none => .ok out

/-! ### what a peer may receive: the request side of RFC 9113 §8.3.1 / RFC 9114 §4.3.1 as a
decidable check on an emitted (or decoded) list -/

def isPseudoNameB (n : Bytes) : Bool := n.head? == some 58

/-- connection-specific names (RFC 9113 §8.2.2 / RFC 9114 §4.2). -/
def connectionSpecific : List Bytes :=
  [sConnectionL, sProxyConnectionL, sTransferEncodingL, sUpgradeL, sKeepAliveL]

def requestPseudoNames : List Bytes := [sAuthority, sMethod, sPath, sScheme, sProtocol]

/-- a regular field name as it must appear on the wire: non-empty lower-case token that is not a
connection-specific field. -/
def regularNameOK (n : Bytes) : Bool :=
  !n.isEmpty && n.all (fun c => isTokenByte c && !isUpper c) && !connectionSpecific.contains n

/-- does the list have `n` among its names exactly once -/
def countName (fs : List (Bytes × Bytes)) (n : Bytes) : Nat := (fs.filter fun f => f.1 == n).length

/-- **Well-formed request field section** (decidable): the pseudo-header fields form a prefix,
each is a request pseudo-header and occurs exactly once, `:method` and `:authority` are present,
`:path` and `:scheme` are present together; every later field has a `regularNameOK` name. -/
def requestSectionOK (fs : List (Bytes × Bytes)) : Bool :=
  let ps := fs.takeWhile fun f => isPseudoNameB f.1
  let rs := fs.dropWhile fun f => isPseudoNameB f.1
  ps.all (fun f => requestPseudoNames.contains f.1 && countName ps f.1 == 1) &&
  countName ps sMethod == 1 && countName ps sAuthority == 1 &&
  countName ps sPath == countName ps sScheme &&
  (countName ps sProtocol == 0 || countName ps sPath == 1) &&
  rs.all (fun f => !isPseudoNameB f.1 && regularNameOK f.1)

end Req.H2
