import Req.H2.Frame
/-!
Specification-side definitions for the HTTP/2 framer theorems: reader readiness, the decidable
well-formedness predicates of the `Write*` argument tuples, the flags/payload a writer produces, the
frame-order automaton run over a sequence and its state-free specification (`Contiguous`), and the
error classes of the typed parsers.
-/
namespace Req.H2.Frame
open Req.Proto

/-- A reader that is outside a header block (or inside the block of stream `cont`), does not
allow illegal reads, and accepts payloads of `n` bytes. -/
structure Ready (r : Reader) (n : Nat) (inBlock : Nat) : Prop where
  state : r.lastHeaderStream = inBlock
  legal : r.allowIllegalReads = false
  fits : n ≤ r.maxReadSize

def ValidSid (sid : Nat) : Prop := 0 < sid ∧ sid < two31
instance (sid : Nat) : Decidable (ValidSid sid) := by unfold ValidSid; infer_instance

def WfPriority (p : Priority) : Prop := p.streamDep < two31 ∧ p.weight < 256
instance (p : Priority) : Decidable (WfPriority p) := by unfold WfPriority; infer_instance

/-- arguments of `WriteSettings` the reader accepts back: 16-bit ids, 32-bit values, frame size,
and an INITIAL_WINDOW_SIZE (first occurrence) within 2^31-1. -/
def WfSettings (ss : List (Nat × Nat)) : Prop :=
  (∀ s ∈ ss, s.1 < 65536 ∧ s.2 < 4294967296) ∧ 6 * ss.length < two24 ∧
  (∀ v ∈ settingsValue ss 4, v ≤ 2147483647)

/-- arguments of `WriteDataPadded`: valid stream id, at most 255 zero padding bytes, frame size. -/
def WfData (sid : Nat) (data : Bytes) (pad : Option Bytes) : Prop :=
  ValidSid sid ∧
  match pad with
  | none => data.length < two24
  | some p => p.length ≤ 255 ∧ p.all (· == 0) = true ∧ 1 + data.length + p.length < two24

/-- arguments of `WriteHeaders` -/
def WfHeaders (p : HeadersParam) : Prop :=
  ValidSid p.streamID ∧ p.padLength < 256 ∧ WfPriority p.priority ∧
  1 + 5 + p.blockFragment.length + p.padLength < two24

/-- the flags byte `WriteHeaders` computes -/
def headersFlags (p : HeadersParam) : Nat :=
  b2n (p.padLength != 0) flagPadded + b2n p.endStream flagEndStream
    + b2n p.endHeaders flagEndHeaders + b2n (!p.priority.isZero) flagPriority

/-- the payload `WriteHeaders` produces -/
def headersPayload (p : HeadersParam) : Bytes :=
  (if p.padLength != 0 then [u8 p.padLength] else [])
      ++ (if !p.priority.isZero then prioBytes p.priority else [])
      ++ p.blockFragment ++ List.replicate p.padLength 0

/-- arguments of `WritePushPromise` -/
def WfPushPromise (p : PushPromiseParam) : Prop :=
  ValidSid p.streamID ∧ ValidSid p.promiseID ∧ p.padLength < 256 ∧
  1 + 4 + p.blockFragment.length + p.padLength < two24

def pushPromiseFlags (p : PushPromiseParam) : Nat :=
  b2n (p.padLength != 0) flagPadded + b2n p.endHeaders flagEndHeaders

def pushPromisePayload (p : PushPromiseParam) : Bytes :=
  (if p.padLength != 0 then [u8 p.padLength] else [])
      ++ be32 p.promiseID ++ p.blockFragment ++ List.replicate p.padLength 0

/-- the automaton of `checkFrameOrder` run over a sequence of frame headers, from state `l` -/
def runOrder : Nat → List FrameHeader → Option Nat
  | l, [] => some l
  | l, fh :: fs =>
    match orderStep l fh with
    | none => none
    | some l' => runOrder l' fs

/-- `fh` leaves a header block open: HEADERS or CONTINUATION without END_HEADERS -/
def opensBlock (fh : FrameHeader) : Prop :=
  (fh.type = tHeaders ∨ fh.type = tContinuation) ∧ hasFlag fh.flags flagEndHeaders = false

instance (fh : FrameHeader) : Decidable (opensBlock fh) := by unfold opensBlock; infer_instance

/-- Specification, independent of any state: a CONTINUATION frame appears exactly after a frame
that left a header block open, and then on the same stream. `prev` is the frame before the
list (if any). -/
def Contiguous : Option FrameHeader → List FrameHeader → Prop
  | _, [] => True
  | prev, fh :: fs =>
    (fh.type = tContinuation ↔ ∃ p, prev = some p ∧ opensBlock p) ∧
    (fh.type = tContinuation → ∀ p, prev = some p → fh.streamID = p.streamID) ∧
    Contiguous (some fh) fs

/-- state of the automaton that corresponds to "the previous frame was `prev`" -/
def stateOf : Option FrameHeader → Nat
  | none => 0
  | some p => if opensBlock p then p.streamID else 0

/-- the error classes a typed parser can produce for a frame with header `fh` -/
def ErrClass (fh : FrameHeader) (e : RErr) : Prop :=
  (e = .conn errProtocol ∨ e = .conn errFrameSize
    ∨ (e = .conn errFlowControl ∧ fh.type = tSettings)
    ∨ (e = .stream fh.streamID errProtocol ∧ fh.streamID ≠ 0 ∧ (fh.type = tHeaders ∨ fh.type = tWindowUpdate))
    ∨ (e = .unexpectedEOF ∧ (fh.type = tData ∨ fh.type = tHeaders ∨ fh.type = tPushPromise)))


instance (ss : List (Nat × Nat)) : Decidable (WfSettings ss) := by unfold WfSettings; infer_instance
instance (sid : Nat) (data : Bytes) (pad : Option Bytes) : Decidable (WfData sid data pad) := by
  unfold WfData; cases pad <;> simp only <;> infer_instance
instance (p : HeadersParam) : Decidable (WfHeaders p) := by unfold WfHeaders; infer_instance
instance (p : PushPromiseParam) : Decidable (WfPushPromise p) := by unfold WfPushPromise; infer_instance

end Req.H2.Frame
