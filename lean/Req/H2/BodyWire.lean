import Req.H2.BodyWrite
import Req.H2.Frame
/-!
C01 (round 5) — the BYTES of the DATA frames of a request body on an HTTP/2 connection:
`clientStream.writeRequestBody` hands every cut (payload, END_STREAM) to `cc.fr.WriteData(cs.ID, …)`;
`wire` is the concatenation of what C05's framer model `Req.H2.Frame.writeData` emits for them (the
9-byte frame header + payload, no padding). `readBody` is an origin reading the request content of
stream `sid` from the connection with C05's `readFrame` (`Framer.ReadFrame`): DATA frames of that
stream, in order, up to the one that carries END_STREAM.

The trailer HEADERS frame(s) are outside this file (their block is HPACK, C05 `headers_parse_write`
+ the abstract codec of `ConnSeq`): `wire` is `none` for a frame sequence with trailers.
-/
namespace Req.H2.BodyWire
open Req.Proto

/-- `cc.fr.WriteData(sid, endStream, payload)` -/
def frameWire (sid : Nat) : Req.H2.BodyWrite.Frame → Option Bytes
  | .data p e =>
    match Req.H2.Frame.writeData false sid e p none with
    | .ok b => some b
    | .error _ => none
  | .trailers => none

/-- the bytes the body writer puts on the connection, in order -/
def wire (sid : Nat) : List Req.H2.BodyWrite.Frame → Option Bytes
  | [] => some []
  | f :: fs =>
    match frameWire sid f, wire sid fs with
    | some x, some y => some (x ++ y)
    | _, _ => none

/-- an origin reading the content of request stream `sid`: `ReadFrame` until a DATA frame carries
END_STREAM; the payloads in order and the unread rest of the connection. Anything else on the way
(another frame type, another stream, a framing error, the connection ending) = `none`. -/
def readBody (sid : Nat) : Nat → Req.H2.Frame.Reader → Bytes → Option (List Bytes × Bytes)
  | 0, _, _ => none
  | fuel + 1, rd, input =>
    match Req.H2.Frame.readFrame rd input with
    | (.ok (.data h d), rd', rest) =>
      if h.streamID ≠ sid then none
      else if Req.H2.Frame.hasFlag h.flags Req.H2.Frame.flagEndStream then some ([d], rest)
      else
        match readBody sid fuel rd' rest with
        | some (ds, rest') => some (d :: ds, rest')
        | none => none
    | _ => none

end Req.H2.BodyWire
