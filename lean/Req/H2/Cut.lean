import Req.H2.Conn
/-!
C06, round 5 — operations that happen INSIDE somebody's frame write.

`Req.H2.Conn` executes one caller/peer operation as one critical section together with the
frame write that follows it. Two families of schedules of the real code sit below that
granularity because `cc.wmu` is held across a blocking write:

* `XOp.openCancel r cut` — `RoundTrip` of request `r`, cancelled (context, `Request.Cancel`,
  stream abort) when `cut` payload octets of its header block have been handed to the
  connection. `writeHeaders` holds `cc.wmu` for the whole block and never looks at the
  cancellation: the block goes out to its END_HEADERS, `cleanupWriteRequest` then resets the
  stream. The body writer never starts (`cs.reqBodyClosed` is already set when
  `writeRequestBody` does its first `Read`), so nothing is pumped between the two.
* `XOp.held fid n o` — the body writer of stream `fid` is handed `n` octets and parked inside
  its DATA frame write (`cc.wmu` held) while the caller operation `o` on ANOTHER stream
  (`Body.Close`, `Body.Read`, cancel) does its bookkeeping under `cc.mu`; `o`'s frames
  (WINDOW_UPDATE, RST_STREAM) wait for `cc.wmu` and follow.

The real code behaves in both cases as if the two operations had happened one after the other
(`xstep` with `Variant.real`); `Req.Props.C06Cut` proves that every such script is a run of the
atomic machine — so `conn_conforms`, `peer_window_exact`, … apply to it — and the script lane
drives the real `ClientConn` through a gate that parks its writer at the chosen octet
(`harness/internal__http2/zz_verif_c06_gate_test.go`) and compares the frames.

`XOp.feedCancel fid n cut` is the first family again for the request's TRAILER block (the last
body octets are handed to the writer, which then writes the trailers under `cc.wmu`).

`Variant` names the two ways of getting this wrong that the seeded changes are instances of;
the counter-example theorems of `Req.Props.C06Cut` show the strict peer rejecting each.
-/
namespace Req.H2.Cut
open Req.H2 Req.H2.Conn

/-- alternatives to what the code does (all `false` = the code as it is) -/
structure Variant where
  /-- `writeHeaders` looks at the request's cancellation before every frame but the first and
  returns early ("don't hold wmu for a request nobody waits for") -/
  cancelBetweenFrames : Bool := false
  /-- `transportResponseBody.Close` commits the unread octets with `cc.inflow.add` and writes
  the WINDOW_UPDATE only when `cc.wmu` is free (`TryLock`) -/
  closeTryLock : Bool := false
  deriving DecidableEq, Repr, Inhabited

def Variant.real : Variant := {}

inductive XOp where
  | plain (op : Op)
  | openCancel (r : Req) (cut : Nat)
  | held (fid n : Nat) (o : Op)
  /-- the body writer of stream `fid` is handed its last `n` octets, writes them and starts on
  the request's trailers; the request is cancelled after `cut` octets of the trailer block -/
  | feedCancel (fid n cut : Nat)
  deriving DecidableEq, Repr, Inhabited

/-- payload octets of a frame of a header block -/
def blockOctets : Frame → Nat
  | .headers _ len _ _ => len
  | .continuation _ len _ => len
  | _ => 0

/-- the loop of `writeHeaders` over the frames of one block when the request is cancelled after
`cut` payload octets of the block have reached the connection (the writer is inside the `Write`
of the frame that contains octet `cut + 1`; that frame is completed). `w` = octets written so
far. A loop that `checks` stops before the first frame that starts after the cut; the real loop
does not look. -/
def writeBlock (checks : Bool) (cut : Nat) : Nat → List Frame → List Frame
  | _, [] => []
  | w, f :: fs =>
    if checks ∧ w ≠ 0 ∧ cut < w then [] else f :: writeBlock checks cut (w + blockOctets f) fs

/-- connection-level WINDOW_UPDATEs -/
def isConnCredit : Frame → Bool
  | .windowUpdate 0 _ => true
  | _ => false

/-- the client's frames in a history -/
def clientFrames (evs : List Event) : List Frame :=
  evs.filterMap fun e => match e with | .c f => some f | .p _ => none

/-- what the peer sees of one pumped script step (`scriptStep`): its own frame (if the operation
is one), then the client's frames -/
def scriptEvents (st : State) (op : Op) : List Event :=
  let (st0, fs0) := step st op
  let (st1, fs1) := step st0 .wake
  let (st2, fs2) := pumpAll st1 (st1.streams.map (·.id))
  let (_, fs3) := pumpAll st2 ((st2.streams.drop st1.streams.length).map (·.id))
  (if st.closed then [] else opEvents op fs0) ++ (fs1 ++ fs2 ++ fs3).map Event.c

def isBlockFrame : Frame → Bool
  | .headers .. => true
  | .continuation .. => true
  | _ => false

/-- the frames of a feed step (DATA frames, then possibly a trailer block) with the trailer block
written by a loop that looks at the cancellation -/
def cutTrailerBlock (cut : Nat) (fs : List Frame) : List Frame :=
  fs.takeWhile (fun f => !isBlockFrame f) ++ writeBlock true cut 0 (fs.dropWhile (fun f => !isBlockFrame f))

def isConnCreditEv : Event → Bool
  | .c f => isConnCredit f
  | .p _ => false

/-- one scripted operation: new state and what the peer sees -/
def xstepE (v : Variant) (st : State) : XOp → State × List Event
  | .plain op => ((scriptStep st op).1, scriptEvents st op)
  | .openCancel r cut =>
    let id := st.nextStreamID
    let (st1, fs1) := step st (.openReq r)
    ((scriptStep st1 (.cancel id)).1,
     (if st.closed then [] else (writeBlock v.cancelBetweenFrames cut 0 fs1).map Event.c) ++
       scriptEvents st1 (.cancel id))
  | .held fid n o =>
    let st1 := (scriptStep st (.feed fid n)).1
    let e1 := scriptEvents st (.feed fid n)
    let e2 := scriptEvents st1 o
    -- (`closeTryLock`: a writer was parked, so `cc.wmu` was taken: the committed credit is not written)
    ((scriptStep st1 o).1,
     e1 ++ (if v.closeTryLock ∧ !(clientFrames e1).isEmpty then e2.filter (fun e => !isConnCreditEv e) else e2))

  | .feedCancel fid n cut =>
    let st1 := (scriptStep st (.feed fid n)).1
    let e1 := scriptEvents st (.feed fid n)
    ((scriptStep st1 (.cancel fid)).1,
     (if v.cancelBetweenFrames then (cutTrailerBlock cut (clientFrames e1)).map Event.c else e1) ++
       scriptEvents st1 (.cancel fid))

def xstep (v : Variant) (st : State) (x : XOp) : State × List Frame :=
  ((xstepE v st x).1, clientFrames (xstepE v st x).2)

/-- what the script lane compares: per scripted operation the frames, "the connection was
closed", "a Go panic was reached" -/
def xscriptRun (v : Variant) (st : State) : List XOp → List (List Frame × Bool × Bool)
  | [] => []
  | x :: xs =>
    let (st', fs) := xstep v st x
    (fs, st'.closed && !st.closed, st'.panicked && !st.panicked) :: xscriptRun v st' xs

/-- state and history of a script -/
def xrunFrom (v : Variant) (st : State) (hist : List Event) : List XOp → State × List Event
  | [] => (st, hist)
  | x :: xs =>
    let (st', evs) := xstepE v st x
    xrunFrom v st' (hist ++ evs) xs

def xrun (v : Variant) (cfg : Cfg) (xs : List XOp) : State × List Event :=
  let (st, fs) := newConn cfg
  xrunFrom v st (fs.map Event.c) xs

def XOp.ok : XOp → Prop
  | .plain op => op.ok
  | .openCancel r _ => 0 < r.hdrLen
  | .held _ _ o => o.ok
  | .feedCancel _ _ _ => True

end Req.H2.Cut
