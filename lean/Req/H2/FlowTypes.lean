/-!
Shared vocabulary of the HTTP/2 flow-control model (C06): fixed-width integer conversions and
the two flow structures of `internal/http2/flow.go`. Imported both by the hand model
(`Req.H2.Flow`) and by the module `Generated.C06Flow` that `tools/gofacts` regenerates from the
Go source on every run.

Go `int32`/`uint32`/`int64` values are modelled on `Int`; a Go conversion or an arithmetic
operation on a fixed-width type is an explicit `wrap…`.
-/
namespace Req.H2

/-- Go `int32(x)` (two's complement truncation). -/
def wrap32 (x : Int) : Int := (x + 2147483648) % 4294967296 - 2147483648
/-- Go `uint32(x)`. -/
def wrapU32 (x : Int) : Int := x % 4294967296
/-- Go `int64(x)` / `int(x)` on a 64-bit platform. -/
def wrap64 (x : Int) : Int := (x + 9223372036854775808) % 18446744073709551616 - 9223372036854775808
/-- Go `uint64(x)`. -/
def wrapU64 (x : Int) : Int := x % 18446744073709551616

/-- value is representable as a Go `int32`. -/
def In32 (x : Int) : Prop := -2147483648 ≤ x ∧ x ≤ 2147483647
/-- value is representable as a Go `uint32`. -/
def InU32 (x : Int) : Prop := 0 ≤ x ∧ x ≤ 4294967295

instance (x : Int) : Decidable (In32 x) := by unfold In32; infer_instance
instance (x : Int) : Decidable (InU32 x) := by unfold InU32; infer_instance

theorem wrap32_of_in32 {x : Int} (h : In32 x) : wrap32 x = x := by
  unfold In32 at h; unfold wrap32; omega
theorem wrapU32_of_inU32 {x : Int} (h : InU32 x) : wrapU32 x = x := by
  unfold InU32 at h; unfold wrapU32; omega
theorem wrap32_in32 (x : Int) : In32 (wrap32 x) := by
  unfold In32 wrap32; omega

/-- `type inflow struct { avail, unsent int32 }` -/
structure Inflow where
  avail : Int
  unsent : Int
  deriving DecidableEq, Repr, Inhabited

/-- `type outflow struct { n int32; conn *outflow }`. The pointer to the shared
connection-level outflow is modelled by value: `conn_nonnil` says whether it is set and
`conn_n` is the pointee's `n` (the caller writes it back to the connection). -/
structure Outflow where
  n : Int
  conn_nonnil : Bool
  conn_n : Int
  deriving DecidableEq, Repr, Inhabited

/-- Result of a Go function that can `panic`. -/
inductive Res (α : Type) where
  | ok (a : α)
  | panic
  deriving DecidableEq, Repr

end Req.H2
