import Req.Driver.Proto
/-!
HTTP/2 frame codec of `internal/http2/frame.go` (a fork of golang.org/x/net/http2's framer).

* `parseHeader` / `frameBytes`      — `readFrameHeader` / `startWrite`+`endWrite` (9-byte header)
* `parsePayload`                    — `typeFrameParser(t)(…)`: the ten typed parsers + unknown
* `checkFrameOrder`                 — the HEADERS/CONTINUATION contiguity automaton
* `readFrame`                       — `Framer.ReadFrame` without `ReadMetaHeaders`
* `write…`                          — `Framer.Write{Data,DataPadded,Headers,Priority,RSTStream,
                                       Settings,SettingsAck,PushPromise,Ping,GoAway,WindowUpdate,
                                       Continuation,RawFrame}`

Go's `uint8/uint16/uint32` values are `Nat`s with the range as an explicit hypothesis where it
matters; `uint8(x)` is `x % 256`, `x & (1<<31 - 1)` is `x % 2^31`, a flag test
`Flags.Has(bit)` on a single-bit mask is `(flags / bit) % 2 = 1`, and `flags |= bit` over
distinct bits is a sum.
-/
namespace Req.H2.Frame
open Req.Proto

/-! ### constants -/
abbrev tData : Nat := 0
abbrev tHeaders : Nat := 1
abbrev tPriority : Nat := 2
abbrev tRSTStream : Nat := 3
abbrev tSettings : Nat := 4
abbrev tPushPromise : Nat := 5
abbrev tPing : Nat := 6
abbrev tGoAway : Nat := 7
abbrev tWindowUpdate : Nat := 8
abbrev tContinuation : Nat := 9

abbrev flagEndStream : Nat := 1     -- DATA, HEADERS
abbrev flagAck : Nat := 1           -- SETTINGS, PING
abbrev flagEndHeaders : Nat := 4    -- HEADERS, CONTINUATION, PUSH_PROMISE
abbrev flagPadded : Nat := 8        -- DATA, HEADERS, PUSH_PROMISE
abbrev flagPriority : Nat := 32     -- HEADERS

abbrev errProtocol : Nat := 1
abbrev errFlowControl : Nat := 3
abbrev errFrameSize : Nat := 6
abbrev errCompression : Nat := 9

abbrev two31 : Nat := 2147483648
abbrev two24 : Nat := 16777216

/-- `uint8(x)` -/
def u8 (x : Nat) : UInt8 := UInt8.ofNat (x % 256)

/-- `Flags.Has(bit)` for a single-bit mask `bit` (a power of two). -/
def hasFlag (flags bit : Nat) : Bool := (flags / bit) % 2 == 1

/-- `writeUint16` -/
def be16 (v : Nat) : Bytes := [u8 (v / 256), u8 v]
/-- `writeUint32` -/
def be32 (v : Nat) : Bytes := [u8 (v / 16777216), u8 (v / 65536), u8 (v / 256), u8 v]
/-- `binary.BigEndian.Uint32` -/
def rd32 (a b c d : UInt8) : Nat :=
  a.toNat * 16777216 + b.toNat * 65536 + c.toNat * 256 + d.toNat

/-! ### frame header -/

structure FrameHeader where
  length : Nat
  type : Nat
  flags : Nat
  streamID : Nat
  deriving DecidableEq, Repr

/-- `readFrameHeader` on 9 available bytes (`none`: fewer than 9 bytes). -/
def parseHeader : Bytes → Option (FrameHeader × Bytes)
  | l0 :: l1 :: l2 :: t :: f :: s0 :: s1 :: s2 :: s3 :: rest =>
    some ({ length := l0.toNat * 65536 + l1.toNat * 256 + l2.toNat,
            type := t.toNat, flags := f.toNat,
            streamID := rd32 s0 s1 s2 s3 % two31 }, rest)
  | _ => none

/-- The 9 header bytes `startWrite`/`endWrite` produce. -/
def headerBytes (length type flags streamID : Nat) : Bytes :=
  [u8 (length / 65536), u8 (length / 256), u8 length, u8 type, u8 flags] ++ be32 streamID

inductive WErr where
  | streamID        -- errStreamID
  | depStreamID     -- errDepStreamID
  | padLength       -- errPadLength
  | padBytes        -- errPadBytes
  | frameTooLarge   -- errFrameTooLarge (endWrite)
  | windowIncr      -- "illegal window increment value"
  deriving DecidableEq, Repr

/-- `startWrite(type, flags, streamID)`, append payload, `endWrite()`. -/
def frameBytes (type flags streamID : Nat) (payload : Bytes) : Except WErr Bytes :=
  if payload.length ≥ two24 then .error .frameTooLarge
  else .ok (headerBytes payload.length type flags streamID ++ payload)

/-! ### frames and read errors -/

structure Priority where
  streamDep : Nat
  exclusive : Bool
  weight : Nat
  deriving DecidableEq, Repr

def Priority.zero : Priority := ⟨0, false, 0⟩
def Priority.isZero (p : Priority) : Bool := p.streamDep == 0 && !p.exclusive && p.weight == 0

inductive Frame where
  | data (h : FrameHeader) (data : Bytes)
  | headers (h : FrameHeader) (prio : Priority) (frag : Bytes)
  | priority (h : FrameHeader) (prio : Priority)
  | rstStream (h : FrameHeader) (code : Nat)
  | settings (h : FrameHeader) (ss : List (Nat × Nat))
  | pushPromise (h : FrameHeader) (promiseID : Nat) (frag : Bytes)
  | ping (h : FrameHeader) (data : Bytes)
  | goAway (h : FrameHeader) (lastStreamID code : Nat) (debug : Bytes)
  | windowUpdate (h : FrameHeader) (incr : Nat)
  | continuation (h : FrameHeader) (frag : Bytes)
  | unknown (h : FrameHeader) (p : Bytes)
  deriving DecidableEq, Repr

def Frame.header : Frame → FrameHeader
  | .data h _ | .headers h _ _ | .priority h _ | .rstStream h _ | .settings h _
  | .pushPromise h _ _ | .ping h _ | .goAway h _ _ _ | .windowUpdate h _
  | .continuation h _ | .unknown h _ => h

inductive RErr where
  | conn (code : Nat)            -- ConnectionError(code): terminal
  | stream (sid code : Nat)      -- StreamError{sid, code}: not terminal
  | unexpectedEOF                -- io.ErrUnexpectedEOF (short read, or a typed parser's readByte/readUint32)
  | eof                          -- io.EOF (no byte of the header / of a non-empty payload)
  | tooLarge                     -- errFrameTooLarge
  deriving DecidableEq, Repr

/-- `terminalReadFrameError` -/
def RErr.terminal : RErr → Bool
  | .stream _ _ => false
  | _ => true

/-! ### typed payload parsers -/

/-- `readByte` -/
def readByte : Bytes → Except RErr (UInt8 × Bytes)
  | [] => .error .unexpectedEOF
  | b :: rest => .ok (b, rest)

/-- `readUint32` -/
def readUint32 : Bytes → Except RErr (Nat × Bytes)
  | a :: b :: c :: d :: rest => .ok (rd32 a b c d, rest)
  | _ => .error .unexpectedEOF

def parseData (fh : FrameHeader) (payload : Bytes) : Except RErr Frame :=
  if fh.streamID = 0 then .error (.conn errProtocol) else
  if hasFlag fh.flags flagPadded then
    match payload with
    | [] => .error .unexpectedEOF
    | pad :: p =>
      if pad.toNat > p.length then .error (.conn errProtocol)
      else .ok (.data fh (p.take (p.length - pad.toNat)))
  else .ok (.data fh payload)

def decodeSettings : Bytes → List (Nat × Nat)
  | a :: b :: c :: d :: e :: f :: rest =>
    (a.toNat * 256 + b.toNat, rd32 c d e f) :: decodeSettings rest
  | _ => []

/-- `SettingsFrame.Value(id)`: first occurrence. -/
def settingsValue (ss : List (Nat × Nat)) (id : Nat) : Option Nat :=
  (ss.find? (fun s => s.1 == id)).map (·.2)

def parseSettings (fh : FrameHeader) (p : Bytes) : Except RErr Frame :=
  if hasFlag fh.flags flagAck ∧ fh.length > 0 then .error (.conn errFrameSize) else
  if fh.streamID ≠ 0 then .error (.conn errProtocol) else
  if p.length % 6 ≠ 0 then .error (.conn errFrameSize) else
  let ss := decodeSettings p
  match settingsValue ss 4 with
  | some v => if v > two31 - 1 then .error (.conn errFlowControl) else .ok (.settings fh ss)
  | none => .ok (.settings fh ss)

def parsePing (fh : FrameHeader) (p : Bytes) : Except RErr Frame :=
  if p.length ≠ 8 then .error (.conn errFrameSize) else
  if fh.streamID ≠ 0 then .error (.conn errProtocol) else
  .ok (.ping fh p)

def parseGoAway (fh : FrameHeader) (p : Bytes) : Except RErr Frame :=
  if fh.streamID ≠ 0 then .error (.conn errProtocol) else
  match p with
  | a :: b :: c :: d :: e :: f :: g :: h :: debug =>
    .ok (.goAway fh (rd32 a b c d % two31) (rd32 e f g h) debug)
  | _ => .error (.conn errFrameSize)

def parseWindowUpdate (fh : FrameHeader) (p : Bytes) : Except RErr Frame :=
  match p with
  | [a, b, c, d] =>
    let inc := rd32 a b c d % two31
    if inc = 0 then
      if fh.streamID = 0 then .error (.conn errProtocol)
      else .error (.stream fh.streamID errProtocol)
    else .ok (.windowUpdate fh inc)
  | _ => .error (.conn errFrameSize)

/-- the optional pad-length byte of HEADERS / PUSH_PROMISE (`readByte` when PADDED). -/
def takePad (padded : Bool) (p : Bytes) : Except RErr (Nat × Bytes) :=
  if padded then
    match p with
    | [] => .error .unexpectedEOF
    | b :: rest => .ok (b.toNat, rest)
  else .ok (0, p)

/-- the optional 5 priority bytes of HEADERS (`readUint32` + `readByte` when PRIORITY). -/
def takePrio (has : Bool) (p : Bytes) : Except RErr (Priority × Bytes) :=
  if has then
    match p with
    | a :: b :: c :: d :: w :: rest =>
      let v := rd32 a b c d
      .ok ({ streamDep := v % two31, exclusive := decide (v ≠ v % two31), weight := w.toNat }, rest)
    | _ => .error .unexpectedEOF
  else .ok (Priority.zero, p)

def parseHeaders (fh : FrameHeader) (p : Bytes) : Except RErr Frame :=
  if fh.streamID = 0 then .error (.conn errProtocol) else
  match takePad (hasFlag fh.flags flagPadded) p with
  | .error e => .error e
  | .ok (padLength, p) =>
    match takePrio (hasFlag fh.flags flagPriority) p with
    | .error e => .error e
    | .ok (prio, p) =>
      if p.length < padLength then .error (.stream fh.streamID errProtocol)
      else .ok (.headers fh prio (p.take (p.length - padLength)))

def parsePriority (fh : FrameHeader) (p : Bytes) : Except RErr Frame :=
  if fh.streamID = 0 then .error (.conn errProtocol) else
  match p with
  | [a, b, c, d, w] =>
    let v := rd32 a b c d
    .ok (.priority fh { streamDep := v % two31, exclusive := decide (v % two31 ≠ v),
                        weight := w.toNat })
  | _ => .error (.conn errFrameSize)

def parseRSTStream (fh : FrameHeader) (p : Bytes) : Except RErr Frame :=
  match p with
  | [a, b, c, d] =>
    if fh.streamID = 0 then .error (.conn errProtocol)
    else .ok (.rstStream fh (rd32 a b c d))
  | _ => .error (.conn errFrameSize)

def parseContinuation (fh : FrameHeader) (p : Bytes) : Except RErr Frame :=
  if fh.streamID = 0 then .error (.conn errProtocol) else .ok (.continuation fh p)

def parsePushPromise (fh : FrameHeader) (p : Bytes) : Except RErr Frame :=
  if fh.streamID = 0 then .error (.conn errProtocol) else
  match takePad (hasFlag fh.flags flagPadded) p with
  | .error e => .error e
  | .ok (padLength, p) =>
    match p with
    | a :: b :: c :: d :: p =>
      if padLength > p.length then .error (.conn errProtocol)
      else .ok (.pushPromise fh (rd32 a b c d % two31) (p.take (p.length - padLength)))
    | _ => .error .unexpectedEOF

/-- `typeFrameParser(fh.Type)(…, fh, …, payload)` -/
def parsePayload (fh : FrameHeader) (payload : Bytes) : Except RErr Frame :=
  if fh.type = tData then parseData fh payload
  else if fh.type = tHeaders then parseHeaders fh payload
  else if fh.type = tPriority then parsePriority fh payload
  else if fh.type = tRSTStream then parseRSTStream fh payload
  else if fh.type = tSettings then parseSettings fh payload
  else if fh.type = tPushPromise then parsePushPromise fh payload
  else if fh.type = tPing then parsePing fh payload
  else if fh.type = tGoAway then parseGoAway fh payload
  else if fh.type = tWindowUpdate then parseWindowUpdate fh payload
  else if fh.type = tContinuation then parseContinuation fh payload
  else .ok (.unknown fh payload)

/-! ### reader state, frame order, ReadFrame -/

structure Reader where
  maxReadSize : Nat
  lastHeaderStream : Nat := 0
  allowIllegalReads : Bool := false
  deriving DecidableEq, Repr

/-- `SetMaxReadFrameSize(v)`: clamped to `maxFrameSize = 1<<24 - 1`. -/
def setMaxReadFrameSize (v : Nat) : Nat := if v > two24 - 1 then two24 - 1 else v

/-- `checkFrameOrder`: `none` = connection error PROTOCOL_ERROR, else the new
`lastHeaderStream`. -/
def orderStep (last : Nat) (fh : FrameHeader) : Option Nat :=
  if last ≠ 0 ∧ fh.type ≠ tContinuation then none
  else if last ≠ 0 ∧ fh.streamID ≠ last then none
  else if last = 0 ∧ fh.type = tContinuation then none
  else if fh.type = tHeaders ∨ fh.type = tContinuation then
    some (if hasFlag fh.flags flagEndHeaders then 0 else fh.streamID)
  else some last

def checkFrameOrder (r : Reader) (fh : FrameHeader) : Except RErr Reader :=
  if r.allowIllegalReads then .ok r
  else match orderStep r.lastHeaderStream fh with
    | none => .error (.conn errProtocol)
    | some l => .ok { r with lastHeaderStream := l }

/-- what `ReadFrame` does once the header `fh` and the payload are in hand: typed parser, then
`checkFrameOrder`; a parse error leaves the reader state untouched. -/
def afterPayload (r : Reader) (fh : FrameHeader) (payload rest : Bytes) :
    Except RErr Frame × Reader × Bytes :=
  match parsePayload fh payload with
  | .error e => (.error e, r, rest)
  | .ok f =>
    match checkFrameOrder r fh with
    | .error e => (.error e, r, rest)
    | .ok r' => (.ok f, r', rest)

/-- `Framer.ReadFrame` (raw frames, `ReadMetaHeaders == nil`) on an in-memory reader holding
`input`. Returns the result, the new reader state and the unread input. -/
def readFrame (r : Reader) (input : Bytes) : Except RErr Frame × Reader × Bytes :=
  match parseHeader input with
  | none => (.error (if input.isEmpty then .eof else .unexpectedEOF), r, [])
  | some (fh, rest) =>
    if fh.length > r.maxReadSize then (.error .tooLarge, r, rest)
    else if rest.length < fh.length then
      (.error (if rest.isEmpty then .eof else .unexpectedEOF), r, [])
    else afterPayload r fh (rest.take fh.length) (rest.drop fh.length)

/-- Repeated `ReadFrame` until a terminal error (`fuel` bounds the number of calls; every
call that is not terminal consumes at least 9 bytes). -/
def readAll : Nat → Reader → Bytes → List (Except RErr Frame)
  | 0, _, _ => []
  | fuel + 1, r, input =>
    match readFrame r input with
    | (.error e, r', rest) => if e.terminal then [.error e] else .error e :: readAll fuel r' rest
    | (.ok f, r', rest) => .ok f :: readAll fuel r' rest

/-! ### writers -/

/-- `validStreamID` on a `uint32` -/
def validStreamID (sid : Nat) : Bool := sid ≠ 0 && sid < two31
/-- `validStreamIDOrZero` on a `uint32` -/
def validStreamIDOrZero (sid : Nat) : Bool := sid < two31

def b2n (b : Bool) (v : Nat) : Nat := if b then v else 0

/-- `WriteDataPadded(streamID, endStream, data, pad)`; `pad = none` is Go's `nil`
(`WriteData`). -/
def writeData (allowIllegal : Bool) (sid : Nat) (endStream : Bool) (data : Bytes)
    (pad : Option Bytes) : Except WErr Bytes :=
  if !validStreamID sid && !allowIllegal then .error .streamID else
  let padb := pad.getD []
  if padb.length > 255 then .error .padLength else
  if !allowIllegal && padb.any (· != 0) then .error .padBytes else
  let flags := b2n endStream flagEndStream + b2n pad.isSome flagPadded
  frameBytes tData flags sid
    ((if pad.isSome then [u8 padb.length] else []) ++ data ++ padb)

structure HeadersParam where
  streamID : Nat
  blockFragment : Bytes
  endStream : Bool
  endHeaders : Bool
  padLength : Nat
  priority : Priority
  deriving DecidableEq, Repr

/-- `v | 1<<31` on a `uint32` -/
def orBit31 (v : Nat) : Nat := if (v / two31) % 2 = 1 then v else v + two31

def prioBytes (p : Priority) : Bytes :=
  be32 (if p.exclusive then orBit31 p.streamDep else p.streamDep) ++ [u8 p.weight]

def writeHeaders (allowIllegal : Bool) (p : HeadersParam) : Except WErr Bytes :=
  if !validStreamID p.streamID && !allowIllegal then .error .streamID else
  let hasPrio := !p.priority.isZero
  let flags := b2n (p.padLength != 0) flagPadded + b2n p.endStream flagEndStream
    + b2n p.endHeaders flagEndHeaders + b2n hasPrio flagPriority
  if hasPrio && !validStreamIDOrZero p.priority.streamDep && !allowIllegal then .error .depStreamID
  else
  frameBytes tHeaders flags p.streamID
    ((if p.padLength != 0 then [u8 p.padLength] else [])
      ++ (if hasPrio then prioBytes p.priority else [])
      ++ p.blockFragment ++ List.replicate p.padLength 0)

def writePriority (allowIllegal : Bool) (sid : Nat) (p : Priority) : Except WErr Bytes :=
  if !validStreamID sid && !allowIllegal then .error .streamID else
  if !validStreamIDOrZero p.streamDep then .error .depStreamID else
  frameBytes tPriority 0 sid (prioBytes p)

def writeRSTStream (allowIllegal : Bool) (sid code : Nat) : Except WErr Bytes :=
  if !validStreamID sid && !allowIllegal then .error .streamID else
  frameBytes tRSTStream 0 sid (be32 code)

def encodeSettings : List (Nat × Nat) → Bytes
  | [] => []
  | (id, v) :: rest => be16 id ++ be32 v ++ encodeSettings rest

def writeSettings (ss : List (Nat × Nat)) : Except WErr Bytes :=
  frameBytes tSettings 0 0 (encodeSettings ss)

def writeSettingsAck : Except WErr Bytes := frameBytes tSettings flagAck 0 []

def writePing (ack : Bool) (data : Bytes) : Except WErr Bytes :=
  frameBytes tPing (b2n ack flagAck) 0 data

def writeGoAway (maxStreamID code : Nat) (debug : Bytes) : Except WErr Bytes :=
  frameBytes tGoAway 0 0 (be32 (maxStreamID % two31) ++ be32 code ++ debug)

def writeWindowUpdate (allowIllegal : Bool) (sid incr : Nat) : Except WErr Bytes :=
  if (incr < 1 || incr > 2147483647) && !allowIllegal then .error .windowIncr else
  frameBytes tWindowUpdate 0 sid (be32 incr)

def writeContinuation (allowIllegal : Bool) (sid : Nat) (endHeaders : Bool) (frag : Bytes) :
    Except WErr Bytes :=
  if !validStreamID sid && !allowIllegal then .error .streamID else
  frameBytes tContinuation (b2n endHeaders flagEndHeaders) sid frag

structure PushPromiseParam where
  streamID : Nat
  promiseID : Nat
  blockFragment : Bytes
  endHeaders : Bool
  padLength : Nat
  deriving DecidableEq, Repr

def writePushPromise (allowIllegal : Bool) (p : PushPromiseParam) : Except WErr Bytes :=
  if !validStreamID p.streamID && !allowIllegal then .error .streamID else
  if !validStreamID p.promiseID && !allowIllegal then .error .streamID else
  let flags := b2n (p.padLength != 0) flagPadded + b2n p.endHeaders flagEndHeaders
  frameBytes tPushPromise flags p.streamID
    ((if p.padLength != 0 then [u8 p.padLength] else [])
      ++ be32 p.promiseID ++ p.blockFragment ++ List.replicate p.padLength 0)

def writeRawFrame (t flags sid : Nat) (payload : Bytes) : Except WErr Bytes :=
  frameBytes t flags sid payload

/-- `SettingsFrame.HasDuplicates` -/
def hasDuplicates : List (Nat × Nat) → Bool
  | [] => false
  | s :: rest => rest.any (fun t => t.1 == s.1) || hasDuplicates rest

end Req.H2.Frame
