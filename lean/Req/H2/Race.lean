import Req.H2.Monitor
/-!
C06 — the two-phase refinement of the connection model: below lock granularity.

In `Req.H2.Conn` "decide the size of a DATA frame / admit a new stream" and "write the frame" are
one step. The code does them in two critical sections:

* DATA: `awaitFlowControl` sizes the frame and debits both send windows under `cc.mu`;
  `writeRequestBody` writes it later under `cc.wmu`.
* a new stream: `awaitOpenSlotForStreamLocked` + `addStreamLocked` admit it under `cc.mu` (the
  stream is in `cc.streams` from then on); `encodeAndWriteHeaders` writes HEADERS (+ CONTINUATION)
  later under `cc.wmu`, reading `cc.maxFrameSize` there.

`processSettings` holds both locks while it applies a SETTINGS frame and writes the
acknowledgement, so it can run exactly *between* the two phases — and then the frame reaches the
peer after the acknowledgement although it was decided under the old values (the open finding
`c06-settings-ack-race`, inherited from x/net). The refined machine has two more operations for
exactly that: `writeRaced` and `openRaced`; everything else is as in `Conn` (`plain`). Other
goroutines slipping in between the two phases change nothing the peer can object to: frames of
other streams commute with a delayed DATA frame at the monitor (both debit the connection window),
the peer's own frames only loosen what it accepts, and the stream's own later frames (trailers,
RST_STREAM) come from the same goroutine after the write.

For `openRaced` the state after "admit; SETTINGS; write" is computed as "SETTINGS; then
`doOpen`" with the admission test made *before* the SETTINGS: the two agree because a stream
admitted before a SETTINGS_INITIAL_WINDOW_SIZE change gets the delta (0 + old + (new − old) = new,
what `doOpen` gives it afterwards), ids are assigned from the same counter, and frame size and
scratch buffer are read at/after the write.
-/
namespace Req.H2.Race
open Req.H2 Req.H2.Flow Req.H2.Conn

inductive ROp where
  | plain (op : Op)
  /-- a DATA frame of stream `id` is sized (cc.mu), the read loop processes and acknowledges the
  SETTINGS frame `vals` (cc.mu + cc.wmu), then the frame is written (cc.wmu) -/
  | writeRaced (id : Nat) (vals : List (Nat × Nat))
  /-- a request is admitted and its stream created (cc.mu), the read loop processes and
  acknowledges `vals`, then its header block is written (cc.wmu) -/
  | openRaced (r : Req) (vals : List (Nat × Nat))
  deriving DecidableEq, Repr, Inhabited

def ROp.ok : ROp → Prop
  | .plain op => op.ok
  | .writeRaced _ _ => True
  | .openRaced r _ => 0 < r.hdrLen

/-- the SETTINGS frame as the peer's history sees it: its own frame, then the client's answer -/
def settingsEvents (st : State) (vals : List (Nat × Nat)) : State × List Event :=
  let (st1, fs) := peerSettings st vals
  (st1, Event.p (.settings vals) :: fs.map Event.c)

def rstep (st : State) : ROp → State × List Event
  | .plain op =>
    let (st', fs) := step st op
    (st', if st.closed then [] else opEvents op fs)
  | .writeRaced id vals =>
    if st.closed then (st, [])
    else match findStream st.streams id with
      | none => (st, [])
      | some s =>
        match writeStep st.connOut st.maxFrameSize s with
        | none => (st, [])
        | some (c, s', f) =>
          -- phase 1: the windows are debited, the stream's books updated
          let st1 := settle { st with connOut := c } s'
          -- (the frame that ends the last stream of a draining connection: the connection is closed
          -- right after the write; SETTINGS arriving in between go unanswered either way - no race)
          if st1.closed then (st1, [Event.c f])
          else
            -- the read loop
            let (st2, evs) := settingsEvents st1 vals
            -- phase 2: the frame goes out (into a connection that may have been torn down)
            (st2, evs ++ (if st2.closed then [] else [Event.c f]))
  | .openRaced r vals =>
    if st.closed then (st, [])
    else if st.pendingOpen.isSome || !canTake st || !decide (liveCount st.streams < st.maxConcurrent) then (st, [])
    else
      -- admitted; the read loop; the write
      let (st1, evs) := settingsEvents st vals
      if st1.closed then (st1, evs)
      else
        let (st2, fs) := doOpen st1 r
        (st2, evs ++ fs.map Event.c)

def rrunFrom (st : State) (hist : List Event) : List ROp → State × List Event
  | [] => (st, hist)
  | op :: ops =>
    let (st', evs) := rstep st op
    rrunFrom st' (hist ++ evs) ops

/-- run a refined operation list on a fresh connection -/
def rrun (cfg : Cfg) (ops : List ROp) : State × List Event :=
  let (st, fs) := newConn cfg
  rrunFrom st (fs.map Event.c) ops

end Req.H2.Race
