import Req.Driver.Proto
/-!
C01 — SEQUENCES of requests on one HTTP/2 (or HTTP/3) connection with a STATEFUL field codec.

HPACK (and QPACK with a dynamic table) compress a header block relative to what was sent before on
the same connection: the client's encoder and the server's decoder each carry a table, and they stay
in step only if the decoder sees, in order, exactly the blocks the encoder produced. A request that
the client refuses or abandons LOCALLY — header list above the peer's SETTINGS_MAX_HEADER_LIST_SIZE
(`errRequestHeaderListSize`), invalid header / host / path, cancelled before its HEADERS were
written — puts nothing on the wire, so it must leave the encoder exactly as it found it; a request
that fails AFTER its header block was written (body reader error, body longer than declared, RST
from the peer, cancellation while waiting) has legitimately advanced both sides.

Modelled code: internal/http2/transport.go `clientStream.encodeAndWriteHeaders` +
`ClientConn.encodeHeaders` (validation and the header-list-size pass BEFORE the HPACK pass) +
`encodeTrailers`; the codec itself is abstract (`Codec`): any encoder/decoder pair that stays in
step when fed the same blocks. `Toy` is a concrete instance (an append-only dynamic table with index
references) used for non-vacuity, for the driver lane and for the counter-example.
-/
namespace Req.H2.ConnSeq
open Req.Proto

abbrev Field := Bytes × Bytes

/-- an abstract stateful field codec: encoder state, decoder state, blocks, and the invariant
`Sync` ("in step") that one encode/decode round preserves while delivering the list intact. -/
structure Codec where
  Enc : Type
  Dec : Type
  Block : Type
  enc : Enc → List Field → Enc × Block
  dec : Dec → Block → Option (Dec × List Field)
  Sync : Enc → Dec → Prop
  sync_step : ∀ (e : Enc) (d : Dec) (fs : List Field), Sync e d →
    ∃ d', dec d (enc e fs).2 = some (d', fs) ∧ Sync (enc e fs).1 d'

/-- what the send path does with one request -/
structure Item where
  /-- the field list `encodeHeaders` enumerates for the request -/
  fields : List Field
  /-- the request passes every local check made before its HEADERS are written (validation,
  header-list size, not cancelled): the block is encoded AND written -/
  admitted : Bool
  /-- the refusal is of the kind the size pass finds (it needs the enumerated list): the point
  where an implementation that encodes while it counts has already run the encoder -/
  late : Bool := false
  /-- a trailer block written after the body (only for an admitted request whose body completes) -/
  trailers : Option (List Field) := none
  deriving Repr, Inhabited

/-- `checkFirst = true`: the code as it is (all checks before the HPACK pass).
`checkFirst = false`: a single-pass variant that encodes while counting and checks afterwards. -/
def clientStep (C : Codec) (checkFirst : Bool) (e : C.Enc) (it : Item) : C.Enc × List C.Block :=
  if it.admitted then
    let (e1, b) := C.enc e it.fields
    match it.trailers with
    | none => (e1, [b])
    | some ts => let (e2, bt) := C.enc e1 ts; (e2, [b, bt])
  else if !checkFirst && it.late then ((C.enc e it.fields).1, [])
  else (e, [])

/-- the blocks a connection's client writes for a sequence of requests, and the encoder afterwards -/
def clientRun (C : Codec) (checkFirst : Bool) : C.Enc → List Item → C.Enc × List C.Block
  | e, [] => (e, [])
  | e, it :: rest =>
    let (e1, bs) := clientStep C checkFirst e it
    let (e2, bs') := clientRun C checkFirst e1 rest
    (e2, bs ++ bs')

/-- the server decodes the blocks in arrival order -/
def serverRun (C : Codec) : C.Dec → List C.Block → Option (List (List Field))
  | _, [] => some []
  | d, b :: rest =>
    match C.dec d b with
    | none => none
    | some (d1, fs) => (serverRun C d1 rest).map (fs :: ·)

/-- the field lists the requests DESCRIBE, for those that put something on the wire -/
def described : List Item → List (List Field)
  | [] => []
  | it :: rest =>
    (if it.admitted then
      match it.trailers with
      | none => [it.fields]
      | some ts => [it.fields, ts]
     else []) ++ described rest

/-! ## a concrete codec: append-only table, index references -/

def lookup (f : Field) : List Field → Option Nat
  | [] => none
  | x :: xs => if x = f then some 0 else (lookup f xs).map (· + 1)

inductive Rep where
  | idx (i : Nat)
  | lit (f : Field)
  deriving Repr, DecidableEq

def toyEnc : List Field → List Field → List Field × List Rep
  | t, [] => (t, [])
  | t, f :: fs =>
    match lookup f t with
    | some i => let (t', rs) := toyEnc t fs; (t', .idx i :: rs)
    | none => let (t', rs) := toyEnc (t ++ [f]) fs; (t', .lit f :: rs)

def toyDec : List Field → List Rep → Option (List Field × List Field)
  | t, [] => some (t, [])
  | t, .idx i :: rs =>
    match t[i]? with
    | none => none
    | some f => (toyDec t rs).map fun (t', fs) => (t', f :: fs)
  | t, .lit f :: rs => (toyDec (t ++ [f]) rs).map fun (t', fs) => (t', f :: fs)

end Req.H2.ConnSeq
