import Req.H2.WriteOps
/-!
The WRITE half of `Framer` (`internal/http2/frame.go`) as a state machine, so that statements can
quantify over SEQUENCES of `Write*` calls on one Framer:

* `Writer`     — `Framer.wbuf` and everything the underlying `io.Writer` (`Framer.w`) received;
* `startWrite` — `wbuf = append(wbuf[:0], 0,0,0, type, flags, streamID…)`: the buffer is truncated
                 HERE, at the start of the next frame, not at the end of the previous one;
* `endWrite`   — `errFrameTooLarge` from 2^24 payload bytes (nothing written, the buffer stays),
                 the three length bytes filled in in place, ONE `w.Write(wbuf)`, `io.ErrShortWrite`
                 when the writer took fewer bytes without an error;
* `Plan`       — what one `Write*` call does between the two: the refusals that return BEFORE
                 `startWrite` (`pre`), the bytes appended, the refusals that return AFTER
                 `startWrite` and leave a half-written frame in `wbuf` (`mid`: WriteHeaders' invalid
                 stream dependency, WritePushPromise's invalid promised id), the remaining bytes;
* `WOp.plan`   — the plan of each `Framer.Write*` entry point, `AllowIllegalWrites` as a parameter;
* `WOp.run`, `runCalls` — one call / a sequence of calls on a `Writer`;
* `WOp.writeA` — the STATELESS writers of `Req.H2.Frame` with `AllowIllegalWrites` as a parameter
                 (`WOp.write` is `writeA false`).
-/
namespace Req.H2.Frame
open Req.Proto

/-- the write half of a `Framer`. -/
structure Writer where
  wbuf : Bytes := []
  out : Bytes := []
  deriving DecidableEq, Repr

/-- what the underlying `io.Writer` does with ONE `Write(p)` call. -/
inductive Sink where
  | full               -- takes everything, nil error
  | short (n : Nat)    -- takes at most n bytes, nil error
  | fail (n : Nat)     -- takes at most n bytes and returns an error
  deriving DecidableEq, Repr

/-- result of one `Framer.Write*` call. -/
inductive WRes where
  | ok
  | refused (e : WErr)   -- one of the Framer's own errors
  | shortWrite           -- io.ErrShortWrite
  | sinkError            -- the underlying writer's error, passed through
  deriving DecidableEq, Repr

def Sink.taken : Sink → Bytes → Bytes
  | .full, b => b
  | .short n, b => b.take n
  | .fail n, b => b.take n

def Sink.result : Sink → Bytes → WRes
  | .full, _ => .ok
  | .short n, b => if n < b.length then .shortWrite else .ok
  | .fail _, _ => .sinkError

/-- `startWrite(ftype, flags, streamID)` -/
def startWrite (w : Writer) (t fl sid : Nat) : Writer :=
  { w with wbuf := w.wbuf.take 0 ++ ([0, 0, 0, u8 t, u8 fl] ++ be32 sid) }

/-- `writeByte` / `writeBytes` / `writeUint16` / `writeUint32` / `append(wbuf, …)` -/
def put (w : Writer) (b : Bytes) : Writer := { w with wbuf := w.wbuf ++ b }

/-- `endWrite()` -/
def endWrite (s : Sink) (w : Writer) : WRes × Writer :=
  let length := w.wbuf.length - 9
  if length ≥ two24 then (.refused .frameTooLarge, w)
  else
    let buf := [u8 (length / 65536), u8 (length / 256), u8 length] ++ w.wbuf.drop 3
    (s.result buf, { wbuf := buf, out := w.out ++ s.taken buf })

/-- one `Write*` call between entry and `endWrite`. -/
structure Plan where
  pre : Option WErr := none
  t : Nat
  fl : Nat
  sid : Nat
  first : Bytes := []
  mid : Option WErr := none
  last : Bytes := []
  deriving DecidableEq, Repr

def Plan.run (p : Plan) (s : Sink) (w : Writer) : WRes × Writer :=
  match p.pre with
  | some e => (.refused e, w)
  | none =>
    let w := put (startWrite w p.t p.fl p.sid) p.first
    match p.mid with
    | some e => (.refused e, w)        -- the half-written frame stays in wbuf
    | none => endWrite s (put w p.last)

/-- the first of a list of guarded refusals that fires. -/
def firstErr : List (Bool × WErr) → Option WErr
  | [] => none
  | (c, e) :: rest => if c then some e else firstErr rest

/-- each `Framer.Write*` entry point, statement by statement (`a` = `AllowIllegalWrites`). -/
def WOp.plan (a : Bool) : WOp → Plan
  | .data sid es d pad =>
    let padb := pad.getD []
    { pre := firstErr [(!validStreamID sid && !a, .streamID), (padb.length > 255, .padLength),
                       (!a && padb.any (· != 0), .padBytes)],
      t := tData, fl := b2n es flagEndStream + b2n pad.isSome flagPadded, sid := sid,
      first := (if pad.isSome then [u8 padb.length] else []) ++ d ++ padb }
  | .headers p =>
    let hasPrio := !p.priority.isZero
    { pre := firstErr [(!validStreamID p.streamID && !a, .streamID)],
      t := tHeaders,
      fl := b2n (p.padLength != 0) flagPadded + b2n p.endStream flagEndStream
              + b2n p.endHeaders flagEndHeaders + b2n hasPrio flagPriority,
      sid := p.streamID,
      first := if p.padLength != 0 then [u8 p.padLength] else [],
      mid := firstErr [(hasPrio && !validStreamIDOrZero p.priority.streamDep && !a, .depStreamID)],
      last := (if hasPrio then prioBytes p.priority else []) ++ p.blockFragment
                ++ List.replicate p.padLength 0 }
  | .priority sid p =>
    { pre := firstErr [(!validStreamID sid && !a, .streamID),
                       (!validStreamIDOrZero p.streamDep, .depStreamID)],
      t := tPriority, fl := 0, sid := sid, first := prioBytes p }
  | .rstStream sid c =>
    { pre := firstErr [(!validStreamID sid && !a, .streamID)],
      t := tRSTStream, fl := 0, sid := sid, first := be32 c }
  | .settings ss => { t := tSettings, fl := 0, sid := 0, first := encodeSettings ss }
  | .settingsAck => { t := tSettings, fl := flagAck, sid := 0 }
  | .pushPromise p =>
    { pre := firstErr [(!validStreamID p.streamID && !a, .streamID)],
      t := tPushPromise,
      fl := b2n (p.padLength != 0) flagPadded + b2n p.endHeaders flagEndHeaders,
      sid := p.streamID,
      first := if p.padLength != 0 then [u8 p.padLength] else [],
      mid := firstErr [(!validStreamID p.promiseID && !a, .streamID)],
      last := be32 p.promiseID ++ p.blockFragment ++ List.replicate p.padLength 0 }
  | .ping ack d => { t := tPing, fl := b2n ack flagAck, sid := 0, first := d }
  | .goAway m c d =>
    { t := tGoAway, fl := 0, sid := 0, first := be32 (m % two31) ++ be32 c ++ d }
  | .windowUpdate sid i =>
    { pre := firstErr [((i < 1 || i > 2147483647) && !a, .windowIncr)],
      t := tWindowUpdate, fl := 0, sid := sid, first := be32 i }
  | .continuation sid eh f =>
    { pre := firstErr [(!validStreamID sid && !a, .streamID)],
      t := tContinuation, fl := b2n eh flagEndHeaders, sid := sid, first := f }
  | .raw t fl sid p => { t := t, fl := fl, sid := sid, first := p }

/-- one `Framer.Write*` call on a Framer in state `w`. -/
def WOp.run (a : Bool) (s : Sink) (op : WOp) (w : Writer) : WRes × Writer :=
  (op.plan a).run s w

/-- one call of a sequence: the value of `AllowIllegalWrites` at the time of the call, what the
underlying writer does with the (at most one) `Write` of the call, the call. -/
structure Call where
  allow : Bool := false
  sink : Sink := .full
  op : WOp
  deriving DecidableEq, Repr

/-- a sequence of `Write*` calls on ONE Framer: the results, in order, and the final state. -/
def runCalls : Writer → List Call → List WRes × Writer
  | w, [] => ([], w)
  | w, c :: cs =>
    let (r, w1) := c.op.run c.allow c.sink w
    let (rs, w2) := runCalls w1 cs
    (r :: rs, w2)

/-- the stateless writers of `Req.H2.Frame`, `AllowIllegalWrites` as a parameter. -/
def WOp.writeA (a : Bool) : WOp → Except WErr Bytes
  | .data sid es d pad => writeData a sid es d pad
  | .headers p => writeHeaders a p
  | .priority sid p => writePriority a sid p
  | .rstStream sid c => writeRSTStream a sid c
  | .settings ss => writeSettings ss
  | .settingsAck => writeSettingsAck
  | .pushPromise p => writePushPromise a p
  | .ping ack d => writePing ack d
  | .goAway m c d => writeGoAway m c d
  | .windowUpdate sid i => writeWindowUpdate a sid i
  | .continuation sid eh f => writeContinuation a sid eh f
  | .raw t fl sid p => writeRawFrame t fl sid p

/-- the frame a call contributes to the connection: the bytes of the stateless writer, nothing for
a refused call. -/
def Call.frame (c : Call) : Bytes :=
  match c.op.writeA c.allow with
  | .ok b => b
  | .error _ => []

/-- … of which the underlying writer takes `sink.taken`. -/
def Call.bytes (c : Call) : Bytes := c.sink.taken c.frame

/-- the result of the call, from the stateless writer alone. -/
def Call.result (c : Call) : WRes :=
  match c.op.writeA c.allow with
  | .ok b => c.sink.result b
  | .error e => .refused e

def Call.accepted (c : Call) : Bool :=
  match c.op.writeA c.allow with
  | .ok _ => true
  | .error _ => false

/-! ### reading a written sequence back -/

/-- the frame header a write operation puts on the wire. -/
def WOp.hdr (a : WOp) : FrameHeader := ⟨a.payload.length, a.typ, a.flags, a.sid⟩

/-- the wire image of a list of accepted operations. -/
def wire : List WOp → Bytes
  | [] => []
  | a :: as => headerBytes a.payload.length a.typ a.flags a.sid ++ a.payload ++ wire as

/-- what repeated `ReadFrame` must return for the operations, from header-block state `l`: the frames
in order up to the first one `checkFrameOrder` refuses, there the terminal connection error. -/
def readSpec : Nat → List WOp → List (Except RErr Frame)
  | _, [] => []
  | l, a :: as =>
    match orderStep l a.hdr with
    | none => [.error (.conn errProtocol)]
    | some l' => .ok a.frame :: readSpec l' as

end Req.H2.Frame
