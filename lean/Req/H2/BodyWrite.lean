import Req.H2.Conn
import Req.Driver.Proto
/-!
C01 — content-level model of `clientStream.writeRequestBody` + `awaitFlowControl`
(internal/http2/transport.go): which DATA frames (payload bytes, END_STREAM flag) the client cuts
from a request body, as a function of

* the body reader's behaviour (`Reader`: the bytes it will yield, the sizes of its successive
  `Read` results, how it ends: `(0, io.EOF)`, `(n, io.EOF)` together with the last bytes, a
  non-EOF error, alone or together with bytes),
* the length of the scratch buffer the reads go into (`frameScratchBufferLen`, or a larger
  buffer handed out by the pool),
* the peer's SETTINGS_MAX_FRAME_SIZE,
* the flow-control schedule: `avails` is the value `cs.flow.available()` has each time
  `awaitFlowControl` looks at it (0 = nothing yet: it keeps waiting). ANY interleaving of
  WINDOW_UPDATE frames (stream and connection level), of other streams eating the connection
  window and of spurious wake-ups is some such list; when the list runs out the writer is blocked,
* the declared content length (`cl`) and whether the request announces trailers.

C06's model (`Req.H2.Conn`) counts lengths of a well-behaved body; this one carries the bytes and
every reader behaviour. It shares `awaitTake` (the three-way minimum of `awaitFlowControl`) and
`scratchLen` with it.
-/
namespace Req.H2.BodyWrite
open Req.Proto

/-! ## the body reader -/

/-- how the reader ends once all its bytes are out -/
inductive Ending where
  /-- the last bytes come with a nil error, the next `Read` returns `(0, io.EOF)` -/
  | eof
  /-- the last bytes come together with `io.EOF` -/
  | eofWithLast
  /-- after the last bytes the next `Read` returns `(0, err)`, `err ≠ io.EOF` -/
  | error
  /-- the last bytes come together with a non-EOF error -/
  | errorWithLast
  deriving DecidableEq, Repr, Inhabited

structure Reader where
  /-- the bytes not yet handed out -/
  data : Bytes
  /-- sizes of the coming `Read` results (each capped by the caller's buffer and by what is
  left; 0 = a `(0, nil)` read); once the script is used up a `Read` fills the buffer -/
  sizes : List Nat
  ending : Ending
  deriving Repr, Inhabited

/-- the error part of a `Read` result -/
inductive RErr where
  | none
  | eof
  | fail
  deriving DecidableEq, Repr, Inhabited

/-- how many bytes the next `Read(p)`, `len(p) = buf`, may return -/
def Reader.want (r : Reader) (buf : Nat) : Nat :=
  match r.sizes with
  | [] => buf
  | s :: _ => min s buf

/-- one `Read(p)` with `len(p) = buf`. -/
def Reader.read (r : Reader) (buf : Nat) : Bytes × RErr × Reader :=
  if r.data.isEmpty then
    ([], (if r.ending = .error ∨ r.ending = .errorWithLast then .fail else .eof), r)
  else
    let want := r.want buf
    let rest := r.data.drop want
    let e : RErr :=
      if rest.isEmpty then
        (if r.ending = .eofWithLast then .eof else if r.ending = .errorWithLast then .fail else .none)
      else .none
    (r.data.take want, e, { r with data := rest, sizes := r.sizes.tail })

/-! ## frames -/

inductive Frame where
  | data (payload : Bytes) (endStream : Bool)
  /-- the HEADERS frame(s) of the trailer block, END_STREAM set -/
  | trailers
  deriving DecidableEq, Repr, Inhabited

def Frame.payload : Frame → Bytes
  | .data p _ => p
  | .trailers => []

def Frame.endStream : Frame → Bool
  | .data _ e => e
  | .trailers => true

/-- a frame together with the window `awaitFlowControl` saw when it cut it (0 for the closing
frames, which are not flow controlled and carry no payload) -/
structure Sent where
  avail : Nat
  frame : Frame
  deriving DecidableEq, Repr, Inhabited

inductive Outcome where
  /-- `writeRequestBody` returned nil: the request is complete -/
  | done
  /-- `errReqBodyTooLong`: the stream is reset (RST_STREAM CANCEL), the round trip fails -/
  | tooLong
  /-- the reader's own error is returned: stream reset, round trip fails -/
  | readError
  /-- still waiting in `awaitFlowControl` when the schedule ends -/
  | blocked
  deriving DecidableEq, Repr, Inhabited

structure Cfg where
  /-- `cc.maxFrameSize` (the peer's SETTINGS_MAX_FRAME_SIZE) -/
  maxFrame : Nat
  /-- `len(buf)` of the scratch buffer -/
  buf : Nat
  /-- `cs.reqBodyContentLength` (`none` = -1) -/
  cl : Option Nat
  /-- `req.Trailer != nil` -/
  hasTrailers : Bool := false
  /-- the trailer block is not empty (`len(trls) > 0`) -/
  trailerBlock : Bool := false
  deriving Repr, Inhabited

/-- `awaitFlowControl(len(remain))` when `available() = a`: shared with C06's model. -/
def take (a remain maxFrame : Nat) : Nat :=
  (Req.H2.Conn.awaitTake (a : Int) (remain : Int) (maxFrame : Int)).toNat

/-- the inner loop `for len(remain) > 0 && err == nil`: cut `remain` into DATA frames as the
window allows; `last` = `sawEOF && !hasTrailers`. Returns the frames and what is left of the
schedule (`none` = blocked). -/
def sendChunk (maxFrame : Nat) (last : Bool) : Bytes → List Nat → List Sent × Option (List Nat)
  | [], av => ([], some av)
  | _ :: _, [] => ([], none)
  | b :: bs, a :: av =>
    let n := take a (b :: bs).length maxFrame
    if n = 0 then sendChunk maxFrame last (b :: bs) av
    else
      let rest := (b :: bs).drop n
      let (fs, r) := sendChunk maxFrame last rest av
      (⟨a, .data ((b :: bs).take n) (last && rest.isEmpty)⟩ :: fs, r)

/-- the frame that ends the stream when no DATA frame carried END_STREAM -/
def closing (cfg : Cfg) : Sent :=
  if cfg.hasTrailers && cfg.trailerBlock then ⟨0, .trailers⟩ else ⟨0, .data [] true⟩

/-- what one pass through the head of the loop `for !sawEOF` decides before anything is written -/
inductive Step where
  /-- `writeRequestBody` returns an error -/
  | stop (o : Outcome)
  /-- `chunk` is to be written; `sawEOF`; the new `remainLen`; the reader afterwards -/
  | send (chunk : Bytes) (sawEOF : Bool) (remain : Int) (r : Reader)
  deriving Repr, Inhabited

/-- the checks between the `Read` and the writes: `remainLen < 0`, then the reader's error -/
def finish (hasCL : Bool) (chunk : Bytes) (remain : Int) (e : RErr) (r : Reader) : Step :=
  if hasCL && remain < 0 then .stop .tooLong
  else if e = .fail then .stop .readError
  else .send chunk (e == .eof) remain r

/-- `n, err := body.Read(buf)` and the content-length bookkeeping that follows it (the
double-check `Read` into a one-byte scratch included); `remain` = `remainLen`. A chunk that
arrives together with a non-EOF error, or that overruns the declared length, is NOT written. -/
def readStep (cfg : Cfg) (remain : Int) (r : Reader) : Step :=
  let (chunk, e, r1) := r.read cfg.buf
  if cfg.cl.isSome then
    let remain1 : Int := remain - chunk.length
    if remain1 == 0 && e == RErr.none then
      let (c1, e1, r2) := r1.read 1
      finish true chunk (remain1 - c1.length) e1 r2
    else finish true chunk remain1 e r1
  else finish false chunk remain e r1

/-- the loop `for !sawEOF` of `writeRequestBody`; `remain` = `remainLen`. -/
def loop (cfg : Cfg) : Nat → Int → Reader → List Nat → List Sent × Outcome
  | 0, _, _, _ => ([], .blocked)
  | fuel + 1, remain, r, av =>
    match readStep cfg remain r with
    | .stop o => ([], o)
    | .send chunk sawEOF remain' r' =>
      let last := sawEOF && !cfg.hasTrailers
      match sendChunk cfg.maxFrame last chunk av with
      | (fs, none) => (fs, .blocked)
      | (fs, some av') =>
        if sawEOF then
          if last && !chunk.isEmpty then (fs, .done) else (fs ++ [closing cfg], .done)
        else
          let (fs', o) := loop cfg fuel remain' r' av'
          (fs ++ fs', o)

/-- enough iterations for every reader (each `Read` uses up a script entry or at least one byte) -/
def fuelFor (r : Reader) : Nat := r.sizes.length + r.data.length + 2

/-- the initial `remainLen` -/
def remain0 : Option Nat → Int
  | some n => n
  | none => -1

/-- `writeRequestBody`: the frames written (with the window each was cut under) and how it ends. -/
def writeBody (cfg : Cfg) (r : Reader) (avails : List Nat) : List Sent × Outcome :=
  loop cfg (fuelFor r) (remain0 cfg.cl) r avails

def frames (s : List Sent) : List Frame := s.map (·.frame)

/-- the windows under which the flow-controlled frames (those with a payload) were cut, in order -/
def dataAvails (s : List Sent) : List Nat :=
  (s.filter fun x => !x.frame.payload.isEmpty).map (·.avail)

/-- the body bytes carried by a frame sequence -/
def payloads (fs : List Frame) : Bytes := (fs.map Frame.payload).flatten

/-! ## an independent origin (RFC 9113 §8.1, §8.1.1)

The request content is the concatenation of the DATA payloads up to the frame that carries
END_STREAM; a request whose content-length field does not equal that sum is malformed. -/

/-- the declared content length, if any, equals `len` -/
def clMatches : Option Nat → Nat → Bool
  | some n, len => n == len
  | none, _ => true

/-- `some body` when the sequence is a complete, well-formed request content for the declared
length; `none` when the stream never ends, carries frames after END_STREAM, or is malformed. -/
def originRead (cl : Option Nat) : List Frame → Bytes → Option Bytes
  | [], _ => none
  | f :: fs, acc =>
    let acc' : Bytes := acc ++ Frame.payload f
    if Frame.endStream f then
      if fs.isEmpty && clMatches cl acc'.length then some acc'
      else none
    else originRead cl fs acc'

end Req.H2.BodyWrite
