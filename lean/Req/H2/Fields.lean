import Req.H1.RequestWrite
/-!
Model of the ordered field list `ClientConn.encodeHeaders` (internal/http2/transport.go) hands to
HPACK and `requestWriter.encodeHeaders` (internal/http3/request_writer.go) hands to QPACK:
pseudo headers and their optional order, `header.IsExcluded`, user-agent handling, cookie
splitting (HTTP/2 only), content-length, accept-encoding, header-order mode, lower-casing.
The two writers differ in four places, captured by `Flavor`.

The header map is an association list in Go's map iteration order (of the WRITE pass; the
counting pass iterates independently and only sums sizes).
-/
namespace Req.H2
open Req.Proto Req.Ascii Req.BStr Req.Url Req.Validate Req.HeaderSort Req.H1

inductive Flavor | h2 | h3
deriving DecidableEq, Repr

structure FReq where
  method : Bytes
  url : Url
  /-- `req.Host` ("" = URL.Host) -/
  host : Bytes := []
  header : Hdr := []
  /-- `req.ContentLength` -/
  contentLength : Int := 0
  /-- `req.Body != nil` -/
  hasBody : Bool := false
  /-- `req.Body == http.NoBody` (HTTP/2 treats it as no body, HTTP/3 does not) -/
  noBody : Bool := false
  addGzip : Bool := false
  /-- `cc.peerMaxHeaderListSize` (the peer's SETTINGS_MAX_HEADER_LIST_SIZE); `none` = no limit
  (HTTP/3's writer computes the size but never checks it) -/
  maxHeaderList : Option Nat := none
deriving Repr

inductive FErr
  | nonAsciiHost | invalidHost | invalidPath | invalidHeader
  /-- `errRequestHeaderListSize`: refused BEFORE anything is encoded (counting pass) -/
  | headerListTooLarge
deriving Repr, DecidableEq

def lc (s : String) : Bytes := s.toUTF8.toList

def sAuthority : Bytes := [58, 97, 117, 116, 104, 111, 114, 105, 116, 121]
def sMethod : Bytes := [58, 109, 101, 116, 104, 111, 100]
def sPath : Bytes := [58, 112, 97, 116, 104]
def sScheme : Bytes := [58, 115, 99, 104, 101, 109, 101]
def sCookieL : Bytes := [99, 111, 111, 107, 105, 101]
def sUserAgentL : Bytes := [117, 115, 101, 114, 45, 97, 103, 101, 110, 116]
def sContentLengthL : Bytes := [99, 111, 110, 116, 101, 110, 116, 45, 108, 101, 110, 103, 116, 104]
def sAcceptEncodingL : Bytes :=
  [97, 99, 99, 101, 112, 116, 45, 101, 110, 99, 111, 100, 105, 110, 103]
def sGzip : Bytes := [103, 122, 105, 112]
def sHostL : Bytes := [104, 111, 115, 116]
def sConnectionL : Bytes := [99, 111, 110, 110, 101, 99, 116, 105, 111, 110]
def sProxyConnectionL : Bytes :=
  [112, 114, 111, 120, 121, 45, 99, 111, 110, 110, 101, 99, 116, 105, 111, 110]
def sTransferEncodingL : Bytes :=
  [116, 114, 97, 110, 115, 102, 101, 114, 45, 101, 110, 99, 111, 100, 105, 110, 103]
def sUpgradeL : Bytes := [117, 112, 103, 114, 97, 100, 101]
def sKeepAliveL : Bytes := [107, 101, 101, 112, 45, 97, 108, 105, 118, 101]

/-- internal/header `reqWriteExcludeHeader` (keys compared lower-cased). -/
def excludeLower : List Bytes :=
  [sHostL, sContentLengthL, sConnectionL, sProxyConnectionL, sTransferEncodingL, sUpgradeL,
   sKeepAliveL, headerOrderKey, pseudoHeaderOrderKey]

/-- `header.IsExcluded`. -/
def isExcluded (k : Bytes) : Bool := excludeLower.contains (lower k)

/-- cookie splitting of HTTP/2 `encodeHeaders` for one header value. `cur` is the reversed
current piece, `skip` = we are right after a `;` and still dropping spaces. -/
def splitCookieAux : Bytes → Bytes → Bool → List Bytes
  | [], cur, _ => if cur.isEmpty then [] else [cur.reverse]
  | c :: t, cur, skip =>
    if skip && c == 32 then splitCookieAux t cur true
    else if c == 59 then cur.reverse :: splitCookieAux t [] true
    else splitCookieAux t (c :: cur) false

def splitCookie (v : Bytes) : List Bytes := splitCookieAux v [] false

/-- `actualContentLength`. -/
def actualContentLength (fl : Flavor) (r : FReq) : Int :=
  if !r.hasBody || (fl == .h2 && r.noBody) then 0
  else if r.contentLength != 0 then r.contentLength
  else -1

/-- `shouldSendReqContentLength`. -/
def shouldSendReqContentLength (method : Bytes) (cl : Int) : Bool :=
  if cl > 0 then true else if cl < 0 then false else isPostPutPatch method

def validPseudoPath (v : Bytes) : Bool := v.head? == some 47 || v == [42]

def trimPrefix (s p : Bytes) : Bytes := if p.isPrefixOf s then s.drop p.length else s

/-- the regular (non-pseudo) key/value groups one pass over the header map produces. -/
def headerGroups (fl : Flavor) (h : Hdr) : List KV :=
  h.flatMap fun kv =>
    if isExcluded kv.key then []
    else if equalFold kv.key sUserAgentL then
      match kv.values with
      | [] => []
      | v :: _ => if v.isEmpty then [] else [⟨kv.key, [v]⟩]
    else if fl == .h2 && equalFold kv.key sCookieL then
      [⟨sCookieL, kv.values.flatMap splitCookie⟩]
    else if fl == .h3 then kv.values.map fun v => ⟨kv.key, [v]⟩
    else [kv]

def didUA (h : Hdr) : Bool :=
  h.any fun kv => !isExcluded kv.key && equalFold kv.key sUserAgentL

def pseudoOrderList (h : Hdr) : List Bytes := (hdrGet? h pseudoHeaderOrderKey).getD []

/-- host after `PunycodeHostPort` / `ValidHostHeader`. -/
def fieldHost (r : FReq) : Except FErr Bytes :=
  let host0 := if r.host.isEmpty then r.url.host else r.host
  if !isASCII host0 then .error .nonAsciiHost
  else if !validHostHeader host0 then .error .invalidHost
  else .ok host0

/-- the `:path` value (`[]` for CONNECT, where none is sent). -/
def fieldPath (r : FReq) (host : Bytes) : Except FErr Bytes :=
  if r.method == sCONNECT then .ok []
  else
    let p := requestURI r.url
    if validPseudoPath p then .ok p
    else
      let p' := trimPrefix p (r.url.scheme ++ [58, 47, 47] ++ host)
      if validPseudoPath p' then .ok p' else .error .invalidPath

/-- the pseudo header groups in default order. -/
def basePseudo (fl : Flavor) (r : FReq) (host path : Bytes) : List KV :=
  let m := if fl == .h2 then methodOrGet r.method else r.method
  [⟨sAuthority, [host]⟩, ⟨sMethod, [m]⟩] ++
    (if r.method == sCONNECT then [] else [⟨sPath, [path]⟩, ⟨sScheme, [r.url.scheme]⟩])

/-- … after the optional pseudo-header order. -/
def pseudoKVs (fl : Flavor) (r : FReq) (host path : Bytes) : List KV :=
  let porder := pseudoOrderList r.header
  if porder.isEmpty then basePseudo fl r host path
  else sortKeyValues (basePseudo fl r host path) porder

/-- the regular groups in collection order: header map (iteration order), then content-length,
accept-encoding, default user-agent. -/
def baseRegular (fl : Flavor) (r : FReq) : List KV :=
  let cl := actualContentLength fl r
  headerGroups fl r.header
  ++ (if shouldSendReqContentLength r.method cl then [⟨sContentLengthL, [natToDec cl.toNat]⟩] else [])
  ++ (if r.addGzip then [⟨sAcceptEncodingL, [sGzip]⟩] else [])
  ++ (if didUA r.header then [] else [⟨sUserAgentL, [defaultUserAgent]⟩])

/-- … after the optional header order. -/
def regularKVs (fl : Flavor) (r : FReq) : List KV :=
  let order := orderList r.header
  if order.isEmpty then baseRegular fl r else sortKeyValues (baseRegular fl r) order

/-- one wire field per value, name lower-cased. -/
def wireOf (kvs : List KV) : List (Bytes × Bytes) :=
  kvs.flatMap fun kv => kv.values.map fun v => (lower kv.key, v)

/-- `Σ hpack.HeaderField.Size()` = name length + value length + 32 per field (RFC 7541 §4.1). -/
def headerListSize (fs : List (Bytes × Bytes)) : Nat :=
  (fs.map fun f => f.1.length + f.2.length + 32).sum

/-- The ordered `(name, value)` list written to the header block. -/
def fields (fl : Flavor) (r : FReq) : Except FErr (List (Bytes × Bytes)) := do
  let host ← fieldHost r
  let path ← fieldPath r host
  if !headersValid (r.header.map fun kv => (kv.key, kv.values)) then throw .invalidHeader
  let out := wireOf (pseudoKVs fl r host path ++ regularKVs fl r)
  match r.maxHeaderList with
  | some lim => if headerListSize out > lim then throw .headerListTooLarge else return out
  | none => return out

def fieldsH2 (r : FReq) := fields .h2 r
def fieldsH3 (r : FReq) := fields .h3 r

end Req.H2
