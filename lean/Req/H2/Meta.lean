import Req.Base.Ascii
import Req.H2.Frame
/-!
`Framer.readMetaFrame` (`internal/http2/frame.go`): the merge of one HEADERS frame and its
CONTINUATION frames into a `MetaHeadersFrame`, over an ABSTRACT HPACK decoder.

The decoder (golang.org/x/net/http2/hpack, external) is represented by what it does while
`hdec.Write(fragment)` runs: the header fields it decodes, in order, possibly ending in a decoding
error; plus whether `hdec.Close()` fails (block ends inside a field). Everything the fork's code
adds on top is modelled: the emit callback (value/name validation, pseudo-after-regular,
MAX_HEADER_LIST_SIZE accounting and truncation, `SetEmitEnabled(false)`), the per-fragment
"header list too large" and "CONTINUATION after invalid header" connection errors, and
`checkPseudos`.

`checkPseudos` follows the repaired behaviour of `fixes/C05-1-*.patch` (`:protocol` is a request
pseudo-header, as in the x/net reference; the pinned fork rejects it).
-/
namespace Req.H2.Meta
open Req.Proto Req.Ascii Req.H2.Frame

inductive Event where
  | field (name value : Bytes)
  | decodeError
  deriving DecidableEq, Repr

structure Frag where
  len : Nat
  events : List Event
  deriving DecidableEq, Repr

inductive Outcome where
  | ok (fields : List (Bytes × Bytes)) (truncated : Bool)
  | conn (code : Nat)
  | stream (code : Nat)
  deriving DecidableEq, Repr

structure St where
  remainSize : Nat
  sawRegular : Bool := false
  invalid : Bool := false
  emitEnabled : Bool := true
  truncated : Bool := false
  fields : List (Bytes × Bytes) := []
  deriving DecidableEq, Repr

/-- `httpguts.ValidHeaderFieldValue` -/
def validValue (v : Bytes) : Bool := v.all (fun b => !(b < 32 || b == 127) || b == 9)

/-- `validWireHeaderFieldName` -/
def validWireName (n : Bytes) : Bool := !n.isEmpty && n.all (fun c => isTokenByte c && !isUpper c)

def isPseudoName (n : Bytes) : Bool :=
  match n with
  | c :: _ => c == 58
  | [] => false

/-- does the emit callback set `invalid` for this field: invalid value, pseudo-header after a
regular field, or a regular name that is not a valid lower-case wire name. -/
def emitBad (s : St) (name value : Bytes) : Bool :=
  s.invalid || !validValue value ||
    (if isPseudoName name then s.sawRegular else !validWireName name)

/-- the emit callback installed by `readMetaFrame` (called only while emitting is enabled). -/
def emit (s : St) (name value : Bytes) : St :=
  let saw := s.sawRegular || !isPseudoName name
  if emitBad s name value then { s with invalid := true, sawRegular := saw, emitEnabled := false }
  else if name.length + value.length + 32 > s.remainSize then
    { s with sawRegular := saw, emitEnabled := false, truncated := true, remainSize := 0 }
  else
    { s with sawRegular := saw, remainSize := s.remainSize - (name.length + value.length + 32),
             fields := s.fields ++ [(name, value)] }

/-- `hdec.Write(frag)`: `none` = the decoder returned an error. -/
def writeFrag : St → List Event → Option St
  | s, [] => some s
  | _, .decodeError :: _ => none
  | s, .field n v :: rest => writeFrag (if s.emitEnabled then emit s n v else s) rest

def sMethod : Bytes := [58,109,101,116,104,111,100]
def sPath : Bytes := [58,112,97,116,104]
def sScheme : Bytes := [58,115,99,104,101,109,101]
def sAuthority : Bytes := [58,97,117,116,104,111,114,105,116,121]
def sProtocol : Bytes := [58,112,114,111,116,111,99,111,108]
def sStatus : Bytes := [58,115,116,97,116,117,115]

def isRequestPseudo (n : Bytes) : Bool :=
  n == sMethod || n == sPath || n == sScheme || n == sAuthority || n == sProtocol

/-- `MetaHeadersFrame.PseudoFields` -/
def pseudoFields (fs : List (Bytes × Bytes)) : List (Bytes × Bytes) :=
  fs.takeWhile (fun f => isPseudoName f.1)

/-- the loop of `checkPseudos`: (seen names, isRequest, isResponse) -/
def pseudoLoop : List Bytes → Bool → Bool → List (Bytes × Bytes) → Option (Bool × Bool)
  | _, rq, rs, [] => some (rq, rs)
  | seen, rq, rs, f :: rest =>
    if isRequestPseudo f.1 then
      if seen.contains f.1 then none else pseudoLoop (f.1 :: seen) true rs rest
    else if f.1 == sStatus then
      if seen.contains f.1 then none else pseudoLoop (f.1 :: seen) rq true rest
    else none

/-- `checkPseudos() == nil` -/
def checkPseudos (fs : List (Bytes × Bytes)) : Bool :=
  match pseudoLoop [] false false (pseudoFields fs) with
  | none => false
  | some (rq, rs) => !(rq && rs)

/-- the `for` loop over HEADERS + CONTINUATION fragments. -/
def fragLoop : St → List Frag → Except Outcome St
  | s, [] => .ok s
  | s, f :: rest =>
    if f.len > (2 * s.remainSize) % 4294967296 then .error (.conn errProtocol)
    else if s.invalid then .error (.conn errProtocol)
    else match writeFrag s f.events with
      | none => .error (.conn errCompression)
      | some s' => fragLoop s' rest

/-- `maxHeaderListSize()` -/
def maxHeaderListSize (v : Nat) : Nat := if v = 0 then 16777216 else v

/-- `readMetaFrame` given the fragments of the whole block (HEADERS first), the configured
`MaxHeaderListSize` and whether `hdec.Close()` fails. -/
def readMeta (maxHeaderList : Nat) (frags : List Frag) (closeErr : Bool) : Outcome :=
  match fragLoop { remainSize := maxHeaderListSize maxHeaderList } frags with
  | .error o => o
  | .ok s =>
    if closeErr then .conn errCompression
    else if s.invalid then .stream errProtocol
    else if !checkPseudos s.fields then .stream errProtocol
    else .ok s.fields s.truncated

end Req.H2.Meta
