import Req.Driver.Proto
/-!
Model of `ClientConn.writeHeaders` (internal/http2/transport.go): how ONE encoded header block
is cut into a HEADERS frame followed by CONTINUATION frames, and of the receiving side's
reassembly (RFC 9113 §4.3 / §6.2 / §6.10): a header block is delivered to the HPACK decoder —
and with it the header SET of the request — only when a frame carrying END_HEADERS arrives.

`maxFrame` is the peer's SETTINGS_MAX_FRAME_SIZE (`cc.maxFrameSize`); `prio` says that a HEADERS
priority is configured (`Transport.HeaderPriority` non-zero: `SetHTTP2HeaderPriority`,
`ImpersonateChrome` …): then 5 octets of priority fields precede the first fragment and count
against the frame size.
-/
namespace Req.H2.HeaderBlock
open Req.Proto

/-- one frame of a header block, as `Framer.WriteHeaders` / `WriteContinuation` are called. -/
structure HFrame where
  /-- CONTINUATION (`false` = HEADERS) -/
  cont : Bool
  endHeaders : Bool
  /-- END_STREAM (HEADERS only) -/
  endStream : Bool
  /-- the 5 priority octets are present (HEADERS only) -/
  prio : Bool
  frag : Bytes
deriving Repr, DecidableEq

/-- frame payload length: fragment + priority fields. -/
def payloadLen (f : HFrame) : Nat := f.frag.length + (if f.prio then 5 else 0)

/-- the fragment limit of the next frame. -/
def limit (first prio : Bool) (maxFrame : Nat) : Nat :=
  if first && prio then maxFrame - 5 else maxFrame

/-- the loop of `writeHeaders`. `fuel` bounds it (the Go loop does not terminate for a limit of 0;
`writeHeaders` below supplies enough fuel for every limit ≥ 1). -/
def splitFrom (fuel : Nat) (first endStream prio : Bool) (maxFrame : Nat) (b : Bytes) : List HFrame :=
  match fuel with
  | 0 => []
  | fuel + 1 =>
    if b.isEmpty then []
    else
      let lim := limit first prio maxFrame
      let chunk := b.take lim
      let rest := b.drop lim
      let f : HFrame :=
        if first then ⟨false, rest.isEmpty, endStream, prio, chunk⟩
        else ⟨true, rest.isEmpty, false, false, chunk⟩
      f :: splitFrom fuel false endStream prio maxFrame rest

/-- `cc.writeHeaders(streamID, endStream, maxFrameSize, hdrs)`: the frames written for block `b`. -/
def writeHeaders (endStream prio : Bool) (maxFrame : Nat) (b : Bytes) : List HFrame :=
  splitFrom b.length true endStream prio maxFrame b

/-! ### the receiving side -/

/-- the peer's view of one stream's header block. -/
inductive Recv
  /-- nothing received yet -/
  | idle
  /-- a block is open: fragments so far; the peer WAITS for a CONTINUATION (nothing is delivered) -/
  | waiting (acc : Bytes) (endStream : Bool)
  /-- END_HEADERS seen: the block is handed to the HPACK decoder -/
  | delivered (block : Bytes) (endStream : Bool)
  /-- connection error PROTOCOL_ERROR / FRAME_SIZE_ERROR -/
  | error
deriving Repr, DecidableEq

/-- one received frame (`maxFrame` = the receiver's advertised SETTINGS_MAX_FRAME_SIZE). -/
def recvStep (maxFrame : Nat) : Recv → HFrame → Recv
  | .idle, f =>
    if f.cont || payloadLen f > maxFrame then .error
    else if f.endHeaders then .delivered f.frag f.endStream else .waiting f.frag f.endStream
  | .waiting acc es, f =>
    if !f.cont || payloadLen f > maxFrame then .error
    else if f.endHeaders then .delivered (acc ++ f.frag) es else .waiting (acc ++ f.frag) es
  | .delivered _ _, _ => .error
  | .error, _ => .error

def receive (maxFrame : Nat) (fs : List HFrame) : Recv := fs.foldl (recvStep maxFrame) .idle

end Req.H2.HeaderBlock
