import Req.H2.Frame
/-!
`ClientConn.writeHeaders(streamID, endStream, maxFrameSize, hdrs)` (internal/http2/transport.go):
the HPACK block of a request (or of its trailers) cut into one HEADERS frame and as many
CONTINUATION frames as the peer's SETTINGS_MAX_FRAME_SIZE demands.

```go
first := true
for len(hdrs) > 0 && cc.werr == nil {
    chunk := hdrs
    max := maxFrameSize
    if first && !cc.t.HeaderPriority.IsZero() { max -= 5 }   // fork: priority octets count
    if len(chunk) > max { chunk = chunk[:max] }
    hdrs = hdrs[len(chunk):]
    endHeaders := len(hdrs) == 0
    if first { cc.fr.WriteHeaders({streamID, chunk, endStream, endHeaders, Priority}); first = false }
    else     { cc.fr.WriteContinuation(streamID, endHeaders, chunk) }
}
```

* an empty block writes nothing;
* with a non-zero `HeaderPriority` and `maxFrameSize < 5` the slice expression `chunk[:max]` has a
  negative bound: Go panics (`sliceBounds`); with `maxFrameSize = 5` the HEADERS frame carries an
  empty fragment and the whole block follows in CONTINUATION frames;
* `maxFrameSize = 0` (no priority) never terminates in Go; the model is used for
  `maxFrameSize ≥ 1` only (SETTINGS_MAX_FRAME_SIZE is at least 16384);
* the error results of `WriteHeaders`/`WriteContinuation` are dropped by the caller: a refused
  frame contributes no bytes.
-/
namespace Req.H2.Frame
open Req.Proto

/-- the CONTINUATION chunks: pieces of at most `max` bytes until nothing is left (`fuel` ≥ length). -/
def chunks (max : Nat) : Nat → Bytes → List Bytes
  | 0, _ => []
  | fuel + 1, b => if b.isEmpty then [] else b.take max :: chunks max fuel (b.drop max)

structure BlockFrag where
  /-- written with `WriteHeaders` (else `WriteContinuation`) -/
  isHeaders : Bool
  endHeaders : Bool
  chunk : Bytes
  deriving DecidableEq, Repr

/-- CONTINUATION frames for the chunks: END_HEADERS on the last one only. -/
def contFrags : List Bytes → List BlockFrag
  | [] => []
  | [c] => [⟨false, true, c⟩]
  | c :: cs => ⟨false, false, c⟩ :: contFrags cs

inductive WBErr where
  | sliceBounds
  deriving DecidableEq, Repr

/-- the frames `writeHeaders` produces for `block`. -/
def fragments (prio : Priority) (maxFrame : Nat) (block : Bytes) : Except WBErr (List BlockFrag) :=
  if block.isEmpty then .ok []
  else if !prio.isZero && maxFrame < 5 then .error .sliceBounds
  else
    let max1 := if prio.isZero then maxFrame else maxFrame - 5
    let rest := chunks maxFrame block.length (block.drop max1)
    .ok (⟨true, rest.isEmpty, block.take max1⟩ :: contFrags rest)

/-- the bytes one of the frames puts on the wire (nothing when the Framer refuses it). -/
def fragBytes (sid : Nat) (endStream : Bool) (prio : Priority) (f : BlockFrag) : Bytes :=
  let w := if f.isHeaders then writeHeaders false ⟨sid, f.chunk, endStream, f.endHeaders, 0, prio⟩
           else writeContinuation false sid f.endHeaders f.chunk
  match w with
  | .ok b => b
  | .error _ => []

/-- everything `writeHeaders` writes. -/
def writeBlock (sid : Nat) (endStream : Bool) (prio : Priority) (maxFrame : Nat) (block : Bytes) :
    Except WBErr Bytes :=
  match fragments prio maxFrame block with
  | .error e => .error e
  | .ok fr => .ok (fr.flatMap (fragBytes sid endStream prio))

/-- the frame a reader must return for one of the written frames. -/
def fragFrame (sid : Nat) (endStream : Bool) (prio : Priority) (f : BlockFrag) : Frame :=
  if f.isHeaders then
    .headers ⟨(if prio.isZero then 0 else 5) + f.chunk.length, tHeaders,
              b2n endStream flagEndStream + b2n f.endHeaders flagEndHeaders + b2n (!prio.isZero) flagPriority,
              sid⟩ prio f.chunk
  else .continuation ⟨f.chunk.length, tContinuation, b2n f.endHeaders flagEndHeaders, sid⟩ f.chunk

/-- the block fragment a HEADERS / CONTINUATION frame carries. -/
def Frame.fragment : Frame → Bytes
  | .headers _ _ f => f
  | .continuation _ f => f
  | _ => []

end Req.H2.Frame
