import Req.H2.Conn
/-!
C06 — the strict peer as a monitor over the frame history of one connection.

Written from RFC 9113 (sections 4.2, 5.1, 5.1.1, 5.1.2, 6.2, 6.5, 6.9, 6.10), independently of
the client model: it only keeps the books a peer keeps about what it advertised —
flow-control windows as integers (a SETTINGS_INITIAL_WINDOW_SIZE change is applied
retroactively to every open stream when the client acknowledges it, so windows can be
negative), MAX_FRAME_SIZE, MAX_CONCURRENT_STREAMS, the highest stream id, the open header
block, which streams the client has closed, and which of its SETTINGS are still
unacknowledged — and rejects the first client frame that a peer enforcing all of that would
answer with a connection or stream error.

A history lists the peer's frames at the moment it sends them and the client's frames at the
moment it receives them. The monitor is lenient exactly where a real peer has to be because of
frames in flight: new limits bind only from the client's SETTINGS ack on, frames on a stream
the *peer* has reset and new streams after the peer's GOAWAY are tolerated.

Two independent machines: `Send` (everything about what the client sends under the peer's
limits) and `Recv` (the client's WINDOW_UPDATEs: the peer's own send windows towards the
client).
-/
namespace Req.H2.Monitor
open Req.H2 Req.H2.Conn

/-! ## Send side -/

structure MStream where
  id : Nat
  /-- the client's send window on this stream, as granted by the peer -/
  win : Int
  /-- the client sent END_STREAM -/
  cEnd : Bool
  /-- the client sent RST_STREAM -/
  cRst : Bool
  /-- the peer sent END_STREAM -/
  pEnd : Bool
  /-- the peer sent RST_STREAM -/
  pRst : Bool
  deriving DecidableEq, Repr, Inhabited

/-- closed for the purpose of MAX_CONCURRENT_STREAMS (RFC 9113 section 5.1.2) -/
def MStream.closed (s : MStream) : Bool := s.cRst || s.pRst || (s.cEnd && s.pEnd)

structure Send where
  /-- limits in force = acknowledged by the client -/
  maxFrame : Nat
  maxConc : Option Nat
  initWin : Nat
  /-- SETTINGS sent and not yet acknowledged, oldest first -/
  pending : List (List (Nat × Nat))
  connWin : Int
  lastId : Nat
  /-- stream whose header block is not finished -/
  hdrOpen : Option Nat
  streams : List MStream
  deriving DecidableEq, Repr, Inhabited

def Send.init : Send :=
  { maxFrame := 16384, maxConc := none, initWin := 65535, pending := [], connWin := 65535,
    lastId := 0, hdrOpen := none, streams := [] }

def openCount (l : List MStream) : Nat := (l.filter (fun s => !s.closed)).length

def findM (l : List MStream) (id : Nat) : Option MStream := l.find? (·.id = id)
def setM (l : List MStream) (s : MStream) : List MStream := l.map fun t => if t.id = s.id then s else t

/-- apply one acknowledged setting -/
def ackSetting (m : Send) (p : Nat × Nat) : Send :=
  if p.1 = sMaxFrameSize then { m with maxFrame := p.2 }
  else if p.1 = sMaxConcurrentStreams then { m with maxConc := some p.2 }
  else if p.1 = sInitialWindowSize then
    let delta : Int := (p.2 : Int) - (m.initWin : Int)
    { m with initWin := p.2, streams := m.streams.map fun s => { s with win := s.win + delta } }
  else m

abbrev Verdict (α : Type) := Except String α

/-- a client frame arrives -/
def Send.client (m : Send) (f : Frame) : Verdict Send :=
  -- RFC 9113 section 6.10: a header block is contiguous
  let contiguous : Bool := match m.hdrOpen, f with
    | none, _ => true
    | some id, .continuation id' _ _ => id == id'
    | some _, _ => false
  if !contiguous then .error "header-block-interrupted" else
  match f with
  | .settings _ => .ok m
  | .settingsAck =>
    match m.pending with
    | [] => .error "settings-ack-without-settings"
    | vals :: rest => .ok (vals.foldl ackSetting { m with pending := rest })
  | .windowUpdate _ _ => .ok m          -- judged by the Recv machine
  | .priority id => if id = 0 then .error "priority-on-stream-0" else .ok m
  | .headers id len es eh =>
    if len > m.maxFrame then .error "frame-size" else
    if id > m.lastId then
      -- a new stream (section 5.1.1): odd, above every earlier one, within the limit
      if id % 2 = 0 then .error "even-stream-id" else
      if (match m.maxConc with | some k => decide (openCount m.streams + 1 > k) | none => false) then
        .error "max-concurrent-streams" else
      .ok { m with lastId := id, hdrOpen := if eh then none else some id,
                   streams := m.streams ++ [{ id := id, win := m.initWin, cEnd := es, cRst := false,
                                              pEnd := false, pRst := false }] }
    else
      match findM m.streams id with
      | none => .error "headers-on-closed-stream"
      | some s =>
        if s.cEnd || s.cRst then .error "headers-on-closed-stream"
        else if !es then .error "trailers-without-end-stream"
        else .ok { m with hdrOpen := if eh then none else some id, streams := setM m.streams { s with cEnd := true } }
  | .continuation _ len eh =>
    match m.hdrOpen with
    | none => .error "unexpected-continuation"
    | some _ =>
      if len > m.maxFrame then .error "frame-size"
      else .ok { m with hdrOpen := if eh then none else m.hdrOpen }
  | .data id len es =>
    if len > m.maxFrame then .error "frame-size" else
    match findM m.streams id with
    | none => .error (if id > m.lastId then "data-on-idle-stream" else "data-on-closed-stream")
    | some s =>
      if s.cEnd || s.cRst then .error "data-on-closed-stream"
      else if len > 0 ∧ (len : Int) > m.connWin then .error "connection-window-exceeded"
      else if len > 0 ∧ (len : Int) > s.win then .error "stream-window-exceeded"
      else .ok { m with connWin := m.connWin - len,
                        streams := setM m.streams { s with win := s.win - len, cEnd := es } }
  | .rst id =>
    if id = 0 ∨ id > m.lastId then .error "rst-on-idle-stream"
    else match findM m.streams id with
      | none => .ok m
      | some s => .ok { m with streams := setM m.streams { s with cRst := true } }
  | .ping _ _ => .ok m                  -- judged by the Ping machine (contiguity above applies)

/-- the peer sends a frame: update its own books -/
def Send.peer (m : Send) : PFrame → Send
  | .settings vals =>
    -- a SETTINGS_INITIAL_WINDOW_SIZE above 2^31-1 or a SETTINGS_MAX_FRAME_SIZE outside
    -- [2^14, 2^24) is the peer's own protocol violation: the client owes a connection error, not an
    -- acknowledgement (RFC 9113 section 6.5.2)
    if vals.any (fun p => (p.1 == sInitialWindowSize && decide (p.2 > 2147483647)) || (p.1 == sMaxFrameSize && (decide (p.2 < 16384) || decide (p.2 > 16777215)))) then m
    else { m with pending := m.pending ++ [vals] }
  | .settingsAck => m
  | .windowUpdate id inc =>
    if id = 0 then { m with connWin := m.connWin + inc }
    else match findM m.streams id with
      | none => m
      | some s => { m with streams := setM m.streams { s with win := s.win + inc } }
  | .rst id _ =>
    match findM m.streams id with
    | none => m
    | some s => { m with streams := setM m.streams { s with pRst := true } }
  | .goaway _ => m
  | .resp id es _ _ =>
    match findM m.streams id with
    | none => m
    | some s => { m with streams := setM m.streams { s with pEnd := s.pEnd || es } }
  | .data id _ _ es =>
    match findM m.streams id with
    | none => m
    | some s => { m with streams := setM m.streams { s with pEnd := s.pEnd || es } }
  | .ping _ _ => m
  | .pushPromise _ _ => m

def Send.step (m : Send) : Event → Verdict Send
  | .c f => m.client f
  | .p f => .ok (m.peer f)

def Send.run (m : Send) : List Event → Verdict Send
  | [] => .ok m
  | e :: es => match m.step e with
    | .error r => .error r
    | .ok m' => Send.run m' es

/-- at the end of a (quiescent) history every SETTINGS frame has been acknowledged and no
header block is left open -/
def Send.final (m : Send) : Verdict Unit :=
  if !m.pending.isEmpty then .error "settings-not-acknowledged"
  else if m.hdrOpen.isSome then .error "header-block-unfinished"
  else .ok ()

/-! ## Receive side: the client's WINDOW_UPDATEs -/

structure Recv where
  /-- SETTINGS_INITIAL_WINDOW_SIZE advertised by the client -/
  initWin : Nat
  /-- the peer's send window towards the client, connection level -/
  connWin : Int
  lastId : Nat
  /-- (stream id, the peer's send window on it, the peer may still send on it) -/
  streams : List (Nat × Int × Bool)
  deriving DecidableEq, Repr, Inhabited

def Recv.init : Recv := { initWin := 65535, connWin := 65535, lastId := 0, streams := [] }

def maxWindow : Int := 2147483647

def Recv.client (m : Recv) : Frame → Verdict Recv
  | .settings vals =>
    match lastSetting vals sInitialWindowSize with
    | none => .ok m
    | some v =>
      if v > 2147483647 then .error "initial-window-size-too-large" else
      let delta : Int := (v : Int) - (m.initWin : Int)
      .ok { m with initWin := v, streams := m.streams.map fun (id, w, o) => (id, w + delta, o) }
  | .windowUpdate id inc =>
    if inc < 1 ∨ inc > maxWindow then .error "window-update-increment" else
    if id = 0 then
      if m.connWin + inc > maxWindow then .error "connection-window-overflow"
      else .ok { m with connWin := m.connWin + inc }
    else if id > m.lastId then .error "window-update-on-idle-stream"
    else
      match m.streams.find? (·.1 = id) with
      | none => .ok m
      | some (_, w, o) =>
        if w + inc > maxWindow then .error "stream-window-overflow"
        else .ok { m with streams := m.streams.map fun t => if t.1 = id then (id, w + inc, o) else t }
  | .headers id _ _ _ =>
    if id > m.lastId then
      .ok { m with lastId := id, streams := m.streams ++ [(id, (m.initWin : Int), true)] }
    else .ok m
  | .rst id => .ok { m with streams := m.streams.map fun t => if t.1 = id then (t.1, t.2.1, false) else t }
  | _ => .ok m

def Recv.peer (m : Recv) : PFrame → Recv
  | .data id len pad es =>
    { m with connWin := m.connWin - (len + pad : Nat),
             streams := m.streams.map fun t =>
               if t.1 = id then (t.1, t.2.1 - (len + pad : Nat), t.2.2 && !es) else t }
  | .resp id es _ _ =>
    { m with streams := m.streams.map fun t => if t.1 = id then (t.1, t.2.1, t.2.2 && !es) else t }
  | .rst id _ =>
    { m with streams := m.streams.map fun t => if t.1 = id then (t.1, t.2.1, false) else t }
  | _ => m

def Recv.step (m : Recv) : Event → Verdict Recv
  | .c f => m.client f
  | .p f => .ok (m.peer f)

def Recv.run (m : Recv) : List Event → Verdict Recv
  | [] => .ok m
  | e :: es => match m.step e with
    | .error r => .error r
    | .ok m' => Recv.run m' es

/-- when the caller has consumed (read or closed) everything it was sent, the peer is not
stalled: it has connection-level window and window on every stream it may still send on -/
def Recv.notStalled (m : Recv) : Bool :=
  decide (m.connWin > 0) && m.streams.all fun t => !t.2.2 || decide (t.2.1 > 0)

/-! ## PING (RFC 9113 section 6.7) and PUSH_PROMISE (sections 6.6, 8.4)

Two more independent machines. `Ping`: every PING the peer sends (without ACK) is answered by a
PING with ACK carrying the same eight octets; an acknowledgement nobody asked for is rejected;
at the end of a quiescent history no PING is unanswered. `Push`: a client that advertised
SETTINGS_ENABLE_PUSH = 0 treats a PUSH_PROMISE as a connection error — after the peer's
PUSH_PROMISE it sends nothing but RST_STREAM for the streams it had open (the GOAWAY of a
connection error is not a frame of this model; the code writes it without flushing, so it
reaches the peer only when one of those RST_STREAM writes beats the close of the socket). -/

structure Ping where
  /-- payloads of the peer's PINGs that are not acknowledged yet, oldest first -/
  pending : List Nat
  deriving DecidableEq, Repr, Inhabited

def Ping.init : Ping := { pending := [] }

def Ping.step (m : Ping) : Event → Verdict Ping
  | .p (.ping false d) => .ok { pending := m.pending ++ [d] }
  | .c (.ping true d) =>
    if m.pending.contains d then .ok { pending := m.pending.erase d }
    else .error "ping-ack-without-ping"
  | _ => .ok m

def Ping.run (m : Ping) : List Event → Verdict Ping
  | [] => .ok m
  | e :: es => match m.step e with
    | .error r => .error r
    | .ok m' => Ping.run m' es

def Ping.final (m : Ping) : Verdict Unit :=
  if m.pending.isEmpty then .ok () else .error "ping-not-acknowledged"

structure Push where
  /-- the client advertised SETTINGS_ENABLE_PUSH = 0 -/
  off : Bool
  /-- … and the peer has acknowledged that SETTINGS frame -/
  acked : Bool
  /-- the peer has sent a PUSH_PROMISE since -/
  seen : Bool
  deriving DecidableEq, Repr, Inhabited

def Push.init : Push := { off := false, acked := false, seen := false }

def Push.step (m : Push) : Event → Verdict Push
  | .p (.pushPromise _ _) => .ok { m with seen := m.seen || (m.off && m.acked) }
  | .p .settingsAck => .ok { m with acked := m.off }
  | .p _ => .ok m
  | .c f =>
    if m.seen then
      -- tearing the connection down may reset the streams that were open (and send GOAWAY, which
      -- is not a frame of this model); anything else means the client carried on
      match f with
      | .rst _ => .ok m
      | _ => .error "frame-after-refused-push-promise"
    else match f with
      | .settings vals =>
        match lastSetting vals sEnablePush with
        | some v => .ok { m with off := v == 0, acked := false }
        | none => .ok m
      | _ => .ok m

def Push.run (m : Push) : List Event → Verdict Push
  | [] => .ok m
  | e :: es => match m.step e with
    | .error r => .error r
    | .ok m' => Push.run m' es

/-! ## The monitor -/

/-- verdict of the two small machines -/
def verdictExtra (h : List Event) : String :=
  match Ping.init.run h with
  | .error r => "violation:" ++ r
  | .ok m =>
    match m.final with
    | .error r => "violation:" ++ r
    | .ok _ =>
      match Push.init.run h with
      | .error r => "violation:" ++ r
      | .ok _ => "ok"

/-- `Monitor h = true` iff the strict peer accepts every client frame of the history and is
owed nothing at its end. -/
def Monitor (h : List Event) : Bool :=
  (match Send.init.run h with
   | .error _ => false
   | .ok m => match m.final with | .error _ => false | .ok _ => true) &&
  (match Recv.init.run h with
   | .error _ => false
   | .ok _ => true) &&
  (match Ping.init.run h with
   | .error _ => false
   | .ok m => match m.final with | .error _ => false | .ok _ => true) &&
  (match Push.init.run h with
   | .error _ => false
   | .ok _ => true)

/-- verdict with the reason, for the runtime lane -/
def verdict (h : List Event) : String :=
  match Send.init.run h with
  | .error r => "violation:" ++ r
  | .ok m =>
    match m.final with
    | .error r => "violation:" ++ r
    | .ok _ =>
      match Recv.init.run h with
      | .error r => "violation:" ++ r
      | .ok _ => verdictExtra h

/-- the same plus the stall check, for histories that end with everything consumed -/
def verdictConsumed (h : List Event) : String :=
  match verdict h with
  | "ok" =>
    match Recv.init.run h with
    | .ok m => if m.notStalled then "ok" else "violation:peer-stalled"
    | .error r => "violation:" ++ r
  | v => v


/-! ## A race-tolerant reading, for histories recorded from the running implementation only

The real client decides a DATA frame's size (`awaitFlowControl`, under `cc.mu`) and admits a
new stream (`awaitOpenSlotForStreamLocked`) in one critical section and writes the frame in a
later one (under `cc.wmu`); `processSettings` can run — and write its acknowledgement — in
between. The frame then reaches the peer *after* the acknowledgement although it was sized
under the old values. The strict monitor rejects that (a peer may, too); the connection model
treats decision and write as one step, so its theorems do not cover this window. The tolerant
reading below judges, per stream, the first DATA frame after an acknowledgement — and the first
new stream after it — by the limits in force before the acknowledgement. The monitor lane
reports a history that only the tolerant reading accepts as the known finding
`c06-settings-ack-race`; see `Req.Props.C06.settings_ack_race_counterexample`. -/

structure Tolerant where
  m : Send
  /-- per stream: window and frame size limit before the last acknowledgement(s) -/
  grace : List (Nat × Int × Nat)
  /-- MAX_CONCURRENT_STREAMS before the last acknowledgement(s) -/
  graceConc : Option (Option Nat)

def Tolerant.init : Tolerant := { m := Send.init, grace := [], graceConc := none }

def Tolerant.client (t : Tolerant) (f : Frame) : Verdict Tolerant :=
  let m0 := t.m
  match f with
  | .settingsAck =>
    match m0.client f with
    | .error r => .error r
    | .ok m' =>
      -- per stream: the most generous limits since its last DATA frame (a writer may have been
      -- blocked at the earlier acknowledgements and have sized its frame only afterwards)
      let grace := m0.streams.map fun s =>
        match t.grace.find? (·.1 == s.id) with
        | some (_, w, mf) => (s.id, (if w > s.win then w else s.win), (if mf > m0.maxFrame then mf else m0.maxFrame))
        | none => (s.id, s.win, m0.maxFrame)
      -- the most generous MAX_CONCURRENT_STREAMS since the last new stream (`none` = unlimited)
      let conc : Option Nat := match t.graceConc with
        | none => m0.maxConc
        | some none => none
        | some (some a) => match m0.maxConc with
          | none => none
          | some b => some (if a > b then a else b)
      .ok { m := m', grace := grace, graceConc := some conc }
  | .data id len es =>
    let rest := t.grace.filter (·.1 != id)
    match m0.client f with
    | .ok m' => .ok { t with m := m', grace := rest }
    | .error r =>
      match t.grace.find? (·.1 == id), findM m0.streams id with
      | some (_, w, mf), some s =>
        let w' := if w > s.win then w else s.win
        let mf' := if mf > m0.maxFrame then mf else m0.maxFrame
        let lenient : Send := { m0 with maxFrame := mf', streams := setM m0.streams { s with win := w' } }
        match lenient.client f with
        | .error _ => .error r
        | .ok _ =>
          let forced : Send := { m0 with connWin := m0.connWin - len, streams := setM m0.streams { s with win := s.win - len, cEnd := es } }
          .ok { t with m := forced, grace := rest }
      | _, _ => .error r
  | .headers id _ _ _ =>
    match m0.client f with
    | .ok m' => .ok { t with m := m', graceConc := if id > m0.lastId then none else t.graceConc }
    | .error r =>
      match t.graceConc with
      | some old =>
        let lenient : Send := { m0 with maxConc := old }
        match lenient.client f with
        | .error _ => .error r
        | .ok m' => .ok { t with m := { m' with maxConc := m0.maxConc }, graceConc := none }
      | none => .error r
  | _ =>
    match m0.client f with
    | .error r => .error r
    | .ok m' => .ok { t with m := m' }

def Tolerant.run (t : Tolerant) : List Event → Verdict Tolerant
  | [] => .ok t
  | .c f :: es => match t.client f with
    | .error r => .error r
    | .ok t' => Tolerant.run t' es
  | .p f :: es => Tolerant.run { t with m := Send.peer t.m f } es

/-- index of the first event the tolerant reading rejects (for diagnostics) -/
def Tolerant.firstBad (t : Tolerant) (i : Nat) : List Event → Option Nat
  | [] => none
  | .c f :: es => match t.client f with
    | .error _ => some i
    | .ok t' => Tolerant.firstBad t' (i + 1) es
  | .p f :: es => Tolerant.firstBad { t with m := Send.peer t.m f } (i + 1) es

def verdictTolerant (h : List Event) (consumed : Bool) : String :=
  match Tolerant.init.run h with
  | .error r => "violation:" ++ r ++ (match Tolerant.init.firstBad 0 h with | some i => s!"@{i}" | none => "")
  | .ok t =>
    match t.m.final with
    | .error r => "violation:" ++ r
    | .ok _ =>
      match Recv.init.run h with
      | .error r => "violation:" ++ r
      | .ok m => if consumed && !m.notStalled then "violation:peer-stalled" else verdictExtra h

end Req.H2.Monitor
