import Req.Driver.L.C01
import Req.Driver.L.C02
import Req.Driver.L.C03
import Req.Driver.L.C04
import Req.Driver.L.C05
import Req.Driver.L.C06
import Req.Driver.L.C07
import Req.Driver.L.C08
import Req.Driver.L.C09
import Req.Driver.L.C10
import Req.Driver.L.C11
import Req.Driver.L.C12
import Req.Driver.L.C13
import Req.Driver.L.C14
import Req.Driver.L.C15
import Req.Driver.L.C16
import Req.Driver.L.C17
import Req.Driver.L.C18
import Req.Driver.L.C19
import Req.Driver.L.C20
/-! Lane dispatch: a case line is `<lane> <args…>`; the answer is one canonical line. -/
namespace Req.Driver

def allLanes : List (String × (List String → String)) :=
  L.C01.lanes
  ++ L.C02.lanes
  ++ L.C03.lanes
  ++ L.C04.lanes
  ++ L.C05.lanes
  ++ L.C06.lanes
  ++ L.C07.lanes
  ++ L.C08.lanes
  ++ L.C09.lanes
  ++ L.C10.lanes
  ++ L.C11.lanes
  ++ L.C12.lanes
  ++ L.C13.lanes
  ++ L.C14.lanes
  ++ L.C15.lanes
  ++ L.C16.lanes
  ++ L.C17.lanes
  ++ L.C18.lanes
  ++ L.C19.lanes
  ++ L.C20.lanes

def dispatch (line : String) : String :=
  match (line.trimAscii.toString.splitOn " ") with
  | [] => "bad-op"
  | lane :: args =>
    match allLanes.lookup lane with
    | some f => f args
    | none => "bad-op"

end Req.Driver
