import Req.Driver.Proto
import Req.Client.HeaderSort
/-! Lane handlers: each maps the argument tokens of one case line to one canonical answer line. -/
namespace Req.Driver
open Req.Proto

def bad : String := "bad-op"

/-- `sort <keys> <order>` → sorted keys (values are carried by position in the harness). -/
def laneSort : List String → String
  | [keys, order] =>
    match decodeList keys, decodeList order with
    | some ks, some os =>
      -- tag every key with its input position so equal keys stay distinguishable
      let kvs := ks.zipIdx.map fun (k, i) => (⟨k, [ofStr (toString i)]⟩ : Req.HeaderSort.KV)
      let out := Req.HeaderSort.sortKeyValues kvs os
      encodeList (out.map fun kv => kv.key) ++ " " ++
        encodeList (out.map fun kv => kv.values.headD [])
    | _, _ => bad
  | _ => bad

def lanes : List (String × (List String → String)) := [
  ("sort", laneSort)
]

def dispatch (line : String) : String :=
  match (line.trimAscii.toString.splitOn " ") with
  | [] => bad
  | lane :: args =>
    match lanes.lookup lane with
    | some f => f args
    | none => bad

end Req.Driver
