/-
Line protocol helpers shared by every lane of the driver.
A case line is `<lane> <arg> <arg> …`; byte strings are lower-case hex ("_" = empty),
lists of byte strings are comma-joined ("-" = empty list), numbers are decimal.
-/
namespace Req.Proto

abbrev Bytes := List UInt8

def hexDigit (n : Nat) : Char :=
  if n < 10 then Char.ofNat (48 + n) else Char.ofNat (87 + n)

def hexVal (c : Char) : Option Nat :=
  if '0' ≤ c ∧ c ≤ '9' then some (c.toNat - 48)
  else if 'a' ≤ c ∧ c ≤ 'f' then some (c.toNat - 87)
  else if 'A' ≤ c ∧ c ≤ 'F' then some (c.toNat - 55)
  else none

def decodeHexChars : List Char → Option Bytes
  | [] => some []
  | [_] => none
  | a :: b :: rest => do
    let x ← hexVal a
    let y ← hexVal b
    let r ← decodeHexChars rest
    pure (UInt8.ofNat (x * 16 + y) :: r)

def decodeHex (s : String) : Option Bytes :=
  if s == "_" then some [] else decodeHexChars s.toList

def encodeHex (bs : Bytes) : String :=
  if bs.isEmpty then "_" else
  String.ofList (bs.flatMap fun b => [hexDigit (b.toNat / 16), hexDigit (b.toNat % 16)])

def decodeList (s : String) : Option (List Bytes) :=
  if s == "-" then some [] else (s.splitOn ",").mapM decodeHex

def encodeList (l : List Bytes) : String :=
  if l.isEmpty then "-" else ",".intercalate (l.map encodeHex)

def ofStr (s : String) : Bytes := s.toUTF8.toList
def toStr (b : Bytes) : String := String.ofList (b.map fun x => Char.ofNat x.toNat)

def decodeNatList (s : String) : Option (List Nat) :=
  if s == "-" then some [] else (s.splitOn ",").mapM String.toNat?

def encodeNatList (l : List Nat) : String :=
  if l.isEmpty then "-" else ",".intercalate (l.map toString)

def decodeInt (s : String) : Option Int := s.toInt?

end Req.Proto
