import Req.Driver.Proto
import Req.H1.RequestWrite
/-! Helpers shared by the wire lanes of C01 and C16 (decoding case lines, canonical answers). -/
namespace Req.Driver.Wire
open Req.Proto Req.HeaderSort

/-- `k:v1:v2,k2,k3:v` (hex; a bare key has no values) or `-`. -/
def decodeHdr (s : String) : Option (List KV) :=
  if s == "-" then some [] else
  (s.splitOn ",").mapM fun e =>
    match e.splitOn ":" with
    | k :: vs => do pure ⟨(← decodeHex k), (← vs.mapM decodeHex)⟩
    | [] => none

/-- body spec: hex literal, or `gen.<len>.<a>.<b>` = byte i is `(i*a+b) % 251`. -/
def decodeBody (s : String) : Option Bytes :=
  match s.splitOn "." with
  | ["gen", n, a, b] => do
    let n ← n.toNat?
    let a ← a.toNat?
    let b ← b.toNat?
    pure ((List.range n).map fun i => UInt8.ofNat ((i * a + b) % 251))
  | _ => decodeHex s

def decodeBool (s : String) : Option Bool :=
  if s == "1" then some true else if s == "0" then some false else none

/-- FNV-1a, 64 bit. -/
def fnv64 (bs : Bytes) : UInt64 :=
  bs.foldl (fun h b => (h ^^^ b.toUInt64) * 1099511628211) 14695981039346656037

/-- canonical rendering of a byte blob of any size: length, hash, first 2048 bytes. -/
def showBlob (bs : Bytes) : String :=
  s!"{bs.length} {fnv64 bs} {encodeHex (bs.take 2048)}"

/-- split at the first CR LF CR LF: (head without the blank line, rest after it). -/
def splitHead : Bytes → Bytes × Bytes
  | 13 :: 10 :: 13 :: 10 :: rest => ([], rest)
  | [] => ([], [])
  | c :: t => let (h, r) := splitHead t; (c :: h, r)

def splitLines : Bytes → List Bytes
  | [] => [[]]
  | 13 :: 10 :: rest => [] :: splitLines rest
  | c :: t =>
    match splitLines t with
    | l :: ls => (c :: l) :: ls
    | [] => [[c]]

def lineName (l : Bytes) : Bytes := (Req.BStr.cut 58 l).1

/-- Canonical form of an HTTP/1.1 request whose header order is only partly determined
(header-order mode with unlisted keys in map order): request line, sorted header lines, the
canonical names of the LISTED lines in wire order, body blob. -/
def showOrdered (wire : Bytes) (order : List Bytes) : String :=
  let (head, body) := splitHead wire
  match splitLines head with
  | [] => "ord"
  | reqLine :: lines =>
    let sorted := lines.mergeSort fun a b => Req.BStr.le a b
    let listed := lines.filterMap fun l =>
      let n := Req.Ascii.canonicalMIMEHeaderKey (lineName l)
      if (lastIndex order (lineName l)).isSome then some n else none
    s!"ord {encodeHex reqLine} {encodeList sorted} {encodeList listed} {showBlob body}"

end Req.Driver.Wire
