import Req.Driver.Proto
/-! Driver lanes of C11. -/
namespace Req.Driver.L.C11
open Req.Proto

def lanes : List (String × (List String → String)) := []

end Req.Driver.L.C11
