import Req.Driver.Proto
import Req.Client.Redirect
import Req.Client.Authority
import Req.Client.RedirectLifetime
import Req.Client.RedirectLoop
import Req.Client.RedirectArgs
import Req.Client.RedirectStore
import Req.Client.AuthorityZone
/-! Driver lanes of C11 (redirect policies). -/
namespace Req.Driver.L.C11
open Req.Proto Req.Redirect

def b01 (b : Bool) : String := if b then "1" else "0"

/-- `c11split <hostport>` → legacy `net.SplitHostPort` model. -/
def laneSplit : List String → String
  | [hp] =>
    match decodeHex hp with
    | some s =>
      match Legacy.netSplitHostPort s with
      | .ok (h, p) => "ok " ++ encodeHex h ++ " " ++ encodeHex p
      | .error .missingPort => "err missing-port"
      | .error .tooManyColons => "err too-many-colons"
      | .error .missingBracket => "err missing-bracket"
      | .error .unexpectedOpen => "err unexpected-open"
      | .error .unexpectedClose => "err unexpected-close"
    | none => "bad-op"
  | _ => "bad-op"

/-- `c11host <authority>` → repaired getHostname, getDomain. -/
def laneHost : List String → String
  | [a] =>
    match decodeHex a with
    | some s => encodeHex (getHostname s) ++ " " ++ encodeHex (getDomain s)
    | none => "bad-op"
  | _ => "bad-op"

/-- `c11legacy <authority>` → pre-fix getHostname, getDomain. -/
def laneLegacy : List String → String
  | [a] =>
    match decodeHex a with
    | some s => encodeHex (Legacy.getHostname s) ++ " " ++ encodeHex (Legacy.getDomain s)
    | none => "bad-op"
  | _ => "bad-op"

/-- `c11ip <text>` → model isIPv4, spec IPv4address, spec IPv6address. -/
def laneIP : List String → String
  | [a] =>
    match decodeHex a with
    | some s => b01 (isIPv4 s) ++ " " ++ b01 (Req.Authority.isIPv4address s) ++ " " ++
        b01 (Req.Authority.isIPv6address s)
    | none => "bad-op"
  | _ => "bad-op"

def decodePort (s : String) : Option (Option Bytes) :=
  if s == "none" then some none else (decodeHex s).map some

/-- `name <labels> <0|1 dot> <port>` | `ip4 <4 octets> x <port>` | `ip6 <addr> <zone|none> <port>` -/
def decodeAuthority : List String → Option Req.Authority.Authority
  | ["name", ls, dot, port] => do
    let ls ← decodeList ls
    let p ← decodePort port
    pure ⟨.name ls (dot == "1"), p⟩
  | ["ip4", os, _, port] => do
    let os ← decodeList os
    let p ← decodePort port
    match os with
    | [a, b, c, d] => pure ⟨.ip4 a b c d, p⟩
    | _ => none
  | ["ip6", addr, zone, port] => do
    let a ← decodeHex addr
    let z ← decodePort zone
    let p ← decodePort port
    pure ⟨.ip6 a z, p⟩
  | _ => none

/-- `c11spec <structured authority>` → render, specHost, specDomain, rfc?, and the model's
getHostname/getDomain of the rendering. -/
def laneSpec (args : List String) : String :=
  match decodeAuthority args with
  | some a =>
    let r := a.render
    encodeHex r ++ " " ++ encodeHex (Req.Authority.specHost a) ++ " " ++
      encodeHex (Req.Authority.specDomain a) ++ " " ++ b01 (Req.Authority.isRfc3986 a) ++ " " ++
      encodeHex (getHostname r) ++ " " ++ encodeHex (getDomain r)
  | none => "bad-op"

/-! ### policies -/

def decodePolicyDesc (s : String) : Option PolicyDesc :=
  match s.splitOn ":" with
  | ["nil"] => some .nil
  | ["no"] => some .no
  | ["samehost"] => some .sameHost
  | ["samedomain"] => some .sameDomain
  | ["max", n] => (decodeInt n).map .max
  | ["ahost", l] => (decodeList l).map .allowedHost
  | ["adomain", l] => (decodeList l).map .allowedDomain
  | ["copy", l] => (decodeList l).map .alwaysCopy
  | _ => none

/-- The lanes evaluate compositions through `PolicyDesc.denote`, the same translation the
header-flow theorems are stated over. -/
def decodePolicies (s : String) : Option (List (Option Policy)) :=
  if s == "-" then some [] else
    ((s.splitOn ";").mapM decodePolicyDesc).map fun ds => ds.map PolicyDesc.denote

/-- `k1,v1,k2,v2,…` (hex) → map entries in the given order. -/
def pairUp : List Bytes → Option Headers
  | [] => some []
  | [_] => none
  | k :: v :: rest => (pairUp rest).map fun r => (k, [v]) :: r

def decodeHeaders (s : String) : Option Headers := (decodeList s) >>= pairUp

def showDecision : Decision → String
  | .allow => "allow"
  | .deny => "deny"
  | .useLast => "uselast"

def showProbes (h : Headers) (probes : List Bytes) : String :=
  if probes.isEmpty then "." else "/".intercalate (probes.map fun k => encodeList (h.values k))

/-- `c11policy <policies> <req host> <via hosts> <req headers> <via[0] headers> <probe keys>`
→ `<decision> <values of each probe key in req.Header afterwards>`. -/
def lanePolicy : List String → String
  | [ps, req, via, rh, vh, probes] =>
    match decodePolicies ps, decodeHex req, decodeList via, decodeHeaders rh, decodeHeaders vh, decodeList probes with
    | some ps, some req, some (v0 :: vs), some rh, some vh, some probes =>
      let via : Via := { first := ⟨v0, vh⟩, rest := vs.map fun h => ⟨h, []⟩ }
      let (d, h) := compose ps req rh via
      showDecision d ++ " " ++ showProbes h probes
    | _, _, _, _, _, _ => "bad-op"
  | _ => "bad-op"

/-- `s.<i>.<policies>` (policies `-` = SetRedirectPolicy() with no argument) | `c.<i>` -/
def decodeLifeOp (s : String) : Option (Lifetime.Op String) :=
  match s.splitOn "." with
  | ["s", i, ps] => i.toNat?.map fun i => .set i ps (ps == "-")
  | ["c", i] => i.toNat?.map .clone
  | _ => none

/-- Client family history, oldest first on the line (`-` = none), `|`-separated. -/
def decodeLifeOps (s : String) : Option (List (Lifetime.Op String)) :=
  if s == "-" then some [] else ((s.splitOn "|").mapM decodeLifeOp).map List.reverse

/-! ### families of clients configured through caller-owned storage (`Req.Redirect.Args`) -/

def cellsOf (ps : String) : List String := if ps == "-" then [] else ps.splitOn ";"

/-- `c.<i>` | `s.<i>.<policies>` (literal arguments, `-` = none) | `a.<cells>` (the caller allocates an
array; `nil` cells = spare capacity) | `S.<i>.<arr>.<off>.<len>` (`SetRedirectPolicy(arr[off:off+len]...)`) |
`w.<arr>.<idx>.<policy>` (the caller writes a cell) -/
def decodeArgOp (s : String) : Option (Args.Op String) :=
  match s.splitOn "." with
  | ["c", i] => i.toNat?.map .clone
  | ["s", i, ps] => i.toNat?.map fun i => .setLit i (cellsOf ps)
  | ["a", cells] => some (.alloc (cellsOf cells))
  | ["S", i, a, o, l] => do
    let i ← i.toNat?
    let a ← a.toNat?
    let o ← o.toNat?
    let l ← l.toNat?
    pure (.setSlice i ⟨a, o, l⟩)
  | ["w", a, x, p] => do
    let a ← a.toNat?
    let x ← x.toNat?
    pure (.write a x p)
  | _ => none

/-- The policy list (as text) client `j` enforces after the history (oldest first on the line). -/
def familyPolicies (ops : String) (j : Nat) : Option (Option String) :=
  let dec : Option (List (Args.Op String)) :=
    if ops == "-" then some [] else (ops.splitOn "|").mapM decodeArgOp
  dec.map fun h => ((Args.run ["max:10"] h).clients[j]?).map fun cells => ";".intercalate cells

/-- `c11clone <ops> <j> <req host> <via hosts> <req headers> <via[0] headers> <probe keys>`:
what client `j` of the family answers (client 0 = `C()`, default MaxRedirectPolicy(10)). -/
def laneClone : List String → String
  | [ops, j, req, via, rh, vh, probes] =>
    match j.toNat?.bind (familyPolicies ops) with
    | some (some ps) => lanePolicy [ps, req, via, rh, vh, probes]
    | some none => "no-client"
    | none => "bad-op"
  | _ => "bad-op"

def showOutcome : Outcome → String
  | .final => "final"
  | .refused k => "refused:" ++ toString k
  | .lastResponse k => "last:" ++ toString k

/-- `c11chain <policies> <h0> <targets> <initial headers> <probe keys>` →
`<outcome> <hosts that were sent a request> <probe values per sent request>`. -/
def laneChain : List String → String
  | [ps, h0, ts, ih, probes] =>
    match decodePolicies ps, decodeHex h0, decodeList ts, decodeHeaders ih, decodeList probes with
    | some ps, some h0, some ts, some ih, some probes =>
      let (sent, out) := runChain ps ⟨h0, ih⟩ ts
      showOutcome out ++ " " ++ encodeList (sent.map (·.host)) ++ " " ++
        ";".intercalate (sent.map fun h => showProbes h.hdr probes)
    | _, _, _, _, _ => "bad-op"
  | _ => "bad-op"

/-- `c11clonechain <ops> <j> <h0> <targets> <initial headers> <probe keys>` -/
def laneCloneChain : List String → String
  | [ops, j, h0, ts, ih, probes] =>
    match j.toNat?.bind (familyPolicies ops) with
    | some (some ps) => laneChain [ps, h0, ts, ih, probes]
    | some none => "no-client"
    | none => "bad-op"
  | _ => "bad-op"

/-! ### the whole hop loop (`Req.Redirect.Loop`) -/
section LoopLanes
open Req.Redirect.Loop

def decodeScheme : String → Option Scheme
  | "h" => some .http
  | "s" => some .https
  | _ => none

/-- `-` | `<name>` | `<name>~<pass>` -/
def decodeUser (s : String) : Option (Option UserInfo) :=
  if s == "-" then some none else
  match s.splitOn "~" with
  | [n] => (decodeHex n).map fun n => some ⟨n, none⟩
  | [n, p] => do
    let n ← decodeHex n
    let p ← decodeHex p
    pure (some ⟨n, some p⟩)
  | _ => none

/-- `S|U|H|P|M|F|B` + a header map -/
def decodeReq (s : String) (hdr : Headers) : Option Loop.Req :=
  match s.splitOn "|" with
  | [sc, u, h, p, m, f, b] => do
    let sc ← decodeScheme sc
    let u ← decodeUser u
    let h ← decodeHex h
    let p ← decodeHex p
    let m ← decodeHex m
    let f ← decodeHex f
    pure { url := { scheme := sc, user := u, host := h, path := p }, method := m, hostField := f,
           hdr := hdr, body := b == "1" }
  | _ => none

def decodeReqList (s : String) : Option (List Loop.Req) :=
  if s == "-" then some [] else (s.splitOn ";").mapM fun r => decodeReq r []

/-- `c11policyx <policies> <req> <via reqs> <req headers> <via[0] headers> <probe keys>`: the
closure evaluated on full requests (Host field, userinfo, scheme, method, path given) — the model
projects them to what the policies read. -/
def lanePolicyX : List String → String
  | [ps, req, via, rh, vh, probes] =>
    match decodePolicies ps, decodeHeaders rh, decodeHeaders vh, decodeReqList via, decodeList probes with
    | some ps, some rh, some vh, some (v0 :: vs), some probes =>
      match decodeReq req rh with
      | some req =>
        let v0 := { v0 with hdr := vh }
        let all := v0 :: vs
        let (d, h) := checkRedirect ps req all.dropLast (all.getLast?.getD v0)
        showDecision d ++ " " ++ showProbes h probes
      | none => "bad-op"
    | _, _, _, _, _ => "bad-op"
  | _ => "bad-op"

def decodeCookies (s : String) : Option (List (Bytes × Bytes)) :=
  if s == "-" then some [] else
  (s.splitOn "+").mapM fun c =>
    match c.splitOn "=" with
    | [n, v] => do
      let n ← decodeHex n
      let v ← decodeHex v
      pure (n, v)
    | _ => none

/-- `m` | `b` | `a,S,U,H,P` | `n,U,H,P` | `p,P` -/
def decodeLoc (s : String) : Option Loc :=
  match s.splitOn "," with
  | ["m"] => some .missing
  | ["b"] => some .bad
  | ["a", sc, u, h, p] => do
    let sc ← decodeScheme sc
    let u ← decodeUser u
    let h ← decodeHex h
    let p ← decodeHex p
    pure (.abs sc u h p)
  | ["n", u, h, p] => do
    let u ← decodeUser u
    let h ← decodeHex h
    let p ← decodeHex p
    pure (.net u h p)
  | ["p", p] => (decodeHex p).map .path
  | _ => none

/-- `<status>|<loc>|<cookies>` -/
def decodeReply (s : String) : Option Reply :=
  match s.splitOn "|" with
  | [st, loc, cs] => do
    let st ← st.toNat?
    let loc ← decodeLoc loc
    let cs ← decodeCookies cs
    pure { status := st, loc := loc, setCookie := cs }
  | _ => none

def decodeScript (s : String) : Option (List Reply) :=
  if s == "-" then some [] else (s.splitOn ";").mapM decodeReply

def showEnd : End → String
  | .response s => "resp:" ++ toString s
  | .noLocation s => "resp:" ++ toString s
  | .useLast s => "resp:" ++ toString s
  | .refused s => "refused:" ++ toString s
  | .badLocation => "badloc"

def showUser : Option UserInfo → String
  | none => "-"
  | some ⟨n, none⟩ => encodeHex n
  | some ⟨n, some p⟩ => encodeHex n ++ "~" ++ encodeHex p

def showScheme : Scheme → String
  | .http => "h"
  | .https => "s"

/-- The request as the RoundTripper gets it. -/
def showSent (probes : List Bytes) (r : Loop.Req) : String :=
  "|".intercalate [showScheme r.url.scheme, showUser r.url.user, encodeHex r.url.host, encodeHex r.url.path,
    encodeHex r.method, encodeHex r.hostField, b01 r.body,
    if probes.isEmpty then "." else "/".intercalate (probes.map fun k => encodeList (wireValues (wireHeaders r) k))]

/-- The request as an origin server reads it off the wire. -/
def showWire (probes : List Bytes) (r : Loop.Req) : String :=
  let h := wireHeaders r
  "|".intercalate [showScheme r.url.scheme, encodeHex (dialAddr r.url), encodeHex r.url.path, encodeHex r.method,
    -- the lanes' TLS origins negotiate HTTP/2, the plain ones speak HTTP/1.1
    encodeHex (if r.url.scheme = .https then wireAuthority r else wireHost r), b01 r.body,
    if probes.isEmpty then "." else "/".intercalate (probes.map fun k =>
      -- Cookie is compared pair by pair: its framing differs between HTTP/1.1 and HTTP/2
      if Req.Ascii.canonicalMIMEHeaderKey k == hCookie then encodeList (cookieCrumbs (wireValues h k))
      else encodeList (wireValues h k))]

def decodeCfg (ps : List (Option Policy)) (s : String) : Option Config :=
  match s.toList with
  | [j, g, n] => some { ps := ps, jar := j == '1', getBody := g == '1', noBody := n == '1' }
  | _ => none

def runLoopLane (wire : Bool) : List String → String
  | [ps, cfg, ireq, ih, script, probes] =>
    match decodePolicies ps, decodeHeaders ih, decodeScript script, decodeList probes with
    | some ps, some ih, some script, some probes =>
      match decodeCfg ps cfg, decodeReq ireq ih with
      | some cfg, some ireq =>
        let (sent, e) := start cfg ireq script
        showEnd e ++ " " ++ toString sent.length ++ " " ++
          ";".intercalate (sent.map (if wire then showWire probes else showSent probes))
      | _, _ => "bad-op"
    | _, _, _, _ => "bad-op"
  | _ => "bad-op"

/-- `c11loop <policies> <jar,getBody,noBody bits> <initial request> <its headers> <script> <probe keys>`
→ `<end> <requests sent> <each request as the RoundTripper saw it>`. -/
def laneLoop : List String → String := runLoopLane false

/-- `c11wire …` same input → each request as the origin server read it. -/
def laneWire : List String → String := runLoopLane true

/-- `c11api <policies> <jar bit, AllowGetMethodPayload bit> <request S|U|H|P|M|_|B> <request headers> <request cookies>
<common headers> <common cookies> <script> <probe keys>`: the call as the caller configured it. -/
def runApiLane (wire : Bool) : List String → String
  | [ps, jar, req, rh, rc, ch, cc, script, probes] =>
    match decodePolicies ps, decodeHeaders rh, decodeCookies rc, decodeHeaders ch, decodeCookies cc,
        decodeScript script, decodeList probes with
    | some ps, some rh, some rc, some ch, some cc, some script, some probes =>
      match decodeReq req rh with
      | some r =>
        let (sent, e) := apiStart ps (jar.take 1 == "1")
          { commonHeaders := ch, commonCookies := cc, allowGetPayload := jar.drop 1 != "0" }
          { url := r.url, method := r.method, headers := rh, cookies := rc, body := r.body } script
        showEnd e ++ " " ++ toString sent.length ++ " " ++
          ";".intercalate (sent.map (if wire then showWire probes else showSent probes))
      | none => "bad-op"
    | _, _, _, _, _, _, _ => "bad-op"
  | _ => "bad-op"

def laneApi : List String → String := runApiLane false

/-- `c11apiw …`: same input as `c11api` → each request as the origin server read it off the wire
(scheme, dial address, path, method, `Host`, body, header values). -/
def laneApiW : List String → String := runApiLane true

/-- `c11alt <h|s> <URL.Host> <alt host> <alt port>` → `URL.Host` of the copy `ConvertURL` makes. -/
def laneAlt : List String → String
  | [sc, host, ah, ap] =>
    match decodeScheme sc, decodeHex host, decodeHex ah, decodeHex ap with
    | some sc, some host, some ah, some ap => encodeHex (convertHost { host := ah, port := ap } sc host)
    | _, _, _, _ => "bad-op"
  | _ => "bad-op"

/-- `c11fam <ops> <j> <lane> <args…>`: lane `<lane>` with the policies client `j` of the family
enforces. -/
def laneFam : List String → String
  | ops :: j :: lane :: rest =>
    match j.toNat?.bind (familyPolicies ops) with
    | some (some ps) =>
        match lane with
        | "c11policyx" => lanePolicyX (ps :: rest)
        | "c11loop" => laneLoop (ps :: rest)
        | "c11wire" => laneWire (ps :: rest)
        | "c11api" => laneApi (ps :: rest)
        | "c11apiw" => laneApiW (ps :: rest)
        | _ => "bad-op"
    | some none => "no-client"
    | none => "bad-op"
  | _ => "bad-op"

end LoopLanes

/-! ### degenerate arguments (`Req.Redirect.Store`) and RFC 6874 zone text (`Req.Authority` zone part) -/

def decodeDescs (s : String) : Option (List PolicyDesc) :=
  if s == "-" then some [] else (s.splitOn ";").mapM decodePolicyDesc

/-- `c11degen <prior policies> <policies> <req host> <via hosts> <req headers> <via[0] headers> <probe keys>`:
a client configured with `prior`, then `SetRedirectPolicy(policies...)` (`-` = no argument). First answer:
the installed closure (`Store.install`, i.e. the copy) on the raw cells; second answer: the SPEC reading —
first refusal over the non-nil arguments after dropping nil / `AlwaysCopy()` and duplicates inside lists. -/
def laneDegen : List String → String
  | [prior, ps, req, via, rh, vh, probes] =>
    match decodeDescs prior, decodeDescs ps, decodeHex req, decodeList via, decodeHeaders rh, decodeHeaders vh,
        decodeList probes with
    | some prior, some ds, some req, some (v0 :: vs), some rh, some vh, some probes =>
      let via : Via := { first := ⟨v0, vh⟩, rest := vs.map fun h => ⟨h, []⟩ }
      let installed := (Store.install (ds.map PolicyDesc.denote)).getD (prior.map PolicyDesc.denote)
      let (d, h) := compose installed req rh via
      let eff := if ds.isEmpty then prior else ds
      let spec := Store.nonNil ((Store.normalize (eff.map PolicyDesc.dedup)).map PolicyDesc.denote)
      let (d', h') := Store.firstRefusal spec req rh via
      showDecision d ++ " " ++ showProbes h probes ++ " " ++ showDecision d' ++ " " ++ showProbes h' probes
    | _, _, _, _, _, _, _ => "bad-op"
  | _ => "bad-op"

def zoneSide (addr zt port : String) : Option (Req.Authority.ZonedText) := do
  let a ← decodeHex addr
  let z ← decodeHex zt
  let p ← decodePort port
  pure ⟨a, z, p⟩

def showZoned (t : Req.Authority.ZonedText) : String × Option Bytes :=
  match t.authority with
  | none => (b01 (Req.Authority.isRfc6874 t) ++ " undecodable", none)
  | some a =>
    let r := a.render
    (b01 (Req.Authority.isRfc6874 t) ++ " " ++ encodeHex r ++ " " ++ encodeHex (getHostname r) ++ " " ++
      encodeHex (getDomain r), some r)

/-- `c11zone <addr1> <zone text1> <port1> <addr2> <zone text2> <port2>`: two zoned literals as URL text
(`[addr%25zonetext]:port`): per side RFC 6874?, `URL.Host` (zone percent-decoded), getHostname, getDomain; then
SameHost / SameDomain / AllowedHost / AllowedDomain(first) judging a redirect from the first to the second. -/
def laneZone : List String → String
  | [a1, z1, p1, a2, z2, p2] =>
    match zoneSide a1 z1 p1, zoneSide a2 z2 p2 with
    | some t1, some t2 =>
      let (s1, r1) := showZoned t1
      let (s2, r2) := showZoned t2
      let dec :=
        match r1, r2 with
        | some r1, some r2 =>
          let via : Via := { first := ⟨r1, []⟩ }
          " ".intercalate [showDecision (sameHostRedirectPolicy.check r2 via),
            showDecision (sameDomainRedirectPolicy.check r2 via),
            showDecision ((allowedHostRedirectPolicy [r1]).check r2 via),
            showDecision ((allowedDomainRedirectPolicy [r1]).check r2 via)]
        | _, _ => "-"
      s1 ++ " " ++ s2 ++ " " ++ dec
    | _, _ => "bad-op"
  | _ => "bad-op"

def lanes : List (String × (List String → String)) := [
  ("c11degen", laneDegen),
  ("c11zone", laneZone),
  ("c11split", laneSplit),
  ("c11host", laneHost),
  ("c11legacy", laneLegacy),
  ("c11ip", laneIP),
  ("c11spec", laneSpec),
  ("c11policy", lanePolicy),
  ("c11chain", laneChain),
  ("c11clone", laneClone),
  ("c11clonechain", laneCloneChain),
  ("c11policyx", lanePolicyX),
  ("c11loop", laneLoop),
  ("c11wire", laneWire),
  ("c11api", laneApi),
  ("c11apiw", laneApiW),
  ("c11alt", laneAlt),
  ("c11fam", laneFam)
]

end Req.Driver.L.C11
