import Req.Driver.Proto
/-! Driver lanes of C19. -/
namespace Req.Driver.L.C19
open Req.Proto

def lanes : List (String × (List String → String)) := []

end Req.Driver.L.C19
