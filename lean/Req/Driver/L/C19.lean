import Req.Driver.Proto
import Req.Client.Scope
import Req.Client.Heap
import Req.Client.ShareJudge
import Req.Client.ValuesHeap
import Req.Client.ReqTime
/-! Driver lanes of C19.

`c19prog <program>` — run an API program on the value model (`Scope.runScope`) and print the
observations. `c19heap <alias> <program>` — run a wrapper/clone program on the reference-aware
model (`Heap`) with the wrapper slices copied by assignment (`alias = 1`, the code before
fixes/C19-1) or cloned (`alias = 0`).

Program text: ops joined by `;`.
  `N` new client · `C<i>` clone · `R<i>` new request · `S<o>:<setter>` · `E<r>:<m>,<mode>,<path>,<setcookie>`
  · `G<c>` GetCookies · `P<o>` probe.
Setter text: code and numeric arguments joined by `,`; id lists joined by `.` (`_` = empty).
-/
namespace Req.Driver.L.C19
open Req.Proto Req.Scope

def natList (s : String) : Option (List Nat) :=
  if s == "_" then some [] else (s.splitOn ".").mapM String.toNat?

def parseSeg (s : String) : Option Seg :=
  match s.toList with
  | 'l' :: rest => (String.ofList rest).toNat?.map Seg.lit
  | 'p' :: rest => (String.ofList rest).toNat?.map Seg.param
  | _ => none

def parsePath (s : String) : Option (List Seg) :=
  if s == "_" then some [] else (s.splitOn ".").mapM parseSeg

def mkField (n : Nat) : Option Field := if h : n < nFields then some ⟨n, h⟩ else none

def parseSetter (s : String) : Option Setter :=
  match s.splitOn "," with
  | ["hs", k, v] => do pure (.hdrSet (← k.toNat?) (← v.toNat?))
  | ["ha", k, v] => do pure (.hdrAdd (← k.toNat?) (← v.toNat?))
  | ["ck", ids] => do pure (.cookies (← natList ids))
  | ["ps", k, v] => do pure (.pathSet (← k.toNat?) (← v.toNat?))
  | ["qs", k, v] => do pure (.querySet (← k.toNat?) (← v.toNat?))
  | ["qa", k, v] => do pure (.queryAdd (← k.toNat?) (← v.toNat?))
  | ["qm", k, vs] => do pure (.queryAdds (← k.toNat?) (← natList vs))
  | ["fs", k, v] => do pure (.formSet (← k.toNat?) (← v.toNat?))
  | ["fa", k, v] => do pure (.formAdd (← k.toNat?) (← v.toNat?))
  | ["bf", id] => do pure (.before (← id.toNat?))
  | ["af", id] => do pure (.after (← id.toNat?))
  | ["wr", ids] => do pure (.wrap (← natList ids) false)
  | ["wrf", ids] => do pure (.wrap (← natList ids) true)
  | ["tw", ids] => do pure (.twrap (← natList ids) false)
  | ["twf", ids] => do pure (.twrap (← natList ids) true)
  | ["rc", n] => do pure (.retryCount (← n.toNat?))
  | ["ri", id] => do pure (.retryInterval (← id.toNat?))
  | ["cs", id] => do pure (.retryCondSet (← id.toNat?))
  | ["ca", id] => do pure (.retryCondAdd (← id.toNat?))
  | ["hks", id] => do pure (.retryHookSet (← id.toNat?))
  | ["hka", id] => do pure (.retryHookAdd (← id.toNat?))
  | ["dt", w] => do pure (.dumpTo (← w.toNat?))
  | ["dw", m] => do pure (.dumpWithout (← m.toNat?))
  | ["do", w, a, b, c, d] => do pure (.dumpOptions (← w.toNat?) (← a.toNat?) (← b.toNat?) (← c.toNat?) (← d.toNat?))
  | ["dx"] => some .dumpOff
  | ["sc", f, v] => do pure (.scalar (← mkField (← f.toNat?)) (← v.toNat?))
  | ["jf", fid] => do pure (.jarFactory (← fid.toNat?))
  | ["cc"] => some .clearCookies
  | ["h2c", on] => do pure (.h2c (← on.toNat?))
  | ["tc", id] => do pure (.tlsCert (← id.toNat?))
  | ["tr", id] => do pure (.tlsRoot (← id.toNat?))
  | ["bd", b] => do pure (.body (← b.toNat?))
  | _ => none

def parseOp (s : String) : Option Op :=
  match s.toList with
  | ['N'] => some .newClient
  | 'C' :: rest => (String.ofList rest).toNat?.map Op.clone
  | 'R' :: rest => (String.ofList rest).toNat?.map Op.newReq
  | 'G' :: rest => (String.ofList rest).toNat?.map Op.getCookies
  | 'P' :: rest => (String.ofList rest).toNat?.map Op.probe
  | 'S' :: rest =>
    match (String.ofList rest).splitOn ":" with
    | [o, st] => do pure (.set (← o.toNat?) (← parseSetter st))
    | _ => none
  | 'E' :: rest =>
    match (String.ofList rest).splitOn ":" with
    | [r, args] =>
      match args.splitOn "," with
      | [m, mode, path, sc] => do
        pure (.exec (← r.toNat?) (← m.toNat?) (← mode.toNat?) (← parsePath path) (← sc.toNat?))
      | _ => none
    | _ => none
  | _ => none

def parseProg (s : String) : Option (List Op) :=
  if s == "_" then some [] else (s.splitOn ";").mapM parseOp

def showList (l : List Nat) : String :=
  if l.isEmpty then "_" else ".".intercalate (l.map toString)

def showKvs (m : List (Nat × List Nat)) : String :=
  if m.isEmpty then "_" else ",".intercalate (m.map fun e => toString e.1 ++ ":" ++ showList e.2)

def showRSeg : RSeg → String
  | .lit n => "l" ++ toString n
  | .val v => "v" ++ toString v
  | .unresolved k => "u" ++ toString k

def showBody : BodyObs → String
  | .none => "n"
  | .raw b => "r" ++ toString b
  | .form kvs => "f" ++ showKvs kvs
  | .marsh xml b => (if xml then "x" else "j") ++ toString b

def showLog (l : List Ev) : String :=
  if l.isEmpty then "_" else ",".intercalate (l.map fun e => toString e.1 ++ "." ++ toString e.2.1 ++ "." ++ toString e.2.2)

def showObs : Obs → String
  | .none => "-"
  | .err => "err"
  | .exec n r log d rd =>
    "E;a=" ++ toString n ++ ";m=" ++ toString r.method ++ ";b=" ++ toString r.base ++
    ";p=" ++ (if r.path.isEmpty then "_" else ".".intercalate (r.path.map showRSeg)) ++
    ";q=" ++ showKvs r.query ++ ";h=" ++ showKvs r.headers ++ ";c=" ++ showList r.cookies ++
    ";y=" ++ showBody r.body ++ ";x=" ++ (if r.close then "1" else "0") ++ ";ae=" ++ toString r.acceptEnc ++
    ";l=" ++ showLog log ++ ";d=" ++ showList d ++ ";rd=" ++ showList rd
  | .cookies cs => "G" ++ showList cs
  | .probe vals =>
    let parts := (probeFields.zip vals).filterMap fun (f, m) =>
      if m.isEmpty then none else some (toString f ++ "=" ++ showKvs m)
    "P" ++ (if parts.isEmpty then "_" else ";".intercalate parts)

def laneProg : List String → String
  | [prog] =>
    match parseProg prog with
    | some ops => "|".intercalate ((runScope ops).2.map showObs)
    | none => "bad-op"
  | _ => "bad-op"

/-- `c19heap <alias> <program>`: same program text, run on the reference-aware model; `alias = 1`
copies the two wrapper slices by assignment in `Clone`. The answer has the same shape as `c19prog`. -/
def laneHeap : List String → String
  | [alias, prog] =>
    match parseProg prog with
    | some ops =>
      let tc : Table := if alias == "1" then Req.Heap.aliasWrappers idealClone else idealClone
      "|".intercalate ((Req.Heap.runHeap Req.Heap.goGrow tc idealReq ops).2.map showObs)
    | none => "bad-op"
  | _ => "bad-op"

def parseKind : String → Option Req.CloneFacts.Kind
  | "value" => some .value | "map" => some .map | "slice" => some .slice | "pointer" => some .pointer
  | "func" => some .func | "iface" => some .iface | "struct" => some .struct
  | _ => none

def parseHow : String → Option Req.CloneFacts.How
  | "assigned" => some .assigned | "cloned" => some .cloned | "rebuilt" => some .rebuilt | "absent" => some .absent
  | _ => none

/-- `c19rel <owner> <field> <kind> <rowkind|-> <how|-> <hasSetter 0|1> <rel> <ctx>`: the judge of lane `share`
(`ShareJudge.judge`). `ctx` is a string of flags: `f` a TLS fingerprint is set, `j` the client has a
jar factory, `e` the original's slice / map is empty (`_` = none). -/
def laneRel : List String → String
  | [owner, field, kind, rowkind, how, hs, rel, ctx] =>
    match parseKind kind, Req.ShareJudge.Rel.parse rel with
    | some k, some r =>
      let c : Req.ShareJudge.Ctx := ⟨ctx.contains 'f', ctx.contains 'j', ctx.contains 'e'⟩
      let row : Option (Option (Req.CloneFacts.Kind × Req.CloneFacts.How × Bool)) :=
        if rowkind == "-" then some none
        else match parseKind rowkind, parseHow how with
          | some rk, some h => some (some (rk, h, hs == "1"))
          | _, _ => none
      match row with
      | some rw => (Req.ShareJudge.judge owner field k rw c r).show
      | none => "bad-op"
    | _, _ => "bad-op"
  | _ => "bad-op"

/-! `c19vals <next> <layout> <ops>` — the judge of lane `vals` (maps of slices after `Clone`).
`layout`: entries `key:arr:off:len:cap:values` joined by `,` — the slice header of every key of every
observed map (keys of different maps / clients are numbered apart) as found on the REAL heap, with the
values it reads; `next` = number of arrays. `ops`: `a<key>:<values>` append, `s<key>:<values>` set,
`d<key>` delete, joined by `;`. Answer: `sep=<ValuesHeap.sepB>;` and the multimap the value model
ends with (keys sorted). By `values_heap_refines` a separated layout behaves exactly like that. -/

def parseEntry (s : String) : Option ((Nat × Req.ValuesHeap.Sl) × List Nat) :=
  match s.splitOn ":" with
  | [k, a, o, l, c, vs] => do
    pure ((← k.toNat?, ⟨← a.toNat?, ← o.toNat?, ← l.toNat?, ← c.toNat?⟩), ← natList vs)
  | _ => none

def parseVOp (s : String) : Option Req.ValuesHeap.VOp :=
  match s.toList with
  | 'a' :: rest =>
    match (String.ofList rest).splitOn ":" with
    | [k, vs] => do pure (.add (← k.toNat?) (← natList vs))
    | _ => none
  | 's' :: rest =>
    match (String.ofList rest).splitOn ":" with
    | [k, vs] => do pure (.set (← k.toNat?) (← natList vs))
    | _ => none
  | 'd' :: rest => (String.ofList rest).toNat?.map Req.ValuesHeap.VOp.del
  | _ => none

def laneVals : List String → String
  | [next, layout, ops] =>
    match next.toNat?, (if layout == "_" then some [] else (layout.splitOn ",").mapM parseEntry),
          (if ops == "_" then some [] else (ops.splitOn ";").mapM parseVOp) with
    | some n, some ents, some vops =>
      let m : Req.ValuesHeap.MapS := ents.map (·.1)
      let initial : AMap := ents.map fun e => (e.1.1, e.2)
      let sep := Req.ValuesHeap.sepB n m
      "sep=" ++ (if sep then "1" else "0") ++ ";" ++ showKvs (sortKeys (Req.ValuesHeap.runA initial vops))
    | _, _, _ => "bad-op"
  | _ => "bad-op"

/-! `c19cookies <next> <layout> <ops>` — lane `reqtime`, cookie slices at request time (`ReqTime` part 1).
`layout` as for `c19vals` (one key per cookie slice: clients 0.., requests 100..). `ops` joined by `;`:
`C<c>:<vs>` SetCommonCookies, `R<r>:<vs>` Request.SetCookies, `X<c>` ClearCookies, `S<r>:<c>:<attempt>` one
attempt of request `r` of client `c`. Answer: the judge's verdict on the layout, the slices the value
model ends with, and what every attempt sent. -/

def parseROp (s : String) : Option Req.ReqTime.ROp :=
  match s.toList with
  | 'C' :: rest =>
    match (String.ofList rest).splitOn ":" with
    | [c, vs] => do pure (.setCommon (← c.toNat?) (← natList vs))
    | _ => none
  | 'R' :: rest =>
    match (String.ofList rest).splitOn ":" with
    | [r, vs] => do pure (.setReq (← r.toNat?) (← natList vs))
    | _ => none
  | 'X' :: rest => (String.ofList rest).toNat?.map Req.ReqTime.ROp.clear
  | 'S' :: rest =>
    match (String.ofList rest).splitOn ":" with
    | [r, c, a] => do pure (.send (← r.toNat?) (← c.toNat?) (← a.toNat?))
    | _ => none
  | _ => none

def laneCookies : List String → String
  | [next, layout, ops] =>
    match next.toNat?, (if layout == "_" then some [] else (layout.splitOn ",").mapM parseEntry),
          (if ops == "_" then some [] else (ops.splitOn ";").mapM parseROp) with
    | some n, some ents, some rops =>
      let m : Req.ValuesHeap.MapS := ents.map (·.1)
      let initial : AMap := ents.map fun e => (e.1.1, e.2)
      let sep := Req.ValuesHeap.sepB n m
      let sent := Req.ReqTime.sentLog initial rops
      "sep=" ++ (if sep then "1" else "0") ++ ";" ++ showKvs (sortKeys ((Req.ReqTime.runRA initial rops).filter fun e => !e.2.isEmpty)) ++
        ";sent=" ++ (if sent.isEmpty then "_" else "|".intercalate (sent.map fun e => toString e.1 ++ ":" ++ showList e.2))
    | _, _, _ => "bad-op"
  | _ => "bad-op"

/-! `c19connect <nclients> <ops>` — lane `reqtime`, the CONNECT header (`ReqTime` part 2). `ops` joined by `;`:
`H<c>:<b>:<content>` SetProxyConnectHeader (map object `b`; content `k=vs+k=vs`, `_` = empty map),
`K<a>:<b>` b := a.Clone(), `P<c>:<auth|->` SetProxyURL with / without credentials, `D<c>` a CONNECT by `c`.
Answer: every CONNECT header sent and, per client, the content of its ProxyConnectHeader at the end. -/

def parseHdrContent (s : String) : Option AMap :=
  if s == "_" then some [] else (s.splitOn "+").mapM fun e =>
    match e.splitOn "=" with
    | [k, vs] => do pure (← k.toNat?, ← natList vs)
    | _ => none

def parsePOp (s : String) : Option Req.ReqTime.POp :=
  match s.toList with
  | 'H' :: rest =>
    match (String.ofList rest).splitOn ":" with
    | [c, b, content] => do pure (.setHdr (← c.toNat?) (← b.toNat?) (← parseHdrContent content))
    | _ => none
  | 'K' :: rest =>
    match (String.ofList rest).splitOn ":" with
    | [a, b] => do pure (.clone (← a.toNat?) (← b.toNat?))
    | _ => none
  | 'P' :: rest =>
    match (String.ofList rest).splitOn ":" with
    | [c, "-"] => do pure (.setProxy (← c.toNat?) none)
    | [c, a] => do pure (.setProxy (← c.toNat?) (some (← a.toNat?)))
    | _ => none
  | 'D' :: rest => (String.ofList rest).toNat?.map Req.ReqTime.POp.dial
  | _ => none

def laneConnect : List String → String
  | [n, ops] =>
    match n.toNat?, (if ops == "_" then some [] else (ops.splitOn ";").mapM parsePOp) with
    | some n, some pops =>
      let s := Req.ReqTime.runP false Req.ReqTime.initP pops
      let showH (h : AMap) : String := "+".intercalate ((sortKeys h).map fun e => toString e.1 ++ "=" ++ showList e.2)
      let log := s.log.map fun e => toString e.1 ++ "/" ++ showH e.2
      let boxes := (List.range n).map fun c =>
        match (s.clients c).box with
        | some b => toString c ++ "/" ++ showH (s.boxes b)
        | none => toString c ++ "/nil"
      "log=" ++ "|".intercalate log ++ ";hdr=" ++ "|".intercalate boxes
    | _, _ => "bad-op"
  | _ => "bad-op"

def lanes : List (String × (List String → String)) := [
  ("c19cookies", laneCookies),
  ("c19connect", laneConnect),
  ("c19vals", laneVals),
  ("c19prog", laneProg),
  ("c19heap", laneHeap),
  ("c19rel", laneRel)
]

end Req.Driver.L.C19
