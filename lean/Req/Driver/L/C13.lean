import Req.Driver.Proto
import Req.H1.BufLine
/-! Driver lanes of C13. -/
namespace Req.Driver.L.C13
open Req.Proto Req.H1.BufLine

def errName : Option RErr → String
  | none => "-"
  | some (.src .eof) => "eof"
  | some (.src (.other n)) => "o" ++ toString n
  | some .noProgress => "noprogress"
  | some .bufferFull => "full"
  | some .tooLarge => "toolarge"
  | some .stuck => "stuck"

def mkSrc : List Bytes → List Nat → Option (List Chunk)
  | [], [] => some []
  | d :: ds, e :: es =>
    (mkSrc ds es).map fun rest =>
      (⟨d, if e = 0 then none else if e = 1 then some .eof else some (.other e)⟩ : Chunk) :: rest
  | _, _ => none

inductive Op
  | L
  | S (lim : Option Nat)
  | K

def parseOp (s : String) : Option Op :=
  if s == "L" then some .L
  else if s == "K" then some .K
  else if s == "S" then some (.S none)
  else if s.startsWith "S" then (s.drop 1).toNat?.map fun n => .S (some n)
  else none

/-- Runs the op list; returns the per-op renderings, the dump and the final reader. -/
def runOps (B : Nat) (rl : LineFn) (dumpEaten : Bool) : List Op → Rd → Bytes → List String → List String × Bytes × Rd
  | [], st, d, acc => (acc.reverse, d, st)
  | .L :: ops, st, d, acc =>
    match rl st with
    | (r, st1, d1) =>
      runOps B rl dumpEaten ops st1 (d ++ d1)
        (("L:" ++ encodeHex r.line ++ ":" ++ (if r.isPrefix then "1" else "0") ++ ":" ++ errName r.err) :: acc)
  | .S lim :: ops, st, d, acc =>
    let r := readLineSlice rl lim st
    let txt := match r.res with
      | .ok l => "S:" ++ encodeHex l ++ ":-"
      | .error e => "S:_:" ++ errName (some e)
    runOps B rl dumpEaten ops r.st (d ++ r.dumped) (txt :: acc)
  | .K :: ops, st, d, acc =>
    match skipSpace B st with
    | (e, st1) =>
      runOps B rl dumpEaten ops st1 (if dumpEaten then d ++ e else d) (("K:" ++ toString e.length) :: acc)

/-- `c13rl <B> <plain|dump|dumpold> <chunks> <errs> <ops>` →
`<op results joined by ;> d=<dumped> r=<bytes still unread>`. -/
def laneRl : List String → String
  | [b, mode, chunks, errs, ops] =>
    match b.toNat?, decodeList chunks, decodeNatList errs, (ops.splitOn ",").mapM parseOp with
    | some B, some cs, some es, some os =>
      match mkSrc cs es with
      | none => "bad-op"
      | some src =>
        let sel : Option (LineFn × Bool) :=
          if mode == "plain" then some (plainReadLine B, false)
          else if mode == "dump" then some (dumpReadLine B, true)
          else if mode == "dumpold" then some (dumpReadLineOld B, false)
          else none
        match sel with
        | none => "bad-op"
        | some (rl, de) =>
          let (outs, d, st) := runOps B rl de os (Rd.ofSrc src) [] []
          ";".intercalate outs ++ " d=" ++ encodeHex d ++ " r=" ++ encodeHex st.bytes
    | _, _, _, _ => "bad-op"
  | _ => "bad-op"

def lanes : List (String × (List String → String)) := [
  ("c13rl", laneRl)
]

end Req.Driver.L.C13
