import Req.Driver.Proto
/-! Driver lanes of C13. -/
namespace Req.Driver.L.C13
open Req.Proto

def lanes : List (String × (List String → String)) := []

end Req.Driver.L.C13
