import Req.Driver.Proto
import Req.H1.BufLine
import Req.Client.Dump
import Req.Driver.L.C13W
import Req.Driver.L.C13R
/-! Driver lanes of C13. -/
namespace Req.Driver.L.C13
open Req.Proto Req.H1.BufLine

def errName : Option RErr → String
  | none => "-"
  | some (.src .eof) => "eof"
  | some (.src (.other n)) => "o" ++ toString n
  | some .noProgress => "noprogress"
  | some .bufferFull => "full"
  | some .tooLarge => "toolarge"
  | some .stuck => "stuck"

def mkSrc : List Bytes → List Nat → Option (List Chunk)
  | [], [] => some []
  | d :: ds, e :: es =>
    (mkSrc ds es).map fun rest =>
      (⟨d, if e = 0 then none else if e = 1 then some .eof else some (.other e)⟩ : Chunk) :: rest
  | _, _ => none

inductive Op
  | L
  | S (lim : Option Nat)
  | K

def parseOp (s : String) : Option Op :=
  if s == "L" then some .L
  else if s == "K" then some .K
  else if s == "S" then some (.S none)
  else if s.startsWith "S" then (s.drop 1).toNat?.map fun n => .S (some n)
  else none

/-- Runs the op list; returns the per-op renderings, the dump and the final reader. -/
def runOps (B : Nat) (rl : LineFn) (dumpEaten : Bool) : List Op → Rd → Bytes → List String → List String × Bytes × Rd
  | [], st, d, acc => (acc.reverse, d, st)
  | .L :: ops, st, d, acc =>
    match rl st with
    | (r, st1, d1) =>
      runOps B rl dumpEaten ops st1 (d ++ d1)
        (("L:" ++ encodeHex r.line ++ ":" ++ (if r.isPrefix then "1" else "0") ++ ":" ++ errName r.err) :: acc)
  | .S lim :: ops, st, d, acc =>
    let r := readLineSlice rl lim st
    let txt := match r.res with
      | .ok l => "S:" ++ encodeHex l ++ ":-"
      | .error e => "S:_:" ++ errName (some e)
    runOps B rl dumpEaten ops r.st (d ++ r.dumped) (txt :: acc)
  | .K :: ops, st, d, acc =>
    match skipSpace B st with
    | (e, st1) =>
      runOps B rl dumpEaten ops st1 (if dumpEaten then d ++ e else d) (("K:" ++ toString e.length) :: acc)

/-- `c13rl <B> <plain|dump|dumpold> <chunks> <errs> <ops>` →
`<op results joined by ;> d=<dumped> r=<bytes still unread>`. -/
def laneRl : List String → String
  | [b, mode, chunks, errs, ops] =>
    match b.toNat?, decodeList chunks, decodeNatList errs, (ops.splitOn ",").mapM parseOp with
    | some B, some cs, some es, some os =>
      match mkSrc cs es with
      | none => "bad-op"
      | some src =>
        let sel : Option (LineFn × Bool) :=
          if mode == "plain" then some (plainReadLine B, false)
          else if mode == "dump" then some (dumpReadLine B, true)
          else if mode == "dumpold" then some (dumpReadLineOld B, false)
          else none
        match sel with
        | none => "bad-op"
        | some (rl, de) =>
          let (outs, d, st) := runOps B rl de os (Rd.ofSrc src) [] []
          ";".intercalate outs ++ " d=" ++ encodeHex d ++ " r=" ++ encodeHex st.bytes
    | _, _, _, _ => "bad-op"
  | _ => "bad-op"

/-! #### routing / expected dump -/
open Req.Client.Dump in
def optW (n : Nat) : Option Writer := if n = 0 then none else some n

open Req.Client.Dump in
/-- `out,reqOut,respOut,reqHOut,reqBOut,respHOut,respBOut,qh,qb,rh,rb,async` (writers: 0 = nil);
`-` = no dumper at that level. -/
def parseOpts (s : String) : Option (Option Opts) :=
  if s == "-" then some none else
  match decodeNatList s with
  | some [o, qo, ro, qho, qbo, rho, rbo, qh, qb, rh, rb, a] =>
    some (some { output := optW o, requestOutput := optW qo, responseOutput := optW ro,
                 requestHeaderOutput := optW qho, requestBodyOutput := optW qbo,
                 responseHeaderOutput := optW rho, responseBodyOutput := optW rbo,
                 requestHeader := qh != 0, requestBody := qb != 0, responseHeader := rh != 0,
                 responseBody := rb != 0, async := a != 0 })
  | _ => none

open Req.Client.Dump in
def mkExchanges : List Bytes → Option (List Exchange)
  | [] => some []
  | a :: b :: c :: d :: rest => (mkExchanges rest).map (⟨a, b, c, d⟩ :: ·)
  | _ => none

def dedupSorted (l : List Nat) : List Nat :=
  (l.foldl (fun acc x => if acc.contains x then acc else x :: acc) []).reverse.mergeSort

open Req.Client.Dump in
/-- `c13exp <client opts|-> <request opts|-> <parts: 4 per attempt>` → per writer (sorted, only
non-empty) the bytes it must hold, and which levels deliver through the async channel.
Options go through `newDumper` (nil Output → stderr) like every dumper of the library. -/
def laneExp : List String → String
  | [c, r, parts] =>
    match parseOpts c, parseOpts r, decodeList parts with
    | some co, some ro, some ps =>
      match mkExchanges ps with
      | none => "bad-op"
      | some es =>
        let ds := getDumpers (co.map newDumper) (ro.map newDumper)
        let evs := expectedEvents ds es
        let ws := dedupSorted (evs.map (·.writer))
        let body := ws.filterMap fun w =>
          let b := expectedDump ds es w
          if b.isEmpty then none else some ("w" ++ toString w ++ "=" ++ encodeHex b)
        let ch := (match co with | some o => if usesChannel .client o then "c" else "" | none => "") ++
                  (match ro with | some o => if usesChannel .request o then "r" else "" | none => "")
        " ".intercalate body ++ " chan=" ++ (if ch.isEmpty then "-" else ch)
    | _, _, _ => "bad-op"
  | _ => "bad-op"

open Req.Client.Dump in
def mkSteps : List String → Option (List ReqStep)
  | [] => some []
  | c :: r :: parts :: rest =>
    match parseOpts c, parseOpts r, decodeList parts with
    | some co, some ro, some [a, b, cc, d] =>
      (mkSteps rest).map ((getDumpers (co.map newDumper) (ro.map newDumper), ⟨a, b, cc, d⟩) :: ·)
    | _, _, _ => none
  | _ => none

open Req.Client.Dump in
/-- `c13seq (<client opts|-> <request opts|-> <4 parts>)+` → per writer the bytes it must hold
after the whole sequence (each request has its own dumpers). -/
def laneSeq (args : List String) : String :=
  match mkSteps args with
  | none => "bad-op"
  | some steps =>
    let ws := dedupSorted (steps.flatMap fun s => writersOf s.1)
    let body := ws.filterMap fun w =>
      let b := expectedDumpSeq steps w
      if b.isEmpty then none else some ("w" ++ toString w ++ "=" ++ encodeHex b)
    if body.isEmpty then "-" else " ".intercalate body

open Req.Client.Dump in
/-- `c13route <opts>` → `enabled bits` and the resolved writer of each part, after `newDumper`
(`n`) or for the raw options as `SetCommonDumpOptions` installs them (`r`). -/
def laneRoute : List String → String
  | [mode, o] =>
    match parseOpts o with
    | some (some o0) =>
      let o := if mode == "n" then newDumper o0 else o0
      " ".intercalate (Part.all.map fun p =>
        (if o.enabled p then "1" else "0") ++ ":" ++ toString (o.resolve p)) ++ " out=" ++ toString o.out
    | _ => "bad-op"
  | _ => "bad-op"

open Req.Client.Dump in
/-- `c13dumpers <client opts|-> <request opts|-> <part 0..3|all>` → which dumpers (`c`, `r`)
`GetDumpers` returns, filtered by the part when one is given. -/
def laneDumpers : List String → String
  | [c, r, part] =>
    match parseOpts c, parseOpts r with
    | some co, some ro =>
      let tagged : List (String × Opts) :=
        (match co with | some o => [("c", o)] | none => []) ++ (match ro with | some o => [("r", o)] | none => [])
      let sel : Option (List (String × Opts)) :=
        if part == "all" then some tagged else
        match part.toNat? with
        | some 0 => some (tagged.filter (·.2.enabled .reqHeader))
        | some 1 => some (tagged.filter (·.2.enabled .reqBody))
        | some 2 => some (tagged.filter (·.2.enabled .respHeader))
        | some 3 => some (tagged.filter (·.2.enabled .respBody))
        | _ => none
      match sel with
      | some l => if l.isEmpty then "-" else ",".intercalate (l.map (·.1))
      | none => "bad-op"
    | _, _ => "bad-op"
  | _ => "bad-op"

open Req.Client.Dump in
def presetOf (n : Nat) : Option Preset :=
  match n with
  | 0 => some .all | 1 => some .withoutRequestBody | 2 => some .withoutResponseBody
  | 3 => some .withoutResponse | 4 => some .withoutRequest | 5 => some .withoutHeader
  | 6 => some .withoutBody | 7 => some .async
  | n => if n ≥ 100 then some (.to n) else none

open Req.Client.Dump in
/-- `c13preset <default Output writer> <preset numbers>` → flags, async, Output(). -/
def lanePreset : List String → String
  | [out, ps] =>
    match out.toNat?, decodeNatList ps with
    | some w, some l =>
      match l.mapM presetOf with
      | some presets =>
        let o := newDumper (applyPresets presets (defaultOpts w))
        " ".intercalate (Part.all.map fun p => if o.enabled p then "1" else "0") ++
          " async=" ++ (if o.async then "1" else "0") ++ " out=" ++ toString o.out
      | none => "bad-op"
    | _, _ => "bad-op"
  | _ => "bad-op"

def renderIO (rs : List Req.Client.Dump.IORes) : String :=
  if rs.isEmpty then "-" else ",".intercalate (rs.map fun r => toString r.n ++ ":" ++ toString r.err)

open Req.Client.Dump in
/-- `c13wrapw <limit> <writes> <depth>` → results, what the inner writer got, what each of the
`depth` nested wrappers dumped. -/
def laneWrapW : List String → String
  | [limit, writes, depth] =>
    match limit.toNat?, decodeList writes, depth.toNat? with
    | some l, some ps, some 1 =>
      let (rs, ((_, got), d)) := (wrapWriter limitedWriter).runAll ((l, []), []) ps
      renderIO rs ++ " got=" ++ encodeHex got ++ " d=" ++ encodeHex d
    | some l, some ps, some 2 =>
      let (rs, (((_, got), d1), d2)) := (wrapWriter (wrapWriter limitedWriter)).runAll (((l, []), []), []) ps
      renderIO rs ++ " got=" ++ encodeHex got ++ " d=" ++ encodeHex d1 ++ " d=" ++ encodeHex d2
    | _, _, _ => "bad-op"
  | _ => "bad-op"

open Req.Client.Dump in
/-- `c13wrapr <data> <eofWithData 0|1> <read sizes>` → per read `data:err`, the dumped body, the
number of separators. -/
def laneWrapR : List String → String
  | [data, ewd, caps] =>
    match decodeHex data, ewd.toNat?, decodeNatList caps with
    | some bs, some e, some cs =>
      let (xs, (_, d, seps)) := (wrapReader (bytesReader (e != 0))).runAll (bs, [], 0) cs
      (if xs.isEmpty then "-" else ",".intercalate (xs.map fun x => encodeHex x.1 ++ ":" ++ toString x.2))
        ++ " d=" ++ encodeHex d ++ " seps=" ++ toString seps
    | _, _, _ => "bad-op"
  | _ => "bad-op"

open Req.Client.Dump in
/-- `c13chan <cap> <writer ids> <datas> <schedule: s/r string>` → the written events in order
(`w:hex`), what is still queued / unsent, under the given schedule with a started `Start` loop
(`S`) or an unstarted dumper (`U`) as first schedule character. Empty data is not an event
(`DumpTo` ignores it). -/
def laneChan : List String → String
  | [cap, ws, ds, sched] =>
    match cap.toNat?, decodeNatList ws, decodeList ds with
    | some c, some wl, some dl =>
      if wl.length != dl.length then "bad-op" else
      let evs : List Event := (wl.zip dl).flatMap fun (w, d) => dumpTo d w
      let started := sched.startsWith "S"
      let steps : List Step := (sched.toList.drop 1).filterMap fun ch =>
        if ch == 's' then some .send else if ch == 'r' then some .recv else none
      let fin := (Chan.mk evs [] [] started).run c steps
      let render (l : List Event) : String :=
        if l.isEmpty then "-" else ",".intercalate (l.map fun e => toString e.writer ++ ":" ++ encodeHex e.data)
      "written=" ++ render fin.written ++ " queued=" ++ toString fin.queue.length ++ " unsent=" ++ toString fin.todo.length
    | _, _, _ => "bad-op"
  | _ => "bad-op"

open Req.Client.Dump in
def lifeOpOf : Nat → Option LifeOp
  | 0 => some (.set false) | 1 => some (.set true) | 2 => some .asyncAll
  | 3 => some .disable | 4 => some .clone | _ => none

open Req.Client.Dump in
/-- `c13life <op numbers>` → `none` or the live dumper's `async=… delivers=…`. -/
def laneLife : List String → String
  | [ops] =>
    match decodeNatList ops with
    | some l =>
      match l.mapM lifeOpOf with
      | some os =>
        match lifeRun os with
        | none => "none"
        | some d => "async=" ++ (if d.async then "1" else "0") ++ " delivers=" ++ (if d.delivers then "1" else "0")
      | none => "bad-op"
    | none => "bad-op"
  | _ => "bad-op"

def lanes : List (String × (List String → String)) := [
  ("c13rl", laneRl),
  ("c13exp", laneExp),
  ("c13route", laneRoute),
  ("c13dumpers", laneDumpers),
  ("c13wrapw", laneWrapW),
  ("c13wrapr", laneWrapR),
  ("c13chan", laneChan),
  ("c13preset", lanePreset),
  ("c13seq", laneSeq),
  ("c13life", laneLife)
] ++ Req.Driver.L.C13W.lanes ++ Req.Driver.L.C13R.lanes

end Req.Driver.L.C13
