import Req.Driver.Proto
import Req.Pool.DumpQueue
/-! Driver lane `c09dumpq <async 0|1> <nOut> <ops>` of C09 (round 5).
ops comma-joined: `W.b.lo.hex` the owner of buffer b overwrites it from lo · `D.b.lo.len.o`
DumpTo(buf_b[lo:lo+len], output o; 9 = nil output) · `G` go Start() · `P` Stop() · `E` the parked
`Output.Write` of the writer goroutine goes ahead.  After every executed op the writer goroutine
receives the next task if it is free (`settle`).  Answer: per op `ok/<dump>`, `blocked` (the send on
the full channel would sleep: the lane does not execute it) or `ign`, joined by `;`. -/
namespace Req.Driver.L.C09Dump
open Req.Proto Req.Pool.DumpQueue

def parseOp (s : String) : Option Op :=
  match s.splitOn "." with
  | ["W", b, lo, h] => do
    let d ← decodeHex h
    pure (.write (← b.toNat?) (← lo.toNat?) d)
  | ["D", b, lo, len, o] => do
    let o ← o.toNat?
    pure (.dumpTo (← b.toNat?) (← lo.toNat?) (← len.toNat?) (if o == 9 then none else some o))
  | ["G"] => some .start
  | ["P"] => some .stop
  | ["E"] => some .emit
  | _ => none

def laneDumpQ : List String → String
  | [a, n, ops] =>
    match n.toNat?, (if ops == "-" then some [] else (ops.splitOn ",").mapM parseOp) with
    | some nOut, some os =>
      if a != "0" && a != "1" then "bad-op"
      else ";".intercalate (runLane { async := a == "1" } nOut {} os)
    | _, _ => "bad-op"
  | _ => "bad-op"

end Req.Driver.L.C09Dump
