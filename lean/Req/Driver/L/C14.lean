import Req.Driver.Proto
/-! Driver lanes of C14. -/
namespace Req.Driver.L.C14
open Req.Proto

def lanes : List (String × (List String → String)) := []

end Req.Driver.L.C14
