import Req.Driver.Proto
import Req.Client.Compress
import Req.Client.CompressLegacy
import Req.Client.CompressReader
import Req.Client.CompressAttempts
import Req.Client.CompressFormats
import Req.Client.CompressClose
import Req.Client.CompressZstd
import Req.Client.CompressLines
import Req.Lemmas.C14Auto
/-! Driver lanes of C14. -/
namespace Req.Driver.L.C14
open Req.Proto Req.Compress

def parseBool (s : String) : Option Bool :=
  if s == "1" then some true else if s == "0" then some false else none

def parseSite (s : String) : Option Site :=
  if s == "h1" then some .h1 else if s == "h2" then some .h2 else if s == "h3" then some .h3 else none

def pairs : List Bytes → Option Header
  | [] => some []
  | [_] => none
  | k :: v :: rest => (pairs rest).map fun t => (k, v) :: t

def unpairs (h : Header) : List Bytes := h.flatMap fun p => [p.1, p.2]

/-- `c14select <ce>` → the reader `NewCompressReader` builds, the EqualFold-gzip test, and the list
of content codings the value denotes (`Lines.codings`). -/
def laneSelect : List String → String
  | [ce] =>
    match decodeHex ce with
    | some b =>
      (match select b with | some a => a.name | none => "none") ++
        " fold=" ++ (if isGzipFold b then "1" else "0") ++
        " codings=" ++ encodeList (Req.Compress.Lines.codings [b])
    | none => "bad-op"
  | _ => "bad-op"

def showBody (wire gz dfl br zs : String) : Option BodyKind → String
  | none => "nil"
  | some k => deliver wire (fun a => match a with
      | .gzip => gz | .deflate => dfl | .br => br | .zstd => zs) k

def showOut (ae : Option Bytes) (o : Out) (wire gz dfl br zs : String) : String :=
  "ae=" ++ (match ae with | some v => encodeHex v | none => "none") ++
  " hdr=" ++ encodeList (unpairs o.resp.header) ++
  " n=" ++ toString o.resp.contentLength ++
  " unc=" ++ (if o.resp.uncompressed then "1" else "0") ++
  " body=" ++ showBody wire gz dfl br zs o.body

/-- `c14x <site> <disableCompression> <auto> <method> <accept-encoding> <range> <hasBody>
<header k,v,…> <ContentLength> <wire> <gzip> <deflate> <br> <zstd>`: the last five are opaque
descriptions (digest:length:end) of the body as received and of its meaning under each codec,
computed by the harness with the reference libraries; the model picks. -/
def exchange (legacy : Bool) : List String → String
  | [site, dc, auto, method, ae, range, hasBody, hdr, cl, wire, gz, dfl, br, zs] =>
    match parseSite site, parseBool dc, parseBool auto, decodeHex method, decodeHex ae,
        decodeHex range, parseBool hasBody, (decodeList hdr).bind pairs, decodeInt cl with
    | some s, some dc, some auto, some m, some ae, some rg, some hb, some h, some n =>
      let c : ReqCfg := ⟨dc, m, ae, rg⟩
      let r : Resp := ⟨h, n, false⟩
      let o := if legacy then Legacy.process s c auto hb r else process s c auto hb r
      showOut (wireAcceptEncoding (addGzip s c) c) o wire gz dfl br zs
    | _, _, _, _, _, _, _, _, _ => "bad-op"
  | _ => "bad-op"


/-- `c14xj …` (same arguments as `c14x`): the exchange under the REPAIRED reading of the
Content-Encoding lines (`Lines.Joined.process`, fixes/C14-7): several lines are one list. -/
def exchangeJ : List String → String
  | [site, dc, auto, method, ae, range, hasBody, hdr, cl, wire, gz, dfl, br, zs] =>
    match parseSite site, parseBool dc, parseBool auto, decodeHex method, decodeHex ae,
        decodeHex range, parseBool hasBody, (decodeList hdr).bind pairs, decodeInt cl with
    | some s, some dc, some auto, some m, some ae, some rg, some hb, some h, some n =>
      let c : ReqCfg := ⟨dc, m, ae, rg⟩
      let r : Resp := ⟨h, n, false⟩
      showOut (wireAcceptEncoding (addGzip s c) c) (Req.Compress.Lines.Joined.process s c auto hb r) wire gz dfl br zs
    | _, _, _, _, _, _, _, _, _ => "bad-op"
  | _ => "bad-op"

/-- `c14seq <site> <dc> <auto> <method> <accept-encoding> <range> <hasBody> <header> <ContentLength>
<wire> <gzip> <deflate> <br> <zstd> <k> <deliverAll>`: ONE request object attempted `k` times
(transparent retries, or re-sent by the caller); every attempt is answered with the same
response. Answer: per attempt what the origin saw and — for the delivered ones (all of them, or
only the last) — what the caller received, then the `Accept-Encoding` left in the request's own
header. The header state is threaded through `attempts`. -/
def sequence : List String → String
  | [site, dc, auto, method, ae, range, hasBody, hdr, cl, wire, gz, dfl, br, zs, k, all] =>
    match parseSite site, parseBool dc, parseBool auto, decodeHex method, decodeHex ae,
        decodeHex range, parseBool hasBody, (decodeList hdr).bind pairs, decodeInt cl, k.toNat?,
        parseBool all with
    | some s, some dc, some auto, some m, some ae, some rg, some hb, some h, some n, some k, some all =>
      let h0 : Carried := ⟨ae, rg⟩
      let run := attempts s dc m k h0
      let r : Resp := ⟨h, n, false⟩
      let isHead := (h0.cfg dc m).isHead
      let render (i : Nat) (sent : Sent) : String :=
        if all || i + 1 == k then
          showOut sent.wireAE (processSent s sent auto isHead hb r) wire gz dfl br zs
        else "ae=" ++ (match sent.wireAE with | some v => encodeHex v | none => "none")
      let parts := (List.range run.1.length).zip run.1 |>.map fun p => render p.1 p.2
      " ## ".intercalate parts ++ " ## carried=" ++ encodeHex run.2.acceptEncoding
    | _, _, _, _, _, _, _, _, _, _, _ => "bad-op"
  | _ => "bad-op"

/-! ### reader scripts -/

def parseTerm (s : String) : Option Term :=
  if s == "eof" then some .eof
  else if s.startsWith "err" then (s.drop 3).toNat?.map Term.err
  else none

def showRes (r : Bytes × Option Term) : String :=
  encodeHex r.1 ++ ":" ++ (match r.2 with | some t => t.show | none => "-")

/-- Phase 1: read with the sizes in turn (cycling) until a read returns an error or `limit`
reads were made. Returns state, data, end, reads made. -/
def phase1R {S : Type} (read : S → Nat → S × Bytes × Option Term) (sizes : List Nat) :
    Nat → Nat → S → List Bytes → S × List Bytes × Option Term
  | 0, _, s, acc => (s, acc, none)
  | fuel + 1, i, s, acc =>
    let n := sizes.getD (i % sizes.length) 1
    let r := read s n
    match r.2.2 with
    | some t => (r.1, r.2.1 :: acc, some t)
    | none => phase1R read sizes fuel (i + 1) r.1 (r.2.1 :: acc)

/-- (the pieces are collected in reverse and joined once: one-byte reads of a 100 KiB body would
otherwise cost a quadratic number of list cells) -/
def phase1 {S : Type} (read : S → Nat → S × Bytes × Option Term) (sizes : List Nat)
    (fuel i : Nat) (s : S) (acc : Bytes) : S × Bytes × Option Term :=
  let r := phase1R read sizes fuel i s []
  (r.1, acc ++ r.2.1.reverse.flatten, r.2.2)

def phase2 {S : Type} (read : S → Nat → S × Bytes × Option Term) :
    S → List Nat → List (Bytes × Option Term)
  | _, [] => []
  | s, n :: ns => let r := read s n; (r.2.1, r.2.2) :: phase2 read r.1 ns

/-- `c14reader <lazy|lazykeep|h1gz> <open: ok|eof|errN> <out> <end> <closeAfter: -1|j> <sizes> <extra>`:
read with `sizes` (cycling) until an error — or, if `closeAfter = j ≥ 0`, for at most `j`
reads, then `Close` — then `extra` more reads. Answer: `data=<hex|prefix> t=<end|-> after=…`.
When closing after j > 0 reads the amount read so far depends on how short the real reader's
reads are, so only "a prefix of the expected output" is reported (and `t=*`). -/
def laneReader : List String → String
  | [kind, opn, out, term, closeAfter, sizes, extra] =>
    match decodeHex out, parseTerm term, decodeInt closeAfter, decodeNatList sizes, decodeNatList extra with
    | some out, some term, some ca, some sizes, some extra =>
      if sizes.isEmpty then "bad-op" else
      let openRes : Src → Except Term (Bytes × Term) := fun _ =>
        if opn == "ok" then .ok (out, term)
        else match parseTerm opn with
          | some e => .error e
          | none => .error (.err 99)
      let C := bufferedCodec openRes
      let src : Src := ⟨[], .eof⟩
      -- zero-length reads make no progress: allow a whole cycle of sizes per byte
      let limit : Nat := if ca < 0 then (out.length + 8) * sizes.length else ca.toNat
      let render (data : Bytes) (t : Option Term) (after : List (Bytes × Option Term)) : String :=
        "data=" ++ (if ca > 0 then (if data.isPrefixOf out then "prefix" else "notprefix")
          else match t with
            | some (.err _) => "partial"   -- how much is produced before an error depends on input chunking
            | _ => encodeHex data) ++
        " t=" ++ (if ca > 0 then "*" else match t with | some t => t.show | none => "-") ++
        " after=" ++ (if after.isEmpty then "-" else ",".intercalate (after.map showRes))
      if kind == "lazy" || kind == "lazykeep" then
        let keep := kind == "lazykeep"
        let p := phase1 (lazyRead C keep) sizes limit 0 (LazyState.init src) []
        let st := if ca ≥ 0 then lazyClose p.1 else p.1
        render p.2.1 p.2.2 (phase2 (lazyRead C keep) st extra)
      else if kind == "h1gz" then
        let p := phase1 (h1gzRead C) sizes limit 0 (H1GzState.init src) []
        let st := if ca ≥ 0 then h1gzClose p.1 else p.1
        render p.2.1 p.2.2 (phase2 (h1gzRead C) st extra)
      else "bad-op"
    | _, _, _, _, _ => "bad-op"
  | _ => "bad-op"


/-! ### container formats -/

open Req.Compress.Fmt in
/-- `c14enc gzip <ftext> <hcrc> <extra|-> <name|-> <comment|-> <mtime: 4 bytes> <xfl> <os> <blocks> <last>`
→ the member; `c14enc deflate <blocks> <last>` → the stored-block stream;
`c14enc zlib <blocks> <last>` → the same inside an RFC 1950 wrapper. Hex out. -/
def laneEnc : List String → String
  | ["gzip", ftext, hcrc, extra, name, comment, mtime, xfl, os, blocks, last] =>
    let opt (s : String) : Option (Option Bytes) := if s == "-" then some none else (decodeHex s).map some
    match parseBool ftext, parseBool hcrc, opt extra, opt name, opt comment, decodeHex mtime,
        xfl.toNat?, os.toNat?, decodeList blocks, decodeHex last with
    | some ft, some hc, some ex, some nm, some cm, some [m0, m1, m2, m3], some xfl, some os, some bl, some la =>
      let h : GzHeader := ⟨ft, hc, ex, nm, cm, m0, m1, m2, m3, UInt8.ofNat xfl, UInt8.ofNat os⟩
      encodeHex (gzMember ieee h bl la)
    | _, _, _, _, _, _, _, _, _, _ => "bad-op"
  | ["deflate", blocks, last] =>
    match decodeList blocks, decodeHex last with
    | some bl, some la => encodeHex (stored bl la)
    | _, _ => "bad-op"
  | ["zlib", blocks, last] =>
    match decodeList blocks, decodeHex last with
    | some bl, some la => encodeHex (zlibWrap (stored bl la) (adler32 (bl.flatten ++ la)))
    | _, _ => "bad-op"
  -- `c14enc zframe data <fhd> <wd> <fcs field bytes> <blocks> <last>` / `c14enc zframe skip <nibble> <payload>`
  | ["zframe", "data", fhd, wd, fcs, blocks, last] =>
    match fhd.toNat?, wd.toNat?, decodeHex fcs, decodeList blocks, decodeHex last with
    | some fhd, some wd, some f, some bl, some la =>
      encodeHex ((Req.Compress.Zstd.Frame.data (UInt8.ofNat fhd) (UInt8.ofNat wd) f bl la).bytes Req.Compress.Zstd.xxh)
    | _, _, _, _, _ => "bad-op"
  | ["zframe", "skip", nib, payload] =>
    match nib.toNat?, decodeHex payload with
    | some n, some p => encodeHex ((Req.Compress.Zstd.Frame.skippable (0x50 ||| (UInt8.ofNat n &&& 15)) p).bytes Req.Compress.Zstd.xxh)
    | _, _ => "bad-op"
  | _ => "bad-op"

/-- Read the incremental reader of an automaton (`Auto.reader`: a `Read` consumes only the input
it needs) with the given buffer sizes in turn until a `Read` reports the end. -/
def drainAuto (A : Req.Compress.Auto) (wire : Bytes) (fin : Term) (sizes : List Nat) : Bytes × Term :=
  let R := Req.Compress.Auto.reader A
  let limit := (wire.length + 8) * sizes.length
  let p := phase1 R.read sizes limit 0 ((A.init, wire, fin) : R.σ) []
  (p.2.1, p.2.2.getD (.err 98))

open Req.Compress.Fmt in
/-- `c14dec <gzip|deflate|zstd> <wire> <fin> [<sizes>]` → `data=<hex> t=<end>`: what the reader of
that coding delivers for a body `wire` that ends with `fin`; with `sizes` (gzip, deflate) the
model's INCREMENTAL reader is read with those buffer sizes in turn (zero-length reads included)
instead of taking the whole-input meaning — by `read_size_independent` the two agree;
`unmodelled` when the stream leaves the modelled subset (a Huffman-coded / RLE / compressed block). -/
def laneDec : List String → String
  | fmt :: wire :: fin :: rest =>
    match decodeHex wire, parseTerm fin with
    | some w, some f =>
      let sizes : List Nat := match rest with
        | [s] => ((decodeNatList s).getD []).filter (fun _ => true)
        | _ => []
      let usable := !sizes.isEmpty && sizes.any (· > 0)
      let r : Option (Bytes × Term) :=
        if fmt == "gzip" then some (if usable then drainAuto (gzip ieee) w f sizes else (gzip ieee).mean f w gInit)
        else if fmt == "deflate" then some (if usable then drainAuto deflate w f sizes else deflate.mean f w .hdr)
        else if fmt == "zstd" then some (Req.Compress.Zstd.zmean Req.Compress.Zstd.xxh f w)
        else none
      match r with
      | none => "bad-op"
      | some (d, t) =>
        if t == errUnmodelled then "unmodelled" else "data=" ++ encodeHex d ++ " t=" ++ t.show
    | _, _ => "bad-op"
  | _ => "bad-op"

/-- `c14close <alg> <ops: r|c, comma separated>` → `body=<times the underlying Body.Close was
called> waits=<did any Close wait for the body>` after the reads and closes, on a fresh wrapper. -/
def laneClose : List String → String
  | [alg, ops] =>
    let a : Option Alg :=
      if alg == "gzip" then some .gzip else if alg == "deflate" then some .deflate
      else if alg == "br" then some .br else if alg == "zstd" then some .zstd else none
    let os : Option (List HOp) := (if ops == "-" then [] else ops.splitOn ",").mapM fun o =>
      if o == "r" then some HOp.read else if o == "c" then some HOp.close else none
    match a, os with
    | some a, some os =>
      let waits := (List.range os.length).any fun i =>
        os.getD i .read == .close && closeWaits a (runOps closeOf a .fresh (os.take i))
      "body=" ++ toString (runOps closeOf a .fresh os).bodyCloses ++ " waits=" ++ (if waits then "1" else "0")
    | _, _ => "bad-op"
  | _ => "bad-op"

def lanes : List (String × (List String → String)) := [
  ("c14select", laneSelect),
  ("c14x", exchange false),
  ("c14xlegacy", exchange true),
  ("c14xj", exchangeJ),
  ("c14seq", sequence),
  ("c14enc", laneEnc),
  ("c14dec", laneDec),
  ("c14close", laneClose),
  ("c14reader", laneReader)
]

end Req.Driver.L.C14
