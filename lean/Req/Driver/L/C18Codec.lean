import Req.Driver.Proto
import Req.Client.Result
/-! Shared encoders/decoders of the C18 driver lanes. -/
namespace Req.Driver.L.C18
open Req.Proto Req.Result

def parseBool : String → Option Bool
  | "0" => some false
  | "1" => some true
  | _ => none

def parseState : String → Option (Option ResultState)
  | "-" => some none
  | "S" => some (some .success)
  | "E" => some (some .error)
  | "U" => some (some .unknown)
  | _ => none

def showState : ResultState → String
  | .success => "S"
  | .error => "E"
  | .unknown => "U"

def showBool (b : Bool) : String := if b then "1" else "0"

def parseErr1 (s : String) : Option Err :=
  if s == "unm" then some .unmarshal
  else if s == "read" then some .read
  else if s == "getbody" then some .getBody
  else if s == "builtin" then some .builtin
  else if s == "builder" then some .builder
  else if s == "unreplay" then some .unreplayable
  else if s == "digest" then some .digest
  else if s == "output" then some .output
  else if s == "ctxcanceled" then some .ctxCanceled
  else if s == "ctxdone" then some .ctxDone
  else if s.startsWith "s" then (s.drop 1).toNat?.map fun n => .stage n
  else none

def parseErr (s : String) : Option (Option Err) :=
  if s == "-" then some none else (parseErr1 s).map some

def showErr : Option Err → String
  | none => "-"
  | some (.stage n) => "s" ++ toString n
  | some .unmarshal => "unm"
  | some .read => "read"
  | some .getBody => "getbody"
  | some .builtin => "builtin"
  | some .builder => "builder"
  | some .unreplayable => "unreplay"
  | some .digest => "digest"
  | some .output => "output"
  | some .ctxCanceled => "ctxcanceled"
  | some .ctxDone => "ctxdone"

/-- response-body transformer outcome: `-` none installed, `k` accepts, `n<err>` fails returning a
nil body, `b<err>` fails returning a body -/
def parseXf (s : String) : Option Xf :=
  if s == "-" then some .none
  else if s == "k" then some .ok
  else if s.startsWith "n" then (parseErr1 (s.drop 1).toString).map fun e => .fail e false
  else if s.startsWith "b" then (parseErr1 (s.drop 1).toString).map fun e => .fail e true
  else none

def showCodec : Option Codec → String
  | none => "-"
  | some .json => "json"
  | some .xml => "xml"

def showSlotErr : Option Target → String
  | none => "-"
  | some .errorReq => "R"
  | some .errorCommon => "C"
  | some .success => "?"

end Req.Driver.L.C18
