import Req.Driver.Proto
import Req.Pool.Cancel
import Req.Pool.CancelPool
import Req.Pool.CancelPoolLane
import Req.Pool.CancelH2
import Req.Pool.CancelErr
import Req.Pool.CancelH3
import Req.Pool.CancelDial
import Req.Pool.CancelResend
/-!
Driver lanes of C08.

* `c08maperr <errNil> <canceled> <reqErr> <kind> <nothingWritten> <broken>` — the decision of
  `persistConn.mapRoundTripError`.
* `c08retry <maxRetries> <k1,k2,…>` — `Request.do`'s retry decision on a scripted sequence of
  attempt results (`ok|canceled|deadline|other`): attempts made and the final result.
* `c08life <stack> <tls> <bodyChunks> <respChunks> <maxRetries> <sleepFact> <autoRead> <events> <cancel> <obs>`
  — the lifecycle model: replay the environment events the harness observed before the
  injection point, cancel, explore EVERY maximal run of internal steps (then let a detached
  background dial finish and, if the wait ignores the context, let the timer fire), and answer
  with the observed outcome if the model allows it, else with the first outcome it does allow.
* `c08snap <MaxConnsPerHost> <connsPerHost[k]> <connsPerHostWait[k] flags> <idleConnWait[k] flags> <idle conns>`
  — one in-package sample of the real HTTP/1.1 pool for one connection key (queue flags front
  first, `w` = still waiting, `d` = done, `-` = empty queue), judged by `CancelPool.Sample.verdict`
  (`Props.C08Pool.sample_ok`: `ok` on every reachable model state): `ok | over-limit | stranded |
  handoff-lost`.
* `c08pool <MaxIdleConns> <MaxIdleConnsPerHost> <MaxConnsPerHost> <DisableKeepAlives> <keys> <wants> <conns> <op,op,…>`
  — the forced-schedule lane: composite pool calls (`CancelPoolLane.MOp`) replayed on the pool
  model; answer = per op `<return value>/<state dump>`, joined with `;`.
* `c08h2cleanup <err> <sentHeaders> <sentEndStream> <peerClosed>` — `CancelH2.cleanupRule`.
* `c08h2flow <connClosed> <bodyClaimed> <aborted> <ctxDone> <avail> <maxBytes> <maxFrame>` —
  `CancelH2.flowDecision`.
* `c08h2life <hasBody> <expect> <respNoBody> <trace> <kind> <obs>` — the HTTP/2 lifecycle model:
  replay the trace (`ev:<Ev>`, `act:<Act>`, `settle` = run the internal steps to quiescence), cancel,
  explore EVERY maximal internal run; answer = the observed outcome if the model reaches it, else
  the first outcome it does reach.
* `c08h3life <hasBody> <trace> <kind> <obs>` — the HTTP/3 lifecycle model (`CancelH3`): replay the trace
  (`ev:<Ev>`, `act:<Act>`), cancel, explore EVERY maximal internal run; answer = the observed outcome
  (`ret=…;read=…;closes=…;upl=…;rst=…;stop=…`, `?` = not observed) if the model reaches it, else the first outcome it does reach.
* `c08dial <meStarter> <stage> <kind> <obs>` — the shared dial of the HTTP/2 connection pool (`CancelDial`): the
  dial is at `connect|handshake`, `me` (starter of the dial or joiner) has its context ended, EVERY maximal
  run of internal steps is explored; answer = the observed `me=<class>;other=<pending|conn|err|?>` if the
  model reaches it, else the first outcome it does reach (`me=hung` = still waiting for `call.done`).
* `c08errclass <src> <wrappers>` — `CancelErr.rel` seen through the wrappers (`u`rl.Error,
  `n`othingWrittenError, `r`eadFromServer, `b`roken conn; `-` = none): `c=<0|1> d=<0|1> t=<0|1>`.
* `c08resend <deaths> <safeMethod> <idemKey> <getBody> <point> <j> <kind>` — the transparent re-send loop of
  the HTTP/1 `Transport.roundTrip` (`CancelResend.run`): `res=<class> got=<GetBody calls> open=<bodies never
  closed> late=<attempts sent after the context ended>`.
-/
namespace Req.Driver.L.C08
open Req.Proto Req.Cancel

def bit (s : String) : Option Bool :=
  if s == "1" then some true else if s == "0" then some false else none

def laneMapErr : List String → String
  | [a, b, c, d, e, f] =>
    match bit a, bit c, bit e, bit f with
    | some errNil, some reqErr, some nw, some broken =>
      let canceled : Option (Option CtxErr) :=
        if b == "0" then some none else if b == "1" then some (some .canceled)
        else if b == "2" then some (some .deadline) else none
      let kind : Option ErrKind :=
        if d == "0" then some .serverClosedIdle else if d == "1" then some .readFromServer
        else if d == "2" then some .other else none
      match canceled, kind with
      | some cn, some k =>
        match mapRoundTripError ⟨errNil, cn, reqErr, k, nw, broken⟩ with
        | .nil => "nil"
        | .canceled .canceled => "canceled"
        | .canceled .deadline => "deadline"
        | .reqErr => "reqErr"
        | .serverClosedIdle => "serverClosedIdle"
        | .nothingWritten => "nothingWritten"
        | .plain => "plain"
        | .brokenWrapped => "brokenWrapped"
      | _, _ => "bad-op"
    | _, _, _, _ => "bad-op"
  | _ => "bad-op"

def parseResult (s : String) : Option Result :=
  if s == "ok" then some .ok
  else if s == "canceled" then some (.ctxErr .canceled)
  else if s == "deadline" then some (.ctxErr .deadline)
  else if s == "other" then some .netErr
  else none

def showResult : Result → String
  | .pending => "pending"
  | .ok => "ok"
  | .ctxErr .canceled => "canceled"
  | .ctxErr .deadline => "deadline"
  | .h3Canceled => "h3cancel"
  | .netErr => "other"

/-- run `finish` over a scripted list of attempt results -/
def retryLoop (cfg : Cfg) : List Result → St → Nat → String
  | [], _, n => s!"attempts={n} exhausted"
  | r :: rest, s, n =>
    let s' := finish cfg s r
    if s'.phase == .done then s!"attempts={n + 1} final={showResult s'.result}"
    else retryLoop cfg rest s' (n + 1)

def laneRetry : List String → String
  | [m, ks] =>
    -- a negative MaxRetries means "retry without limit": on a finite script that is any limit
    -- beyond the script's length
    match m.toInt?, (ks.splitOn ",").mapM parseResult with
    | some mr, some rs =>
      retryLoop { stack := .h1, maxRetries := if mr < 0 then rs.length + 1 else mr.toNat } rs {} 0
    | _, _ => "bad-op"
  | _ => "bad-op"

def parseStack (s : String) : Option Stack :=
  if s == "h1" then some .h1 else if s == "h2" then some .h2 else if s == "h3" then some .h3 else none

def parseEv (s : String) : Option Ev :=
  if s == "connIdle" then some .connIdle
  else if s == "dialStart" then some .dialStart
  else if s == "dialDone" then some .dialDone
  else if s == "hsDone" then some .hsDone
  else if s == "wrote" then some .wrote
  else if s == "gotHeaders" then some .gotHeaders
  else if s == "gotBody" then some .gotBody
  else if s == "attemptFails" then some .attemptFails
  else if s == "sleepElapse" then some .sleepElapse
  else none

/-- a trace token: an environment event, or `inflight` = "the request is on its connection"
(observed on h3, where the arrival of the request head at the peer is not a model event) -/
inductive Tok | ev (e : Ev) | inflight

def parseTok (s : String) : Option Tok :=
  if s == "inflight" then some .inflight else (parseEv s).map .ev

/-- replay one observed token; the internal pick-up of a delivered connection is implicit -/
def replay1 (cfg : Cfg) (s : St) : Tok → Option St
  | .ev e =>
    if evGuard cfg s e then some (evApply cfg s e)
    else if guard cfg s .deliver then
      let s' := apply cfg s .deliver
      if evGuard cfg s' e then some (evApply cfg s' e) else none
    else none
  | .inflight =>
    if guard cfg s .deliver then some (apply cfg s .deliver)
    else if s.phase.inflight || s.phase.body then some s else none

def replay (cfg : Cfg) : St → List Tok → Option St
  | s, [] => some s
  | s, e :: es => match replay1 cfg s e with
    | some s' => replay cfg s' es
    | none => none

/-- after the internal steps are exhausted: a detached background dial finishes, a context-blind
sleep ends with its timer; then internal steps again -/
def settle (cfg : Cfg) : Nat → St → List St
  | 0, s => [s]
  | fuel + 1, s =>
    (finals cfg 24 s).flatMap fun t =>
      if evGuard cfg t .dialDone && !t.phase.preConn then settle cfg fuel (evApply cfg t .dialDone)
      else if evGuard cfg t .hsDone && false then [t]
      else if t.phase == .retrySleep && evGuard cfg t .sleepElapse then
        settle cfg fuel (evApply cfg t .sleepElapse)
      else [t]

structure Outcome where
  res : String
  body : String
  conn : String
  rst : String
  sleeps : String
  deriving BEq

def outcomeOf (cfg : Cfg) (s0 t : St) : Outcome :=
  { res := if t.phase == .done then showResult t.result else "running",
    body := if t.res.bodyOpen then "open"
            else if cfg.bodyChunks == 0 then "none"
            else if t.res.closes == 1 then "closed1" else s!"closed{t.res.closes}",
    conn := match t.res.conn with
      | .pooled => "reuse"
      | .none | .closed => "new"
      | .bgDial => "dialing"
      | .ready | .owned => "held",
    rst := if t.res.stream == .reset then "1" else "0",
    sleeps := toString (t.sleepsDone - s0.sleepsDone) }

def Outcome.show (o : Outcome) : String :=
  s!"res={o.res} body={o.body} conn={o.conn} rst={o.rst} sleeps={o.sleeps}"

def fieldOf (pref : String) (tok : String) : Option String :=
  if tok.startsWith pref then some ((tok.drop pref.length).toString) else none

def parseObs : List String → Option Outcome
  | [a, b, c, d, e] => do
    let res ← fieldOf "res=" a
    let body ← fieldOf "body=" b
    let conn ← fieldOf "conn=" c
    let rst ← fieldOf "rst=" d
    let sleeps ← fieldOf "sleeps=" e
    pure { res, body, conn, rst, sleeps }
  | _ => none

def fieldMatch (obs model : String) : Bool := obs == "?" || obs == model

def Outcome.matches (obs m : Outcome) : Bool :=
  fieldMatch obs.res m.res && fieldMatch obs.body m.body && fieldMatch obs.conn m.conn &&
  fieldMatch obs.rst m.rst && fieldMatch obs.sleeps m.sleeps

def laneLife : List String → String
  | stack :: tls :: bc :: rc :: mr :: fact :: auto :: evs :: cancel :: obs =>
    let racy := evs.endsWith "~"
    let evs := if racy then (evs.dropEnd 1).toString else evs
    match parseStack stack, bit tls, bc.toNat?, rc.toNat?, mr.toNat?, bit fact, bit auto,
          (if evs == "-" then some [] else (evs.splitOn ",").mapM parseTok), parseObs obs with
    | some st, some tl, some b, some r, some m, some f, some au, some es, some ob =>
      let cfg : Cfg := { stack := st, tls := tl, bodyChunks := b, respChunks := r, maxRetries := m,
                         sleepSelectsCtx := f, autoRead := au }
      -- `timeout` = the deadline is http.Client's Timeout: its timer goroutine and the context
      -- deadline race, so a later body-read error is or is not rewritten by cancelTimerBody —
      -- both variants of the model are explored
      let cfgs : List Cfg := if cancel == "timeout" then [{ cfg with clientTimer := true }, cfg] else [cfg]
      let kind : Option CtxErr :=
        if cancel == "canceled" then some .canceled
        else if cancel == "deadline" || cancel == "timeout" then some .deadline
        else none
      -- a trailing `~` on the trace: the response events were observed at the PEER (sent); the
      -- client may lag behind by any number of them — every such state is explored
      let isResp : Tok → Bool
        | .ev .gotHeaders | .ev .gotBody => true
        | _ => false
      let nResp := (es.reverse.takeWhile isResp).length
      let alts : List St := if racy then
          (List.range nResp).filterMap fun k => replay cfg (init cfg) (es.take (es.length - (k + 1)))
        else []
      match kind, replay cfg (init cfg) es with
      | some k, some s =>
        -- a connection delivered before the harness observed the next step may or may not have
        -- been picked up: both orders are explored (the pick-up is an internal action)
        if evGuard cfg s (.cancel k) then
          let outs := cfgs.flatMap fun cfg => (s :: alts).flatMap fun t =>
            if evGuard cfg t (.cancel k) then (settle cfg 6 (evApply cfg t (.cancel k))).map (outcomeOf cfg t)
            else []
          match outs.find? (Outcome.matches ob) with
          | some _ => Outcome.show ob
          | none => match outs with
            | o :: _ => Outcome.show o
            | [] => "no-outcome"
        else "cancel-not-enabled"
      | none, _ => "bad-op"
      | _, none => "bad-trace"
    | _, _, _, _, _, _, _, _, _ => "bad-op"
  | _ => "bad-op"

def laneResend : List String → String
  | [d, sm, ik, gb, pt, j, kind] =>
    let point : Option Req.CancelResend.Point :=
      if pt == "none" then some .none else if pt == "start" then some .start
      else if pt == "received" then some .received
      else if pt == "rewound" then j.toNat?.map .rewound else none
    let k : Option CtxErr :=
      if kind == "canceled" then some .canceled else if kind == "deadline" then some .deadline else none
    match d.toNat?, bit sm, bit ik, bit gb, point, k with
    | some d, some sm, some ik, some gb, some p, some k =>
      match Req.CancelResend.run ⟨d, sm, ik, gb, p, k⟩ with
      | some o => o.show
      | none => "no-outcome"
    | _, _, _, _, _, _ => "bad-op"
  | _ => "bad-op"

def parseFlags (s : String) : Option (List Bool) :=
  if s == "-" then some []
  else s.toList.mapM fun c => if c == 'w' then some true else if c == 'd' then some false else none

def laneSnap : List String → String
  | [mx, cph, dw, iw, idle] =>
    match mx.toInt?, cph.toNat?, parseFlags dw, parseFlags iw, idle.toNat? with
    | some m, some c, some d, some i, some n =>
      (Req.Pool.CancelPool.Sample.verdict ⟨m, c, d, i, n⟩).show
    | _, _, _, _, _ => "bad-op"
  | _ => "bad-op"

def lanePool : List String → String
  | [mi, mih, mc, dk, nk, nw, nc, ops] =>
    match mi.toNat?, mih.toInt?, mc.toInt?, bit dk, nk.toNat?, nw.toNat?, nc.toNat?,
          (if ops == "-" then some [] else (ops.splitOn ",").mapM Req.Pool.CancelPoolLane.parseOp) with
    | some maxIdle, some maxIdleHost, some maxConns, some dka, some nKeys, some nWants, some nConns, some l =>
      ";".intercalate (Req.Pool.CancelPoolLane.runLane ⟨maxIdle, maxIdleHost, maxConns, dka⟩ nKeys nWants nConns {} l)
    | _, _, _, _, _, _, _, _ => "bad-op"
  | _ => "bad-op"


/-! ### HTTP/2 lifecycle lanes -/
section H2
open Req.CancelH2

def parseWErr (s : String) : Option WErr :=
  if s == "nil" then some .nil else if s == "canceled" then some (.ctx .canceled)
  else if s == "deadline" then some (.ctx .deadline) else if s == "fromPeer" then some .fromPeer
  else if s == "streamLocal" then some .streamLocal else if s == "other" then some .other else none

def showCode : Code → String
  | .cancel => "cancel" | .noError => "noError" | .local => "local"

def laneH2Cleanup : List String → String
  | [e, a, b, c] =>
    match parseWErr e, bit a, bit b, bit c with
    | some err, some sh, some se, some pc =>
      "rst=" ++ (match cleanupRule ⟨err, sh, se, pc⟩ with | some c => showCode c | none => "none")
    | _, _, _, _ => "bad-op"
  | _ => "bad-op"

def laneH2Flow : List String → String
  | [a, b, c, d, av, mb, mf] =>
    match bit a, bit b, bit c, bit d, av.toNat?, mb.toNat?, mf.toNat? with
    | some cc, some cl, some ab, some cx, some avail, some maxBytes, some maxFrame =>
      match flowDecision ⟨cc, cl, ab, cx, avail, maxBytes, maxFrame⟩ with
      | .connClosed => "connClosed" | .stop => "stop" | .abortErr => "abortErr" | .ctxErr => "ctxErr"
      | .take n => "take " ++ toString n | .wait => "wait"
    | _, _, _, _, _, _, _ => "bad-op"
  | _ => "bad-op"

def parseH2Ev (s : String) : Option Req.CancelH2.Ev :=
  if s == "hdrMuFree" then some .hdrMuFree else if s == "slotFree" then some .slotFree
  else if s == "continue100" then some .continue100 else if s == "flowTake" then some .flowTake
  else if s == "peerHeaders" then some .peerHeaders else if s == "peerEnd" then some .peerEnd
  else if s == "peerRst" then some .peerRst else if s == "callerClose" then some .callerClose else none

def h2ActName : Req.CancelH2.Act → String
  | .wHdrMuCancel => "wHdrMuCancel" | .wSlotAbort => "wSlotAbort" | .wHeaders => "wHeaders"
  | .wContCancel => "wContCancel" | .wReadChunk => "wReadChunk" | .wReadEOF => "wReadEOF"
  | .wBodyStop => "wBodyStop" | .wFlowExit => "wFlowExit" | .wData => "wData"
  | .wEndStream => "wEndStream" | .wPeerDone => "wPeerDone" | .wPeerAbort => "wPeerAbort"
  | .wCleanupClaim => "wCleanupClaim" | .wCleanupClose => "wCleanupClose"
  | .wCleanupFinish => "wCleanupFinish" | .rHeaders => "rHeaders" | .rAbort => "rAbort"
  | .rCtx => "rCtx" | .rWaitBody => "rWaitBody" | .rWaitDone => "rWaitDone"
  | .rHdrWaitDone => "rHdrWaitDone" | .closerRun => "closerRun"

def parseH2Act (s : String) : Option Req.CancelH2.Act :=
  Req.CancelH2.allActs.find? (fun a => h2ActName a == s)

/-- one trace token applied to every state of the current set; `none` = the trace does not fit -/
def h2Tok (ss : List Req.CancelH2.St) (tok : String) : Option (List Req.CancelH2.St) :=
  if tok == "settle" then some (ss.flatMap (Req.CancelH2.finals 40))
  else match tok.splitOn ":" with
    | ["ev", n] => do
      let e ← parseH2Ev n
      ss.mapM fun s => if Req.CancelH2.evGuard s e then some (Req.CancelH2.evApply s e) else none
    | ["act", n] => do
      let a ← parseH2Act n
      ss.mapM fun s => if Req.CancelH2.guard s a then some (Req.CancelH2.apply s a) else none
    | _ => none

def h2Class (kind : CtxErr) : Option WErr → String
  | some (.ctx e) => if e == kind then (if kind == .canceled then "canceled" else "deadline") else "other"
  | _ => "other"

def h2Outcome (kind : CtxErr) (s t : Req.CancelH2.St) : String :=
  let ret := match t.rpc with
    | .returned .resp => "resp"
    | .returned (.err e) => h2Class kind (some e)
    | _ => "hung"
  let pendingRead := s.rpc == .returned .resp && !s.respNoBody && !s.peerClosed
  let read := if pendingRead then h2Class kind t.abort else "-"
  let rst := if t.rsts.isEmpty then "-" else "+".intercalate (t.rsts.map showCode)
  "ret=" ++ ret ++ ";read=" ++ read ++ ";closes=" ++ toString t.closes ++ ";rst=" ++ rst ++
  ";data=" ++ toString (t.dataWrites - s.dataWrites) ++ ";rel=" ++ (if released t then "1" else "0")

def laneH2Life : List String → String
  | [hb, ex, nb, tr, kind, obs] =>
    match bit hb, bit ex, bit nb with
    | some hasBody, some expect, some respNoBody =>
      let k : Option CtxErr := if kind == "canceled" then some .canceled
        else if kind == "deadline" then some .deadline else none
      let toks := if tr == "-" || tr == "" then [] else tr.splitOn ","
      match k, toks.foldlM h2Tok [Req.CancelH2.init hasBody expect respNoBody] with
      | some k, some ss =>
        let outs := ss.flatMap fun s =>
          let s0 := if Req.CancelH2.evGuard s (.cancel k) then Req.CancelH2.evApply s (.cancel k) else s
          (Req.CancelH2.finals 40 s0).map (h2Outcome k s)
        if outs.contains obs then obs
        else match outs with
          | o :: _ => o
          | [] => "no-outcome"
      | none, _ => "bad-op"
      | _, none => "bad-trace"
    | _, _, _ => "bad-op"
  | _ => "bad-op"

end H2

/-! ### HTTP/3 lifecycle lane -/
section H3

def parseH3Ev (s : String) : Option Req.CancelH3.Ev :=
  if s == "hsDone" then some .hsDone else if s == "streamOpen" then some .streamOpen
  else if s == "credit" then some .credit else if s == "peerHeaders" then some .peerHeaders
  else if s == "peerEnd" then some .peerEnd else if s == "peerReset" then some .peerReset
  else if s == "callerClose" then some .callerClose else if s == "callerEOF" then some .callerEOF
  else if s == "peerInterim" then some .peerInterim else none

def h3ActName : Req.CancelH3.Act → String
  | .cHsCancel => "cHsCancel" | .cOpenCancel => "cOpenCancel" | .cSendHdr => "cSendHdr"
  | .cRespOk => "cRespOk" | .cRespFail => "cRespFail" | .cFailSig => "cFailSig" | .cFailJoin => "cFailJoin"
  | .cBodyReadFail => "cBodyReadFail" | .wFireW => "wFireW" | .wFireR => "wFireR" | .wExit => "wExit"
  | .uRead => "uRead" | .uEOF => "uEOF" | .uWriteFail => "uWriteFail" | .uClose => "uClose" | .uFin => "uFin"

def parseH3Act (s : String) : Option Req.CancelH3.Act :=
  Req.CancelH3.allActs.find? (fun a => h3ActName a == s)

def h3Tok (s : Req.CancelH3.St) (tok : String) : Option Req.CancelH3.St :=
  match tok.splitOn ":" with
  | ["ev", n] => do
    let e ← parseH3Ev n
    if Req.CancelH3.evGuard s e then some (Req.CancelH3.evApply s e) else none
  | ["act", n] => do
    let a ← parseH3Act n
    if Req.CancelH3.guard s a then some (Req.CancelH3.apply s a) else none
  | _ => none

def h3ErrClass (kind : CtxErr) : Req.CancelH3.Err → String
  | .ctx e => if e == kind then (if kind == .canceled then "canceled" else "deadline") else "other"
  | .h3cancel => "h3cancel"
  | .peer => "other"

/-- what the lanes can see of a final state: what the call returned, what the pending body read
returned, Close calls on the request body, whether the upload goroutine is gone, whether the peer
saw the send side reset -/
def h3Outcome (kind : CtxErr) (t : Req.CancelH3.St) : String :=
  let ret := match t.cpc with
    | .returned .resp => "resp"
    | .returned (.err e) => h3ErrClass kind e
    | _ => "hung"
  let read := match t.readRes with
    | some e => h3ErrClass kind e
    | none => "-"
  let upl := if t.upl == .none || t.upl == .done then "gone" else "parked"
  "ret=" ++ ret ++ ";read=" ++ read ++ ";closes=" ++ toString t.closes ++ ";upl=" ++ upl ++
  ";rst=" ++ (if t.send == .cancelled then "1" else "0") ++
  ";stop=" ++ (if t.recv == .cancelled then "1" else "0")

/-- field-wise comparison; a `?` in the observation = the lane could not see that field -/
def h3Matches (obs out : String) : Bool :=
  let o := obs.splitOn ";"
  let m := out.splitOn ";"
  o.length == m.length &&
  (o.zip m).all fun (a, b) => a == b ||
    (match a.splitOn "=", b.splitOn "=" with
     | [ka, va], [kb, _] => ka == kb && va == "?"
     | _, _ => false)

def laneH3Life : List String → String
  | [hb, tr, kind, obs] =>
    match bit hb with
    | some hasBody =>
      let k : Option CtxErr := if kind == "canceled" then some .canceled
        else if kind == "deadline" then some .deadline else none
      let toks := if tr == "-" || tr == "" then [] else tr.splitOn ","
      match k, toks.foldlM h3Tok (Req.CancelH3.init hasBody) with
      | some k, some s =>
        let s0 := if Req.CancelH3.evGuard s (.cancel k) then Req.CancelH3.evApply s (.cancel k) else s
        let outs := (Req.CancelH3.finals 20 s0).map (h3Outcome k)
        if outs.any (h3Matches obs) then obs
        else match outs with
          | o :: _ => o
          | [] => "no-outcome"
      | none, _ => "bad-op"
      | _, none => "bad-trace"
    | none => "bad-op"
  | _ => "bad-op"

end H3

/-! ### the shared dial of the HTTP/2 pool -/

def dialOutcome (kind : CtxErr) (t : Req.CancelDial.St) : String :=
  let cls := fun (e : CtxErr) => if e == kind then (if kind == .canceled then "canceled" else "deadline") else "other"
  let me := match t.me with
    | .waiting => "hung"
    | .returned (.ctxErr e) => cls e
    | .returned .conn => "conn"
    | .returned .retry => "retry"
    | .returned .dialErr => "other"
  let other := match t.other with
    | .waiting | .returned .retry => "pending"   -- (a joiner sent round the loop dials the silent peer again)
    | .returned .conn => "conn"
    | _ => "err"
  "me=" ++ me ++ ";other=" ++ other

def laneDial : List String → String
  | [st, stage, kind, obs] =>
    let k : Option CtxErr := if kind == "canceled" then some .canceled
      else if kind == "deadline" then some .deadline else none
    let d : Option Req.CancelDial.Dial := if stage == "connect" then some .connecting
      else if stage == "handshake" then some .handshaking else none
    match bit st, d, k with
    | some starter, some d, some k =>
      let s0 : Req.CancelDial.St := { dial := d, meStarter := starter }
      let outs := (Req.CancelDial.finals 6 (Req.CancelDial.evApply s0 (.cancel k))).map (dialOutcome k)
      if outs.any (h3Matches obs) then obs
      else match outs with
        | o :: _ => o
        | [] => "no-outcome"
    | _, _, _ => "bad-op"
  | _ => "bad-op"

def parseSrc (s : String) : Option Req.CancelErr.Src :=
  if s == "ctxCanceled" then some .ctxCanceled else if s == "ctxDeadline" then some .ctxDeadline
  else if s == "respHeaderTimeout" then some .respHeaderTimeout
  else if s == "tlsHandshakeTimeout" then some .tlsHandshakeTimeout
  else if s == "h2RespHeaderTimeout" then some .h2RespHeaderTimeout
  else if s == "reqCanceled" then some .reqCanceled else if s == "reqCanceledConn" then some .reqCanceledConn
  else if s == "serverClosedIdle" then some .serverClosedIdle else if s == "io" then some .io else none

def laneErrClass : List String → String
  | [src, ws] =>
    let wl : Option (List Req.CancelErr.Wrap) :=
      if ws == "-" then some [] else ws.toList.mapM fun c =>
        if c == 'u' then some .urlError else if c == 'n' then some .nothingWritten
        else if c == 'r' then some .readFromServer else if c == 'b' then some .brokenConn else none
    match parseSrc src, wl with
    | some s, some l =>
      let r := Req.CancelErr.seen l (Req.CancelErr.rel s)
      let f := fun (b : Bool) => if b then "1" else "0"
      "c=" ++ f r.isCanceled ++ " d=" ++ f r.isDeadline ++ " t=" ++ f r.timeout
    | _, _ => "bad-op"
  | _ => "bad-op"

def lanes : List (String × (List String → String)) := [
  ("c08errclass", laneErrClass),
  ("c08h2cleanup", laneH2Cleanup),
  ("c08h2flow", laneH2Flow),
  ("c08h2life", laneH2Life),
  ("c08h3life", laneH3Life),
  ("c08dial", laneDial),
  ("c08snap", laneSnap),
  ("c08pool", lanePool),
  ("c08maperr", laneMapErr),
  ("c08retry", laneRetry),
  ("c08life", laneLife),
  ("c08resend", laneResend)
]

end Req.Driver.L.C08
