import Req.Driver.Proto
/-! Driver lanes of C08. -/
namespace Req.Driver.L.C08
open Req.Proto

def lanes : List (String × (List String → String)) := []

end Req.Driver.L.C08
