import Req.Driver.Proto
import Req.H1.Response
/-! Driver lanes of C04 (also used by C03).

`c04parse <H|G> <B> <hex stream>` → canonical rendering of `parseResponse`.
`c04chunk <B> <hex stream>` → the chunked reader alone.
`c04mime <hex stream>` → the header block reader alone.
-/
namespace Req.Driver.L.C04
open Req.Proto Req.H1

def bytesLe : Bytes → Bytes → Bool
  | [], _ => true
  | _ :: _, [] => false
  | a :: as, b :: bs => if a < b then true else if b < a then false else bytesLe as bs

def renderMap (m : HeaderMap) : String :=
  if m.isEmpty then "-" else
  let sorted := m.mergeSort (fun a b => bytesLe a.1 b.1)
  ";".intercalate (sorted.map fun (k, vs) => encodeHex k ++ "=" ++ encodeList vs)

def renderFraming : RespFraming → String
  | .none => "none"
  | .length n => "len" ++ toString n
  | .chunked => "chunked"
  | .untilClose => "close"

def renderBool (b : Bool) : String := if b then "1" else "0"

def renderOutcome : Outcome → String
  | .reject => "rej"
  | .resp m b =>
    "ok proto=" ++ encodeHex m.sl.proto ++ " status=" ++ encodeHex m.sl.status ++
    " code=" ++ toString m.sl.code ++ " ver=" ++ toString m.sl.major ++ "." ++ toString m.sl.minor ++
    " hdr=" ++ renderMap m.header ++ " cl=" ++ toString m.contentLength ++
    " te=" ++ renderBool m.teChunked ++ " close=" ++ renderBool m.close ++
    " framing=" ++ renderFraming m.framing ++
    " body=" ++ encodeHex b.data ++ " end=" ++ (if b.ok then "eof" else "err") ++
    " trailer=" ++ renderMap b.trailer ++
    " rest=" ++ (if b.ok then encodeHex b.rest else "?")

def laneParse : List String → String
  | [meth, b, hex] =>
    match b.toNat?, decodeHex hex with
    | some B, some s =>
      if meth == "H" then renderOutcome (parseResponse true B s)
      else if meth == "G" then renderOutcome (parseResponse false B s)
      else "bad-op"
    | _, _ => "bad-op"
  | _ => "bad-op"

def laneChunk : List String → String
  | [b, hex] =>
    match b.toNat?, decodeHex hex with
    | some B, some s =>
      match decodeChunked B s with
      | (d, none) => "err body=" ++ encodeHex d
      | (d, some r) => "eof body=" ++ encodeHex d ++ " rest=" ++ encodeHex r
    | _, _ => "bad-op"
  | _ => "bad-op"

def laneMime : List String → String
  | [hex] =>
    match decodeHex hex with
    | some s =>
      match readMIMEHeader s with
      | none => "rej"
      | some (m, r) => "ok hdr=" ++ renderMap m ++ " rest=" ++ encodeHex r
    | none => "bad-op"
  | _ => "bad-op"

def lanes : List (String × (List String → String)) := [
  ("c04parse", laneParse),
  ("c04chunk", laneChunk),
  ("c04mime", laneMime)
]

end Req.Driver.L.C04
