import Req.Driver.Proto
/-! Driver lanes of C04. -/
namespace Req.Driver.L.C04
open Req.Proto

def lanes : List (String × (List String → String)) := []

end Req.Driver.L.C04
