import Req.Driver.Proto
import Req.H1.Response
import Req.H1.Conn
import Req.H1.ErrClass
import Req.H1.BufAlias
import Req.H1.AliasMime
/-! Driver lanes of C04 (also used by C03).

`c04parse <H|G> <B> <hex stream>` → canonical rendering of `parseResponse`.
`c04chunk <B> <hex stream>` → the chunked reader alone.
`c04mime <hex stream>` → the header block reader alone.
`c04parseE`, `c04chunkE` → the same with the error class (`rej:<class>`, `end=err:<class>`,
`err:<class>`): eof | status | header | te | cl | trailerkey | chunk | toolong.
`c04conn <B> <reqs> <scripts>` → `transportRun`: a sequence of requests through the Transport over
scripted connections.  `reqs`: comma-joined tokens `<G|H><c|k><e|n><F|P<k>>` (method HEAD or not,
Request.Close or keep, Expect: 100-continue or not, body read fully / `k` bytes then Close).
`scripts`: connections joined by `|`, each `<E|O>:<segments>` (peer closes after the last segment /
keeps the connection open; segments comma-joined hex, segment j sent once request j was written).
Answer: the per-request views joined by ` | `, then ` dials=<n>`.
-/
namespace Req.Driver.L.C04
open Req.Proto Req.H1

def bytesLe : Bytes → Bytes → Bool
  | [], _ => true
  | _ :: _, [] => false
  | a :: as, b :: bs => if a < b then true else if b < a then false else bytesLe as bs

def renderMap (m : HeaderMap) : String :=
  if m.isEmpty then "-" else
  let sorted := m.mergeSort (fun a b => bytesLe a.1 b.1)
  ";".intercalate (sorted.map fun (k, vs) => encodeHex k ++ "=" ++ encodeList vs)

def renderFraming : RespFraming → String
  | .none => "none"
  | .length n => "len" ++ toString n
  | .chunked => "chunked"
  | .untilClose => "close"

def renderBool (b : Bool) : String := if b then "1" else "0"

def renderOutcome : Outcome → String
  | .reject => "rej"
  | .resp m b =>
    "ok proto=" ++ encodeHex m.sl.proto ++ " status=" ++ encodeHex m.sl.status ++
    " code=" ++ toString m.sl.code ++ " ver=" ++ toString m.sl.major ++ "." ++ toString m.sl.minor ++
    " hdr=" ++ renderMap m.header ++ " cl=" ++ toString m.contentLength ++
    " te=" ++ renderBool m.teChunked ++ " close=" ++ renderBool m.close ++
    " framing=" ++ renderFraming m.framing ++
    " body=" ++ encodeHex b.data ++ " end=" ++ (if b.ok then "eof" else "err") ++
    " trailer=" ++ renderMap b.trailer ++
    " rest=" ++ (if b.ok then encodeHex b.rest else "?")

def laneParse : List String → String
  | [meth, b, hex] =>
    match b.toNat?, decodeHex hex with
    | some B, some s =>
      if meth == "H" then renderOutcome (parseResponse true B s)
      else if meth == "G" then renderOutcome (parseResponse false B s)
      else "bad-op"
    | _, _ => "bad-op"
  | _ => "bad-op"

def laneChunk : List String → String
  | [b, hex] =>
    match b.toNat?, decodeHex hex with
    | some B, some s =>
      match decodeChunked B s with
      | (d, none) => "err body=" ++ encodeHex d
      | (d, some r) => "eof body=" ++ encodeHex d ++ " rest=" ++ encodeHex r
    | _, _ => "bad-op"
  | _ => "bad-op"

def laneMime : List String → String
  | [hex] =>
    match decodeHex hex with
    | some s =>
      match readMIMEHeader s with
      | none => "rej"
      | some (m, r) => "ok hdr=" ++ renderMap m ++ " rest=" ++ encodeHex r
    | none => "bad-op"
  | _ => "bad-op"


def renderClass : ErrClass → String
  | .eof => "eof"
  | .statusLine => "status"
  | .header => "header"
  | .transferEncoding => "te"
  | .contentLength => "cl"
  | .trailerKey => "trailerkey"
  | .chunk => "chunk"
  | .tooLong => "toolong"

def renderOutcomeE : OutcomeE → String
  | .reject c => "rej:" ++ renderClass c
  | .resp m b e =>
    "ok proto=" ++ encodeHex m.sl.proto ++ " status=" ++ encodeHex m.sl.status ++
    " code=" ++ toString m.sl.code ++ " ver=" ++ toString m.sl.major ++ "." ++ toString m.sl.minor ++
    " hdr=" ++ renderMap m.header ++ " cl=" ++ toString m.contentLength ++
    " te=" ++ renderBool m.teChunked ++ " close=" ++ renderBool m.close ++
    " framing=" ++ renderFraming m.framing ++
    " body=" ++ encodeHex b.data ++ " end=" ++
      (match e with
       | none => if b.ok then "eof" else "err:?"
       | some c => "err:" ++ renderClass c) ++
    " trailer=" ++ renderMap b.trailer ++
    " rest=" ++ (if b.ok then encodeHex b.rest else "?")

def laneParseE : List String → String
  | [meth, b, hex] =>
    match b.toNat?, decodeHex hex with
    | some B, some s =>
      if meth == "H" then renderOutcomeE (parseResponseE true B s)
      else if meth == "G" then renderOutcomeE (parseResponseE false B s)
      else "bad-op"
    | _, _ => "bad-op"
  | _ => "bad-op"

def laneChunkE : List String → String
  | [b, hex] =>
    match b.toNat?, decodeHex hex with
    | some B, some s =>
      match decodeChunkedE B s with
      | (d, .error c) => "err:" ++ renderClass c ++ " body=" ++ encodeHex d
      | (d, .ok r) => "eof body=" ++ encodeHex d ++ " rest=" ++ encodeHex r
    | _, _ => "bad-op"
  | _ => "bad-op"

def parseReq (t : String) : Option ConnReq :=
  match t.toList with
  | m :: c :: e :: rest =>
    let isHead? := if m == 'H' then some true else if m == 'G' then some false else none
    let close? := if c == 'c' then some true else if c == 'k' then some false else none
    let exp? := if e == 'e' then some true else if e == 'n' then some false else none
    let cons? : Option Consume :=
      match rest with
      | ['F'] => some .full
      | 'P' :: ds => (String.ofList ds).toNat?.map .part
      | _ => none
    match isHead?, close?, exp?, cons? with
    | some h, some c, some e, some k => some ⟨h, c, e, k⟩
    | _, _, _, _ => none
  | _ => none

def parseScript (t : String) : Option ConnScript :=
  match t.splitOn ":" with
  | [f, segs] =>
    let eof? := if f == "E" then some true else if f == "O" then some false else none
    match eof?, decodeList segs with
    | some e, some l => some ⟨l, e⟩
    | _, _ => none
  | _ => none

def renderEnd : BodyEnd → String
  | .eof => "eof"
  | .err => "err"
  | .closed => "closed"
  | .raw => "raw"

def renderDelivery : Delivery → String
  | .fail => "fail"
  | .resp m seen e tr =>
    "ok proto=" ++ encodeHex m.sl.proto ++ " status=" ++ encodeHex m.sl.status ++
    " code=" ++ toString m.sl.code ++
    " hdr=" ++ renderMap m.header ++ " cl=" ++ toString m.contentLength ++
    " te=" ++ renderBool m.teChunked ++ " close=" ++ renderBool m.close ++
    " body=" ++ encodeHex seen ++ " end=" ++ renderEnd e ++
    " trailer=" ++ renderMap tr

def laneConn : List String → String
  | [b, reqs, scripts] =>
    match b.toNat?, (reqs.splitOn ",").mapM parseReq, (scripts.splitOn "|").mapM parseScript with
    | some B, some qs, some scs =>
      let (ds, n) := transportRun B qs ⟨none, scs, 0⟩
      " | ".intercalate (ds.map renderDelivery) ++ " dials=" ++ toString n
    | _, _, _ => "bad-op"
  | _ => "bad-op"

/-- `c04cut <G|H> <eof|hold> <hex stream> <k>` (the keepalive lane; same answer format as C03's
`c03cut`, kept here so that the C04 check does not depend on another property's driver file):
the peer answers the first request with the first `k` bytes of the stream and then closes
(`eof`) or keeps the connection open (`hold`); outcome of the first request and the number of
connections after a second one. -/
def laneCut : List String → String
  | [meth, mode, hex, ks] =>
    match decodeHex hex, ks.toNat? with
    | some s, some k =>
      if meth != "G" && meth != "H" then "bad-op"
      else if mode != "eof" && mode != "hold" then "bad-op"
      else
        let isHead := meth == "H"
        let o := parseFinal isHead 4096 (s.take k)
        let env : ReuseEnv := ⟨false, isHead, false, mode == "eof", true, true, true⟩
        let dials := if connReusable o env then "1" else "2"
        match o with
        | .reject => "fail dials=" ++ dials
        | .resp m b =>
          if b.ok then "ok code=" ++ toString m.sl.code ++ " body=" ++ encodeHex b.data ++ " dials=" ++ dials
          else "fail dials=" ++ dials
    | _, _ => "bad-op"
  | _ => "bad-op"

/-- `c04alias <B> <segments>` (round 5): `readContinuedLineSlice` called until the blank line or
the first error on a `bufio.Reader` of size `B` whose connection delivers exactly the given
segments (comma-joined hex, none empty), then EOF — the explicit-array model
`Req.H1.BufAlias.aheadLines` with the code's guard (`Buffered() > 1`).  Answer: the lines as the
returned slices read at return time, how the loop ended, the bytes left unread. -/
def laneAlias : List String → String
  | [b, segs] =>
    match b.toNat?, decodeList segs with
    | some B, some ss =>
      if B < 16 then "bad-op" else
      let src : List BufLine.Chunk := ss.map fun d => ⟨d, none⟩
      let total := (ss.map List.length).foldl (· + ·) 0
      let (ls, e, a) := BufAlias.aheadLines B 1 (fun l => l.contains 58) (total + 2) (BufAlias.ARd.init B src)
      let ending := match e with
        | .ok _ => "blank"
        | .invalid => "invalid"
        | .err (.src .eof) => "err:eof"
        | .err _ => "err:other"
      "lines=" ++ encodeList ls ++ " end=" ++ ending ++ " rest=" ++ encodeHex a.rd.bytes
    | _, _ => "bad-op"
  | _ => "bad-op"

/-- `c04amime <B> <segments>`: `readMIMEHeader`'s loop over the explicit-array reader
(`BufAlias.amimeLoop`) on the given segments: `<map> err=<class|-> rest=<hex>`; `n/a` when the
block starts with a blank (the initial-line check of `readMIMEHeader` is not part of the loop). -/
def laneAMime : List String → String
  | [b, segs] =>
    match b.toNat?, decodeList segs with
    | some B, some ss =>
      if B < 16 then "bad-op" else
      match ss.flatten with
      | [] => "n/a"
      | c :: _ =>
        if isOWS c then "n/a" else
        let src : List BufLine.Chunk := ss.map fun d => ⟨d, none⟩
        let total := ss.flatten.length
        match BufAlias.amimeLoop B (total + 1) [] (BufAlias.ARd.init B src) with
        | .ok (m, a) => renderMap m ++ " err=- rest=" ++ encodeHex a.rd.bytes
        | .error e => "err=" ++ renderClass e
    | _, _ => "bad-op"
  | _ => "bad-op"

/-- `c04ahead <H|G> <B> <segments>`: `_readResponse`'s head over the explicit-array reader
(`BufAlias.aparseHead`): `rej:<class>` / `ok <head fields> rest=<hex>` / `n/a` (header block
starting with a blank). -/
def laneAHead : List String → String
  | [meth, b, segs] =>
    match b.toNat?, decodeList segs with
    | some B, some ss =>
      if B < 16 then "bad-op"
      else if meth != "G" && meth != "H" then "bad-op"
      else
        let src : List BufLine.Chunk := ss.map fun d => ⟨d, none⟩
        match BufAlias.aparseHead B (meth == "H") (BufAlias.ARd.init B src) with
        | none => "n/a"
        | some (.error e) => "rej:" ++ renderClass e
        | some (.ok (m, a)) =>
          "ok proto=" ++ encodeHex m.sl.proto ++ " status=" ++ encodeHex m.sl.status ++
          " code=" ++ toString m.sl.code ++ " ver=" ++ toString m.sl.major ++ "." ++ toString m.sl.minor ++
          " hdr=" ++ renderMap m.header ++ " cl=" ++ toString m.contentLength ++
          " te=" ++ renderBool m.teChunked ++ " close=" ++ renderBool m.close ++
          " framing=" ++ renderFraming m.framing ++ " rest=" ++ encodeHex a.rd.bytes
    | _, _ => "bad-op"
  | _ => "bad-op"

def lanes : List (String × (List String → String)) := [
  ("c04alias", laneAlias),
  ("c04ahead", laneAHead),
  ("c04amime", laneAMime),
  ("c04parse", laneParse),
  ("c04chunk", laneChunk),
  ("c04mime", laneMime),
  ("c04conn", laneConn),
  ("c04parseE", laneParseE),
  ("c04chunkE", laneChunkE),
  ("c04cut", laneCut)
]

end Req.Driver.L.C04
