import Req.Driver.Proto
import Req.H2.Frame
import Req.H2.Meta
import Req.H3.Varint
import Req.H3.Frame
import Req.H3.Fields
import Req.H2.FieldsX
import Req.H2.WriteBlock
import Req.H2.FrameRfc
import Req.H3.Stream
import Req.H3.SettingsWrite
import Req.H2.Hpack
import Req.H2.WriteSeq
import Req.Driver.WireUtil
/-! Driver lanes of C05 (HTTP/2 framer, QUIC varints, HTTP/3 frames/SETTINGS/field sections). -/
namespace Req.Driver.L.C05
open Req.Proto

def bool? (s : String) : Option Bool :=
  if s == "1" then some true else if s == "0" then some false else none

def b01 (b : Bool) : String := if b then "1" else "0"

def sp (l : List String) : String := " ".intercalate l

/-! ### varints -/
section varint
open Req.H3.Varint

def showParse (b : Bytes) : Except PErr (Nat × Bytes) → String
  | .ok (v, rest) => s!"ok {v} {b.length - rest.length}"
  | .error .eof => "eof"
  | .error .unexpectedEOF => "ueof"

def laneVAppend : List String → String
  | [n] => match n.toNat? with
    | some n => match append n with
      | some bs => encodeHex bs
      | none => "panic"
    | none => "bad-op"
  | _ => "bad-op"

def laneVLen : List String → String
  | [n] => match n.toNat? with
    | some n => match len n with
      | some l => toString l
      | none => "panic"
    | none => "bad-op"
  | _ => "bad-op"

def laneVAppendLen : List String → String
  | [n, l] => match n.toNat?, l.toNat? with
    | some n, some l => match appendWithLen n l with
      | some bs => encodeHex bs
      | none => "panic"
    | _, _ => "bad-op"
  | _ => "bad-op"

def laneVParse : List String → String
  | [h] => match decodeHex h with
    | some b => showParse b (parse b)
    | none => "bad-op"
  | _ => "bad-op"

def laneVRead : List String → String
  | [h] => match decodeHex h with
    | some b => showParse b (read b)
    | none => "bad-op"
  | _ => "bad-op"
end varint

/-! ### HTTP/2 frames -/
section h2
open Req.H2.Frame

def showHdr (tag : String) (h : FrameHeader) : String :=
  s!"{tag} {h.flags} {h.streamID} {h.length}"

def showPrio (p : Priority) : String := s!"{p.streamDep} {b01 p.exclusive} {p.weight}"

def showSettings (ss : List (Nat × Nat)) : String :=
  if ss.isEmpty then "-" else ",".intercalate (ss.map fun s => s!"{s.1}:{s.2}")

def showFrame : Frame → String
  | .data h d => sp [showHdr "D" h, encodeHex d]
  | .headers h p f => sp [showHdr "H" h, showPrio p, encodeHex f]
  | .priority h p => sp [showHdr "P" h, showPrio p]
  | .rstStream h c => sp [showHdr "R" h, toString c]
  | .settings h ss => sp [showHdr "S" h, showSettings ss, b01 (hasDuplicates ss)]
  | .pushPromise h pid f => sp [showHdr "PP" h, toString pid, encodeHex f]
  | .ping h d => sp [showHdr "PI" h, encodeHex d]
  | .goAway h l c d => sp [showHdr "G" h, toString l, toString c, encodeHex d]
  | .windowUpdate h i => sp [showHdr "W" h, toString i]
  | .continuation h f => sp [showHdr "C" h, encodeHex f]
  | .unknown h p => sp [showHdr s!"U{h.type}" h, encodeHex p]

def showRErr : RErr → String
  | .conn c => s!"conn:{c}"
  | .stream s c => s!"stream:{s}:{c}"
  | .unexpectedEOF => "ueof"
  | .eof => "eof"
  | .tooLarge => "toolarge"

def showRes : Except RErr Frame → String
  | .ok f => showFrame f
  | .error e => showRErr e

/-- `c05h2read <maxReadSize> <allowIllegalReads> <bytes>` -/
def laneH2Read : List String → String
  | [m, a, h] => match m.toNat?, bool? a, decodeHex h with
    | some m, some a, some b =>
      let r : Reader := { maxReadSize := setMaxReadFrameSize m, allowIllegalReads := a }
      ";".intercalate ((readAll (b.length / 9 + 2) r b).map showRes)
    | _, _, _ => "bad-op"
  | _ => "bad-op"

def showW : Except WErr Bytes → String
  | .ok b => encodeHex b
  | .error .streamID => "err:streamid"
  | .error .depStreamID => "err:depstreamid"
  | .error .padLength => "err:padlength"
  | .error .padBytes => "err:padbytes"
  | .error .frameTooLarge => "err:toolarge"
  | .error .windowIncr => "err:windowincr"

def laneWData : List String → String
  | [a, sid, e, d, pad] => match bool? a, sid.toNat?, bool? e, decodeHex d with
    | some a, some sid, some e, some d =>
      if pad == "nil" then showW (writeData a sid e d none)
      else match decodeHex pad with
        | some p => showW (writeData a sid e d (some p))
        | none => "bad-op"
    | _, _, _, _ => "bad-op"
  | _ => "bad-op"

def laneWHeaders : List String → String
  | [a, sid, es, eh, pl, dep, ex, w, frag] =>
    match bool? a, sid.toNat?, bool? es, bool? eh, pl.toNat?, dep.toNat?, bool? ex, w.toNat?,
        decodeHex frag with
    | some a, some sid, some es, some eh, some pl, some dep, some ex, some w, some frag =>
      showW (writeHeaders a (HeadersParam.mk sid frag es eh pl ⟨dep, ex, w⟩))
    | _, _, _, _, _, _, _, _, _ => "bad-op"
  | _ => "bad-op"

def laneWPriority : List String → String
  | [a, sid, dep, ex, w] => match bool? a, sid.toNat?, dep.toNat?, bool? ex, w.toNat? with
    | some a, some sid, some dep, some ex, some w => showW (writePriority a sid ⟨dep, ex, w⟩)
    | _, _, _, _, _ => "bad-op"
  | _ => "bad-op"

def laneWRst : List String → String
  | [a, sid, c] => match bool? a, sid.toNat?, c.toNat? with
    | some a, some sid, some c => showW (writeRSTStream a sid c)
    | _, _, _ => "bad-op"
  | _ => "bad-op"

def parsePairs (s : String) : Option (List (Nat × Nat)) :=
  if s == "-" then some [] else
  (s.splitOn ",").mapM fun p => match p.splitOn ":" with
    | [a, b] => do let a ← a.toNat?; let b ← b.toNat?; pure (a, b)
    | _ => none

def laneWSettings : List String → String
  | [ss] => match parsePairs ss with
    | some ss => showW (writeSettings ss)
    | none => "bad-op"
  | _ => "bad-op"

def laneWSettingsAck : List String → String
  | [] => showW writeSettingsAck
  | _ => "bad-op"

def laneWPing : List String → String
  | [a, d] => match bool? a, decodeHex d with
    | some a, some d => showW (writePing a d)
    | _, _ => "bad-op"
  | _ => "bad-op"

def laneWGoAway : List String → String
  | [m, c, d] => match m.toNat?, c.toNat?, decodeHex d with
    | some m, some c, some d => showW (writeGoAway m c d)
    | _, _, _ => "bad-op"
  | _ => "bad-op"

def laneWWindowUpdate : List String → String
  | [a, sid, i] => match bool? a, sid.toNat?, i.toNat? with
    | some a, some sid, some i => showW (writeWindowUpdate a sid i)
    | _, _, _ => "bad-op"
  | _ => "bad-op"

def laneWContinuation : List String → String
  | [a, sid, eh, f] => match bool? a, sid.toNat?, bool? eh, decodeHex f with
    | some a, some sid, some eh, some f => showW (writeContinuation a sid eh f)
    | _, _, _, _ => "bad-op"
  | _ => "bad-op"

def laneWPushPromise : List String → String
  | [a, sid, pid, eh, pl, f] =>
    match bool? a, sid.toNat?, pid.toNat?, bool? eh, pl.toNat?, decodeHex f with
    | some a, some sid, some pid, some eh, some pl, some f =>
      showW (writePushPromise a (PushPromiseParam.mk sid pid f eh pl))
    | _, _, _, _, _, _ => "bad-op"
  | _ => "bad-op"

def laneWRaw : List String → String
  | [t, fl, sid, p] => match t.toNat?, fl.toNat?, sid.toNat?, decodeHex p with
    | some t, some fl, some sid, some p => showW (writeRawFrame t fl sid p)
    | _, _, _, _ => "bad-op"
  | _ => "bad-op"
end h2

/-! ### HTTP/2 MetaHeaders (readMetaFrame over an abstract HPACK decoder) -/
section h2meta
open Req.H2.Meta

/-- an event: `f:<namehex>:<valuehex>` (field emitted), `e` (decoder error) -/
def parseEvent (s : String) : Option Event :=
  match s.splitOn ":" with
  | ["e"] => some .decodeError
  | ["f", n, v] => do
    let n ← decodeHex n
    let v ← decodeHex v
    pure (.field n v)
  | _ => none

/-- a fragment: `<len>/<ev>+<ev>…` (`<len>/` = no events) -/
def parseFrag (s : String) : Option Frag :=
  match s.splitOn "/" with
  | [l, evs] => do
    let l ← l.toNat?
    let evs ← if evs == "" then some [] else (evs.splitOn "+").mapM parseEvent
    pure { len := l, events := evs }
  | _ => none

def showFields (fs : List (Bytes × Bytes)) : String :=
  if fs.isEmpty then "-" else
  ",".intercalate (fs.map fun f => encodeHex f.1 ++ "=" ++ encodeHex f.2)

def showMeta : Outcome → String
  | .ok fs tr => s!"ok {showFields fs} {b01 tr}"
  | .conn c => s!"conn:{c}"
  | .stream c => s!"stream:{c}"

/-- `c05h2meta <maxHeaderListSize> <closeErr 0/1> <frag>;<frag>…` -/
def laneH2Meta : List String → String
  | [m, ce, frags] => match m.toNat?, bool? ce, (frags.splitOn ";").mapM parseFrag with
    | some m, some ce, some fr => showMeta (readMeta m fr ce)
    | _, _, _ => "bad-op"
  | _ => "bad-op"
end h2meta

/-! ### HTTP/3 frames -/
section h3
open Req.H3.Frame

def showOther (l : List (Nat × Nat)) : String :=
  if l.isEmpty then "-" else ",".intercalate (l.map fun s => s!"{s.1}:{s.2}")

def insSorted (p : Nat × Nat) : List (Nat × Nat) → List (Nat × Nat)
  | [] => [p]
  | q :: qs => if p.1 ≤ q.1 then p :: q :: qs else q :: insSorted p qs

def sortPairs (l : List (Nat × Nat)) : List (Nat × Nat) := l.foldr insSorted []

def showH3Err : Err → String
  | .eof => "err:eof"
  | .unexpectedEOF => "err:ueof"
  | .reserved t => s!"err:reserved:{t}"
  | .settingsTooLarge => "err:settings-size"
  | .duplicateSetting _ => "err:dup"
  | .invalidValue _ => "err:value"

def showH3 (input : Bytes) : Except Err Frame × Bytes → String
  | (.ok (.data l), rest) => s!"data {l} {input.length - rest.length}"
  | (.ok (.headers l), rest) => s!"headers {l} {input.length - rest.length}"
  | (.ok (.settings s), rest) =>
    s!"settings {b01 s.datagram} {b01 s.extendedConnect} {showOther (sortPairs s.other)} {input.length - rest.length}"
  | (.error e, _) => showH3Err e

/-- `c05h3next <bytes>` -/
def laneH3Next : List String → String
  | [h] => match decodeHex h with
    | some b => showH3 b (parseNext (b.length + 1) b)
    | none => "bad-op"
  | _ => "bad-op"

/-- `c05h3settings <l> <bytes>` : `parseSettingsFrame(r, l)` -/
def laneH3Settings : List String → String
  | [l, h] => match l.toNat?, decodeHex h with
    | some l, some b => showH3 b (parseSettingsFrame l b)
    | _, _ => "bad-op"
  | _ => "bad-op"

def showOpt : Option Bytes → String
  | some b => encodeHex b
  | none => "panic"

/-- `c05h3append data|headers <l>` / `c05h3append settings <dg> <ec> <pairs in iteration order>` -/
def laneH3Append : List String → String
  | ["data", l] => match l.toNat? with
    | some l => showOpt (appendData l)
    | none => "bad-op"
  | ["headers", l] => match l.toNat? with
    | some l => showOpt (appendHeaders l)
    | none => "bad-op"
  | ["settings", dg, ec, ps] => match bool? dg, bool? ec, Req.Driver.L.C05.parsePairs ps with
    | some dg, some ec, some ps =>
      -- round 6: the statement-by-statement writer (length loop + write loop); the length loop
      -- iterates the map in ANOTHER order than the write loop (`h3settings_length_exact`)
      showOpt (Req.H3.SettingsWrite.appendGo ps.reverse { datagram := dg, extendedConnect := ec, other := ps })
    | _, _, _ => "bad-op"
  | _ => "bad-op"
end h3

/-! ### HPACK primitives -/
section hpack
open Req.H2.Hpack

def showHpErr : Err → String
  | .needMore => "err:needmore"
  | .overflow => "err:overflow"
  | .huffman => "err:huffman"
  | .indexedField => "err:indexed"
  | .incrementalIndex => "err:incremental"
  | .tableSizeUpdate => "err:tablesize"
  | .indexedName => "err:indexedname"

/-- `c05hpint enc <n> <hi> <i>` → bytes; `c05hpint dec <n> <bytes>` → `ok <value> <consumed>` |
`need-more` | `overflow`. -/
def laneHpInt : List String → String
  | ["enc", n, hi, i] => match n.toNat?, hi.toNat?, i.toNat? with
    | some n, some hi, some i => if n < 1 || n > 8 then "bad-op" else encodeHex (encodeInt n hi i)
    | _, _, _ => "bad-op"
  | ["dec", n, h] => match n.toNat?, decodeHex h with
    | some n, some b =>
      if n < 1 || n > 8 then "bad-op" else
      match readInt n b with
      | .ok (v, rest) => s!"ok {v} {b.length - rest.length}"
      | .error .needMore => "need-more"
      | .error .overflow => "overflow"
    | _, _ => "bad-op"
  | _ => "bad-op"

def showHpFields (fs : List Field) : String :=
  if fs.isEmpty then "-" else
  ",".intercalate (fs.map fun f => b01 f.never ++ ":" ++ encodeHex f.name ++ ":" ++ encodeHex f.value)

/-- `c05hplit enc <never flags: string of 0/1, or -> <names> <values>` → block;
`c05hplit dec <block>` → `ok <fields>` | `err:<kind>`. -/
def laneHpLit : List String → String
  | ["enc", fl, ns, vs] => match decodeList ns, decodeList vs with
    | some ns, some vs =>
      let flags := if fl == "-" then [] else fl.toList.map (· == '1')
      if ns.length != vs.length || ns.length != flags.length then "bad-op"
      else encodeHex (encodeBlock ((flags.zip (ns.zip vs)).map fun x => ⟨x.1, x.2.1, x.2.2⟩))
    | _, _ => "bad-op"
  | ["dec", h] => match decodeHex h with
    | some b => match decodeBlock b with
      | .ok fs => "ok " ++ showHpFields fs
      | .error e => showHpErr e
    | none => "bad-op"
  | _ => "bad-op"
end hpack

/-! ### HTTP/3 receive loop and the SETTINGS specification -/
section h3stream
open Req.H3.Frame Req.H3.Stream

def showEvent : Event → String
  | .data p => "data:" ++ encodeHex p
  | .headers p => "headers:" ++ encodeHex p
  | .settings s => s!"settings:{b01 s.datagram}:{b01 s.extendedConnect}:{showOther (sortPairs s.other)}"
  | .truncatedPayload l got => s!"trunc:{l}:{encodeHex got}"
  | .err e => showH3Err e
  | .eof => "eof"

/-- `c05h3stream <bytes>` : the frame-level receive loop. -/
def laneH3Stream : List String → String
  | [h] => match decodeHex h with
    | some b => ";".intercalate ((parseStream (b.length + 2) b).map showEvent)
    | none => "bad-op"
  | _ => "bad-op"

instance (ps : List (Nat × Nat)) : Decidable (SettingsOK ps) := by unfold SettingsOK; infer_instance

/-- `c05h3settingsspec <payload>` : the DECLARATIVE side of `h3_settings_accept_iff` /
`h3_settings_eof_iff` evaluated on a payload: `ok <dg> <ec> <other>` when it is a sequence of
complete pairs satisfying `SettingsOK`, `eof` when it ends inside a pair after acceptable pairs,
`reject` otherwise. -/
def laneH3SettingsSpec : List String → String
  | [h] => match decodeHex h with
    | some b =>
      let r := decodePairs (b.length + 1) b
      if SettingsOK r.1 then
        if r.2 then "eof"
        else
          let s := settingsOf r.1
          s!"ok {b01 s.datagram} {b01 s.extendedConnect} {showOther (sortPairs s.other)}"
      else "reject"
    | none => "bad-op"
  | _ => "bad-op"

/-- `c05h3settingsw <dg> <ec> <pairs in write order>` : the settings VALUE side of
`h3settings_length_exact` / `h3settings_written_verdict` / `h3settings_collision_refused`:
`len=<declared length | panic> collides=<0/1> <ok dg ec other | reject>` where the verdict is the
DECLARATIVE `SettingsOK (writtenPairs s)` / `settingsOf (writtenPairs s)`. -/
def laneH3SettingsW : List String → String
  | [dg, ec, ps] => match bool? dg, bool? ec, Req.Driver.L.C05.parsePairs ps with
    | some dg, some ec, some ps =>
      let s : Settings := { datagram := dg, extendedConnect := ec, other := ps }
      let l := match Req.H3.SettingsWrite.declaredLen ps.reverse s with
        | some l => toString l
        | none => "panic"
      let w := Req.H3.SettingsWrite.writtenPairs s
      let v := if SettingsOK w then
          let s' := settingsOf w
          s!"ok {b01 s'.datagram} {b01 s'.extendedConnect} {showOther (sortPairs s'.other)}"
        else "reject"
      s!"len={l} collides={b01 (decide (Req.H3.SettingsWrite.Collides s))} {v}"
    | _, _, _ => "bad-op"
  | _ => "bad-op"
end h3stream

/-! ### HTTP/3 field sections -/
section h3fields
open Req.H3.Fields

def bytesLe : Bytes → Bytes → Bool
  | [], _ => true
  | _ :: _, [] => false
  | a :: as, b :: bs => if a < b then true else if b < a then false else bytesLe as bs

def insKey (p : Bytes × List Bytes) : HeaderMap → HeaderMap
  | [] => [p]
  | q :: qs => if bytesLe p.1 q.1 then p :: q :: qs else q :: insKey p qs

def sortMap (m : HeaderMap) : HeaderMap := m.foldr insKey []

def insB (p : Bytes) : List Bytes → List Bytes
  | [] => [p]
  | q :: qs => if bytesLe p q then p :: q :: qs else q :: insB p qs

def showMap (m : HeaderMap) : String :=
  if m.isEmpty then "-" else
  ";".intercalate ((sortMap m).map fun e => encodeHex e.1 ++ "=" ++ encodeList e.2)

def mkFields (names values : List Bytes) : Option (List Field) :=
  if names.length == values.length then some ((names.zip values).map fun p => ⟨p.1, p.2⟩)
  else none

def showTrailerKeys : Option (List Bytes) → String
  | none => "none"
  | some ks => encodeList (ks.foldr insB [])

/-- `c05h3fields resp|req|trailers <names> <values>` -/
def laneH3Fields : List String → String
  | [kind, ns, vs] => match decodeList ns, decodeList vs with
    | some ns, some vs => match mkFields ns vs with
      | none => "bad-op"
      | some fs =>
        if kind == "resp" then
          match updateResponseFromHeaders fs with
          | .error _ => "err"
          | .ok r => sp ["ok", toString r.statusCode, encodeHex r.status, toString r.contentLength,
                         showMap r.header, showTrailerKeys r.trailerKeys]
        else if kind == "req" then
          match parseHeaders fs true with
          | .error _ => "err"
          | .ok h => sp ["ok", encodeHex h.path, encodeHex h.method, encodeHex h.authority,
                         encodeHex h.scheme, encodeHex h.protocol, toString h.contentLength,
                         showMap h.headers]
        else if kind == "trailers" then
          match parseTrailers fs with
          | .error _ => "err"
          | .ok m => sp ["ok", showMap m]
        else "bad-op"
    | _, _ => "bad-op"
  | _ => "bad-op"
end h3fields

/-! ### emitted request field sections (`encodeHeaders` of both writers) -/
section emit
open Req.H2

def encodeFieldsE (l : List (Bytes × Bytes)) : String :=
  if l.isEmpty then "-" else ",".intercalate (l.map fun f => encodeHex f.1 ++ ":" ++ encodeHex f.2)

def showFErrE : FErr → String
  | .nonAsciiHost => "err:outside"
  | .invalidHost => "err:host"
  | .invalidPath => "err:path"
  | .invalidHeader => "err:header"
  | .headerListTooLarge => "err:toolarge"

/-- Canonical form of a field list whose regular part depends on Go's map iteration order:
`<pseudo fields in wire order> <regular fields, sorted> <canonical names of the LISTED regular
fields in wire order> <shape: p/r per field in wire order> <requestSectionOK>`.
The regular fields are sorted STABLY by name alone when no two keys of the header map share a
lower-case form (then the wire order of the values of one name is determined and is compared),
and by (name, value) otherwise. -/
def showEmitted (hdr : List Req.HeaderSort.KV) (fs : List (Bytes × Bytes)) : String :=
  let pseudo := fs.filter fun f => isPseudoNameB f.1
  let regular := fs.filter fun f => !isPseudoNameB f.1
  let lks := hdr.map fun kv => Req.Ascii.lower kv.key
  let collide := lks.eraseDups.length != lks.length
  let sorted :=
    if collide then regular.mergeSort fun a b =>
      if a.1 == b.1 then Req.BStr.le a.2 b.2 else Req.BStr.le a.1 b.1
    else regular.mergeSort fun a b => Req.BStr.le a.1 b.1
  let order := Req.H1.orderList hdr
  let listed := regular.filterMap fun f =>
    if (Req.HeaderSort.lastIndex order f.1).isSome
    then some (Req.Ascii.canonicalMIMEHeaderKey f.1) else none
  let shape := String.ofList (fs.map fun f => if isPseudoNameB f.1 then 'p' else 'r')
  sp ["ok", encodeFieldsE pseudo, encodeFieldsE sorted, encodeList listed,
      (if shape.isEmpty then "-" else shape), b01 (requestSectionOK fs)]

/-- `c05emit <h2|h3> <method> <rawurl> <host> <hdr> <cl> <hasBody> <noBody> <gzip>
<maxHeaderListSize|-> <proto> <trailers>` -/
def laneEmit : List String → String
  | [fl, m, raw, host, hdr, cl, hb, nb, gz, lim, proto, trailers] =>
    let fl? : Option Flavor :=
      if fl == "h2" then some .h2 else if fl == "h3" then some .h3 else none
    let lim? : Option (Option Nat) := if lim == "-" then some none else lim.toNat?.map some
    match fl?, decodeHex m, decodeHex raw, decodeHex host, Req.Driver.Wire.decodeHdr hdr, decodeInt cl,
          bool? hb, bool? nb, bool? gz, lim?, decodeHex proto, decodeHex trailers with
    | some fl, some m, some raw, some host, some hdr, some cl, some hb, some nb, some gz, some lim,
      some proto, some trailers =>
      match Req.Url.parse raw with
      | .error _ => "bad-op"
      | .ok u =>
        let x : XReq := { base := { method := m, url := u, host := host, header := hdr,
                                    contentLength := cl, hasBody := hb, noBody := nb, addGzip := gz,
                                    maxHeaderList := lim },
                          proto := proto, trailers := trailers }
        match fieldsX fl x with
        | .error e => showFErrE e
        | .ok fs => showEmitted hdr fs
    | _, _, _, _, _, _, _, _, _, _, _, _ => "bad-op"
  | _ => "bad-op"

/-- `c05reqsec <names> <values>`: the decidable request-section check on a DECODED list. -/
def laneReqSec : List String → String
  | [ns, vs] => match decodeList ns, decodeList vs with
    | some ns, some vs =>
      if ns.length != vs.length then "bad-op" else b01 (requestSectionOK (ns.zip vs))
    | _, _ => "bad-op"
  | _ => "bad-op"
end emit

/-! ### `ClientConn.writeHeaders`: a header block as HEADERS + CONTINUATION frames -/
section wblock
open Req.H2.Frame

/-- `c05wblock <streamID> <endStream> <dep> <exclusive> <weight> <maxFrameSize> <block>` → the bytes
written (`panic` = Go's slice-bounds panic). -/
def laneWBlock : List String → String
  | [sid, es, dep, ex, w, mf, blk] =>
    match sid.toNat?, bool? es, dep.toNat?, bool? ex, w.toNat?, mf.toNat?, decodeHex blk with
    | some sid, some es, some dep, some ex, some w, some mf, some blk =>
      match writeBlock sid es ⟨dep, ex, w⟩ mf blk with
      | .ok b => encodeHex b
      | .error .sliceBounds => "panic"
    | _, _, _, _, _, _, _ => "bad-op"
  | _ => "bad-op"
end wblock

/-! ### the RFC 9113 §6 verdict on one received frame -/
section verdict
open Req.H2.Frame

/-- `c05h2verdict <type> <flags> <streamID (31 bit)> <payload>` → `accept` | error class. -/
def laneH2Verdict : List String → String
  | [t, f, s, p] => match t.toNat?, f.toNat?, s.toNat?, decodeHex p with
    | some t, some f, some s, some p =>
      match Rfc.verdict ⟨p.length, t, f, s⟩ p with
      | .accept => "accept"
      | .reject e => showRErr e
    | _, _, _, _ => "bad-op"
  | _ => "bad-op"
end verdict

/-! ### call SEQUENCES on one Framer (write state machine) and their read-back -/
section wseq
open Req.H2.Frame

def parseSink (s : String) : Option Sink :=
  if s == "f" then some .full
  else if s.startsWith "s" then (s.drop 1).toNat?.map .short
  else if s.startsWith "e" then (s.drop 1).toNat?.map .fail
  else none

def padOpt (s : String) : Option (Option Bytes) :=
  if s == "nil" then some none else (decodeHex s).map some

/-- one operation: the argument lists of the single-call write lanes, `/`-separated. -/
def parseWOp : List String → Option WOp
  | ["data", sid, e, d, pad] => do
    pure (.data (← sid.toNat?) (← bool? e) (← decodeHex d) (← padOpt pad))
  | ["headers", sid, es, eh, pl, dep, ex, w, frag] => do
    pure (.headers ⟨← sid.toNat?, ← decodeHex frag, ← bool? es, ← bool? eh, ← pl.toNat?,
      ⟨← dep.toNat?, ← bool? ex, ← w.toNat?⟩⟩)
  | ["priority", sid, dep, ex, w] => do
    pure (.priority (← sid.toNat?) ⟨← dep.toNat?, ← bool? ex, ← w.toNat?⟩)
  | ["rst", sid, c] => do pure (.rstStream (← sid.toNat?) (← c.toNat?))
  | ["settings", ss] => do pure (.settings (← parsePairs ss))
  | ["settingsack"] => some .settingsAck
  | ["pp", sid, pid, eh, pl, f] => do
    pure (.pushPromise ⟨← sid.toNat?, ← pid.toNat?, ← decodeHex f, ← bool? eh, ← pl.toNat?⟩)
  | ["ping", a, d] => do pure (.ping (← bool? a) (← decodeHex d))
  | ["goaway", m, c, d] => do pure (.goAway (← m.toNat?) (← c.toNat?) (← decodeHex d))
  | ["wu", sid, i] => do pure (.windowUpdate (← sid.toNat?) (← i.toNat?))
  | ["cont", sid, eh, f] => do pure (.continuation (← sid.toNat?) (← bool? eh) (← decodeHex f))
  | ["raw", t, fl, sid, p] => do
    pure (.raw (← t.toNat?) (← fl.toNat?) (← sid.toNat?) (← decodeHex p))
  | _ => none

/-- `<allow 0/1>/<sink f|s<n>|e<n>>/<op>/<args…>` -/
def parseCall (s : String) : Option Call :=
  match s.splitOn "/" with
  | a :: k :: op => do pure { allow := ← bool? a, sink := ← parseSink k, op := ← parseWOp op }
  | _ => none

def parseCalls (s : String) : Option (List Call) :=
  if s == "-" then some [] else (s.splitOn ";").mapM parseCall

def showWRes : WRes → String
  | .ok => "ok"
  | .refused e => showW (.error e)
  | .shortWrite => "short"
  | .sinkError => "sinkerr"

def showReads (l : List (Except RErr Frame)) : String :=
  if l.isEmpty then "-" else ";".intercalate (l.map showRes)

/-- `c05wseq <maxReadSize> <call>;<call>…` : the calls run IN SEQUENCE on one `Writer` (the state
machine of `Req.H2.WriteSeq`, `wbuf` carried from call to call) → `<result>,<result>… <bytes that
reached the connection> <those bytes read back by readAll>`. -/
def laneWSeq : List String → String
  | [m, cs] => match m.toNat?, parseCalls cs with
    | some m, some calls =>
      let (rs, w) := runCalls {} calls
      let r : Reader := { maxReadSize := setMaxReadFrameSize m }
      sp [if rs.isEmpty then "-" else ",".intercalate (rs.map showWRes), encodeHex w.out,
          showReads (readAll (w.out.length / 9 + 2) r w.out)]
    | _, _ => "bad-op"
  | _ => "bad-op"

instance (a : WOp) : Decidable a.Wf := by
  cases a <;> simp only [WOp.Wf] <;> infer_instance

/-- `c05rseq <maxReadSize> <call>;<call>…` : the SPECIFICATION side of `framer_write_read_sequence`,
computed from the operations (never from bytes): `readSpec 0` of the accepted calls, then `eof` when
the order automaton accepted them all. `not-plain` / `not-wf` / `not-fit` when a hypothesis of the
theorem does not hold for the case. -/
def laneRSeq : List String → String
  | [m, cs] => match m.toNat?, parseCalls cs with
    | some m, some calls =>
      let maxRead := setMaxReadFrameSize m
      if !calls.all (fun c => !c.allow && c.sink == .full) then "not-plain"
      else
        let ops := (calls.filter Call.accepted).map (·.op)
        if !ops.all (fun a => decide a.Wf) then "not-wf"
        else if !ops.all (fun a => a.payload.length ≤ maxRead) then "not-fit"
        else
          let spec := readSpec 0 ops
          showReads (match runOrder 0 (ops.map WOp.hdr) with
            | some _ => spec ++ [.error .eof]
            | none => spec)
    | _, _ => "bad-op"
  | _ => "bad-op"
end wseq

def lanes : List (String × (List String → String)) := [
  ("c05wseq", laneWSeq),
  ("c05rseq", laneRSeq),
  ("c05emit", laneEmit),
  ("c05reqsec", laneReqSec),
  ("c05wblock", laneWBlock),
  ("c05h2verdict", laneH2Verdict),
  ("c05vappend", laneVAppend),
  ("c05vlen", laneVLen),
  ("c05vappendlen", laneVAppendLen),
  ("c05vparse", laneVParse),
  ("c05vread", laneVRead),
  ("c05h2read", laneH2Read),
  ("c05wdata", laneWData),
  ("c05wheaders", laneWHeaders),
  ("c05wpriority", laneWPriority),
  ("c05wrst", laneWRst),
  ("c05wsettings", laneWSettings),
  ("c05wsettingsack", laneWSettingsAck),
  ("c05wping", laneWPing),
  ("c05wgoaway", laneWGoAway),
  ("c05wwu", laneWWindowUpdate),
  ("c05wcont", laneWContinuation),
  ("c05wpp", laneWPushPromise),
  ("c05wraw", laneWRaw),
  ("c05h2meta", laneH2Meta),
  ("c05h3next", laneH3Next),
  ("c05hpint", laneHpInt),
  ("c05hplit", laneHpLit),
  ("c05h3stream", laneH3Stream),
  ("c05h3settingsspec", laneH3SettingsSpec),
  ("c05h3settings", laneH3Settings),
  ("c05h3settingsw", laneH3SettingsW),
  ("c05h3append", laneH3Append),
  ("c05h3fields", laneH3Fields)
]

end Req.Driver.L.C05
