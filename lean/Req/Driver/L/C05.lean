import Req.Driver.Proto
/-! Driver lanes of C05. -/
namespace Req.Driver.L.C05
open Req.Proto

def lanes : List (String × (List String → String)) := []

end Req.Driver.L.C05
