import Req.Driver.Proto
import Req.C02.RespSM
/-! Driver lanes of C02. -/
namespace Req.Driver.L.C02
open Req.Proto Req.C02

def rerrStr : RErr → String
  | .ok => "ok" | .eof => "eof" | .fail => "fail" | .closed => "closed"

def parseFin : String → Option Fin
  | "eof" => some .eof
  | "fail" => some .fail
  | _ => none

def parseBool01 : Char → Option Bool
  | '0' => some false
  | '1' => some true
  | _ => none

/-- `c<0|1>r<0|1>s<0|1>` -/
def parseCfg (s : String) : Option Cfg :=
  match s.toList with
  | ['c', a, 'r', b, 's', c] => do
    let a ← parseBool01 a; let b ← parseBool01 b; let c ← parseBool01 c
    pure { clientDisable := a, reqDisable := b, save := c }
  | _ => none

def parseOp (s : String) : Option Op :=
  match s with
  | "tb" => some .toBytes
  | "ts" => some .toString
  | "by" => some .bytes
  | "st" => some .string
  | "ra" => some .readAll
  | "cl" => some .close
  | _ =>
    if s.startsWith "rd" then (s.drop 2).toNat?.map Op.read else none

def parseOps (s : String) : Option (List Op) :=
  if s == "-" then some [] else (s.splitOn ",").mapM parseOp

def obsStr : Obs → String
  | .data bs e => encodeHex bs ++ "/" ++ rerrStr e
  | .cached none => "nil"
  | .cached (some c) => encodeHex c
  | .str bs => encodeHex bs
  | .unit => "."

def optStr : Option Bytes → String
  | none => "nil"
  | some b => encodeHex b

/-- `c02ops <cfg> <status> <chunks> <fin> <ops>` →
`err=<e> out=<hex|nil> obs=<o;o;…>` -/
def laneOps : List String → String
  | [cfg, status, chunks, fin, ops] =>
    match parseCfg cfg, status.toNat?, decodeList chunks, parseFin fin, parseOps ops with
    | some cfg, some st, some cks, some fin, some ops =>
      let r := afterRoundTrip cfg st (Body.transport cks fin)
      let e0 := match r.err with | none => "ok" | some e => rerrStr e
      let (obs, _) := r.run ops
      "err=" ++ e0 ++ " out=" ++ optStr r.out ++ " obs=" ++
        (if obs.isEmpty then "-" else ";".intercalate (obs.map obsStr))
    | _, _, _, _, _ => "bad-op"
  | _ => "bad-op"

def lanes : List (String × (List String → String)) := [
  ("c02ops", laneOps)
]

end Req.Driver.L.C02
