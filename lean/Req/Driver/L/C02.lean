import Req.Driver.Proto
/-! Driver lanes of C02. -/
namespace Req.Driver.L.C02
open Req.Proto

def lanes : List (String × (List String → String)) := []

end Req.Driver.L.C02
