import Req.Driver.Proto
import Req.C02.RespSM
import Req.C02.Call
import Req.C02.H1Body
import Req.C02.H1Msg
import Req.C02.H1Full
import Req.C02.H3Recv
import Req.C02.H2Recv
import Req.C02.H2Repair
import Req.C02.H2GoAway
import Req.C02.TrailerMap
import Req.C02.ReadLine
import Req.C02.DataBuffer
/-! Driver lanes of C02. -/
namespace Req.Driver.L.C02
open Req.Proto Req.C02

def rerrStr : RErr → String
  | .ok => "ok" | .eof => "eof" | .fail => "fail" | .closed => "closed" | .transport => "transport"

def parseFin : String → Option Fin
  | "eof" => some .eof
  | "fail" => some .fail
  | _ => none

def parseBool01 : Char → Option Bool
  | '0' => some false
  | '1' => some true
  | _ => none

/-- `c<0|1>r<0|1>s<0|1>j<0|1>[e<0|1>]` -/
def parseCfg (s : String) : Option Cfg :=
  match s.toList with
  | ['c', a, 'r', b, 's', c, 'j', d] => do
    let a ← parseBool01 a; let b ← parseBool01 b; let c ← parseBool01 c; let d ← parseBool01 d
    pure { clientDisable := a, reqDisable := b, save := c, result := d }
  | ['c', a, 'r', b, 's', c, 'j', d, 'e', e] => do
    let a ← parseBool01 a; let b ← parseBool01 b; let c ← parseBool01 c; let d ← parseBool01 d
    let e ← parseBool01 e
    pure { clientDisable := a, reqDisable := b, save := c, result := d, errResult := e }
  | _ => none

def parseOp (s : String) : Option Op :=
  match s with
  | "tb" => some .toBytes
  | "ts" => some .toString
  | "by" => some .bytes
  | "st" => some .string
  | "ra" => some .readAll
  | "cl" => some .close
  | _ =>
    if s.startsWith "rd" then (s.drop 2).toNat?.map Op.read else none

def parseOps (s : String) : Option (List Op) :=
  if s == "-" then some [] else (s.splitOn ",").mapM parseOp

def obsStr : Obs → String
  | .data bs e => encodeHex bs ++ "/" ++ rerrStr e
  | .cached none => "nil"
  | .cached (some c) => encodeHex c
  | .str bs => encodeHex bs
  | .unit => "."

def optStr : Option Bytes → String
  | none => "nil"
  | some b => encodeHex b

/-- `c02ops <cfg> <status> <chunks> <fin> <ops>` →
`err=<e> out=<hex|nil> obs=<o;o;…>` -/
def laneOps : List String → String
  | [cfg, status, chunks, fin, ops] =>
    match parseCfg cfg, status.toNat?, decodeList chunks, parseFin fin, parseOps ops with
    | some cfg, some st, some cks, some fin, some ops =>
      let r := afterRoundTrip cfg st (Body.transport cks fin)
      let e0 := match r.err with | none => "ok" | some e => rerrStr e
      let (obs, _) := r.run ops
      "err=" ++ e0 ++ " out=" ++ optStr r.out ++ " obs=" ++
        (if obs.isEmpty then "-" else ";".intercalate (obs.map fun x => obsStr x.2))
    | _, _, _, _, _ => "bad-op"
  | _ => "bad-op"

/-! ### shared canonical forms -/

def bytesLe : Bytes → Bytes → Bool
  | [], _ => true
  | _ :: _, [] => false
  | a :: as, b :: bs => if a < b then true else if b < a then false else bytesLe as bs

def insKV (x : Bytes × Bytes) : List (Bytes × Bytes) → List (Bytes × Bytes)
  | [] => [x]
  | y :: ys => if bytesLe y.1 x.1 then y :: insKV x ys else x :: y :: ys

/-- stable sort by key -/
def sortKV (l : List (Bytes × Bytes)) : List (Bytes × Bytes) := l.foldl (fun acc x => insKV x acc) []

def kvStr (l : List (Bytes × Bytes)) : String :=
  if l.isEmpty then "-" else
  ",".intercalate ((sortKV l).map fun (k, v) => encodeHex k ++ ":" ++ encodeHex v)

def ioErrStr : Option IOErr → String
  | none => "ok"
  | some .eof => "eof" | some .reset => "reset" | some .unexpectedEOF => "unexpectedEOF"
  | some .bufferFull => "bufferFull" | some .malformedChunk => "malformedChunk"
  | some .lineTooLong => "lineTooLong" | some .invalidChunkLen => "invalidChunkLen"
  | some .chunkTooLarge => "chunkTooLarge" | some .trailerEOF => "trailerEOF"
  | some .longTrailer => "longTrailer" | some .badTrailer => "badTrailer"
  | some .readAfterClose => "readAfterClose" | some .stuck => "stuck"

def parseNetEnd : String → Option NetEnd
  | "eof" => some .eof
  | "reset" => some .reset
  | _ => none

def parseFraming (s : String) : Option Framing :=
  if s == "chunked" then some .chunked
  else if s == "close" then some .close
  else if s.startsWith "len:" then (s.drop 4).toNat?.map Framing.length
  else none

/-- `c02h1body <framing> <cap> <segs> <fin> <reads>` →
`n=<len,len,…> err=<e> data=<hex> trailer=<kv> rem=<unread wire bytes>` -/
def laneH1Body : List String → String
  | [fr, cap, segs, fin, reads] =>
    match parseFraming fr, cap.toNat?, decodeList segs, parseNetEnd fin, decodeNatList reads with
    | some fr, some cap, some segs, some fin, some reads =>
      let bd := H1Body.new fr (Bufio.new cap { segs := segs, fin := fin })
      let (rs, bd') := bd.runReads reads
      let lastErr := lastErr rs
      "n=" ++ encodeNatList (rs.map fun (d, _) => d.length) ++ " err=" ++ ioErrStr lastErr ++
        " data=" ++ encodeHex (outBytes rs) ++
        " trailer=" ++ kvStr (match bd'.trailer with | some t => t | none => []) ++
        " rem=" ++ (if lastErr == some .badTrailer then "?" else toString bd'.br.rem.length)
    | _, _, _, _, _ => "bad-op"
  | _ => "bad-op"

def h1ErrStr : H1Err → String
  | .truncatedHead => "truncatedHead" | .unsupported => "unsupported" | .tooMany1xx => "tooMany1xx"
  | .badContentLength => "badContentLength" | .unsupportedTE => "unsupportedTE"
  | .body e => "body:" ++ ioErrStr (some e)

/-- the fields the e2e lanes compare: `X-…`, `Content-Type`, and (round 5) `Cache-Control` / `Pragma` -/
def keepField (kv : Bytes × Bytes) : Bool :=
  kv.1.take 2 == [88, 45] || kv.1 == [67, 111, 110, 116, 101, 110, 116, 45, 84, 121, 112, 101] ||
    kv.1 == Req.H1.kCacheControl || kv.1 == Req.H1.kPragma

def viewStr (v : View) : String :=
  "status=" ++ toString v.status ++ " hdr=" ++ kvStr (v.fields.filter keepField) ++
    " trailer=" ++ kvStr v.trailer ++ " body=" ++ encodeHex v.body ++ " end=" ++ ioErrStr v.bodyErr

/-- `c02h1msg <head 0|1> <fin> <wire>` → view of the caller -/
def laneH1Msg : List String → String
  | [hd, fin, wire] =>
    match hd.toList, parseNetEnd fin, decodeHex wire with
    | [c], some fin, some w =>
      match parseBool01 c with
      | none => "bad-op"
      | some isHead =>
        match parseResponseTop isHead fin w with
        | .ok v => viewStr v
        | .error e => "error:" ++ h1ErrStr e
    | _, _, _ => "bad-op"
  | _ => "bad-op"

/-- `c02h1full <head 0|1> <fin> <cap> <segs> <readsize>` → view of the caller, through C04's
head reader + the C02 body automata (the reader of `h1_response_roundtrip_*`). A head the
byte-exact reader refuses is `error:head`. -/
def laneH1Full : List String → String
  | [hd, fin, cap, segs, k] =>
    match hd.toList, parseNetEnd fin, cap.toNat?, decodeList segs, k.toNat? with
    | [c], some fin, some cap, some segs, some k =>
      match parseBool01 c with
      | none => "bad-op"
      | some isHead =>
        match h1ReceiveView isHead cap segs fin k with
        | .ok v => viewStr v
        | .error _ => "error:head"
    | _, _, _, _, _ => "bad-op"
  | _ => "bad-op"

def h3ErrStr : Option H3Err → String
  | none => "ok"
  | some .eof => "eof" | some .reset => "reset" | some .unexpectedEOF => "unexpectedEOF"
  | some .frameUnexpected => "frameUnexpected" | some .firstNotHeaders => "firstNotHeaders"
  | some .headersTooLarge => "headersTooLarge" | some .dataAfterTrailers => "dataAfterTrailers"
  | some .headersAfterTrailers => "headersAfterTrailers" | some .tooMuchData => "tooMuchData"
  | some .invalidFields => "invalidFields" | some .tooMany1xx => "tooMany1xx"
  | some .noFieldList => "noFieldList" | some .stuck => "stuck"

def decodeKV (s : String) : Option (Bytes × Bytes) :=
  match s.splitOn ":" with
  | [k, v] => do let k ← decodeHex k; let v ← decodeHex v; pure (k, v)
  | _ => none

def decodeFields (s : String) : Option (List (Bytes × Bytes)) :=
  if s == "-" then some [] else (s.splitOn ",").mapM decodeKV

def decodeFieldLists (s : String) : Option (List (List (Bytes × Bytes))) :=
  if s == "none" then some [] else (s.splitOn "/").mapM decodeFields

/-- `c02h3recv <head 0|1> <segs> <fin> <fieldlists> <maxHeaderBytes> <reads>` →
`status=… hdr=… n=… err=… data=… trailer=…` or `error:<e>` -/
def laneH3RecvCore (lenient : Bool) : List String → String
  | [hd, segs, fin, fls, maxh, reads] =>
    -- `lenient`: the stream was cut by a FIN inside a frame header / a skipped frame / before the
    -- first payload byte of a HEADERS frame: eof and unexpectedEOF are not told apart (C03's subject)
    let errS (e : Option H3Err) : String :=
      if lenient && (e == some .eof || e == some .unexpectedEOF) then "eof*" else h3ErrStr e
    match (match hd.toList with | [c] => parseBool01 c | _ => none),
          decodeList segs, parseNetEnd fin, decodeFieldLists fls, maxh.toNat?, decodeNatList reads with
    | some isHead, some segs, some fin, some fls, some maxh, some reads =>
      let s0 : H3Stream := { net := { segs := segs, fin := fin }, remInFrame := 0, parsedTrailer := false,
                             trailer := none, fieldLists := fls, maxHeaderBytes := maxh }
      match s0.readFinalResponse 7 0 with
      | (.error e, _) => "error:" ++ errS (some e)
      | (.ok h, s1) =>
        let (rs, b') := (H3Body.new isHead h s1).runReads reads
        let lastErr := lastErr rs
        "status=" ++ toString h.status ++ " hdr=" ++ kvStr h.fields ++
          " n=" ++ encodeNatList (rs.map fun (d, _) => d.length) ++ " err=" ++ errS lastErr ++
          " data=" ++ encodeHex (outBytes rs) ++
          " trailer=" ++ kvStr (match b'.str.trailer with | some t => t | none => [])
    | _, _, _, _, _, _ => "bad-op"
  | _ => "bad-op"

def laneH3Recv : List String → String
  | [hd, segs, fin, fls, maxh, reads] => laneH3RecvCore false [hd, segs, fin, fls, maxh, reads]
  | [hd, segs, fin, fls, maxh, reads, "L"] => laneH3RecvCore true [hd, segs, fin, fls, maxh, reads]
  | _ => "bad-op"

def h2ErrStr : Option H2Err → String
  | none => "ok"
  | some .eof => "eof" | some .unexpectedEOF => "unexpectedEOF" | some .overDeclared => "overDeclared"
  | some .streamProto => "streamProto" | some .connProto => "connProto" | some .rst => "rst"
  | some .closedBody => "closedBody" | some .pipeWrite => "pipeWrite"
  | some .goAwayRetry => "goAwayRetry" | some .goAwayErr => "goAwayErr"

/-- event: `H;<es 0|1>;<fields>` | `D;<es>;<padded 0|1>;<hex>` | `R` -/
def decodeH2Ev (s : String) : Option H2Ev :=
  match s.splitOn ";" with
  | ["H", es, fs] => do
    let es ← (match es.toList with | [c] => parseBool01 c | _ => none)
    let fs ← decodeFields fs
    pure (.headers fs es)
  | ["D", es, pad, d] => do
    let es ← (match es.toList with | [c] => parseBool01 c | _ => none)
    let pad ← (match pad.toList with | [c] => parseBool01 c | _ => none)
    let d ← decodeHex d
    pure (.data d pad es)
  | ["R"] => some .rst
  | _ => none

def decodeH2Evs (s : String) : Option (List H2Ev) :=
  if s == "none" then some [] else (s.splitOn "/").mapM decodeH2Ev

/-- `c02h2recv <head 0|1> <events> <reads>`: all frames are delivered, then the caller reads.
→ `error:<e>` (RoundTrip failed) or `status=… hdr=… err=… data=… trailer=…` -/
def laneH2Recv : List String → String
  | [hd, evs, reads] =>
    match hd.toList, decodeH2Evs evs, decodeNatList reads with
    | [c], some evs, some reads =>
      match parseBool01 c with
      | none => "bad-op"
      | some isHead =>
        -- judged by the REPAIRED behaviour of finding C02-3 (no length accounting for 204/304)
        let s := (evs.foldl (fun s e => s.event e) (H2Stream.init isHead)).lenRepair
        match s.res with
        | none => "error:" ++ h2ErrStr (match s.headErr with | some e => some e | none => some .connProto)
        | some res =>
          let (data, err, tr) :=
            match res.body with
            | .piped =>
              let (rs, s') := s.runReads reads
              let lastErr := match rs.getLast? with | some (_, e) => e | none => none
              ((rs.map (·.1)).flatten, lastErr, s'.resTrailer)
            | k => ([], (if reads.isEmpty then none else k.readFixed), s.resTrailer)
          "status=" ++ toString res.status ++ " hdr=" ++ kvStr (res.fields.filter keepField) ++
            " err=" ++ h2ErrStr err ++ " data=" ++ encodeHex data ++ " trailer=" ++ kvStr tr
    | _, _, _ => "bad-op"
  | _ => "bad-op"

/-- connection event: a stream event of `decodeH2Ev` (on the stream under test) |
`G;<last-stream-id>;<error code>` | `N;<kind>` (PING, PING ack, SETTINGS, WINDOW_UPDATE(0), extension) |
`O;<id>;<stream event>` (a frame of another stream) -/
def decodeCEv (sid : Nat) (s : String) : Option CEv :=
  match s.splitOn ";" with
  | ["G", last, code] => do pure (CEv.goAway (← last.toNat?) (← code.toNat?))
  | ["N", k] => do pure (CEv.neutral (← k.toNat?))
  | "O" :: id :: rest => do pure (CEv.frame (← id.toNat?) (← decodeH2Ev (";".intercalate rest)))
  | _ => (decodeH2Ev s).map (CEv.frame sid)

def decodeCEvs (sid : Nat) (s : String) : Option (List CEv) :=
  if s == "none" then some [] else (s.splitOn "/").mapM (decodeCEv sid)

/-- `c02h2goaway <stream id> <head 0|1> <connection events> <reads>`: all frames go through the
connection's dispatch (`H2Conn.event`: GOAWAY → `setGoAway`), then the caller reads.
→ as `c02h2recv` -/
def laneH2GoAway : List String → String
  | [sid, hd, evs, reads] =>
    match sid.toNat?, hd.toList, decodeNatList reads with
    | some sid, [c], some reads =>
      match parseBool01 c, decodeCEvs sid evs with
      | some isHead, some evs =>
        let conn := evs.foldl (fun c e => c.event e) (H2Conn.single sid (H2Stream.init isHead))
        match conn.streams sid with
        | none => "bad-op"
        | some s0 =>
          let s := s0.lenRepair
          -- an abort before the head was delivered fails RoundTrip; the stream is then forgotten and
          -- whatever the peer still sends on it is dropped
          match s.headErr, s.res with
          | some e, _ => "error:" ++ h2ErrStr (some e)
          | none, none => "error:" ++ h2ErrStr (some .connProto)
          | none, some res =>
            let (data, err, tr) :=
              match res.body with
              | .piped =>
                let (rs, s') := s.runReads reads
                let lastErr := match rs.getLast? with | some (_, e) => e | none => none
                ((rs.map (·.1)).flatten, lastErr, s'.resTrailer)
              | k => ([], (if reads.isEmpty then none else k.readFixed), s.resTrailer)
            "status=" ++ toString res.status ++ " hdr=" ++ kvStr (res.fields.filter keepField) ++
              " err=" ++ h2ErrStr err ++ " data=" ++ encodeHex data ++ " trailer=" ++ kvStr tr
      | _, _ => "bad-op"
    | _, _, _ => "bad-op"
  | _ => "bad-op"

/-! ### multi-exchange calls -/

/-- exchange: `T` | `R;<tag>;<status>;<redirect 0|1>;<fin>;<chunks>` -/
def decodeExch (s : String) : Option Exch :=
  match s.splitOn ";" with
  | ["T"] => some .terr
  | ["R", tag, st, rd, fin, cks] => do
    let tag ← tag.toNat?
    let st ← st.toNat?
    let rd ← (match rd.toList with | [c] => parseBool01 c | _ => none)
    let fin ← parseFin fin
    let cks ← decodeList cks
    pure (.resp tag st rd cks fin)
  | _ => none

def decodeScript (s : String) : Option (List Exch) :=
  if s == "none" then some [] else (s.splitOn "/").mapM decodeExch

def parseDigestAt : String → Option DigestAt
  | "o" => some .off | "c" => some .client | "r" => some .request | _ => none

def parseRetryCond : String → Option RetryCond
  | "d" => some .dflt | "s" => some .status | "e" => some .either | _ => none

/-- `c02call <cfg> <file 0|1> <digest o|c|r> <retries> <cond d|s|e> <script> <ops>` →
`err=<e> resp=<0|1> st=<status> ex=<tag> res=<hex|nil> eres=<hex|nil> out=<hex|nil> left=<n> obs=<o;o;…>` -/
def laneCall : List String → String
  | [cfg, file, dg, n, cond, script, ops] =>
    match parseCfg cfg, (match file.toList with | [c] => parseBool01 c | _ => none), parseDigestAt dg,
          n.toNat?, parseRetryCond cond, decodeScript script, parseOps ops with
    | some base, some file, some dg, some n, some cond, some script, some ops =>
      let ccfg : CCfg := { base := base, file := file, digest := dg, maxRetries := n, cond := cond }
      let (c, out, rest) := call ccfg script
      let c := c.v
      let e0 := match c.r.err with | none => "ok" | some e => rerrStr e
      let (obs, _) := c.r.run ops
      "err=" ++ e0 ++ " resp=" ++ (if c.hasResp then "1" else "0") ++ " st=" ++ toString c.r.status ++
        " ex=" ++ toString c.tag ++ " res=" ++ optStr c.result ++ " eres=" ++ optStr c.error ++
        -- a writer that was never written to and one that received zero bytes look the same
        " out=" ++ (if base.save && !file then encodeHex (match out with | some b => b | none => []) else optStr out) ++
        " left=" ++ toString rest.length ++ " obs=" ++
        (if obs.isEmpty then "-" else ";".intercalate (obs.map fun x => obsStr x.2))
    | _, _, _, _, _, _, _ => "bad-op"
  | _ => "bad-op"


/-! ### round 5: line reader for lines of any length, dataBuffer -/

/-- `c02h1line <cap> <segs> <fin> <nlines>` → `lines=<hex,hex,…> err=<e> rem=<unread bytes>`:
`textprotoReader.ReadLine()` called `nlines` times (stopping at the first error) on a
`bufio.Reader` of size `cap` over the segmented connection — with or without the
response-header dump (same answer by construction of the model). -/
def laneH1Line : List String → String
  | [cap, segs, fin, n] =>
    match cap.toNat?, decodeList segs, parseNetEnd fin, n.toNat? with
    | some cap, some segs, some fin, some n =>
      let total := (segs.map List.length).sum
      let (ls, e, b) := Bufio.readLinesAny n (total + 4) (Bufio.new cap { segs := segs, fin := fin })
      "lines=" ++ encodeList ls ++ " err=" ++ ioErrStr e ++ " rem=" ++ toString b.rem.length
    | _, _, _, _ => "bad-op"
  | _ => "bad-op"

/-- position-dependent test data: the byte at stream offset `i` -/
def patByte (salt i : Nat) : UInt8 := UInt8.ofNat ((i * 131 + (i / 251) * 17 + salt) % 256)

def patBytes (salt off n : Nat) : Bytes := (List.range n).map fun j => patByte salt (off + j)

def hashBytes (bs : Bytes) : Nat := bs.foldl (fun h b => (h * 31 + b.toNat + 1) % 1000000007) 7

/-- ops `w<n>` (write the next `n` bytes of the pattern stream) / `r<k>` (Read with len(p) = k) -/
def parseDOps (salt : Nat) : Nat → List String → Option (List DOp)
  | _, [] => some []
  | off, s :: rest =>
    if s.startsWith "w" then do
      let n ← (s.drop 1).toNat?
      let tl ← parseDOps salt (off + n) rest
      pure (DOp.write (patBytes salt off n) :: tl)
    else if s.startsWith "r" then do
      let k ← (s.drop 1).toNat?
      let tl ← parseDOps salt off rest
      pure (DOp.read k :: tl)
    else none

def dobsStr : DObs → String
  | .wrote => "w"
  | .writeBroken => "w!"
  | .got .errEmpty => "e"
  | .got .broken => "r!"
  | .got (.ok d) => toString d.length ++ ":" ++ toString (hashBytes d)

/-- the run with the buffered size after every op -/
def runSizes (alloc : Int → Bytes) : List DOp → DataBuffer → List String × DataBuffer
  | [], b => ([], b)
  | op :: ops, b =>
    let (o, b1) := b.step alloc op
    let (os, b2) := runSizes alloc ops b1
    ((dobsStr o ++ "/" ++ toString b1.size) :: os, b2)

/-- `c02databuf <expected> <salt> <geo 0|1> <ops>` → `obs=<o/size;…> geo=<chunk lengths|?>`:
the real `dataBuffer` against `Req.C02.DataBuffer` with Go's size-class allocator, op by op
(read results by length and content hash, `Len()` after every op, the chunk list's geometry at
the end when the harness can see it). -/
def laneDataBuf : List String → String
  | [exp, salt, geo, ops] =>
    match exp.toInt?, salt.toNat?, (if ops == "-" then some [] else parseDOps (salt.toNat?.getD 0) 0 (ops.splitOn ",")) with
    | some exp, some _, some ops =>
      let (os, b) := runSizes goAlloc ops (DataBuffer.new exp)
      "obs=" ++ (if os.isEmpty then "-" else ";".intercalate os) ++ " geo=" ++
        (if geo == "1" then encodeNatList (b.chunks.map List.length) else "?")
    | _, _, _ => "bad-op"
  | _ => "bad-op"

/-- a `Response.Trailer` map with its nil-valued keys: `hex(k)=hex(v)|hex(v)` / `hex(k)=nil`,
sorted by key -/
def tmapStr (m : Req.H1.HeaderMap) : String :=
  if m.isEmpty then "-" else
  let ents : List (Bytes × Bytes) := m.map fun (k, vs) =>
    (k, (if vs.isEmpty then "nil" else "|".intercalate (vs.map encodeHex)).toUTF8.toList)
  ",".intercalate ((sortKV ents).map fun (k, v) => encodeHex k ++ "=" ++ toStr v)

/-- `c02trailermap <proto 1|2|3> <announced keys> <got 0|1> <received fields>` → the map:
HTTP/1.1 and HTTP/2 merge the received fields into the announced keys, HTTP/3 replaces the map
when a trailer section arrived (`got`).  Keys are canonicalised as the readers do. -/
def laneTrailerMap : List String → String
  | [proto, decl, got, recv] =>
    match decodeList decl, decodeFields recv with
    | some decl, some recv =>
      let decl := decl.map Req.Ascii.canonicalMIMEHeaderKey
      let recv := recv.map fun (k, v) => (Req.Ascii.canonicalMIMEHeaderKey k, v)
      if proto == "1" || proto == "2" then tmapStr (trailerMapMerged decl recv)
      else if proto == "3" then tmapStr (trailerMapH3 decl (if got == "1" then some recv else none))
      else "bad-op"
    | _, _ => "bad-op"
  | _ => "bad-op"

def lanes : List (String × (List String → String)) := [
  ("c02call", laneCall),
  ("c02ops", laneOps),
  ("c02h2recv", laneH2Recv),
  ("c02h2goaway", laneH2GoAway),
  ("c02h3recv", laneH3Recv),
  ("c02h1msg", laneH1Msg),
  ("c02h1full", laneH1Full),
  ("c02h1body", laneH1Body),
  ("c02h1line", laneH1Line),
  ("c02databuf", laneDataBuf),
  ("c02trailermap", laneTrailerMap)
]

end Req.Driver.L.C02
