import Req.Driver.L.C18Codec
import Req.Client.CloneChain
/-!
Driver lane `c18clone`: a program of client constructions / clones / registrations and the
client a call is made on → what the call consults (`Req.CloneChain.effective`).

```
c18clone <rebuild> <ops> <client>
  rebuild   1 = the code as it is (Clone rebuilds the wrapper chain), 0 = without the rebuild
  ops       ';'-separated ("-" = none):  N | C<c> | W<c>:<id>.<id>… | B<c>:<id> | A<c>:<id> | E<c>:<id> |
            K<c>:<id> | H<c>:<id> | X<c>:<id> | R<c>:<0|1> | D<c>   (D = SetCommonDigestAuth)
            (new client, clone, wrap batch, OnBeforeRequest, OnAfterResponse, SetCommonErrorResult,
             SetResultStateCheckFunc, OnError, SetResponseBodyTransformer, Disable(1)/Enable(0)AutoReadResponse)
→ ws=<ids outermost first> core=<c> before=<ids> after=<ids> cerr=<id> chk=<id> hook=<id> xf=<id> aro=<bit> tr=<c>   | none
```
-/
namespace Req.Driver.L.C18
open Req.CloneChain

def parseIds (s : String) : Option (List Nat) :=
  if s == "" then some [] else (s.splitOn ".").mapM (·.toNat?)

def parseCloneOp (s : String) : Option Op :=
  if s == "N" then some .new
  else
    let k := s.take 1
    match (s.drop 1).toString.splitOn ":" with
    | [c] => if k.toString == "C" then c.toNat?.map .clone
             else if k.toString == "D" then c.toNat?.map .digestAuth else none
    | [c, a] =>
      match c.toNat? with
      | none => none
      | some c =>
        match k.toString with
        | "W" => (parseIds a).map (.wrap c)
        | "B" => a.toNat?.map (.onBefore c)
        | "A" => a.toNat?.map (.onAfter c)
        | "E" => a.toNat?.map (.setCommonErr c)
        | "K" => a.toNat?.map (.setChecker c)
        | "H" => a.toNat?.map (.onError c)
        | "X" => a.toNat?.map (.setXform c)
        | "R" => (parseBool a).map (.autoRead c)
        | _ => none
    | _ => none

def showIds (l : List Nat) : String := if l.isEmpty then "-" else ".".intercalate (l.map toString)

def showOptId : Option Nat → String
  | none => "-"
  | some n => toString n

def showEff : Option Eff → String
  | none => "none"
  | some e =>
    "ws=" ++ showIds e.wrappers ++ " core=" ++ toString e.core ++ " before=" ++ showIds e.before ++
      " after=" ++ showIds e.after ++ " cerr=" ++ showOptId e.commonErr ++ " chk=" ++ showOptId e.checker ++
      " hook=" ++ showOptId e.hook ++ " xf=" ++ showOptId e.xform ++ " aro=" ++ showBool e.autoReadOff ++
      " tr=" ++ toString e.transport

def laneClone : List String → String
  | [rb, ops, c] =>
    match parseBool rb, (if ops == "-" then some [] else (ops.splitOn ";").mapM parseCloneOp), c.toNat? with
    | some rb, some ops, some c => showEff (effective (build rb ops) c)
    | _, _, _ => "bad-op"
  | _ => "bad-op"

end Req.Driver.L.C18
