import Req.Driver.Proto
/-! Driver lanes of C10. -/
namespace Req.Driver.L.C10
open Req.Proto

def lanes : List (String × (List String → String)) := []

end Req.Driver.L.C10
